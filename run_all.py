#!/usr/bin/env python3
"""Run every registered quick (or thorough) check sequentially; print a summary."""
import json, subprocess, sys, time
tier = sys.argv[1] if len(sys.argv) > 1 else 'quick'
man = json.load(open('/verif/MANIFEST.json'))
bad = 0
for c in man['checks']:
    cmd = c['quick_cmd'] if tier == 'quick' else c['thorough_cmd']
    t0 = time.time()
    r = subprocess.run(cmd, shell=True, cwd='/verif', stdout=subprocess.PIPE, stderr=subprocess.STDOUT, text=True)
    lines = [l for l in r.stdout.split('\n') if l.startswith('VIOLATION') or l.startswith('KNOWN-FINDING')]
    print('%s exit=%d %.0fs %s' % (c['property_id'], r.returncode, time.time() - t0, ' | '.join(lines[:3])), flush=True)
    if r.returncode != 0:
        bad += 1
        print(r.stdout[-1500:])
sys.exit(1 if bad else 0)
