#!/bin/bash
# usage: seeded_confirm.sh <ID> <worktree> [demo-subdir]   — confirm a seeded change independently:
#   1. existing test suite passes with the change   2. demo fails with it   3. demo passes without it
# then copy patch/meta/demo to /verif/seeded/<ID>/ (no build output).
set -u
id=$1; wt=$2; demo=${3:-SEEDED/demo}; extra=${4:-}
if [ -f "$wt/$demo/src/main.rs" ]; then cmd="cargo run --offline $extra"; else cmd="cargo test --offline $extra"; fi
export CARGO_NET_OFFLINE=true
cd "$wt" || exit 2
echo "== tests with change"
(timeout 1500 cargo test --workspace --no-fail-fast --offline > /tmp/x/seed_$id.tests.log 2>&1; echo "tests exit $?")
grep -c "test result: ok" /tmp/x/seed_$id.tests.log; grep -E "test result: FAILED|failed;" /tmp/x/seed_$id.tests.log | grep -v " 0 failed" | head -3
echo "== demo with change"
(cd $demo && timeout 900 $cmd > /tmp/x/seed_$id.demo1.log 2>&1; echo "demo(with) exit $?")
echo "== demo without change"
git stash -q
(cd $demo && timeout 900 $cmd > /tmp/x/seed_$id.demo0.log 2>&1; echo "demo(without) exit $?")
git stash pop -q
mkdir -p /verif/seeded/$id
cp SEEDED/patch.diff SEEDED/meta.json /verif/seeded/$id/ 2>/dev/null
rm -rf /verif/seeded/$id/demo; mkdir -p /verif/seeded/$id/demo
(cd $demo && tar cf - --exclude=target --exclude=Cargo.lock . ) | (cd /verif/seeded/$id/demo && tar xf -)
ls /verif/seeded/$id /verif/seeded/$id/demo
