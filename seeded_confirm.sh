#!/bin/bash
# usage: seeded_confirm.sh <ID> <worktree> [demo-subdir]   — confirm a seeded change independently:
#   1. existing test suite passes with the change   2. demo fails with it   3. demo passes without it
# then copy patch/meta/demo to /verif/seeded/<ID>/ (no build output).
set -u
id=$1; wt=$2; demo=${3:-SEEDED/demo}; extra=${4:-}
if [ -f "$wt/SEEDED/demo.sh" ]; then cmd="sh ../demo.sh"; [ -d "$wt/$demo" ] || mkdir -p "$wt/$demo"
elif [ -f "$wt/$demo/run.sh" ]; then cmd="sh ./run.sh"
elif [ -f "$wt/$demo/src/main.rs" ] && [ ! -d "$wt/$demo/tests" ]; then cmd="cargo run --offline $extra"
else cmd="cargo test --offline $extra"; fi
export CARGO_NET_OFFLINE=true
cd "$wt" || exit 2
echo "== tests with change"
(timeout 1500 cargo test --workspace --no-fail-fast --offline > /tmp/x/seed_$id.tests.log 2>&1; echo "tests exit $?")
grep -c "test result: ok" /tmp/x/seed_$id.tests.log; grep -E "test result: FAILED|failed;" /tmp/x/seed_$id.tests.log | grep -v " 0 failed" | head -3
echo "== demo with change"
(cd $demo && timeout 900 $cmd > /tmp/x/seed_$id.demo1.log 2>&1; echo "demo(with) exit $?")
echo "== demo without change"
# (no git stash: the stash list is shared between the worktrees of one repository)
git diff > /tmp/x/seed_$id.worktree.patch
git apply -R /tmp/x/seed_$id.worktree.patch || { echo "cannot revert the change"; exit 2; }
(cd $demo && timeout 900 $cmd > /tmp/x/seed_$id.demo0.log 2>&1; echo "demo(without) exit $?")
git apply /tmp/x/seed_$id.worktree.patch || echo "cannot re-apply the change"

mkdir -p /verif/seeded/$id
cp SEEDED/patch.diff SEEDED/meta.json /verif/seeded/$id/ 2>/dev/null
cp SEEDED/demo.sh /verif/seeded/$id/ 2>/dev/null
rm -rf /verif/seeded/$id/demo; mkdir -p /verif/seeded/$id/demo
(cd $demo && tar cf - --exclude=target --exclude=Cargo.lock . ) | (cd /verif/seeded/$id/demo && tar xf -)
ls /verif/seeded/$id /verif/seeded/$id/demo
