#!/bin/bash
# usage: commit_clean.sh "<message>" — evidence/ must come from a run on the unchanged /repo:
# refuse if /repo is dirty, re-run every quick check, verify every evidence file, then commit.
set -u
cd /verif
if [ -n "$(git -C /repo status --short)" ]; then echo "/repo has uncommitted changes"; exit 2; fi
python3 lib/manifest_gen.py || exit 2
./run_all.py > /tmp/x/commit_run.log 2>&1
if grep -v "exit=0" /tmp/x/commit_run.log | grep -q "exit="; then echo "a check does not pass:"; grep -v "exit=0" /tmp/x/commit_run.log | head; exit 1; fi
python3 - <<'PY' || exit 1
import json,glob,sys
bad=[]
for f in sorted(glob.glob('/verif/evidence/*.json')):
    e=json.load(open(f)); c=e.get('coverage',{})
    if e.get('violations') or c.get('obligations')!=c.get('discharged'):
        bad.append((f,c.get('obligations'),c.get('discharged'),len(e.get('violations',[]))))
print('evidence problems:',bad)
sys.exit(1 if bad else 0)
PY
git add -A && git commit -q -m "$1" && git log --oneline | head -1
