"""Certificate evaluation: kernel (coqc, vm_compute + instantiated theorems) and extracted checker."""
import os, re, glob, concurrent.futures as cf
from common import *
import cap as capmod, engine

HDR = '''From Coq Require Import List NArith String.
From LogosV Require Import Engine.Model Engine.Cert Engine.Build Engine.GraphBuild Engine.ByteClass Engine.Prog Properties.All.
Import ListNotations.
Open Scope N_scope.
'''


def instance_text(c, idx, theorems):
    """Coq source instantiating the generic theorems on one captured definition."""
    dfa = capmod.Dfa(c)
    v, dd, r, st = capmod.coq_hints(c, dfa)
    n = 'i%d' % idx
    t = []
    t.append('(* %s  (%s) *)' % (c.id or c.name, c.file or ''))
    t.append('Definition d_%s := %s.' % (n, capmod.coq_dfa(c)))
    t.append('Definition g_%s := %s.' % (n, capmod.coq_graph(c)))
    t.append('Definition V_%s := %s.' % (n, v))
    t.append('Definition D_%s := %s.' % (n, dd))
    t.append('Definition R_%s := %s.' % (n, r))
    for nm, expr in (('dfa_ok', 'dfa_ok d_%s' % n), ('sim_ok', 'sim_ok d_%s g_%s V_%s D_%s' % (n, n, n, n)),
                     ('exact_ok', 'exact_ok d_%s g_%s V_%s R_%s D_%s' % (n, n, n, n, n)),
                     ('wf_graph', 'wf_graph g_%s' % n)):
        t.append('Lemma %s_%s : %s = true. Proof. vm_compute. reflexivity. Qed.' % (nm, n, expr))
    if any('build_side_@' in th for th in theorems):
        # the certificate-free route: the modelled construction against the captured graph (relation = pairing read backwards)
        V = capmod.compute_pairing(c, dfa)
        back = {}
        for s_, qs_ in V.items():
            for q_ in qs_:
                back.setdefault(q_, []).append(s_)
        t.append('Definition Vs_%s := mk_pairing %s.' % (n, capmod.coq_list('(%d, %s)' % (q_, capmod.coq_list(str(x) for x in ss)) for q_, ss in sorted(back.items()))))
        t.append('Lemma build_side_%s : build_side d_%s = true. Proof. vm_compute. reflexivity. Qed.' % (n, n))
        t.append('Lemma gsimb_%s : gsim_ok (build d_%s) g_%s Vs_%s = true. Proof. vm_compute. reflexivity. Qed.' % (n, n, n, n))
    if any('prog_ok_@' in th for th in theorems) and getattr(c, 'prog_ir', None) is not None:
        import genparse
        t.append('Definition p_%s := %s.' % (n, genparse.coq_prog(c.prog_ir)))
        t.append('Lemma prog_ok_%s : prog_ok g_%s p_%s = true. Proof. vm_compute. reflexivity. Qed.' % (n, n, n))
    for th in theorems:
        if 'prog_ok_@' in th and getattr(c, 'prog_ir', None) is None:
            continue
        t.append(th.replace('@', n))
    return '\n'.join(t) + '\n', st


# instantiated theorem templates ("@" = instance name)
TH_C01 = 'Definition C01_@ := C01_maximal_munch d_@ g_@ V_@ D_@ dfa_ok_@ sim_ok_@.'
TH_C01S = 'Definition C01s_@ := C01_stream_eq_spec d_@ g_@ V_@ R_@ D_@ dfa_ok_@ sim_ok_@ exact_ok_@.'
TH_C02 = 'Definition C02_@ := C02_error_span d_@ g_@ V_@ R_@ D_@ dfa_ok_@ sim_ok_@ exact_ok_@.'
TH_C03 = 'Definition C03_@ := C03_tiling d_@ g_@ V_@ R_@ D_@ dfa_ok_@ sim_ok_@ exact_ok_@.'
TH_C07C = 'Definition C07c_@ := C07_chunked_is_oneshot d_@ g_@ V_@ R_@ D_@ dfa_ok_@ sim_ok_@ exact_ok_@.'
TH_C07E = 'Definition C07e_@ := fun U => C07_emitted_chunked_is_oneshot U g_@ p_@ prog_ok_@ wf_graph_@ d_@ V_@ R_@ D_@ dfa_ok_@ sim_ok_@ exact_ok_@.'
TH_C01B = 'Definition C01b_@ := C01_maximal_munch_built d_@ g_@ Vs_@ build_side_@ gsimb_@.'
TH_C06P = 'Definition C06p_@ := fun U isprefix start rest => C06_emitted_is_ref U g_@ p_@ isprefix start rest prog_ok_@ wf_graph_@.'


def _kernel_shard(args):
    """One coqc run over several instances (start-up of coqc dominates a single small instance).
    On failure the instances of the shard are compiled one by one to name the failing one."""
    k, items, theorems, d = args
    texts = [(i, c, instance_text(c, i, theorems)) for i, c in items]
    p = os.path.join(d, 'Shard_%d.v' % k)
    open(p, 'w').write(HDR + '\n'.join(t[0] for _, _, t in texts))
    r = sh(['timeout', '1200', 'coqc', '-Q', COQ, 'LogosV', p], cwd=d, check=False)
    if r.returncode == 0:
        return [(c.id or c.name, (True, '', t[1])) for i, c, t in texts]
    out = []
    for i, c, t in texts:
        q = os.path.join(d, 'Inst_%d.v' % i)
        open(q, 'w').write(HDR + t[0])
        r1 = sh(['timeout', '600', 'coqc', '-Q', COQ, 'LogosV', q], cwd=d, check=False)
        if r1.returncode == 0:
            out.append((c.id or c.name, (True, '', t[1])))
        else:
            m = re.search(r'Lemma (\w+?)_i\d+', _failing_lemma(r1.stdout, t[0]))
            out.append((c.id or c.name, (False, (m.group(1) if m else 'coqc') + ': ' + r1.stdout[-300:], t[1])))
    return out


def kernel_certs(caps, theorems, tag):
    """Kernel evaluation of the certificates + instantiated theorems, sharded over processes.
    Returns {cap.id: (ok, message, stats)}."""
    import shutil
    d = cache_dir('instances', '%s-%d' % (tag, os.getpid()))
    nsh = max(1, min(NPROC, len(caps)))
    shards = [[] for _ in range(nsh)]
    load = [0] * nsh
    for i, c in sorted(enumerate(caps), key=lambda ic: -len(ic[1].dfa['states'])):
        k = load.index(min(load))
        shards[k].append((i, c)); load[k] += len(c.dfa['states']) + 20
    out = {}
    with cf.ProcessPoolExecutor(max_workers=nsh) as ex:
        for res in ex.map(_kernel_shard, [(k, shards[k], theorems, d) for k in range(nsh) if shards[k]], chunksize=1):
            for key, v in res:
                out[key] = v
    shutil.rmtree(d, ignore_errors=True)
    return out


def _failing_lemma(stdout, txt):
    m = re.search(r'line (\d+)', stdout)
    if not m:
        return ''
    lines = (HDR + txt).split('\n')
    ln = int(m.group(1)) - 1
    return lines[ln] if 0 <= ln < len(lines) else ''


def extracted_certs(drv, caps, construction=None):
    """Run the extracted checker. Returns {id: [dfa_ok, sim_ok, exact_ok, wf_graph, ...]}.
    construction: optional dict filled with {id: [5 side conditions of build_side, gsim_ok (build d) g, wf+closed (build d), gsim_ok (dedup (build d)) g, same size and one-to-one]}
    (the Coq model of Graph::new run on the captured raw DFA and compared with the captured graph)."""
    jobs = []
    for i, c in enumerate(caps):
        jobs.append(engine.problem_header(c, hints=True) + ['C %d' % i] + (['GB %d' % i] if construction is not None else []))
    out = engine.parse_model_output(engine.run_modeldrv(drv, _batch(jobs)))
    if construction is not None:
        for i, c in enumerate(caps):
            construction[c.id or c.name] = out.get('GB:%d' % i)
    return {(c.id or c.name): out.get('C:%d' % i) for i, c in enumerate(caps)}


def _batch(jobs, n=None):
    n = n or NPROC * 2
    if len(jobs) <= n:
        return jobs
    out = [[] for _ in range(n)]
    for i, j in enumerate(jobs):
        out[i % n] += j
    return out


# ------------------------------------------------------------------------------------------------
# python mirror of the certificate, for diagnostics only (names the failing pair / unit)
# ------------------------------------------------------------------------------------------------
def diagnose(c):
    """Returns a list of (kind, s, q, unit) for violated local conditions (empty if none found)."""
    dfa = capmod.Dfa(c)
    g = c.graph
    V = capmod.compute_pairing(c, dfa)
    rank = dfa.live_ranks()
    bad = []
    one = lambda w: w[1] if (w and w[0] == 'one') else None
    for q in list(dfa.states):
        if dfa.win(q) == ('tie',):
            bad.append(('tie', None, q, None))
    if dfa.match(dfa.start) or any(dfa.match(dfa.step(dfa.start, u)) for u in range(257)):
        bad.append(('empty-match', None, dfa.start, None))
    for s, qs in V.items():
        st = g['states'].get(s)
        if st is None:
            bad.append(('missing-state', s, None, None)); continue
        for q in qs:
            if st['early'] is not None:
                for u in range(257):
                    if one(dfa.win(dfa.step(q, u))) != st['early']:
                        bad.append(('early-unsound', s, q, u)); break
            elif st['accept'] is not None and one(dfa.win(q)) != st['accept']:
                bad.append(('accept-dishonest', s, q, None))
            for b in range(256):
                q2 = dfa.step(q, b)
                t = capmod.edge_target(st, b)
                if t is None:
                    if q2 in rank:
                        bad.append(('absent-edge-live', s, q, b))
                    elif dfa.win(q2) is not None and st['early'] is None:
                        bad.append(('absent-edge-unrecorded-match', s, q, b))
                else:
                    st2 = g['states'].get(t)
                    if st2 is None:
                        bad.append(('missing-state', t, None, None))
                    elif st['early'] is None and st2['early'] is None and st2['accept'] is None and dfa.win(q2) is not None:
                        bad.append(('pending-match-lost', s, q, b))
                    elif q2 not in rank and not dfa.match(q2):
                        bad.append(('inexact-edge', s, q, b))
            q2 = dfa.step(q, 256)
            if st['eoi'] is None:
                if dfa.win(q2) is not None and st['early'] is None:
                    bad.append(('absent-eoi-unrecorded-match', s, q, 256))
            else:
                st2 = g['states'].get(st['eoi'])
                if st2 is None or st2['edges'] or st2['eoi'] is not None or st2['early'] is not None:
                    bad.append(('eoi-target-not-terminal', s, q, 256))
                elif st['early'] is None and st2['accept'] is None and dfa.win(q2) is not None:
                    bad.append(('pending-match-lost', s, q, 256))
                elif not dfa.match(q2):
                    bad.append(('inexact-edge', s, q, 256))
            if len(bad) > 50:
                return bad
    return bad


def path_to_pair(c, s, q):
    """Shortest byte string driving (root,start) to the pair (s,q) along present edges."""
    from collections import deque
    dfa = capmod.Dfa(c)
    g = c.graph
    start = (g['root'], dfa.start)
    prev = {start: None}
    dq = deque([start])
    while dq:
        cur = dq.popleft()
        if cur == (s, q):
            out = []
            while prev[cur] is not None:
                cur, b = prev[cur]
                out.append(b)
            return bytes(reversed(out))
        st = g['states'].get(cur[0])
        if not st:
            continue
        for t, rs in st['edges']:
            for lo, hi in rs:
                # every byte of the range: the graph edge may cover bytes on which the DFA goes elsewhere
                for b in range(lo, hi + 1):
                    nx = (t, dfa.step(cur[1], b))
                    if nx not in prev:
                        prev[nx] = (cur, b); dq.append(nx)
    return None


def graph_completion(c, s, limit=64):
    """Shortest byte string leading, in the captured graph, from state s to a state that records a match
    (used to turn a suspicious edge into a complete token when searching for a failing input)."""
    from collections import deque
    g = c.graph
    prev = {s: None}
    dq = deque([s])
    while dq:
        cur = dq.popleft()
        st = g['states'].get(cur)
        if not st:
            continue
        if cur != s and (st['accept'] is not None or st['early'] is not None):
            out = []
            while prev[cur] is not None:
                cur, b = prev[cur]
                out.append(b)
            return bytes(reversed(out))
        for t, rs in st['edges']:
            if t not in prev and rs and len(prev) < 5000:
                prev[t] = (cur, rs[0][0]); dq.append(t)
    return None
