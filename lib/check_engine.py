"""Checks of the engine group (C01 C02 C03 C06 ...): generic theorems + certificates + K2."""
import os, random, re
from common import *
import build, certs, engine, probes, gen, cap as capmod

TRUSTED = [
    'Coq 8.16.1 kernel incl. vm_compute (certificate instances); native_compute not used',
    'translator: hook printer in logos-codegen/src/verif.rs + lib/cap.py coq_terms / lib/engine.py problem_header',
    'extraction (ExtrOcamlBasic only, no Extract Constant/Inductive of our own) + coq/extract/driver.ml for bulk evaluation',
    'correspondence harness tools/harness/main.rs.tmpl and lib/engine.py comparison',
    'modelled as data, not verified: regex-syntax (parser, HIR), regex-automata (NFA, determinisation); rustc',
]


def corpora(tier, res, want_random_graph=True):
    """Graph-level corpora captured in library mode from the current /repo."""
    sd = seed()
    repo_caps = build.capture_files(build.repo_corpus_files(), 'repo')
    res.count('repo_corpus_definitions', len(repo_caps))
    rand_caps = []
    if want_random_graph:
        n = 300 if tier == 'quick' else 4000
        d = cache_dir('gen', 'graph-%d-%d' % (sd, n))
        p = os.path.join(d, 'randgraph.rs')
        if not os.path.exists(p):
            open(p, 'w').write('\n'.join(gen.random_corpus(sd * 7919 + 13, n, prefix='G')))
        rand_caps = build.capture_files([p], 'randgraph-%d-%d' % (sd, n))
        res.count('random_graph_definitions', len(rand_caps))
        # the deterministic cross product of attribute forms (lib/gen.py cross_corpus) rides with the random corpus
        cp = os.path.join(cache_dir('gen', 'cross'), 'cross.rs')
        if not os.path.exists(cp):
            open(cp, 'w').write('\n'.join(gen.cross_corpus()) + '\n')
        cross = build.capture_files([cp], 'cross')
        res.count('cross_product_definitions', len(cross))
        rand_caps = list(rand_caps) + list(cross)
    return repo_caps, rand_caps


def usable(c):
    return c.panic is None and c.accepted and c.graph is not None and c.dfa and c.dfa.get('start') is not None and c.graph['states']


def graph_features(c):
    """Structural features of a captured graph that code generation treats specially."""
    f = set()
    g = c.graph
    for s, st in g['states'].items():
        e, a = st['early'], st['accept']
        ne = len(st['edges'])
        if e is not None and a is not None: f.add('both_early_and_accept')
        if e is not None and a is not None and e != a: f.add('both_with_different_leaves')
        if a is not None and e is None and ne: f.add('late_accept_with_byte_edges')
        if e is not None and ne: f.add('early_with_byte_edges')
        if st['eoi'] is not None: f.add('eoi_edge')
        if st['eoi'] is not None and ne == 0: f.add('eoi_edge_without_byte_edges')
        if st['eoi'] is not None and (e is not None or a is not None): f.add('eoi_edge_from_accepting_state')
        if any(t == s for t, rs in st['edges']):
            f.add('self_loop')
            if e is not None or a is not None: f.add('self_loop_on_accepting_state')
            if ne == 1: f.add('self_loop_only')
        if ne == 2: f.add('state_with_2_edges')
        if ne == 3: f.add('state_with_3_edges')
        if ne > 3: f.add('state_with_more_than_3_edges')
        if any(hi >= 0x80 for t, rs in st['edges'] for lo, hi in rs): f.add('non_ascii_edges')
        if any(t == g['root'] for t, rs in st['edges']) and s != g['root']: f.add('edge_back_to_root')
        if any(len(rs) > 2 for t, rs in st['edges']): f.add('class_with_more_than_2_ranges')
        # how fork.rs renders the conditions of an if-chain state (mirror of ByteClass::impl_with_cmp / count_ops)
        others = [(t, rs) for t, rs in st['edges'] if t != s]
        if 0 < len(others) <= 2:
            for t, rs in others:
                cmps = []
                for lo, hi in sorted(rs):
                    if cmps and lo == cmps[-1][1] + 2:
                        cmps[-1] = (cmps[-1][0], hi, cmps[-1][2] + 1)
                    else:
                        cmps.append((lo, hi, 0))
                ops = sum((1 if lo == hi else (lo > 0) + (hi < 255)) + ex for lo, hi, ex in cmps)
                if ops > 2:
                    f.add('ifchain_condition_by_lut')
                else:
                    mx = max(ex for lo, hi, ex in cmps)
                    if mx == 1: f.add('ifchain_range_with_1_hole')
                    if mx >= 2: f.add('ifchain_range_with_2_holes')
                    if len(cmps) >= 2: f.add('ifchain_condition_with_2_comparisons')
                    if any(lo == 0 and hi == 255 for lo, hi, ex in cmps): f.add('ifchain_full_byte_range')
                    if any(lo == hi for lo, hi, ex in cmps): f.add('ifchain_single_byte')
    return f


def compiled_sets(tier, featuresets, profile='debug'):
    """Build the curated harness and the seed's random harness. Returns list of (label, {fs:(exe,caps)}, enums)."""
    sd = seed()
    cur_dual = [os.path.join(VERIF, 'corpus', 'engine', 'basic.rs')]
    cur_plain = [os.path.join(VERIF, 'corpus', 'engine', 'bytes.rs')]
    for extra in sorted(os.listdir(os.path.join(VERIF, 'corpus', 'engine'))):
        p = os.path.join(VERIF, 'corpus', 'engine', extra)
        if extra.endswith('_dual.rs'): cur_dual.append(p)
        elif extra.endswith('_plain.rs'): cur_plain.append(p)
    out = []
    h, enums = build.build_harness('engine', cur_dual, cur_plain, featuresets, profile)
    out.append(('curated', h, enums))
    # random compiled definitions: generate, keep the accepted ones
    n = 30 if tier == 'quick' else 200
    d = cache_dir('gen', 'compiled-%d-%d' % (sd, n))
    p = os.path.join(d, 'rand_dual.rs')
    if not os.path.exists(p) or not stamp_ok(d, repo_hash()):
        cand = gen.random_corpus(sd * 104729 + 7, n * 2, prefix='C')
        cand = [x for x in cand if 'utf8 = false' not in x]
        tmp = os.path.join(d, 'cand.rs')
        open(tmp, 'w').write('\n'.join(cand))
        caps = build.capture_files([tmp], 'randcand-%d-%d' % (sd, n))
        okn = set(c.name for c in caps if usable(c) and len(c.graph['states']) <= 120)
        # the byte twin must be accepted too
        tmpb = os.path.join(d, 'candb.rs')
        open(tmpb, 'w').write(build.make_twin('\n'.join(cand)))
        capsb = build.capture_files([tmpb], 'randcandb-%d-%d' % (sd, n))
        okb = set(c.name[:-1] for c in capsb if usable(c))
        usable_c = [x for x in cand if re.search(r'pub enum (\w+)', x).group(1) in (okn & okb)]
        # prefer definitions whose graphs show rare structural features (greedy cover), then fill up
        feats = {c.name: graph_features(c) for c in caps if c.name in okn}
        keep = []; covered = {}
        pool = list(usable_c)
        while pool and len(keep) < n:
            def gain(x):
                nm = re.search(r'pub enum (\w+)', x).group(1)
                return sum(1 for ft in feats.get(nm, ()) if covered.get(ft, 0) < 3)
            best = max(pool, key=gain)
            if gain(best) == 0:
                break
            keep.append(best); pool.remove(best)
            for ft in feats.get(re.search(r'pub enum (\w+)', best).group(1), ()):
                covered[ft] = covered.get(ft, 0) + 1
        keep += pool[:n - len(keep)]
        open(p, 'w').write('\n'.join(keep))
        stamp_write(d, repo_hash())
    # byte-mode random definitions (byte-oriented classes), compiled as they are
    pb = os.path.join(d, 'randbytes_plain.rs')
    if not os.path.exists(pb) or not stamp_ok(d, repo_hash() + 'b'):
        rngb = random.Random(sd * 7907 + 3)
        candb = [gen.random_definition(rngb, 'CB%d' % i, forced_accept=True, looks=rngb.random() < 0.4, bytes_mode=True) for i in range(n)]
        tmp = os.path.join(d, 'candbytes.rs')
        open(tmp, 'w').write('\n'.join(candb))
        capsb2 = build.capture_files([tmp], 'randcandbytes-%d-%d' % (sd, n))
        okb2 = set(c.name for c in capsb2 if usable(c) and len(c.graph['states']) <= 120)
        keepb = [x for x in candb if re.search(r'pub enum (\w+)', x).group(1) in okb2][:max(6, n // 3)]
        open(pb, 'w').write('\n'.join(keepb))
    h2, enums2 = build.build_harness('rand-%d-%d' % (sd, n), [p], [pb], featuresets, profile)
    out.append(('random', h2, enums2))
    return out


def make_probes(c, rng, tier):
    budget = 250 if tier == 'quick' else 1500
    ps = probes.graph_probes(c, rng, budget) + probes.random_inputs(c, rng, 30 if tier == 'quick' else 200)
    if c.utf8:
        ps = [p for p in ps if probes.is_utf8(p)]
    seen = set(); out = []
    for p in ps:
        if p not in seen:
            seen.add(p); out.append(p)
    return out


def classify(c, real, mi, mf, spec):
    """Which aspects differ between the real lexer and the model/spec on one full-mode probe.
    Returns a set of tags: 'ok-item' (C01), 'err-end' (C02), 'tiling' (C03), 'slice' (C04/C05/C14), 'panic'."""
    tags = set()
    if real['panic'] is not None:
        tags.add('panic'); return tags
    if real['bad_slice']:
        tags.add('slice')
    ri = real['items']
    # walk items in lockstep while starts agree
    for k in range(max(len(ri), len(mi))):
        if k >= len(ri) or k >= len(mi):
            tags.add('tiling')
            # a token that one side yields and the other does not is also a wrong match decision
            x = ri[k] if k < len(ri) else mi[k]
            if x[0]:
                tags.add('ok-item')
            break
        a, b = ri[k], mi[k]
        if a[2] != b[2]:
            tags.add('tiling')
            if a[0] or b[0]:
                tags.add('ok-item')
            break
        if a[0] != b[0]:
            tags.add('ok-item'); break
        if a[0]:
            if a[3] != b[3] or engine.expected_variant(c, b) != a[1]:
                tags.add('ok-item'); break
        else:
            if a[3] != b[3]:
                tags.add('err-end'); break
    if not tags and mf and mf[0] == 'fin':
        fins = real['finals']
        if not fins or fins[0] != (mf[1], mf[2]) or len(set(fins)) != 1:
            tags.add('tiling')
    if mf and mf[0] != 'fin':
        tags.add('tiling')
    return tags


def run_k2(res, sets, featuresets, tier, modes=(0,), want_tags=None, drv=None):
    """Run compiled lexers and the model on generated probes.  Reports mismatches whose class is in
    want_tags.  Returns statistics."""
    drv = drv or build.extraction_build()
    rng = random.Random(seed())
    total = 0; mism = []
    states_cov = 0
    for label, h, enums in sets:
        fs0 = featuresets[0]
        exe0, caps0 = h[fs0]
        allp = []; jobs = []; meta = {}
        for en in sorted(caps0):
            c = caps0[en]
            if not usable(c):
                continue
            if None in engine.behaviour_codes(c):
                continue
            ps = make_probes(c, rng, tier)
            states_cov += len(c.graph['states'])
            lines = engine.problem_header(c)
            for i, p in enumerate(ps):
                for mode in modes:
                    pid = '%s.%d.%d' % (en, i, mode)
                    allp.append((pid, en, mode, p)); meta[pid] = (en, mode, p)
                    lines.append('P %s %d %d %s' % (pid, mode, len(p), ' '.join(map(str, p))))
            jobs.append(lines)
        model = engine.parse_model_output(engine.run_modeldrv(drv, jobs))
        for fs in featuresets:
            exe, caps = h[fs]
            real = engine.run_real(exe, allp)
            for pid, en, mode, p in allp:
                total += 1
                c = caps0[en]
                (mi, mf), spec = model[pid]
                r = real.get(pid)
                if r is None:
                    mism.append((label, fs, en, mode, p, {'panic'}, 'no output', None)); continue
                tags = classify(c, r, mi, mf, spec)
                if spec is not None:
                    tags |= set('spec-' + t for t in classify(c, r, spec[0], spec[1], None))
                if tags:
                    mism.append((label, fs, en, mode, p, tags, r['raw'][:400], (mi, mf, spec)))
            # the graph dumped by this feature set's derive must be the graph the model ran on
            for en in caps0:
                if en in caps and (caps[en].graph != caps0[en].graph or caps[en].dfa != caps0[en].dfa):
                    mism.append((label, fs, en, 0, b'', {'graph-differs'}, 'captured graph differs between feature sets', None))
    res.count('k2_probe_runs', total)
    res.count('k2_graph_states_driven', states_cov)
    cov = {}
    for label, h, enums in sets:
        for en, c in h[featuresets[0]][1].items():
            if usable(c):
                for ft in graph_features(c):
                    cov[ft] = cov.get(ft, 0) + 1
    res.cov['compiled_definitions_by_graph_feature'] = dict(sorted(cov.items()))
    return mism


def enum_source(enums, en):
    mod, c = enums[en]
    return c.source


def real_attempts(r):
    """Split the recorded events of a traced run into attempts [(start, [(off,size),...])], up to and
    including the call that first returned None."""
    out = []
    raw = r['raw']
    nones = 0
    for part in raw.split(';'):
        part = re.sub(r'\{[^{}]*\}$', '', part)
        m = re.match(r'(.*)\[(.*)\]$', part)
        if not m:
            continue
        for ev in m[2].split():
            if ev[0] in 'nt':
                out.append((int(ev[1:]), []))
            elif ev[0] == 'r' and out:
                o, sz, ln = ev[1:].split('.')
                out[-1][1].append((int(o), int(sz)))
        if part.startswith('F:'):
            break
    return out


def parse_model_trace(line):
    """'T id same | start: o sz o sz | ...' -> (same, [(start, [(o,sz)...])])"""
    m = re.match(r'T (\S+) (same|OPTDIFF[^|]*) \| ?(.*)$', line)
    parts = []
    if m[3].strip():
        for p in m[3].split(' | '):
            st, _, rest = p.partition(':')
            ns = [int(x) for x in rest.split()]
            parts.append((int(st), list(zip(ns[0::2], ns[1::2]))))
    return m[1], m[2] == 'same', parts


def run_k3(res, sets, featuresets, tier, modes=(0, 1), drv=None):
    """Read traces: compiled lexers (hook H3) vs attempt_opt 8. Returns list of mismatches and stats."""
    drv = drv or build.extraction_build()
    rng = random.Random(seed() + 17)
    mism = []; total = 0; nreads = 0; maxratio = 0.0
    for label, h, enums in sets:
        exe0, caps0 = h[featuresets[0]]
        allp = []; jobs = []
        for en in sorted(caps0):
            c = caps0[en]
            if not usable(c) or None in engine.behaviour_codes(c):
                continue
            ps = make_probes(c, rng, tier)
            lines = engine.problem_header(c, with_dfa=False)
            for i, p in enumerate(ps):
                for mode in modes:
                    pid = '%s.%d.%d' % (en, i, mode)
                    allp.append((pid, en, mode | 2, p))
                    lines.append('T %s %d %d %s' % (pid, mode, len(p), ' '.join(map(str, p))))
            jobs.append(lines)
        model = {}
        for ln in engine.run_modeldrv(drv, jobs):
            if ln.startswith('T '):
                pid, same, parts = parse_model_trace(ln)
                model[pid] = (same, parts)
        for fs in featuresets:
            exe, caps = h[fs]
            real = engine.run_real(exe, allp)
            for pid, en, mode, p in allp:
                total += 1
                r = real.get(pid)
                same, parts = model[pid]
                if r is None or r['panic'] is not None:
                    mism.append((label, fs, en, mode, p, {'panic'}, r['raw'][:300] if r else 'no output', None)); continue
                ra = real_attempts(r)
                tags = set()
                if not same:
                    tags.add('opt-differs-from-ref')
                if ra != parts:
                    tags.add('trace')
                # direct judgement of the property on the real trace
                for st, reads in ra:
                    nreads += len(reads)
                    offs = [o for o, sz in reads]
                    if any(b < a for a, b in zip(offs, offs[1:])):
                        tags.add('real-nonmonotone')
                    if reads:
                        examined = max(min(o + sz, len(p)) for o, sz in reads) - st
                        examined = max(examined, 0)
                        if len(reads) > 3 * examined + 4:
                            tags.add('real-superlinear')
                        maxratio = max(maxratio, len(reads) / (examined + 1))
                    if reads and reads[0][0] != st:
                        tags.add('real-restart-not-at-item-end')
                if tags:
                    mism.append((label, fs, en, mode, p, tags, r['raw'][:600], parts))
    res.count('k3_traced_runs', total)
    res.count('k3_reads_observed', nreads)
    res.cov['k3_max_reads_per_examined_byte_plus_1'] = round(maxratio, 3)
    return mism


def split_points(c, p):
    ks = list(range(len(p) + 1))
    if c.utf8:
        ks = [k for k in ks if probes.is_utf8(p[:k])]
    return ks


def run_k2_partial(res, sets, featuresets, tier, drv=None):
    """C07: the real partial lexer on every prefix S[..k] against (a) the real one-shot lexer on S
    (the property's own oracle) and (b) the model's partial run (correspondence)."""
    drv = drv or build.extraction_build()
    rng = random.Random(seed() + 7)
    viol = []; total = 0; prefixes_with_items = 0; nones_mid = 0
    maxlen = 16 if tier == 'quick' else 28
    per_def = 60 if tier == 'quick' else 400
    for label, h, enums in sets:
        exe0, caps0 = h[featuresets[0]]
        runs = []; jobs = []; meta = []
        for en in sorted(caps0):
            c = caps0[en]
            if not usable(c) or None in engine.behaviour_codes(c):
                continue
            if 25 in engine.behaviour_codes(c) or 26 in engine.behaviour_codes(c):
                # the corpus callback decide_bump looks at remainder(): its decision is not a function of the matched
                # text alone, so a prefix and the whole input may legitimately differ (outside the property's premise)
                continue
            ps = [p for p in make_probes(c, rng, tier) if 0 < len(p) <= maxlen]
            rng.shuffle(ps)
            ps = ps[:per_def]
            lines = engine.problem_header(c, with_dfa=False)
            for i, p in enumerate(ps):
                fid = '%s.%d.F' % (en, i)
                runs.append((fid, en, 0, p))
                for k in split_points(c, p):
                    pid = '%s.%d.%d' % (en, i, k)
                    runs.append((pid, en, 1, p[:k]))
                    lines.append('P %s 1 %d %s' % (pid, k, ' '.join(map(str, p[:k]))))
                    meta.append((en, i, k, p, pid, fid))
            jobs.append(lines)
        model = engine.parse_model_output(engine.run_modeldrv(drv, jobs))
        for fs in featuresets:
            exe, caps = h[fs]
            real = engine.run_real(exe, runs)
            for en, i, k, p, pid, fid in meta:
                total += 1
                c = caps0[en]
                rp, rf = real.get(pid), real.get(fid)
                if rp is None or rf is None or rp['panic'] is not None or rf['panic'] is not None:
                    viol.append((label, fs, en, p, k, 'panic', (rp or {}).get('raw', '')[:300], True)); continue
                pi, fi = rp['items'], rf['items']
                if pi:
                    prefixes_with_items += 1
                if k < len(p):
                    nones_mid += 1
                # (a) property's own oracle: committed items are a leading run of the one-shot items
                if pi != fi[:len(pi)]:
                    viol.append((label, fs, en, p, k, 'partial lexer committed %r but one-shot lexing yields %r' % (pi, fi[:len(pi) + 1]), rp['raw'][:300], True)); continue
                fin = rp['finals'][0] if rp['finals'] else None
                if fin is None or fin[0] != fin[1]:
                    viol.append((label, fs, en, p, k, 'span at None is not empty: %r' % (fin,), rp['raw'][:300], True)); continue
                nxt = fi[len(pi)][2] if len(fi) > len(pi) else len(p)
                prev = pi[-1][3] if pi else 0
                if not (prev <= fin[0] <= nxt):
                    viol.append((label, fs, en, p, k, 'None reported at %d, outside %d..%d' % (fin[0], prev, nxt), rp['raw'][:300], True)); continue
                # (b) correspondence with the model's partial run
                (mi, mf), _ = model[pid]
                d = engine.compare(c, rp, mi, mf)
                if d:
                    viol.append((label, fs, en, p, k, 'model: ' + d, rp['raw'][:300], False))
    res.count('k2_partial_runs', total)
    res.count('k2_partial_prefixes_with_committed_items', prefixes_with_items)
    res.count('k2_partial_cuts_before_end', nones_mid)
    return viol
