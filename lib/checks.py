"""One function per property: check_<ID>(tier) -> exit code."""
import os, json, random, subprocess, hashlib, re
from common import *
import build, certs, engine, probes, gen, cap as capmod
import check_engine as ce

CERT_NAMES = ['dfa_ok', 'sim_ok', 'exact_ok', 'wf_graph', 'prompt_ok', 'utf8_ok', 'utf8_strict_ok', 'prompt_strict_ok']


def framework(res, theorems):
    """Coq build + hygiene + Print Assumptions audit. Raises on failure (broken check, not a violation)."""
    ok, msg = build.coq_build()
    if not ok:
        raise RuntimeError('Coq development does not build: ' + msg)
    audit, err = build.coq_audit(theorems)
    if audit is None:
        raise RuntimeError('audit failed: ' + err)
    for t in theorems:
        if audit.get(t) != 'closed':
            raise RuntimeError('theorem %s depends on axioms: %r' % (t, audit.get(t)))
        res.oblige(True)
    res.cov['generic_theorems'] = theorems
    res.cov['print_assumptions'] = {t: 'Closed under the global context' for t in theorems}
    res.trusted += ce.TRUSTED


def attach_prog_ir(caps):
    """Parse the code emitted (tail-call generator) for the given captures and attach the program IR (kernel instances of prog_ok)."""
    import genparse
    byfile = {}
    for c in caps:
        if c.file:
            byfile.setdefault(c.file, []).append(c)
    for f, cs in byfile.items():
        try:
            # ids are fNNNeMM_Name; the file index differs between captures, the enum index within the file does not
            emitted = {(e.id or e.name).split('e', 1)[-1] if e.id else e.name: e
                       for e in build.capture_files([f], 'kernel-emit-' + hashlib.sha1(f.encode()).hexdigest()[:10], gen=True)}
        except Exception:
            continue
        for c in cs:
            e = emitted.get((c.id or '').split('e', 1)[-1]) if (c.id and re.match(r'f\d+e\d+_', c.id)) else None
            c.prog_ir = None
            if e is not None and e.name != c.name:
                e = None
            if e is not None and os.path.exists(e.gen_path):
                try:
                    c.prog_ir = genparse.parse_generated(open(e.gen_path).read())
                except genparse.ShapeError:
                    c.prog_ir = None


def cert_stage(res, tier, need, kernel_theorems, prop, extra_caps=()):
    """Evaluate the certificates `need` (names) on every accepted definition of the corpora.
    Returns list of failing (cap, cert name)."""
    drv = build.extraction_build()
    repo_caps, rand_caps = ce.corpora(tier, res)
    allcaps = [c for c in list(repo_caps) + list(rand_caps) + list(extra_caps) if ce.usable(c)]
    res.count('certificate_definitions', len(allcaps))
    res.count('certificate_graph_states', sum(len(c.graph['states']) for c in allcaps))
    res.count('certificate_dfa_states', sum(len(c.dfa['states']) for c in allcaps))
    construction = {} if prop == 'C01' else None
    ext = certs.extracted_certs(drv, allcaps, construction)
    if construction is not None:
        # the modelled construction (Engine/GraphBuild.v, theorem C01_maximal_munch_built) against the real Graph::new.
        # A second, certificate-free route to the same conclusion: a disagreement is reported in the evidence and the log;
        # the property is decided by the certificates below (a harmless rewrite of Graph::new must not raise an alarm).
        side = sum(1 for v in construction.values() if v and all(v[:5]))
        sim = sum(1 for v in construction.values() if v and v[5])
        full = sum(1 for v in construction.values() if v and len(v) >= 9 and v[6] and v[7])
        iso = sum(1 for v in construction.values() if v and len(v) >= 9 and v[7] and v[8])
        res.cov['graph_construction_model'] = dict(definitions=len(construction), side_conditions_hold=side, bisimilar_to_captured_graph=sim,
                                                   with_dedup_loop_bisimilar=full, with_dedup_loop_same_size_one_to_one=iso,
                                                   theorem='C01_maximal_munch_built / C01_full_construction_correct',
                                                   checker='extracted build_checked / dedup / gsim_ok')
        for k, v in construction.items():
            if not (v and all(v)):
                log('construction model: %s side=%s gsim=%s dedup=%s' % (k, v[:5] if v else None, v[5] if v else None, v[6:] if v else None))
    failing = []
    idx = [CERT_NAMES.index(n) for n in need]
    for c in allcaps:
        r = ext.get(c.id or c.name)
        for i in idx:
            if CERT_NAMES[i] == 'prompt_strict_ok' and any('(K ' in (l.get('hir') or '') for l in c.leaves):
                continue      # the strict form is required of definitions without look-around assertions only
            ok = bool(r and r[i])
            res.oblige(ok)
            if not ok:
                failing.append((c, CERT_NAMES[i]))
    # kernel evaluation + instantiated theorems for the repo corpus and the curated corpus
    kcaps = [c for c in list(repo_caps) + list(extra_caps) if ce.usable(c)]
    if tier == 'quick':
        # every curated / compiled definition, and a seed-rotated sample of the repo corpus (the extracted
        # checker above has already covered every definition)
        rk = random.Random(seed() * 977 + 5)
        rc = [c for c in repo_caps if ce.usable(c) and len(c.dfa['states']) <= 400]
        rk.shuffle(rc)
        kcaps = [c for c in extra_caps if ce.usable(c) and len(c.dfa['states']) <= 400] + rc[:60]
    if any('prog_ok_@' in th for th in kernel_theorems):
        attach_prog_ir(kcaps)
    kres = certs.kernel_certs(kcaps, kernel_theorems, prop)
    for c in kcaps:
        ok, msg, st = kres[c.id or c.name]
        res.oblige(ok)
        if not ok and not any(fc is c for fc, _ in failing):
            failing.append((c, 'kernel:' + msg[:200]))
    res.count('kernel_instances', len(kcaps))
    if kcaps:
        res.sample(dict(kind='kernel certificate instance', definition=kcaps[0].id, file=kcaps[0].file,
                        theorem_instantiated=kernel_theorems[0].replace('@', 'i0') if kernel_theorems else None))
    return failing, drv


def search_failing_input(c, drv, res, judge_tags):
    """A certificate failed for definition c: look for an input on which the graph executor (the
    semantics of the generated code, validated against the compiled lexers by K2) departs from the
    DFA-level specification."""
    diag = certs.diagnose(c)
    rng = random.Random(seed())
    cands = []
    # pairs whose DFA side is already dead (the graph follows an edge the DFA does not have): the path into the
    # pair, completed to a token in the graph, is the candidate.  They flood the list, so take each pair once.
    seen_dead = set()
    for kind, s, q, u in diag:
        if s is None or q != 0 or s in seen_dead or len(seen_dead) >= 6:
            continue
        seen_dead.add(s)
        p = certs.path_to_pair(c, s, q)
        if p is None:
            continue
        comp = certs.graph_completion(c, s)
        cands += [p, p + b' ']
        if comp is not None:
            cands += [p + comp, p + comp + b' ', p + comp + comp[-1:]]
    live_diag = [x for x in diag if x[2] != 0]
    for kind, s, q, u in live_diag[:12]:
        if s is None or q is None:
            continue
        p = certs.path_to_pair(c, s, q)
        if p is None:
            continue
        tails = [b'']
        if u is not None and u < 256:
            tails = [bytes([u]), bytes([u]) * 2, bytes([u]) + b'a', bytes([u]) + b' ']
            st = c.graph['states'].get(s)
            t = capmod.edge_target(st, u) if st else None
            if t is not None:
                comp = certs.graph_completion(c, t)
                if comp is not None:
                    tails += [bytes([u]) + comp, bytes([u]) + comp + b' ', bytes([u]) + comp + comp[-1:]]
        for t in tails:
            cands.append(p + t)
    cands += ce.make_probes(c, rng, 'quick')
    if c.utf8:
        cands = [x for x in cands if probes.is_utf8(x)]
    lines = engine.problem_header(c)
    for i, p in enumerate(cands):
        lines.append('P x%d 0 %d %s' % (i, len(p), ' '.join(map(str, p))))
    out = engine.parse_model_output(engine.run_modeldrv(drv, [lines]))
    for i, p in enumerate(cands):
        (mi, mf), spec = out['x%d' % i]
        if spec is None:
            continue
        fake = dict(panic=None, bad_slice=False, finals=[(mf[1], mf[2])] * 3 if mf[0] == 'fin' else [],
                    items=[(a[0], engine.leaf_variant(c, a[1]) if a[0] else '', a[2], a[3]) for a in mi])
        tags = ce.classify(c, fake, spec[0], spec[1], None)
        if tags & judge_tags:
            return p, dict(expected_items=spec[0], expected_final=spec[1], graph_executor_items=mi, graph_executor_final=mf), diag
    return None, None, diag


def report_cert_failures(res, failing, drv, judge_tags, known_class=None):
    for c, name in failing[:10]:
        inp, detail, diag = search_failing_input(c, drv, res, judge_tags)
        replay = dict(definition=c.source, definition_id=c.id, file=c.file, certificate=name,
                      failing_conditions=[dict(kind=k, graph_state=s, dfa_state=q, unit=u) for k, s, q, u in diag[:8]])
        if inp is not None:
            replay.update(input_hex=inp.hex(), input=repr(inp), **detail)
            res.violation(None, 'certificate %s fails for %s; input %r: generated-code semantics departs from the DFA-level specification' % (name, c.id, inp), replay)
        else:
            replay.update(no_longer_checks='certificate %s (hypothesis of the generic theorem) for %s' % (name, c.id))
            res.violation(None, 'certificate %s fails for %s' % (name, c.id), replay, found_input=False)


def report_k2(res, mism, sets, want, prop):
    """mism entries whose tags intersect `want` are violations of this property."""
    enums_by_label = {label: enums for label, h, enums in sets}
    n = 0
    for label, fs, en, mode, p, tags, raw, model in mism:
        hit = tags & want
        if not hit:
            continue
        n += 1
        if n > 6:
            continue
        spec_hit = any(t.startswith('spec-') for t in hit) or 'panic' in hit or 'slice' in hit
        src = ce.enum_source(enums_by_label[label], en)
        replay = dict(definition=src, enum=en, featureset=fs, partial=bool(mode & 1), input_hex=p.hex(), input=repr(p),
                      observed=raw, differs=sorted(tags),
                      model_items=model[0] if model else None, model_final=model[1] if model else None,
                      spec=model[2] if model else None)
        if spec_hit:
            res.violation(None, '%s/%s on %r: compiled lexer departs from the specification (%s)' % (en, fs, p, ','.join(sorted(hit))), replay)
        else:
            replay['no_longer_checks'] = 'correspondence K2 (compiled lexer vs graph executor model) for %s' % en
            res.violation(None, '%s/%s on %r: compiled lexer departs from the executor model (%s)' % (en, fs, p, ','.join(sorted(hit))), replay, found_input=False)
    return n


def curated_caps(sets, fs):
    out = []
    for label, h, enums in sets:
        exe, caps = h[fs]
        for en, c in caps.items():
            mod, c0 = enums[en]
            c.id = c.id or ('%s:%s' % (label, en)); c.source = c0.source; c.file = c0.file
            out.append(c)
    return out


# ------------------------------------------------------------------------------------------------
def engine_property(prop, tier, theorems, need, kernel_theorems, fss, modes, want, judge, rule, assumptions, trace=False):
    import time as _t
    res = Result(prop, tier)
    t0 = _t.time(); framework(res, theorems); log('stage framework %.1fs' % (_t.time() - t0))
    t0 = _t.time(); sets = ce.compiled_sets(tier, fss); log('stage harness %.1fs' % (_t.time() - t0))
    t0 = _t.time(); failing, drv = cert_stage(res, tier, need, kernel_theorems, prop, curated_caps(sets, fss[0])); log('stage certificates %.1fs' % (_t.time() - t0))
    report_cert_failures(res, failing, drv, judge)
    # the emitted code of both generators, parsed and checked against the graph (K12): report the inputs that fall in this property's class
    emit_tags = {'C01': {'ok-item'}, 'C02': {'err-end'}, 'C03': {'tiling'}, 'C07': {'partial'}}.get(prop)
    if emit_tags:
        t0 = _t.time(); emitted_stage(res, tier, prop, emit_tags); log('stage emitted %.1fs' % (_t.time() - t0))
    if prop == 'C03':
        c03_empty_match_stage(res, tier)
        boundary_grid_stage(res, tier)
    if prop == 'C02':
        error_value_stage(res, tier, prop)
    if prop == 'C01':
        t0 = _t.time()
        repo_caps, rand_caps = ce.corpora(tier, res)
        k11_byteclass(res, tier, [c for c in list(repo_caps) + list(rand_caps) if ce.usable(c)])
        log('stage k11 %.1fs' % (_t.time() - t0))
        t0 = _t.time()
        k4_leaf_languages(res, tier, drv, [c for c in list(repo_caps) + list(rand_caps) if ce.usable(c)])
        log('stage k4 %.1fs' % (_t.time() - t0))
    t0 = _t.time(); mism = ce.run_k2(res, sets, fss, tier, modes=modes, drv=drv); log('stage k2 %.1fs' % (_t.time() - t0))
    nm = report_k2(res, mism, sets, want, prop)
    res.oblige(nm == 0)
    res.cov['disagreements_checked'] = len(mism)
    res.cov['rule'] = rule
    res.assumptions += assumptions
    return res.finish('./vcheck %s --tier %s' % (prop, tier))


ASSUME_ENGINE = ['regex-level reading of a pattern language relies on regex-automata determinisation (captured DFA is modelled as data)',
                 'K2 ties the emitted Rust + runtime to the executor model on the compiled (curated + random) corpus only']
RULE_ENGINE = ('every accepted definition of the repo / curated / seeded random corpora: certificates %s evaluated over all 256 bytes + EOI '
               'from every paired (graph state, DFA state); K2: probes driving every graph state, every byte class boundary, EOI in every state, '
               'self-loop run lengths 0..17 and around multiples of 8, random token-biased inputs with noise; compared: %s')


def emitted_stage(res, tier, prop, judge_tags, report_shape=False, leaf_bodies=False, report_rejected=None, only_groups=None):
    """Translator tie K12: the token text emitted by both code generators for every usable definition of the
    corpora is parsed (lib/genparse.py, strict template match) into the program IR of Engine/Prog.v and the
    extracted checker prog_ok relates it to the captured graph (theorems C06_emitted_is_model / _is_ref).
    When a program is not accepted, an input is searched on which the emitted program departs from the reference
    semantics of its graph; it is reported when its class is in judge_tags (any class when judge_tags is None).
    A definition whose code no longer has the modelled shape is reported when report_shape is set."""
    import genparse
    if report_rejected is None:
        report_rejected = report_shape
    drv = build.extraction_build()
    sd = seed()
    n = 300 if tier == 'quick' else 4000
    randp = os.path.join(cache_dir('gen', 'graph-%d-%d' % (sd, n)), 'randgraph.rs')
    if not os.path.exists(randp):
        ce.corpora(tier, res)
    eng = os.path.join(VERIF, 'corpus', 'engine')
    groups = [('repo', build.repo_corpus_files()), ('randgraph-%d-%d' % (sd, n), [randp]),
              ('curated-engine', [os.path.join(eng, f) for f in sorted(os.listdir(eng)) if f.endswith('.rs')])]
    if only_groups is not None:
        groups = only_groups
    rng = random.Random(sd * 31 + 5)
    nshape = 0; nbad = 0; nok = 0; nrep = 0
    shapes = {}; leafshapes = {}
    for sm in (False, True):
        gname = 'sm' if sm else 'tc'
        jobs = []; idx = []
        for name, files in groups:
            for c in build.capture_files(files, name + '-emit', sm=sm, gen=True):
                if not ce.usable(c) or not os.path.exists(c.gen_path):
                    continue
                try:
                    ir = genparse.parse_generated(open(c.gen_path).read())
                    if ir['codegen'] != gname:
                        raise genparse.ShapeError('expected the %s rendering, found %s' % (gname, ir['codegen']))
                    if leaf_bodies:
                        try:
                            check_leaf_bodies(c, ir)
                        except genparse.ShapeError as e:
                            leafshapes.setdefault(str(e)[:160], []).append(c)
                except genparse.ShapeError as e:
                    nshape += 1
                    shapes.setdefault(str(e)[:160], []).append(c)
                    continue
                jobs.append(engine.problem_header(c, with_dfa=False) + genparse.prog_records(ir) + ['PG %d' % len(idx)])
                idx.append((c, ir))
        out = engine.run_modeldrv(drv, certs._batch(jobs))
        verdict = {}
        for ln in out:
            if ln.startswith('PG '):
                q = ln.split(); verdict[int(q[1])] = (q[2] == '1')
        for k, (c, ir) in enumerate(idx):
            ok = verdict.get(k, False)
            res.oblige(ok)
            if ok:
                nok += 1; continue
            nbad += 1
            if nbad > 12:
                continue
            # search: emitted program vs reference semantics of its graph
            found = None
            if None not in engine.behaviour_codes(c):
                cands = ce.make_probes(c, rng, 'quick')
                if c.utf8:
                    cands = [x for x in cands if probes.is_utf8(x)]
                lines = engine.problem_header(c, with_dfa=False) + genparse.prog_records(ir)
                for i, w in enumerate(cands):
                    for mode in (0, 1):
                        lines.append('PP x%d_%d %d %d %s' % (i, mode, mode, len(w), ' '.join(map(str, w))))
                po = engine.parse_model_output(engine.run_modeldrv(drv, [lines]))
                for i, w in enumerate(cands):
                    for mode in (0, 1):
                        r = po.get('x%d_%d' % (i, mode))
                        if not r or r[1] is None:
                            continue
                        (mi, mf), spec = r
                        if (list(mi), mf) == (list(spec[0]), spec[1]):
                            continue
                        fake = dict(panic=None, bad_slice=False, finals=[(mf[1], mf[2])] * 3 if mf[0] == 'fin' else [],
                                    items=[(a[0], engine.leaf_variant(c, a[1]) if a[0] and a[1] is not None else '', a[2], a[3]) for a in mi])
                        tags = ce.classify(c, fake, spec[0], spec[1], None) if mode == 0 else {'partial'}
                        if mode == 1 or tags:
                            found = (w, mode, tags, mi, mf, spec); break
                    if found:
                        break
            if found:
                w, mode, tags, mi, mf, spec = found
                if judge_tags is None or (tags & judge_tags):
                    nrep += 1
                    res.violation(None, '%s (%s generator): emitted code departs from the semantics of its graph on %r%s (%s)' %
                                  (c.id, gname, w, ' in partial mode' if mode else '', ','.join(sorted(tags))),
                                  dict(definition=c.source, definition_id=c.id, generator=gname, partial=bool(mode), input_hex=w.hex(), input=repr(w),
                                       emitted_program_items=mi, emitted_program_final=mf, graph_items=spec[0], graph_final=spec[1], differs=sorted(tags)))
            elif report_rejected:
                nrep += 1
                res.violation(None, '%s (%s generator): the emitted program is not the program of its graph (prog_ok fails)' % (c.id, gname),
                              dict(definition=c.source, definition_id=c.id, generator=gname,
                                   no_longer_checks='certificate prog_ok (hypothesis of C06_emitted_is_model) for %s' % c.id), found_input=False)
    for msg, cs in list(shapes.items())[:4]:
        res.oblige(False)
        log('emitted code of %d definitions has no modelled shape: %s' % (len(cs), msg))
        if report_shape:
            c = cs[0]
            res.violation(None, 'the code emitted for %s (and %d more) no longer has the shape Engine/Prog.v models: %s' % (c.id, len(cs) - 1, msg),
                          dict(definition=c.source, definition_id=c.id, shape_error=msg,
                               no_longer_checks='translator lib/genparse.py (emitted code -> Engine/Prog.v program) for %d definitions' % len(cs)), found_input=False)
    if leaf_bodies:
        res.oblige(not leafshapes)
        for msg, cs in list(leafshapes.items())[:4]:
            c = cs[0]
            res.violation(None, 'the callback dispatch emitted for %s (and %d more) is not the one of its leaf: %s' % (c.id, len(cs) - 1, msg),
                          dict(definition=c.source, definition_id=c.id, shape_error=msg,
                               no_longer_checks='translator lib/genparse.py classify_leaf_body / check_leaf_bodies (generate_callback templates) for %d definitions' % len(cs)), found_input=False)
    res.trusted += ['translator lib/genparse.py: strict token-level match of the emitted code against the templates of generator/{mod,fork,fast_loop,leaf}.rs; '
                    'the meaning given to each template is Engine/Prog.v walk_prog (fast loop macro with unroll 8, setup, fork, end-of-input block, _take_action, _get_action error arm)']
    res.cov['emitted_programs'] = dict(accepted_by_prog_ok=nok, rejected=nbad, unparsed=nshape, generators=['tc', 'sm'],
                                       corpora=[g[0] for g in groups], theorem='C06_emitted_is_model / C06_emitted_is_ref')
    return nbad, nshape


def check_leaf_bodies(c, ir):
    """generate_callback: the body emitted for each leaf against the leaf's kind and callback (captured by the hook)."""
    import genparse
    if len(ir['leaves']) != len(c.leaves):
        raise genparse.ShapeError('%d leaf bodies for %d leaves' % (len(ir['leaves']), len(c.leaves)))
    for l, body in zip(c.leaves, ir['leaves']):
        shape, cb = genparse.classify_leaf_body(body)
        label = c.leafcb.get(l['idx'], '')
        kind = l['kind'].split(':')[0]
        want = {'skip': 'skip', 'unit': 'unit', 'value': 'value'}[kind] + ('_cb' if label else '')
        if shape != want:
            raise genparse.ShapeError('leaf %d (%s, callback %r) is compiled as %s' % (l['idx'], l['kind'], label, shape))
        if label and label != '<inline>':
            if cb != 'label:' + label:
                raise genparse.ShapeError('leaf %d calls %s, its callback is %s' % (l['idx'], cb, label))
        if label == '<inline>' and not (cb or '').startswith('inline:'):
            raise genparse.ShapeError('leaf %d has an inline callback but the body calls %s' % (l['idx'], cb))


def bytes_to_ranges(bs):
    out = []
    for b in sorted(set(bs)):
        if out and out[-1][1] + 1 == b:
            out[-1][1] = b
        else:
            out.append([b, b])
    return [tuple(r) for r in out]


def k11_byteclass(res, tier, caps):
    """Correspondence K11: ByteClass::merge / impl_with_cmp / count_ops / to_table (hook re-export byteclass_ops)
    against Engine/ByteClass.v (merge, with_cmp, cmp_count, to_table, cond_eval) evaluated by vm_compute."""
    import coqeval, frontgen
    rng = random.Random(seed() * 131 + 11)
    cases = []
    # classes on the edges of captured graphs: neighbouring edges of one state are what de-duplication may fold
    pool = []
    for c in caps:
        for s, st in c.graph['states'].items():
            es = [tuple(map(tuple, rs)) for t, rs in st['edges']]
            for i in range(len(es)):
                pool.append((es[i], es[(i + 1) % len(es)] if len(es) > 1 else ()))
    rng.shuffle(pool)
    seen = set()
    for a, b in pool:
        if (a, b) not in seen and len(seen) < (150 if tier == 'quick' else 1500):
            seen.add((a, b)); cases.append((list(a), list(b)))
    res.count('k11_classes_from_captured_graphs', len(cases))
    # random classes, rich in one- and two-byte gaps and in the corners 0 and 255
    def rand_class():
        k = rng.random()
        if k < 0.3:
            base = rng.choice([0, 1, 30, 97, 200, 250]); bs = [base + d for d in range(0, 14) if rng.random() < 0.6 and base + d < 256]
        elif k < 0.5:
            holes = rng.sample(range(256), rng.randint(1, 4)); bs = [x for x in range(256) if x not in holes]
        elif k < 0.7:
            lo = rng.randint(0, 250); bs = [lo + 2 * i for i in range(rng.randint(1, 5)) if lo + 2 * i < 256]
        else:
            bs = [rng.randint(0, 255) for _ in range(rng.randint(0, 12))]
        return bytes_to_ranges(bs)
    nrand = 250 if tier == 'quick' else 2500
    for _ in range(nrand):
        a = rand_class(); b = rand_class() if rng.random() < 0.8 else []
        if rng.random() < 0.3 and a:
            # a class one missing byte away from the other: the shape the +1 / +2 arithmetic is about
            hi = a[-1][1]
            if hi + 2 <= 255:
                b = [(hi + 2, min(255, hi + 2 + rng.randint(0, 3)))]
        cases.append((a, b))
    res.count('k11_random_class_pairs', nrand)
    hx = lambda rs: (''.join('%02x%02x' % (lo, hi) for lo, hi in rs) or '-')
    real = frontgen.front_tool('byteclass', ['k%d %s %s' % (i, hx(a), hx(b)) for i, (a, b) in enumerate(cases)])
    cq = lambda rs: '[' + '; '.join('(%d, %d)' % (lo, hi) for lo, hi in rs) + ']'
    vals = coqeval.coq_eval(['bc_report %s %s' % (cq(a), cq(b)) for a, b in cases],
                            'From LogosV Require Import Engine.Model Engine.ByteClass.', 'bc', shard=max(40, len(cases) // 16 + 1))
    nbad = 0
    for i, ((a, b), v) in enumerate(zip(cases, vals)):
        r = real.get('k%d' % i, '')
        if r.startswith('panic'):
            exp = None
        else:
            parts = [x.strip() for x in r.split('|')]
            flat = []
            for rr in [x for x in parts[0].split(',') if x]:
                lo, hi = rr.split('-'); flat += [int(lo), int(hi)]
            flat.append(999)
            for cc in [x for x in parts[1].split(',') if x]:
                rg, _, ex = cc.partition(':'); lo, hi = rg.split('-'); exs = [int(e) for e in ex.split('+') if e]
                flat += [int(lo), int(hi), len(exs)] + exs
            flat += [999, int(parts[2]), 999] + [int(ch) for ch in parts[3]] + [999]
            exp = flat
        # the last block of the model's report is cond_eval on every byte: by theorem C01_edge_condition_exact equal to the table
        ok = exp is not None and v[:len(exp)] == exp and v[len(exp):] == [int(ch) for ch in parts[3]]
        # and the union itself, computed here independently
        if ok:
            want = [1 if any(lo <= x <= hi for lo, hi in a + b) else 0 for x in range(256)]
            ok = want == [int(ch) for ch in parts[3]]
        res.oblige(ok)
        if not ok:
            nbad += 1
            if nbad <= 4:
                res.violation(None, 'ByteClass merge/comparisons of %s and %s: code %s, model %s' % (a, b, r[:160], v[:40]),
                              dict(class_a=a, class_b=b, real=r, model=v, no_longer_checks='correspondence K11 (ByteClass vs Engine/ByteClass.v)'), found_input=False)
    res.cov['k11_byteclass_pairs'] = len(cases)


def k4_leaf_languages(res, tier, drv, caps):
    """K4: the language of every #[regex] / skip / #[token] leaf of the corpora, as the derive compiled it into the
    captured DFA, against a reference built WITHOUT logos from the attribute text (independent attribute scan
    tools/capture/src/attrs.rs; regex-syntax + regex-automata with the documented options; literal chain for tokens).
    A distinguishing text is a concrete input on which the pattern's language is not the regex crate's."""
    import equiv, frontgen as fg
    rng = random.Random(seed() * 53 + 4)
    cand = []
    for c in caps:
        if not (c.accepted and c.dfa and c.dfa.get('start') is not None and len(c.attrs) == len(c.leaves)):
            continue
        if len(c.dfa['states']) > 250:
            continue
        for l in c.leaves:
            a = c.attrs[l['idx']]
            if a.get('lit') in (None, '-') and a.get('kind') != 'token':
                continue
            cand.append((c, l, a))
    rng.shuffle(cand)
    cand = cand[:(400 if tier == "quick" else 4000)]
    specs = []; items = []
    for k, (c, l, a) in enumerate(cand):
        raw = bytes.fromhex(a['lit']) if a.get('lit') not in (None, '-') else b''
        isb = a.get('bytes') == '1'
        icase = a.get('icase') == '1'
        if a.get('kind') == 'token':
            if icase:
                try:
                    txt = raw.decode('utf8')
                except UnicodeDecodeError:
                    continue
                pat = '(?i-u:' + fg.regex_escape_bytes(raw) + ')' if isb else '(?i:' + fg.regex_escape(txt) + ')'
                specs.append(('k%d' % k, 1 if c.utf8 else 0, 0 if isb else 1, 0, pat)); items.append((k, c, l, a, 'ref', pat))
            else:
                items.append((k, c, l, a, 'chain', raw))
            continue
        try:
            txt = raw.decode('utf8')
        except UnicodeDecodeError:
            continue
        if '(?&' in txt or (isb and any(b >= 0x80 for b in raw)):
            continue          # subpattern references are C11's business; raw non-ASCII bytes in byte patterns are escaped by the derive
        specs.append(('k%d' % k, 1 if c.utf8 else 0, 0 if isb else 1, 1 if icase else 0, txt)); items.append((k, c, l, a, 'ref', txt))
    refs = fg.refdfas(specs, 'k4-%s' % tier) if specs else {}
    pairs = []
    for k, c, l, a, how, what in items:
        if how == 'chain':
            ref = equiv.chain_dfa(what); descr = '#[token] must match exactly the bytes %r' % what
        else:
            rc = refs.get('k%d' % k)
            if rc is None or not rc.dfa or rc.dfa.get('start') is None:
                continue
            ref = equiv.RefDfa(rc.dfa['states'], rc.dfa['start']); descr = 'pattern %r must denote the regex crate\'s language of that pattern' % what
        pairs.append(dict(tag='%s leaf %d' % (c.id, l['idx']), cap=c, leaf=l['idx'], ref=ref, refleaf=0, source=c.source, describe=descr))
    res.count('k4_leaf_languages', len(pairs))
    return bisim_stage(res, drv, pairs, 'K4 leaf language vs independent reference')


def check_C01(tier):
    return engine_property('C01', tier, ['C01_maximal_munch', 'C01_stream_eq_spec', 'C01_construction_correct', 'C01_maximal_munch_built', 'C01_bisimilar_graphs_agree', 'C01_merged_class_is_union', 'C01_merged_class_canonical', 'C01_edge_condition_exact', 'C01_dedup_preserves_walks', 'C01_full_construction_correct', 'C01_emitted_code_maximal_munch'], ['dfa_ok', 'sim_ok', 'exact_ok'], [certs.TH_C01, certs.TH_C01S, certs.TH_C01B], ['tc', 'sm', 'tcsafe'], (0,),
                           {'ok-item', 'spec-ok-item', 'graph-differs'}, {'ok-item'},
                           RULE_ENGINE % ('dfa_ok+sim_ok', 'Ok items (variant, span) and item kinds, per feature set, against the graph executor and the DFA-level specification'),
                           ASSUME_ENGINE)


def check_C02(tier):
    return engine_property('C02', tier, ['C02_error_span', 'C02_stop_exact', 'C02_lv_is_live', 'C02_emitted_stop_exact'], ['dfa_ok', 'sim_ok', 'exact_ok'],
                           [certs.TH_C02], ['tc', 'sm'], (0,),
                           {'err-end', 'spec-err-end'}, {'err-end'},
                           RULE_ENGINE % ('dfa_ok+sim_ok+exact_ok (liveness ranks)', 'Err items: start, end (rounded by find_boundary for str), resumption point'),
                           ASSUME_ENGINE + ['error *values* (Default / error callback) are covered by C13, not here'])


def boundary_grid_stage(res, tier):
    """K6b: Source::is_boundary and Source::find_boundary of str and [u8] on a grid of sources (1- to 4-byte characters,
    empty, ASCII) x every index 0..len+3 and indices near 2^63 / 2^64, against Runtime.Source.is_boundary and
    Engine.Run.fb_str (vm_compute).  The lexing loop's progress and span rules (C03, C04, C15) rest on these two."""
    import coqeval
    texts = ['', 'a', 'ab c', '\u00e9', 'a\u00e9b', '\u65e5\u672c', 'x\U0001F600y', '\u00e9\u65e5\U0001F600', 'abcdefgh\u00e9', '\U0001F600']
    cases = []
    for kind in ('s', 'b', 'w'):
        for t in texts:
            data = t.encode('utf8')
            idxs = list(range(0, len(data) + 4)) + [U64 - 1, U64 - 2, 1 << 63, (1 << 63) + 1, 1 << 32]
            for i in idxs:
                cases.append((kind, data, i))
        if kind == 'b':
            for data in (b'\xff\x80\x80', b'\x80', b'a\xbf'):
                for i in range(0, len(data) + 3):
                    cases.append((kind, data, i))
    exes = {}
    for fs, prof in [('tc', 'debug'), ('tc', 'release'), ('tcsafe', 'debug')]:
        sets = ce.compiled_sets('quick', [fs], prof)
        exes[(fs, prof)] = sets[0][1][fs][0]
    lines = ['Y y%d %s %s %d' % (i, k, d.hex() or '-', idx) for i, (k, d, idx) in enumerate(cases)]
    exprs = []
    for k, d, idx in cases:
        w = coqeval.nlist(d)
        fb = ('fb_str %s %d' % (w, idx)) if k in 'sw' else str(idx)
        exprs.append('[(if Source.is_boundary %s %s %d then 1 else 0); %s]' % ('true' if k in 'sw' else 'false', w, idx, fb if idx <= len(d) else '0'))
    model = coqeval.coq_eval(exprs, 'From LogosV Require Import Runtime.Source Engine.Run.', 'bgrid')
    nbad = 0
    for b, exe in exes.items():
        out = run_lines(exe, lines, 'Y')
        for i, ((k, d, idx), m) in enumerate(zip(cases, model)):
            got = out.get('y%d' % i, '?')
            exp = '%d %s' % (m[0], m[1] if idx <= len(d) else '-')
            res.count('boundary_grid_cases')
            if got != exp:
                nbad += 1
                if nbad <= 4:
                    res.violation(None, 'Source::is_boundary / find_boundary (%s/%s) on the %s source %r at index %d: got `%s`, specification `%s` (is_boundary, find_boundary)' % (b[0], b[1], {'s': 'str', 'w': 'String (Deref blanket impl)'}.get(k, '[u8]'), d, idx, got, exp),
                                  dict(featureset=b[0], profile=b[1], kind=k, source_hex=d.hex(), index=idx, observed=got, expected=exp))
    res.oblige(nbad == 0)


def c03_empty_match_stage(res, tier):
    """C03, last clause: no accepted definition has a pattern (token, regex or skip, either source mode) that matches the
    empty string — such a lexer makes no progress.  Every nullable pattern of the generated family c19_nullable must be
    rejected, and no accepted definition of the corpora may match right after the DFA start state."""
    nul = os.path.join(cache_dir('gen', 'c19-nullable'), 'nullable.rs')
    open(nul, 'w').write('\n'.join(c19_nullable()) + '\n')
    caps = build.capture_files([nul], 'c03-nullable')
    repo_caps, rand_caps = ce.corpora(tier, res)
    n = 0
    for c in list(caps) + list(repo_caps) + list(rand_caps):
        if c.panic is not None or not c.accepted or not c.dfa or c.dfa.get('start') is None:
            continue
        dfa = capmod.Dfa(c)
        hit = None
        for u in [256] + list(range(256)):
            ms = dfa.match(dfa.step(dfa.start, u))
            if ms:
                hit = (u, list(ms)); break
        res.count('accepted_definitions_checked_for_empty_match')
        res.oblige(hit is None)
        if hit:
            n += 1
            if n <= 4:
                l = c.leaves[hit[1][0]] if hit[1] and hit[1][0] < len(c.leaves) else None
                res.violation(None, '%s is accepted although pattern %s matches the empty string: lexing an input on which nothing else matches makes no progress' % (c.id, l['src'] if l else hit[1]),
                              dict(definition=c.source, leaves=hit[1], input_hex='21', input="b'!' (any byte that starts no token)"))
    return n


def check_C03(tier):
    return engine_property('C03', tier, ['C03_tiling', 'C03_none_absorbing', 'C03_fb_str_ok', 'C03_emitted_tiling'], ['dfa_ok', 'sim_ok', 'exact_ok'],
                           [certs.TH_C03], ['tc', 'sm', 'tcsafe'], (0,),
                           {'tiling', 'spec-tiling', 'panic'}, {'tiling'},
                           RULE_ENGINE % ('dfa_ok (no empty match)+sim_ok+exact_ok', 'span sequences: strictly increasing, contiguous modulo skips, final None with span len..len, None absorbing (3 further calls)'),
                           ASSUME_ENGINE)


def chunked_stage(res, tier, sets, fss):
    """The last sentence of C07 on the compiled lexers: the input is fed through a random schedule of growing buffers
    (harness mode 8: a partial lexer per buffer, resumed where the previous one reported None; an ordinary lexer at the
    end) and the items with their spans, and the final None, must be those of the one-shot lexer of the same build.
    (The model-level statement for every schedule is C07_chunked_is_oneshot.)"""
    rng = random.Random(seed() * 7 + 77)
    nbad = 0
    # error values are not compared: the corpus error callback prints the span it sees, which is relative to the buffer
    # slice the harness hands to each lexer
    norm = lambda items: [(x[0], x[1] if x[0] else None, x[2], x[3]) for x in items]
    for label, h, enums in sets:
        for fs in fss:
            exe, caps = h[fs]
            lines = []; meta = {}
            for en in sorted(caps):
                c = caps[en]
                if not ce.usable(c):
                    continue
                codes = engine.behaviour_codes(c)
                if None in codes or any(x in (25, 26) for x in codes):
                    continue
                ps = [p for p in ce.make_probes(c, rng, 'quick') if len(p) >= 2 and (not c.utf8 or probes.is_utf8(p))]
                rng.shuffle(ps)
                for i, p in enumerate(ps[:25 if tier == 'quick' else 250]):
                    cuts = [k for k in range(1, len(p)) if not c.utf8 or (p[k] & 0xC0) != 0x80]
                    if not cuts:
                        continue
                    ks = sorted(rng.sample(cuts, min(len(cuts), rng.randint(1, 4))))
                    pid = '%s.%d' % (en, i)
                    lines.append('P c.%s %s 8 %s %s' % (pid, en, p.hex(), ','.join(map(str, ks))))
                    lines.append('P o.%s %s 0 %s' % (pid, en, p.hex()))
                    meta[pid] = (en, p, ks)
            out = run_lines(exe, lines, 'P') if lines else {}
            for pid, (en, p, ks) in meta.items():
                a = out.get('c.' + pid); b = out.get('o.' + pid)
                res.count('chunked_schedules_run')
                if a is None or b is None:
                    bad = 'no result (%s)' % out.get('__crash__', '')[:200]
                else:
                    ra = engine.parse_real_line(a); rb = engine.parse_real_line(b)
                    bad = None
                    if ra['panic'] is not None or rb['panic'] is not None:
                        bad = 'panic: %s' % (ra['panic'] or rb['panic'])
                    elif ra['bad_slice']:
                        bad = 'a partial lexer reported None with a non-empty span, or slice() disagrees'
                    elif norm(ra['items']) != norm(rb['items']):
                        k = next((j for j, (x, y) in enumerate(zip(norm(ra['items']), norm(rb['items']))) if x != y), min(len(ra['items']), len(rb['items'])))
                        bad = 'items differ from item %d on: chunked %r, one-shot %r' % (k, ra['items'][k:k + 3], rb['items'][k:k + 3])
                    elif ra['finals'][:1] != rb['finals'][:1]:
                        bad = 'final None at %r, one-shot %r' % (ra['finals'][:1], rb['finals'][:1])
                if bad:
                    nbad += 1
                    if nbad <= 4:
                        res.violation(p, '%s/%s input %r fed as buffers ending at %r then whole: %s' % (en, fs, p, ks, bad),
                                      dict(definition=ce.enum_source(enums, en), enum=en, featureset=fs, input_hex=p.hex(), input=repr(p), schedule=ks, chunked=a, oneshot=b))
    res.oblige(nbad == 0)


def check_C07(tier):
    res = Result('C07', tier)
    framework(res, ['C07_next_prefix_safe', 'C07_next_prefix_none', 'C07_determined_scan', 'C07_prompt_one_byte', 'C07_prompt_strict', 'C07_no_test_acts', 'C07_stream_prefix', 'C07_partial_runs_end', 'C07_chunked_is_oneshot', 'C07_emitted_chunked_is_oneshot', 'C07_waits_only_if_open'])
    fss = ['tc', 'sm']
    sets = ce.compiled_sets(tier, fss)
    failing, drv = cert_stage(res, tier, ['dfa_ok', 'sim_ok', 'exact_ok', 'prompt_ok', 'prompt_strict_ok'], [certs.TH_C07C, certs.TH_C07E], 'C07', curated_caps(sets, 'tc'))
    for c, name in failing[:6]:
        res.violation(None, 'certificate %s fails for %s' % (name, c.id),
                      dict(definition=c.source, definition_id=c.id, no_longer_checks='certificate %s (promptness / exactness of partial lexing) for %s' % (name, c.id)),
                      found_input=False)
    emitted_stage(res, tier, 'C07', {'partial'})
    chunked_stage(res, tier, sets, fss)
    viol = ce.run_k2_partial(res, sets, fss, tier, drv)
    enums_by_label = {label: enums for label, h, enums in sets}
    seen = 0
    for label, fs, en, p, k, what, raw, found in viol:
        seen += 1
        if seen > 6:
            break
        src = ce.enum_source(enums_by_label[label], en)
        c = dict(enums_by_label[label])[en][1]
        key = None
        replay = dict(definition=src, enum=en, featureset=fs, input_hex=p.hex(), input=repr(p), split=k, observed=raw)
        if not found:
            replay['no_longer_checks'] = 'correspondence K2 (partial mode) for %s' % en
        res.violation(key, '%s/%s input %r split %d: %s' % (en, fs, p, k, what), replay, found_input=found)
    res.oblige(not viol)
    res.cov['rule'] = ('for every compiled definition, generated inputs up to a length bound and EVERY split point (char boundaries for str): real partial lexer on the prefix '
                       'vs real one-shot lexer on the whole input (items committed before None, empty span at None, position of None) and vs the model; '
                       'promptness: certificate prompt_ok on every paired state of every corpus definition')
    res.assumptions += ASSUME_ENGINE + ['promptness: C07_determined_scan + C07_prompt_one_byte give "determined => acts now or after any one more byte" under prompt_ok, C07_prompt_strict "acts now" under prompt_strict_ok (required of every definition without look-around)',
                                         'chunking schedules: C07_chunked_is_oneshot is a theorem about the model for every schedule; the compiled lexers are compared for every single split of every probe (the step of its induction) and on random multi-buffer schedules (harness mode 8)',
                                         'callbacks that bump beyond the prefix panic in the real code; the theorem quantifies over oracles and is vacuous for such calls']
    return res.finish('./vcheck C07 --tier ' + tier)


def check_C06(tier):
    res = Result('C06', tier)
    framework(res, ['C06_opt_is_ref', 'C06_generators_agree', 'C06_emitted_is_model', 'C06_emitted_is_ref', 'C06_emitted_programs_agree', 'C06_emitted_stream'])
    fss = ['tc', 'sm']
    sets = ce.compiled_sets(tier, fss)
    failing, drv = cert_stage(res, tier, ['wf_graph'], [certs.TH_C06P], 'C06', curated_caps(sets, 'tc'))
    import time as _t
    t0 = _t.time(); emitted_stage(res, tier, 'C06', None, report_shape=True); log('stage emitted %.1fs' % (_t.time() - t0))
    for c, name in failing[:6]:
        res.violation(None, 'certificate %s fails for %s' % (name, c.id),
                      dict(definition=c.source, definition_id=c.id, no_longer_checks='certificate wf_graph (hypothesis of C06_opt_is_ref) for %s' % c.id), found_input=False)
    # both generators against each other and against the model, ordinary and partial mode
    mism = ce.run_k2(res, sets, fss, tier, modes=(0, 1), drv=drv)
    enums_by_label = {label: enums for label, h, enums in sets}
    by_probe = {}
    for m in mism:
        by_probe.setdefault((m[0], m[2], m[3], m[4]), {})[m[1]] = m
    n = 0
    for (label, en, mode, p), d in by_probe.items():
        # a probe is a C06 violation when the two generators differ from each other
        raws = {fs: d[fs][6] for fs in d}
        if len(d) == 2 and raws['tc'] == raws['sm']:
            continue          # both differ from the model in the same way: not a generator disagreement
        n += 1
        if n > 6:
            continue
        src = ce.enum_source(enums_by_label[label], en)
        res.violation(None, '%s on %r (partial=%s): generators disagree or depart from their common model: %s' % (en, p, bool(mode & 1), {fs: sorted(d[fs][5]) for fs in d}),
                      dict(definition=src, enum=en, input_hex=p.hex(), input=repr(p), partial=bool(mode & 1), observed=raws))
    res.oblige(n == 0)
    # structural scan of the state-machine output: transitions are `state = ..; continue;` only
    files = build.repo_corpus_files() + [os.path.join(VERIF, 'corpus', 'engine', f) for f in sorted(os.listdir(os.path.join(VERIF, 'corpus', 'engine')))]
    smcaps = build.capture_files(files, 'c06scan', sm=True, gen=True)
    scanned = 0
    import re as _re
    for c in smcaps:
        if not ce.usable(c) or not os.path.exists(c.gen_path):
            continue
        txt = open(c.gen_path).read()
        scanned += 1
        bad = None
        if _re.search(r'fn state\d+', txt):
            bad = 'state-machine output defines per-state functions'
        elif 'loop {' not in txt or 'continue ;' not in txt:
            bad = 'state-machine output has no loop / continue'
        elif _re.search(r'return state\d+ \(', txt):
            bad = 'state-machine output calls a state function'
        if bad:
            res.violation(None, '%s: %s' % (c.id, bad), dict(definition=c.source, no_longer_checks='structural scan of state_machine_codegen output'), found_input=False)
        res.oblige(bad is None)
    res.count('state_machine_outputs_scanned', scanned)
    # stack: long token / many skips on a 128 KiB stack with the state-machine generator
    exe_sm = dict(sets[0][1])['sm'][0]
    reps = 1_000_000 if tier == 'quick' else 4_000_000
    for en, unit in (('SelfLoops', b'a'), ('SelfLoops', b' '), ('KwIdent', b' '), ('KwIdent', b'fn ')):
        r = sh([exe_sm, 'stack', en, '128', unit.hex(), str(reps)], check=False, timeout=600, mem_gib=3)
        ok = r.returncode == 0 and 'STACK true' in r.stdout and ('end=%d' % (len(unit) * reps)) in r.stdout
        res.oblige(ok)
        res.count('stack_runs')
        if not ok:
            res.violation(None, 'state-machine lexer of %s did not complete %d x %r on a 128 KiB stack (exit %s)' % (en, reps, unit, r.returncode),
                          dict(enum=en, unit_hex=unit.hex(), repeat=reps, stack_kib=128, output=r.stdout[-300:]))
    res.cov['rule'] = RULE_ENGINE % ('wf_graph', 'complete output (results, spans, final span) of the two generators against each other and the model, in ordinary and partial mode; state-machine output scanned for per-state functions; long inputs on a 128 KiB stack')
    res.assumptions += ASSUME_ENGINE + ['stack usage is a runtime quantity: supported by the structural scan and the small-stack runs, not by a theorem',
                                         'callback invocation order is compared through results (callbacks of the compiled corpus are pure functions of the slice)']
    return res.finish('./vcheck C06 --tier ' + tier)


def check_C20(tier):
    res = Result('C20', tier)
    framework(res, ['C20_reads_monotone_linear', 'C20_emitted_reads_monotone_linear', 'C06_opt_is_ref'])
    fss = ['tc', 'sm', 'tcsafe']     # the forbid_unsafe build reads through the same Lexer::read
    sets = ce.compiled_sets(tier, fss)
    drv = build.extraction_build()
    # C20_emitted_reads_monotone_linear speaks about every program the translator can read off the emitted code:
    # a definition whose code no longer has that shape is outside the theorem and is reported
    emitted_stage(res, tier, 'C20', set(), report_shape=True, report_rejected=False)
    mism = ce.run_k3(res, sets, fss, tier, modes=(0, 1), drv=drv)
    enums_by_label = {label: enums for label, h, enums in sets}
    n = 0
    for label, fs, en, mode, p, tags, raw, model in mism:
        n += 1
        if n > 6:
            continue
        real_bad = any(t.startswith('real-') for t in tags) or 'panic' in tags
        src = ce.enum_source(enums_by_label[label], en)
        replay = dict(definition=src, enum=en, featureset=fs, partial=bool(mode & 1), input_hex=p.hex(), input=repr(p), observed_trace=raw, model_trace=model, differs=sorted(tags))
        if not real_bad:
            replay['no_longer_checks'] = 'correspondence K3 (read trace of the compiled lexer vs attempt_opt 8) for %s' % en
        res.violation(None, '%s/%s on %r: %s' % (en, fs, p, ','.join(sorted(tags))), replay, found_input=real_bad)
    res.oblige(n == 0)
    res.cov['rule'] = ('read trace (hook H3) of every attempt of every probe (graph-driven, self-loop run lengths around the 8-byte unroll, random), ordinary and partial mode, '
                       'both generators: exact equality with the model log of attempt_opt 8; and directly on the real trace: offsets non-decreasing, first read at the attempt start, '
                       '#reads <= 3*examined+4')
    res.assumptions += ASSUME_ENGINE + ['all source access of generated code goes through Lexer::read (the hook is inside it); callbacks may read the source through slice() and are outside the property']
    return res.finish('./vcheck C20 --tier ' + tier)


def run_lines(exe, lines, prefix):
    """Feed command lines to a harness binary, return {id: rest-of-line} for lines starting with prefix."""
    d = cache_dir('problems')
    pth = os.path.join(d, 'cmd_%d_%s.txt' % (os.getpid(), prefix))
    open(pth, 'w').write('\n'.join(lines) + '\n')
    try:
        r = sh([exe, pth], check=False, timeout=120 + len(lines) // 20, mem_gib=3)
    except subprocess.TimeoutExpired as e:
        class R: pass
        r = R(); r.stdout = (e.stdout.decode('utf8', 'replace') if isinstance(e.stdout, bytes) else (e.stdout or '')); r.returncode = 'timeout'
    os.remove(pth)
    out = {}
    for ln in r.stdout.split('\n'):
        if ln.startswith(prefix + ' '):
            _, i, rest = (ln.split(' ', 2) + [''])[:3]
            out[i] = rest
    if r.returncode != 0:
        out['__crash__'] = 'exit %s: %s' % (r.returncode, r.stdout[-500:])
        # the first command without a result killed the process
        ids = [ln.split(' ')[1] for ln in lines if ln.startswith(prefix + ' ')]
        for i in ids:
            if i not in out:
                out['__crashed_at__'] = i
                break
    return out


U64 = 1 << 64


def invalid_bump_stage(res, tier, prop, want):
    """Bumps that must panic, on str sources, in debug and release builds of the default features: into the middle of a
    multi-byte character (want='midchar', C04: no observable span boundary inside a code point) or beyond the end of
    the source (want='beyond', C05: no slice with out-of-range bounds).  Expected outcomes come from the Coq model
    Runtime/Source.v bump_case; the harness reports the position after a caught panic and the state of slice()."""
    import coqeval, re as _re
    exes = {}
    for fs, prof in [('tc', 'debug'), ('tc', 'release')]:
        sets = ce.compiled_sets('quick', [fs], prof)
        exes[(fs, prof)] = sets[0][1][fs][0]
    inputs = [('Greek', 'λ日本 ab😀λ'), ('Greek', 'αβ λ'), ('KwIdent', 'fn é€ 12'), ('SelfLoops', 'aaab 12_3')]
    cases = []
    for en, txt in inputs:
        data = txt.encode('utf8'); L = len(data)
        for k in range(0, 4):
            if want == 'midchar':
                ns = [n for n in range(0, L + 1)]
            else:
                ns = [L + d for d in (1, 2, 3, 7, 64)] + [n for n in range(0, L + 2)] + [U64 - 1 - j for j in range(0, L + 2)] + [1 << 63]
            for n in ns:
                cases.append((en, data, k, n))
    lines = ['B c%d %s %s %d %d' % (i, en, data.hex(), k, n) for i, (en, data, k, n) in enumerate(cases)]
    real = {b: run_lines(exe, lines, 'B') for b, exe in exes.items()}
    ref = real[('tc', 'debug')]
    exprs = []; keep = []
    for i, (en, data, k, n) in enumerate(cases):
        m = _re.search(r'before=(\d+)\.\.(\d+)', ref.get('c%d' % i, ''))
        if not m:
            continue
        s0, e0 = int(m[1]), int(m[2])
        end = e0 + n
        mid = end < len(data) and (data[end] & 0xC0) == 0x80
        if (want == 'midchar' and not mid) or (want == 'beyond' and end <= len(data)):
            continue
        keep.append((i, s0, e0))
        exprs.append('bump_case true %s %d %d %d' % (coqeval.nlist(data), s0, e0, n))
    model = coqeval.coq_eval(exprs, 'From LogosV Require Import Runtime.Source.', 'bumpx') if exprs else []
    nbad = 0
    for b, out in real.items():
        for (i, s0, e0), (mok, ms, me) in zip(keep, model):
            en, data, k, n = cases[i]
            r = out.get('c%d' % i, '')
            m = _re.match(r'(ok|panic) before=(\d+)\.\.(\d+) after=(\d+)\.\.(\d+) (\w+)', r)
            res.count('invalid_bump_cases')
            bad = None
            if not m:
                bad = 'no result: %r' % r
            else:
                after = (int(m[4]), int(m[5]))
                if (m[1] == 'ok') != bool(mok):
                    bad = 'bump %s but the specification says %s; span afterwards %d..%d' % ('succeeded' if m[1] == 'ok' else 'panicked', 'success' if mok else 'panic', after[0], after[1])
                elif after != (ms, me):
                    bad = 'span after the bump %r, specification %r' % (after, (ms, me))
                elif m[6] != 'sliceok':
                    bad = 'slice()/remainder() afterwards: %s' % m[6]
            res.oblige(bad is None)
            if bad:
                nbad += 1
                if nbad <= 4:
                    res.violation(None, '%s %s/%s input %r after %d next(): bump(%d): %s' % (en, b[0], b[1], data, k, n, bad),
                                  dict(enum=en, featureset=b[0], profile=b[1], input_hex=data.hex(), nexts=k, bump=n, observed=r))
    return nbad


def check_C15(tier):
    import coqeval, re as _re
    res = Result('C15', tier)
    framework(res, ['C15_bump_spec', 'C15_never_invalid', 'C15_old_release_refuted', 'C15_old_panic_corrupts'])
    rng = random.Random(seed())
    builds = [('tc', 'debug'), ('tc', 'release'), ('tcsafe', 'debug'), ('tcsafe', 'release')]
    exes = {}
    for fs, prof in builds:
        sets = ce.compiled_sets('quick', [fs], prof)
        exes[(fs, prof)] = sets[0][1][fs][0]
    inputs = [('KwIdent', True, 'fn for12 3.5'), ('Greek', True, 'λ日本 ab😀λ'), ('Greek', True, 'αβ λ'),
              ('KwIdentB', False, 'fn for12 3.5'), ('RawBytes', False, b'ab\xff\xfe\x80\x80\x00'.decode('latin1')),
              ('SelfLoops', True, 'aaab 12_3')]
    cases = []
    for en, utf8, txt in inputs:
        data = txt.encode('utf8') if utf8 else txt.encode('latin1')
        L = len(data)
        ns = set(range(0, L + 3))
        for j in range(0, 5):
            ns.add(U64 - 1 - j)
        ns.update([1 << 63, (1 << 63) - 1, (1 << 63) + 1, 100, 1 << 32])
        for k in range(0, 4 if tier == 'quick' else 7):
            # values that wrap to every in-range position (the finding F3 shape)
            wraps = set(U64 - t for t in range(1, L + 2))
            extra = set(rng.randrange(U64) for _ in range(4 if tier == 'quick' else 40))
            for n in sorted(ns | wraps | extra):
                cases.append((en, utf8, data, k, n))
            # the same rule holds for a partial lexer (Lexer::new_partial): harness convention k + 1000
            if k <= 2:
                for n in sorted(set(range(0, L + 3)) | set([L + 9, 100, U64 - 1, U64 - 2, 1 << 63])):
                    cases.append((en, utf8, data, k + 1000, n))
    lines = ['B c%d %s %s %d %d' % (i, en, data.hex(), k, n) for i, (en, utf8, data, k, n) in enumerate(cases)]
    real = {b: run_lines(exe, lines, 'B') for b, exe in exes.items()}
    # positions before the bump are observed (they are the engine's business), the model decides the bump
    ref = real[('tc', 'debug')]
    exprs = []; befores = []
    for i, (en, utf8, data, k, n) in enumerate(cases):
        m = _re.search(r'before=(\d+)\.\.(\d+)', ref.get('c%d' % i, ''))
        if not m:
            raise RuntimeError('harness gave no result for case %d: %r' % (i, ref.get('c%d' % i)))
        s0, e0 = int(m[1]), int(m[2]); befores.append((s0, e0))
        exprs.append('bump_case %s %s %d %d %d' % ('true' if utf8 else 'false', coqeval.nlist(data), s0, e0, n))
    model = coqeval.coq_eval(exprs, 'From LogosV Require Import Runtime.Source.', 'bump')
    nbad = 0; wrapcases = 0; panics = 0
    for b, out in real.items():
        if '__crash__' in out:
            res.violation(None, 'harness %s crashed: %s' % (b, out['__crash__']), dict(build=b), found_input=False)
        for i, (en, utf8, data, k, n) in enumerate(cases):
            r = out.get('c%d' % i, '')
            m = _re.match(r'(ok|panic) before=(\d+)\.\.(\d+) after=(\d+)\.\.(\d+) (\w+)', r)
            mok, ms, me = model[i]
            res.count('bump_cases')
            if befores[i][1] + n >= U64: wrapcases += 1
            if not mok: panics += 1
            bad = None
            if not m:
                bad = 'no/garbled result: %r' % r
            else:
                rok = m[1] == 'ok'; after = (int(m[4]), int(m[5]))
                if (int(m[2]), int(m[3])) != befores[i]:
                    bad = 'position before bump differs between builds'
                elif rok != bool(mok):
                    bad = 'bump %s but the specification says %s' % ('succeeded' if rok else 'panicked', 'success' if mok else 'panic')
                elif after != (ms, me):
                    bad = 'position after bump %r, specification %r' % (after, (ms, me))
                elif m[6] != 'sliceok':
                    bad = 'slice()/remainder() after bump: %s' % m[6]
            if bad:
                nbad += 1
                if nbad <= 6:
                    key = None
                    res.violation(key, '%s %s/%s input %r %safter %d next(): bump(%d): %s' % (en, b[0], b[1], data, 'partial lexer, ' if k >= 1000 else '', k % 1000, n, bad),
                                  dict(enum=en, featureset=b[0], profile=b[1], input_hex=data.hex(), nexts=k, bump=n, observed=r,
                                       expected=dict(ok=bool(mok), start=ms, end=me)))
    res.oblige(nbad == 0)
    res.cov['wraparound_cases'] = wrapcases
    res.cov['cases_expected_to_panic'] = panics
    res.sample(dict(case=lines[0], model=model[0]))
    res.sample(dict(case=lines[-1], model=model[-1]))
    res.cov['rule'] = ('every lexer position reachable by 0..k next() calls on small str / byte sources x n in {0..len+2, 2^64-1-j, 2^63+-1, values wrapping onto every in-range position, random}; '
                       'debug and release, default and forbid_unsafe builds, catch_unwind; compared with Runtime.Source.bump evaluated in Coq (vm_compute); slice()/remainder() checked afterwards only in states the spec calls valid')
    res.trusted += ['Coq kernel + vm_compute (model evaluation in coqc)', 'harness bump mode (tools/harness/main.rs.tmpl), lib/checks.py comparison']
    res.assumptions += ['memory-level effects of an out-of-range slice are not observed (no sanitizer); the check never hands an invalid span to slice()']
    return res.finish('./vcheck C15 --tier ' + tier)


def check_C05(tier):
    import coqeval, re as _re
    res = Result('C05', tier)
    framework(res, ['C05_read_spec', 'C05_requests_ordered', 'C06_opt_is_ref'])
    # K6: the real Source::read against the model on a grid, default and forbid_unsafe, debug and release
    builds = [('tc', 'debug'), ('tc', 'release'), ('tcsafe', 'debug'), ('tcsafe', 'release')]
    exes = {}
    setsby = {}
    for fs, prof in builds:
        sets = ce.compiled_sets(tier if prof == 'debug' else 'quick', [fs], prof)
        exes[(fs, prof)] = sets[0][1][fs][0]
        setsby[(fs, prof)] = sets
    grid = []
    for L in list(range(0, 41)) + [63, 64, 65]:
        offs = set(range(0, L + 10)) | set(U64 - k for k in range(1, 36)) | set((1 << 63) + d for d in (-1, 0, 1))
        for kind in ('s', 'b'):
            for off in sorted(offs):
                grid.append((kind, L, off))
    if tier == 'quick':
        rng = random.Random(seed()); rng.shuffle(grid); grid = grid[:2500]
    lines = ['R g%d %s %d %d' % (i, k, L, off) for i, (k, L, off) in enumerate(grid)]
    sizes = [1, 1, 2, 3, 4, 8, 16, 32]
    exprs = []
    for kind, L, off in grid:
        data = [(97 + i % 26) if kind == 's' else ((i * 7 + 1) % 251) for i in range(L)]
        for sz in sizes:
            exprs.append('read_case %s %d %d' % (coqeval.nlist(data), off, sz))
    model = coqeval.coq_eval(exprs, 'From LogosV Require Import Runtime.Source.', 'read', shard=1500)
    nbad = 0
    for b, exe in exes.items():
        out = run_lines(exe, lines, 'R')
        if '__crashed_at__' in out:
            ci = int(out['__crashed_at__'][1:])
            kind, L, off = grid[ci]
            nbad += 1
            res.violation(None, 'Source::read (%s/%s) crashed the process on a %s source of length %d at offset %d' % (b[0], b[1], 'str' if kind == 's' else '[u8]', L, off),
                          dict(featureset=b[0], profile=b[1], kind=kind, len=L, offset=off, observed=out.get('__crash__')))
        for i, (kind, L, off) in enumerate(grid):
            if '__crashed_at__' in out and i >= int(out['__crashed_at__'][1:]):
                break
            toks = out.get('g%d' % i, '').split()
            for j, sz in enumerate(sizes):
                m = model[i * len(sizes) + j]
                exp = 'None' if m[0] == 0 else (bytes(m[1:]).hex() or '-')
                got = toks[j] if j < len(toks) else '?'
                res.count('read_grid_cases')
                if got != exp or 'PANIC' in toks:
                    nbad += 1
                    if nbad <= 5:
                        res.violation(None, 'Source::read (%s/%s) on a %s source of length %d at offset %d, chunk %d: got %s, specification %s' % (b[0], b[1], 'str' if kind == 's' else '[u8]', L, off, sz, got, exp),
                                      dict(featureset=b[0], profile=b[1], kind=kind, len=L, offset=off, size=sz, observed=got, expected=exp))
    res.oblige(nbad == 0)
    # K3: every recorded read of every probe stays inside the source or is answered None by read (by C05_read_spec);
    #     observed directly: requests with offset+size <= len are the only ones that touch memory
    fss = ['tc', 'sm']
    sets = ce.compiled_sets(tier, fss)
    drv = build.extraction_build()
    mism = ce.run_k3(res, sets, fss, tier, modes=(0, 1), drv=drv)
    enums_by_label = {label: enums for label, h, enums in sets}
    n = 0
    for label, fs, en, mode, p, tags, raw, model_tr in mism:
        n += 1
        if n <= 4:
            res.violation(None, '%s/%s on %r: read requests differ from the emitted-program model (%s)' % (en, fs, p, ','.join(sorted(tags))),
                          dict(definition=ce.enum_source(enums_by_label[label], en), enum=en, featureset=fs, input_hex=p.hex(), observed_trace=raw, model_trace=model_tr,
                               no_longer_checks='correspondence K3 for %s' % en), found_input=False)
    res.oblige(n == 0)
    # K2: default vs forbid_unsafe builds, debug and release, identical results and no panic
    for prof in ('debug', 'release'):
        t = tier if prof == 'debug' else 'quick'
        fs2 = ['tc', 'tcsafe']
        sets2 = [(label, dict(list(setsby[('tc', prof)][k][1].items()) + list(setsby[('tcsafe', prof)][k][1].items())), setsby[('tc', prof)][k][2])
                 for k, (label, _, _) in enumerate(setsby[('tc', prof)])]
        mism2 = ce.run_k2(res, sets2, fs2, t, modes=(0, 1), drv=drv)
        enums2 = {label: enums for label, h, enums in sets2}
        k = 0
        for label, fs, en, mode, p, tags, raw, mdl in mism2:
            k += 1
            if k <= 4:
                res.violation(None, '%s/%s/%s on %r (partial=%s): %s' % (en, fs, prof, p, bool(mode & 1), ','.join(sorted(tags))),
                              dict(definition=ce.enum_source(enums2[label], en), enum=en, featureset=fs, profile=prof, input_hex=p.hex(), input=repr(p), partial=bool(mode & 1), observed=raw),
                              found_input=('panic' in tags or 'slice' in tags or any(t.startswith('spec-') for t in tags)))
        res.oblige(k == 0)
    res.cov['rule'] = ('K6: Source::read::<u8 / &[u8;1,2,3,4,8,16,32]> on str and [u8] sources of length 0..40,63..65 at offsets 0..len+9, 2^64-k, 2^63+-1, four builds, against Runtime.Source.read (vm_compute); '
                       'K3: read requests of every attempt equal the model log; K2: default vs forbid_unsafe builds (debug, release) on all probes incl. exact-size heap inputs of every short length, both modes, no panic')
    res.trusted += ['Coq kernel + vm_compute (model evaluation in coqc)', 'harness read mode']
    res.assumptions += ['machine-level memory safety of unsafe pointer reads is modelled as index bounds; no sanitizer result is claimed (partial)',
                        'inputs are exact-size heap allocations (Box<[u8]>) in the harness']
    # K6b: find_boundary / is_boundary of str, [u8] and of a str reached through the Deref blanket impl (String): a span end
    # that is not a boundary makes slice() / remainder() cut inside a code point (get_unchecked in the default build)
    boundary_grid_stage(res, tier)
    # K13 guarded placement: the source sits in the middle of a larger buffer filled with 0x80 / 0xBF / 'a' / 0 / 0xE2;
    # the items must not depend on the fill byte (a dependence means bytes outside the source were read) and must equal
    # the items of the exact-size run
    nguard = 0; ng = 0
    for b in [('tc', 'debug'), ('tc', 'release')]:
        rngg = random.Random(seed() * 17 + 3)
        for label, h, enums in setsby[b]:
            exe, caps = h[b[0]]
            runs = []; meta = []
            for en in sorted(caps):
                c = caps[en]
                if not ce.usable(c) or None in engine.behaviour_codes(c):
                    continue
                ps = ce.make_probes(c, rngg, 'quick')
                rngg.shuffle(ps)
                for k, p_ in enumerate(ps[:(25 if tier == 'quick' else 120)]):
                    if c.utf8 and not probes.is_utf8(p_):
                        continue
                    runs.append(('%s.%d.g' % (en, k), en, 4, p_)); runs.append(('%s.%d.n' % (en, k), en, 0, p_))
                    meta.append((en, k, p_))
            real = engine.run_real(exe, runs)
            for en, k, p_ in meta:
                rg, rn = real.get('%s.%d.g' % (en, k)), real.get('%s.%d.n' % (en, k))
                ng += 1
                bad = None
                if rg is None or rn is None:
                    bad = 'no result'
                elif rg.get('guarddiff') is not None:
                    bad = 'result depends on the bytes around the source: %s vs %s' % (rg['raw'][:120], rg['guarddiff'][:120])
                elif rg['items'] != rn['items'] or rg['finals'][:1] != rn['finals'][:1] or (rg['panic'] is None) != (rn['panic'] is None):
                    bad = 'guarded run %s differs from the exact-size run %s' % (rg['raw'][:120], rn['raw'][:120])
                if bad:
                    nguard += 1
                    if nguard <= 4:
                        res.violation(None, '%s/%s/%s on %r: %s' % (en, b[0], b[1], p_, bad),
                                      dict(definition=ce.enum_source(dict((l_, e_) for l_, _, e_ in setsby[b])[label], en), enum=en, featureset=b[0], profile=b[1],
                                           input_hex=p_.hex(), input=repr(p_)))
    res.oblige(nguard == 0)
    res.count('guarded_placement_probes', ng)
    # bumps beyond the end of a str source must panic: otherwise slice()/remainder() are formed with out-of-range bounds
    invalid_bump_stage(res, tier, 'C05', 'beyond')
    return res.finish('./vcheck C05 --tier ' + tier)


def c13_compare(c, codes, has_errcb, r, mi, mf, data, default_err='Default'):
    """Full comparison for callback definitions: items incl. chosen variant and error value, callback log."""
    if r['panic'] is not None:
        return 'panic: %s' % r['panic']
    if mf[0] != 'fin':
        return 'model outcome %r' % (mf,)
    ri = r['items']
    if len(ri) != len(mi):
        return 'item count real %d model %d' % (len(ri), len(mi))
    for k, (a, b) in enumerate(zip(ri, mi)):
        if (a[0], a[2], a[3]) != (b[0], b[2], b[3]):
            return 'item %d real %r model %r' % (k, a, tuple(b))
        code = codes[b[1]] if b[1] is not None else 0
        if a[0]:
            exp = 'Alt' if (code in (19, 20, 21, 22) and b.k >= 2) else engine.leaf_variant(c, b[1])
            if a[1] != exp:
                return 'item %d variant real %s expected %s' % (k, a[1], exp)
        else:
            if b.custom:
                exp = 'Custom(%d)' % b.k
            elif has_errcb:
                exp = 'FromCb(%d, %d)' % (b[2], b[3])
            else:
                exp = default_err
            if a[1] != exp:
                return 'item %d error value real %s expected %s' % (k, a[1], exp)
    if not r['finals'] or r['finals'][0] != (mf[1], mf[2]):
        return 'final span real %r model %r' % (r['finals'][:1], mf[1:])
    # callback invocations: one per region whose leaf has a callback, in order, grouped per next() call
    groups = [[]]
    for is_skip, rec in mi.regions:
        code = codes[rec[1]] if rec[1] is not None else 0
        if code >= 10:
            groups[-1].append((rec, code))
        if not is_skip:
            groups.append([])
    for j, grp in enumerate(groups):
        real_cbs = r['cbs'][j] if j < len(r['cbs']) else []
        if len(real_cbs) != len(grp):
            return 'next() #%d: %d callback invocations, expected %d' % (j, len(real_cbs), len(grp))
        for (rs, re_, rhex), (rec, code) in zip(real_cbs, grp):
            rs, re_ = int(rs), int(re_)
            sl = b'' if rhex == '-' else bytes.fromhex(rhex)
            if rs != rec[2] or sl != data[rs:re_]:
                return 'next() #%d: callback observed span %d..%d slice %r' % (j, rs, re_, sl)
            if code in (25, 26):
                want = sum(sl) % 3
                ok = (re_ + want == rec[3]) or (re_ == rec[3])
            else:
                ok = re_ == rec[3]
            if not ok:
                return 'next() #%d: callback observed end %d, item end %d' % (j, re_, rec[3])
    return None


def error_value_stage(res, tier, prop):
    """The error value of every Err item of the compiled callback definitions: the error type's Default unless the
    error callback or the pattern's callback supplied one (C02, last sentence); same runs as C13, judged on the value only."""
    fss = ['tc']
    sets = ce.compiled_sets(tier, fss)
    drv = build.extraction_build()
    rng = random.Random(seed() + 213)
    label, h, enums = sets[0]
    exe0, caps0 = h['tc']
    targets = [en for en in sorted(caps0) if any(v >= 10 for v in engine.behaviour_codes(caps0[en]) if v is not None)]
    nviol = 0
    for en in targets:
        c = caps0[en]
        codes = engine.behaviour_codes(c)
        src_nospace = (enums[en][1].source or '').replace(' ', '')
        has_errcb = 'error(' in src_nospace
        ps = ce.make_probes(c, rng, 'quick')[:120]
        for _ in range(60 if tier == 'quick' else 600):
            ps.append(' '.join(rng.choice(['ab', 'abc', 'z', 'xyz', '12', '7', '305', 'q', '!', 'kk', 'dcba']) for _ in range(rng.randint(1, 6))).encode())
        if c.utf8:
            ps = [p for p in ps if probes.is_utf8(p)]
        lines = engine.problem_header(c, with_dfa=False)
        allp = []
        for i, p in enumerate(ps):
            pid = '%s.%d' % (en, i)
            allp.append((pid, en, 0, p))
            lines.append('P %s 0 %d %s' % (pid, len(p), ' '.join(map(str, p))))
        model = engine.parse_model_output(engine.run_modeldrv(drv, [lines]))
        real = engine.run_real(exe0, allp)
        for pid, _, _, p in allp:
            (mi, mf), _ = model[pid]
            nerr = sum(1 for it in mi if not it[0])
            res.count('error_values_compared', nerr)
            d = c13_compare(c, codes, has_errcb, real[pid], mi, mf, p, 'Default' if 'error' in src_nospace else '()')
            if d and 'error value' in d:
                nviol += 1
                if nviol <= 4:
                    res.violation(p, '%s on %r: %s' % (en, p, d), dict(definition=enums[en][1].source, enum=en, featureset='tc', input_hex=p.hex(), input=repr(p), observed=real[pid]['raw'][:600]))
    res.oblige(nviol == 0)


def check_C13(tier):
    res = Result('C13', tier)
    framework(res, ['C13_construct_matches_table', 'C13_decision_determines_item', 'C13_skip_transparent', 'C13_bump_extends_and_excludes', 'C13_inline_body_complete', 'C13_old_inline_body_drops_tokens'])
    fss = ['tc', 'sm']
    sets = ce.compiled_sets(tier, fss)
    drv = build.extraction_build()
    # generate_callback: the dispatch emitted for every leaf of every corpus definition calls that leaf's callback,
    # through the construct that belongs to its variant kind (translator lib/genparse.py)
    emitted_stage(res, tier, 'C13', set(), leaf_bodies=True)
    # every leaf carries a callback exactly when its attribute declares one (positional, or `callback = ..` anywhere after
    # the literal): attributes scanned independently of logos (tools/capture/src/attrs.rs) over all graph-level corpora
    repo_caps, rand_caps = ce.corpora(tier, res)
    extra = build.capture_files(front_files() + [os.path.join(VERIF, 'corpus', 'engine', f) for f in sorted(os.listdir(os.path.join(VERIF, 'corpus', 'engine'))) if f.endswith('.rs')], 'c13-attrs')
    ncb = 0
    for c in list(repo_caps) + list(rand_caps) + list(extra):
        if c.panic is not None or not c.accepted or not c.leaves or len(c.attrs) != len(c.leaves):
            continue
        for l in c.leaves:
            a = c.attrs[l['idx']]
            if 'cb' not in a or 'cb' not in l:
                continue
            res.count('leaves_checked_for_their_callback')
            if int(a['cb']) != int(l['cb']):
                ncb += 1
                if ncb <= 4:
                    res.violation(None, '%s leaf %d (%s): the attribute %s a callback, the leaf the derive built %s' % (c.id, l['idx'], l['src'], 'declares' if int(a['cb']) else 'declares no', 'has one' if int(l['cb']) else 'has none'),
                                  dict(definition=c.source, definition_id=c.id, leaf=l['idx']))
    res.oblige(ncb == 0)
    # inline closures: the body that reaches the generated code is the body as written (everything after `|arg|`;
    # one braced block stands for its statements) - scanned independently and looked up in the emitted dispatch
    nbody = 0
    inl_files = build.repo_corpus_files() + front_files() + [os.path.join(VERIF, 'corpus', 'engine', f) for f in sorted(os.listdir(os.path.join(VERIF, 'corpus', 'engine'))) if f.endswith('.rs')]
    for c in build.capture_files(inl_files, 'c13-inline', gen=True):
        if c.panic is not None or not c.accepted or len(c.attrs) != len(c.leaves) or not os.path.exists(c.gen_path):
            continue
        gen = None
        for l in c.leaves:
            a = c.attrs[l['idx']]
            if 'cbbody' not in a:
                continue
            if gen is None:
                gen = open(c.gen_path).read().replace(' ', '').replace('\n', '')
            body = capmod.unhex(a['cbbody']).decode('utf8', 'replace')
            res.count('inline_closure_bodies_checked')
            if ('=lex;' + body + '}') not in gen:
                nbody += 1
                if nbody <= 4:
                    res.violation(None, '%s leaf %d (%s): the inline callback is written with the body `%s`, which is not the body of the callback in the generated code' % (c.id, l['idx'], l['src'], body),
                                  dict(definition=c.source, definition_id=c.id, leaf=l['idx'], expected_body=body))
    res.oblige(nbody == 0)
    rng = random.Random(seed() + 13)
    label, h, enums = sets[0]
    exe0, caps0 = h['tc']
    targets = [en for en in sorted(caps0) if any(v >= 10 for v in engine.behaviour_codes(caps0[en]) if v is not None)]
    res.count('callback_definitions', len(targets))
    kinds_seen = set()
    words = lambda: ''.join(rng.choice('abcdefghijkxyz') + ''.join(rng.choice('abcz') for _ in range(rng.randint(0, 3))) if rng.random() < 0.75
                            else (str(rng.randint(0, 999)) if rng.random() < 0.7 else rng.choice(['!', 'Q', 'zz', '\u00e9']))
                            for _ in range(1))
    nviol = 0
    for en in targets:
        c = caps0[en]
        codes = engine.behaviour_codes(c)
        src_nospace = (enums[en][1].source or '').replace(' ', '')
        has_errcb = 'error(' in src_nospace
        ps = ce.make_probes(c, rng, tier)
        for _ in range(150 if tier == 'quick' else 1500):
            n = rng.randint(1, 7)
            txt = ''
            for _ in range(n):
                txt += words() + (' ' if rng.random() < 0.6 else '')
            ps.append(txt.encode('utf8'))
        if c.utf8:
            ps = [p for p in ps if probes.is_utf8(p)]
        lines = engine.problem_header(c, with_dfa=False)
        allp = []
        for i, p in enumerate(ps):
            pid = '%s.%d' % (en, i)
            allp.append((pid, en, 0, p))
            lines.append('P %s 0 %d %s' % (pid, len(p), ' '.join(map(str, p))))
        model = engine.parse_model_output(engine.run_modeldrv(drv, [lines]))
        for fs in fss:
            real = engine.run_real(h[fs][0], allp)
            for pid, _, _, p in allp:
                (mi, mf), _ = model[pid]
                res.count('callback_probe_runs')
                for is_skip, rec in mi.regions:
                    if rec[1] is not None and codes[rec[1]] >= 10:
                        kinds_seen.add((codes[rec[1]], rec.k, is_skip, rec[0]))
                d = c13_compare(c, codes, has_errcb, real[pid], mi, mf, p, 'Default' if 'error' in src_nospace else '()')
                if d:
                    nviol += 1
                    if nviol <= 6:
                        res.violation(None, '%s/%s on %r: %s' % (en, fs, p, d),
                                      dict(definition=enums[en][1].source, enum=en, featureset=fs, input_hex=p.hex(), input=repr(p), observed=real[pid]['raw'][:600],
                                           model_regions=[(sk, tuple(rec), rec.custom, rec.k) for sk, rec in mi.regions], model_final=mf))
    res.oblige(nviol == 0)
    res.cov['distinct_(returntype,checksum,skipped,ok)_outcomes_exercised'] = len(kinds_seen)
    res.sample(dict(outcomes=sorted(kinds_seen)[:12]))
    res.cov['rule'] = ('compiled definitions with one callback per CallbackRetVal / SkipRetVal impl (14 + 4), any-token callbacks, an error callback, a bumping callback, str and byte sources; '
                       'callbacks decide by a checksum of the slice; compared per next(): result, chosen variant, error value (Default / Custom / from error callback with its span), span, and the log of callback invocations (count, observed span and slice)')
    res.trusted += ['Coq kernel', 'extraction + driver', 'harness + corpus callbacks (corpus/engine/callbacks_plain.rs) and the behaviour-code table lib/engine.py CB_CODES']
    res.assumptions += ASSUME_ENGINE + ['callbacks are modelled as an oracle (decision + bump amount) that is a pure function of the match; the documented table is Engine/Run.v `table` / Runtime/Callbacks.v `documented`']
    return res.finish('./vcheck C13 --tier ' + tier)


def invalid_utf8_witness(c):
    """Shortest byte string (from the DFA start) that is matched (or can be extended to a match)
    although it is not valid UTF-8 — the failing input for a str-mode definition that should have been rejected."""
    from collections import deque
    dfa = capmod.Dfa(c)
    rank = dfa.live_ranks()
    start = (dfa.start, capmod.U0)
    prev = {start: None}
    dq = deque([start])
    while dq:
        q, u = dq.popleft()
        for b in range(256):
            t = dfa.step(q, b)
            u2 = capmod.ustep(u, b)
            if t == 0:
                continue
            if u2 == capmod.UREJ:
                if t in rank or True:
                    # rebuild path, then extend to a match
                    path = [b]
                    cur = (q, u)
                    while prev[cur] is not None:
                        cur, bb = prev[cur]; path.append(bb)
                    pre = bytes(reversed(path))
                    # extend along live ranks to a match state
                    x = t; ext = b''
                    for _ in range(64):
                        if any(dfa.match(dfa.step(x, uu)) for uu in range(257)):
                            break
                        nxt = [(bb, dfa.step(x, bb)) for bb in range(256) if dfa.step(x, bb) in rank and rank[dfa.step(x, bb)] < rank.get(x, 1 << 30)]
                        if not nxt:
                            break
                        ext += bytes([nxt[0][0]]); x = nxt[0][1]
                    return pre + ext
            elif (t, u2) not in prev:
                prev[(t, u2)] = ((q, u), b); dq.append((t, u2))
    # a match that ends inside a character
    for (q, u), _ in list(prev.items()):
        if u != capmod.U0:
            for b in range(256):
                if capmod.ustep(u, b) != capmod.UREJ and dfa.match(dfa.step(q, b)):
                    path = []
                    cur = (q, u)
                    while prev[cur] is not None:
                        cur, bb = prev[cur]; path.append(bb)
                    return bytes(reversed(path))
    return None


def utf8_cert_stage(res, tier, prop, extra_files=()):
    """UTF-8 certificates on every accepted str-mode definition and on every subpattern of an accepted
    str-mode definition; byte-mode definitions are classified. Returns (failing str defs, drv, stats)."""
    drv = build.extraction_build()
    repo_caps, rand_caps = ce.corpora(tier, res)
    extra = build.capture_files(list(extra_files), prop + '-extra') if extra_files else []
    allcaps = [c for c in list(repo_caps) + list(rand_caps) + list(extra) if ce.usable(c)]
    construction = {} if prop == 'C01' else None
    ext = certs.extracted_certs(drv, allcaps, construction)
    if construction is not None:
        # the modelled construction (Engine/GraphBuild.v, theorem C01_maximal_munch_built) against the real Graph::new.
        # A second, certificate-free route to the same conclusion: a disagreement is reported in the evidence and the log;
        # the property is decided by the certificates below (a harmless rewrite of Graph::new must not raise an alarm).
        side = sum(1 for v in construction.values() if v and all(v[:5]))
        sim = sum(1 for v in construction.values() if v and v[5])
        full = sum(1 for v in construction.values() if v and len(v) >= 9 and v[6] and v[7])
        iso = sum(1 for v in construction.values() if v and len(v) >= 9 and v[7] and v[8])
        res.cov['graph_construction_model'] = dict(definitions=len(construction), side_conditions_hold=side, bisimilar_to_captured_graph=sim,
                                                   with_dedup_loop_bisimilar=full, with_dedup_loop_same_size_one_to_one=iso,
                                                   theorem='C01_maximal_munch_built / C01_full_construction_correct',
                                                   checker='extracted build_checked / dedup / gsim_ok')
        for k, v in construction.items():
            if not (v and all(v)):
                log('construction model: %s side=%s gsim=%s dedup=%s' % (k, v[:5] if v else None, v[5] if v else None, v[6:] if v else None))
    failing = []
    nstr = 0
    for c in allcaps:
        r = ext.get(c.id or c.name)
        if c.utf8:
            nstr += 1
            ok = bool(r and r[0] and r[1] and r[2] and r[5] and r[6])
            res.oblige(ok)
            if not ok:
                failing.append((c, [n for n, v in zip(CERT_NAMES, r or []) if not v]))
    res.count('str_mode_definitions_certified', nstr)
    res.count('byte_mode_definitions_seen', len(allcaps) - nstr)
    return failing, drv, allcaps, ext


def check_C04(tier):
    res = Result('C04', tier)
    framework(res, ['C04_match_ends_on_boundary', 'C04_bnd_is_char_boundary', 'C04_spans_on_boundaries', 'C04_fb_str_boundary', 'C04_emitted_spans_on_boundaries'])
    rej_file = os.path.join(VERIF, 'corpus', 'front', 'utf8_reject.rs')
    failing, drv, allcaps, ext = utf8_cert_stage(res, tier, 'C04', [rej_file])
    for c, names in failing[:6]:
        w = invalid_utf8_witness(c)
        replay = dict(definition=c.source, definition_id=c.id, file=c.file, failed_certificates=names)
        if w is not None and not probes.is_utf8(w):
            replay.update(input_hex=w.hex(), input=repr(w))
            res.violation(None, 'str-mode definition %s is accepted although its patterns match %r, which is not valid UTF-8' % (c.id, w), replay)
        else:
            replay['no_longer_checks'] = 'certificate(s) %s of C04_spans_on_boundaries for %s' % (names, c.id)
            res.violation(None, 'UTF-8 certificates %s fail for accepted str-mode definition %s' % (names, c.id), replay, found_input=False)
    # the curated must-reject definitions (patterns / subpatterns matching invalid UTF-8 in str mode)
    rejcaps = build.capture_files([rej_file], 'C04-extra')
    for c in rejcaps:
        ok = (c.panic is None and not c.accepted)
        res.oblige(ok)
        if not ok:
            res.violation(None, 'str-mode definition %s (a pattern or subpattern matches invalid UTF-8) is accepted' % c.id,
                          dict(definition=c.source, definition_id=c.id), found_input=True)
    # subpatterns of accepted str-mode definitions: each alone must only match valid UTF-8 (independent DFA)
    files = build.repo_corpus_files() + [rej_file] + [os.path.join(VERIF, 'corpus', 'engine', f) for f in sorted(os.listdir(os.path.join(VERIF, 'corpus', 'engine')))]
    subcaps = build.capture_subpatterns(files, 'C04')
    accepted_ids = set((c.id) for c in build.capture_files(files, 'C04-subowners') if c.accepted and c.utf8)
    jobs = []; owners = []
    for i, sc in enumerate(subcaps):
        owner = sc.id.split('__sub')[0]
        if owner not in accepted_ids or not sc.dfa or sc.dfa.get('start') is None:
            continue
        jobs.append(engine.dfa_header(sc) + ['CU s%d' % i]); owners.append((i, sc, owner))
    out = engine.parse_model_output(engine.run_modeldrv(drv, jobs)) if jobs else {}
    for i, sc, owner in owners:
        r = out.get('CU:s%d' % i)
        ok = bool(r and all(r))
        res.oblige(ok)
        res.count('subpatterns_certified')
        if not ok:
            w = invalid_utf8_witness(sc)
            res.violation(None, 'subpattern %s of accepted str-mode definition %s can match %r (not valid UTF-8)' % (sc.name, owner, w),
                          dict(subpattern=sc.source, owner=owner, input_hex=w.hex() if w else None), found_input=w is not None)
    # K2 on valid UTF-8 probes: spans/slices/remainder valid; forbid_unsafe build must not panic
    fss = ['tc', 'tcsafe']
    sets = ce.compiled_sets(tier, fss)
    mism = ce.run_k2(res, sets, fss, tier, modes=(0, 1), drv=drv)     # ordinary and partial lexers (error ends are rounded in both)
    enums_by_label = {label: enums for label, h, enums in sets}
    n = 0
    for label, fs, en, mode, p, tags, raw, mdl in mism:
        if not (tags & {'panic', 'slice'}):
            continue
        n += 1
        if n <= 5:
            res.violation(None, '%s/%s on %r: %s' % (en, fs, p, ','.join(sorted(tags))),
                          dict(definition=ce.enum_source(enums_by_label[label], en), enum=en, featureset=fs, input_hex=p.hex(), input=repr(p), observed=raw))
    res.oblige(n == 0)
    res.cov['rule'] = ('utf8_ok + utf8_strict_ok (complete exploration of DFA x UTF-8 automaton through a validated hint) on every accepted str-mode definition of the corpora and, independently compiled, on every subpattern of an accepted str-mode definition; '
                       'curated must-reject definitions; K2: every str probe (valid UTF-8 incl. 2/3/4-byte characters) checks slice()/remainder() against the source and the forbid_unsafe build for panics')
    res.assumptions += ASSUME_ENGINE + ['subpattern DFAs are built by tools/capture/src/subpat.rs with the same regex-automata configuration as Graph::new, inlining earlier subpatterns textually']
    # bumps into the middle of a code point must panic (debug and release): otherwise span(), slice(), remainder() split a character
    invalid_bump_stage(res, tier, 'C04', 'midchar')
    return res.finish('./vcheck C04 --tier ' + tier)


def check_C12(tier):
    res = Result('C12', tier)
    framework(res, ['C12_next_fb_independent', 'C12_inside_char_error', 'C12_streams_agree', 'C12_emitted_streams_agree', 'C04_match_ends_on_boundary'])
    rej_file = os.path.join(VERIF, 'corpus', 'front', 'utf8_reject.rs')
    failing, drv, allcaps, ext = utf8_cert_stage(res, tier, 'C12', [rej_file])
    for c, names in failing[:6]:
        res.violation(None, 'UTF-8 certificates %s fail for accepted str-mode definition %s' % (names, c.id),
                      dict(definition=c.source, definition_id=c.id, no_longer_checks='certificates %s (hypotheses of C12_inside_char_error) for %s' % (names, c.id)), found_input=False)
    # acceptance: a definition with a leaf that is not UTF-8-only must be rejected in str mode and accepted with utf8 = false
    rejcaps = build.capture_files([rej_file], 'C12-extra')
    d = cache_dir('gen', 'c12twin')
    twin = os.path.join(d, 'utf8_reject_b.rs')
    open(twin, 'w').write(open(rej_file).read().replace('#[derive(Logos)]', '#[derive(Logos)]\n#[logos(utf8 = false)]'))
    twincaps = {c.name: c for c in build.capture_files([twin], 'C12-twin')}
    for c in rejcaps:
        t = twincaps.get(c.name)
        ok = (not c.accepted) and t is not None and t.accepted
        res.oblige(ok)
        res.count('mode_acceptance_pairs')
        if not ok:
            res.violation(None, '%s: str mode %s, utf8 = false %s (expected rejected / accepted)' % (c.name, c.outcome, t.outcome if t else None),
                          dict(definition=c.source), found_input=True)
    # the graph captured for a definition and for its `utf8 = false` twin are equal; the compiled twins agree
    # default build and the forbid_unsafe build (the two source modes must agree in both)
    fss = ['tc', 'tcsafe']
    sets = ce.compiled_sets(tier, fss)
    rng = random.Random(seed() + 12)
    nbad = 0
    for label, h, enums in [(l_, {'tc': h_[f_]}, e_) for l_, h_, e_ in sets for f_ in fss]:
        exe, caps = h['tc']
        pairs = [(en, en + 'B') for en in sorted(caps) if en + 'B' in caps and ce.usable(caps[en]) and ce.usable(caps[en + 'B'])]
        runs = []
        meta = []
        for a, b in pairs:
            ca, cb = caps[a], caps[b]
            same = (ca.graph == cb.graph and ca.dfa == cb.dfa and [l['prio'] for l in ca.leaves] == [l['prio'] for l in cb.leaves])
            res.oblige(same); res.count('mode_twin_graphs_compared')
            if not same:
                res.violation(None, 'graph of %s differs between str mode and utf8 = false' % a, dict(definition=ce.enum_source(enums, a), no_longer_checks='K1 graph equality across modes for %s' % a), found_input=False)
            if None in engine.behaviour_codes(ca):
                continue
            ps = [p for p in ce.make_probes(ca, rng, tier) if probes.is_utf8(p)]
            for i, p in enumerate(ps):
                runs.append(('%s.%d.s' % (a, i), a, 0, p)); runs.append(('%s.%d.b' % (a, i), b, 0, p))
                meta.append((a, i, p))
        real = engine.run_real(exe, runs)
        for a, i, p in meta:
            rs, rb = real['%s.%d.s' % (a, i)], real['%s.%d.b' % (a, i)]
            res.count('mode_twin_runs')
            oks = [x for x in rs['items'] if x[0]]; okb = [x for x in rb['items'] if x[0]]
            cov = lambda r: set(j for x in r['items'] if not x[0] for j in range(x[2], x[3]))
            bad = None
            if rs['panic'] or rb['panic']:
                bad = 'panic'
            elif oks != okb:
                bad = 'Ok tokens differ: str %r bytes %r' % (oks[:4], okb[:4])
            elif cov(rs) != cov(rb):
                bad = 'bytes covered by errors differ: str %r bytes %r' % (sorted(cov(rs)), sorted(cov(rb)))
            if bad:
                nbad += 1
                if nbad <= 5:
                    res.violation(None, '%s on %r: %s' % (a, p, bad), dict(definition=ce.enum_source(enums, a), input_hex=p.hex(), input=repr(p), str_mode=rs['raw'][:300], byte_mode=rb['raw'][:300]))
    res.oblige(nbad == 0)
    # the two source kinds agree with the model on what a boundary is (Lexer::bump relies on it in both modes): K6b
    boundary_grid_stage(res, tier)
    res.cov['rule'] = ('every dual definition compiled in str mode and with utf8 = false: captured graphs equal; both run on every valid-UTF-8 probe: same Ok tokens and spans, same set of bytes covered by errors; '
                       'UTF-8 certificates incl. strictness on every accepted str-mode definition; acceptance pairs for patterns matching invalid UTF-8')
    res.assumptions += ASSUME_ENGINE + ['stream-level agreement is C12_streams_agree (model); the compiled twins are compared on the probes (K2)']
    return res.finish('./vcheck C12 --tier ' + tier)


def front_files():
    d = os.path.join(VERIF, 'corpus', 'front')
    return [os.path.join(d, f) for f in sorted(os.listdir(d)) if f.endswith('.rs')]


def all_caps_with_dfa(tier, res, extra_files=()):
    repo_caps, rand_caps = ce.corpora(tier, res)
    extra = build.capture_files(list(extra_files), 'front-extra') if extra_files else []
    return [c for c in list(repo_caps) + list(rand_caps) + list(extra) if c.panic is None and c.dfa and c.dfa.get('start') is not None and c.leaves]


def coq_default_prios(caps):
    """Documented default priority of every pattern leaf: Regex.Re.complexity of the captured HIR, by vm_compute."""
    import coqeval
    exprs = []; idx = []
    for c in caps:
        for l in c.leaves:
            if l['hir'] and l['hir'] != '-':
                exprs.append('[complexity %s]' % capmod.coq_re(capmod.parse_sexpr(l['hir'])))
                idx.append((id(c), l['idx']))
    vals = coqeval.coq_eval(exprs, 'From LogosV Require Import Regex.Re.', 'cplx8', shard=max(50, len(exprs) // 16 + 1)) if exprs else []
    return {k: v[0] for k, v in zip(idx, vals)}


def independent_prios(c, coq_defaults=None):
    """Leaf priorities as the attributes state them (independent attribute scan): the explicit priority = n, else
    2 x byte length for a literal token, else the documented default (Coq complexity of the HIR when given, else the
    derive's own default, which C09 checks against the Coq rule)."""
    if len(c.attrs) != len(c.leaves):
        return None
    out = []
    for l in c.leaves:
        a = c.attrs[l['idx']]
        ex = a.get('prio', '-')
        if ex.isdigit():
            out.append(int(ex))
        elif ex != '-' and c.accepted and 'prioval' in a:
            out.append(int(a['prioval']))     # an accepted non-plain literal means the value Rust gives it
        elif a.get('kind') == 'token' and a.get('lit') is not None:
            out.append(2 * (0 if a['lit'] == '-' else len(a['lit']) // 2))
        elif coq_defaults is not None and (id(c), l['idx']) in coq_defaults:
            out.append(coq_defaults[(id(c), l['idx'])])
        else:
            out.append(l['default_prio'])
    return out


def check_C08(tier):
    res = Result('C08', tier)
    framework(res, ['C08_tie_iff_shared', 'C08_no_silent_choice', 'C08_tie_has_ambiguous_string'])
    drv = build.extraction_build()
    caps = all_caps_with_dfa(tier, res, front_files())
    jobs = []
    cdef = coq_default_prios(caps)
    for i, c in enumerate(caps):
        dfa = capmod.Dfa(c)
        H = capmod.reach_hint(dfa)
        parts = ['RH', len(H)]
        for q, (p, u, n) in sorted(H.items()):
            parts += [q, p, u, n]
        jobs.append(engine.dfa_header(c, independent_prios(c, cdef)) + [' '.join(map(str, parts)), 'TI %d' % i])
    out = engine.parse_model_output(engine.run_modeldrv(drv, certs._batch(jobs)))
    ntie = 0; nacc = 0
    for i, c in enumerate(caps):
        r = out.get('TI:%d' % i)
        if r is None:
            raise RuntimeError('no TI result for %s' % c.id)
        reach, dfaok, tsets = r
        res.count('definitions_explored'); res.count('dfa_states_explored', len(c.dfa['states']))
        early = c.dfa.get('has_empty') or any(g[0] in ('nostart', 'empty') for g in c.gerrs)
        model = set(tuple(sorted(t)) for t in tsets)
        captured = set(tuple(sorted(g[1])) for g in c.gerrs if g[0] == 'disamb')
        conflict_msgs = [m for m in c.cerrs if 'can match simultaneously' in m]
        bad = None
        if not early:
            if model != captured:
                bad = 'conflicts computed from the raw DFA %s, reported by the derive %s' % (sorted(model), sorted(captured))
            elif model and c.accepted:
                bad = 'accepted although the DFA has tie states %s' % sorted(model)
            elif not model and conflict_msgs:
                bad = 'conflict diagnostics without any tie state'
            elif model:
                # every leaf of every conflict is named by a diagnostic
                named = ' '.join(conflict_msgs)
                for t in model:
                    for l in t:
                        if c.leaves[l]['src'] not in named:
                            bad = 'leaf %d (%s) of conflict %s is not named in the diagnostics' % (l, c.leaves[l]['src'], t)
                want = sum(len(g[1]) for g in c.gerrs if g[0] == 'disamb')
                if not bad and len(conflict_msgs) != want:
                    bad = '%d conflict diagnostics for conflicts %s' % (len(conflict_msgs), sorted(captured))
            if not reach:
                bad = (bad or '') + ' reachability hint rejected'
        res.oblige(bad is None)
        if model: ntie += 1
        if c.accepted: nacc += 1
        if bad:
            # witness: a string reaching a tie state
            dfa = capmod.Dfa(c); H = capmod.reach_hint(dfa)
            w = None
            for q in dfa.states:
                if dfa.win(q) == ('tie',) and (q in H):
                    path = []; cur = q
                    while cur in H:
                        p, u, n = H[cur]; path.append(u); cur = p
                    path.reverse()
                    w = bytes(x for x in path if x < 256); break
            res.violation(None, '%s: %s' % (c.id, bad), dict(definition=c.source, definition_id=c.id, file=c.file, ambiguous_input_hex=w.hex() if w is not None else None,
                                                               ambiguous_input=repr(w), derive_outcome=c.outcome, derive_conflicts=sorted(captured), dfa_conflicts=sorted(model)),
                          found_input=w is not None)
        elif model and len(res.samples) < 3:
            res.sample(dict(definition=c.id, conflicts=sorted(model), outcome=c.outcome))
    res.cov['definitions_with_conflicts'] = ntie
    res.cov['definitions_accepted'] = nacc
    res.cov['exhaustive'] = True
    res.cov['rule'] = ('every definition of the repo / front-end / seeded random corpora (40% of the random ones have free priorities and collide often): all states of the captured raw DFA are explored in Coq (extracted `ties`, printed by the hook without get_state_type); '
                       'compared with the GraphError::Disambiguation sets, the accept/reject outcome and the diagnostics; reachability of tie states validated (reach_ok)')
    res.trusted += ce.TRUSTED
    res.assumptions += ['"some string is fully matched by patterns" is read on the captured DFA (regex-automata determinisation modelled as data)',
                        'definitions rejected earlier for empty matches / missing universal start are outside the iff (they are rejected with another diagnostic)']
    return res.finish('./vcheck C08 --tier ' + tier)


HUGE_PATTERNS = [
    '(a{4294967295}){4294967295}', '((((a{1000000}){1000000}){1000000}){1000000}){1000000}',
    '(a{4294967295}){4294967295}(b{4294967295}){4294967295}', '(?:[a-z]{65536}){65536}{65536}{65536}',
    '((ab){4294967295}|c{5}){4294967295}{2}', '(a{4294967295}){4294967295}|b', 'x((a{4294967295}){4294967295})?',
    '(\\b{4294967295}){4294967295}', '(a{0}){4294967295}{4294967295}', '(a{4294967295}){0}',
    'a{1000}', '(?:ab){1000000}c{3}', '(a{3}){4}', '(a|bc){2,}d', '[a-z]{7}\\d{2}', 'a{4294967295}', '(a{65536}){65536}', '(a{65536}){65535}',
    '(?:é{3}){4}', '(?i:k){3}', 'a+$', '(a.*)+', '(.)*x', 'x.*?y', '(?s:.)+z',
    '(?:xyz|)[a-z]+', '[a-z][0-9]|[a-z][0-9][a-z]', '(|a)b', '(a||b)c', '(?:x|)[a-z][a-z]', 'ab|abc|abcd', '[α-ω]', 'é', '[α-ω][a-z]', 'λ[0-9]', '日本',
]


def pattern_stage(res, tier, prop):
    """K8 on pattern text: the real Pattern::compile + priority() + check_for_greedy_all() (hook pattern_info, no automaton is
    built) against Regex.Re.complexity_sat / Regex.Greedy.greedy of the HIR it produced, by vm_compute.  A panic of the real
    function is a violation (C19); counted repetitions whose product leaves usize are in the list."""
    import coqeval, frontgen as fg
    pats = list(HUGE_PATTERNS)
    rng = random.Random(seed() * 31 + 9)
    atoms = ['a', 'b', '[a-c]', '\\d', 'é', '(?:ab)', '\\b', '.', '(x|yz)']
    for _ in range(20 if tier == 'quick' else 200):
        p = ''
        for _ in range(rng.randint(1, 3)):
            a = rng.choice(atoms)
            for _ in range(rng.randint(0, 3)):
                a = '(%s){%d}' % (a, rng.choice([0, 1, 2, 7, 255, 65536, 1000000, 4294967295]))
            p += a
        pats.append(p)
    lines = ['p%d 1 0 %s' % (i, p.encode('utf8').hex()) for i, p in enumerate(pats)]
    real = fg.front_tool('pattern', lines)
    exprs = []; idx = []
    nbad = 0
    for i, p in enumerate(pats):
        r = real.get('p%d' % i, '')
        res.count('patterns_through_pattern_info')
        if r.startswith('PANIC') or not r:
            nbad += 1
            if nbad <= 4:
                res.violation(p.encode('utf8'), 'Pattern::compile / priority() %s on the pattern %r (library call, build with overflow checks)' % ('panics' if r else 'gave no answer', p),
                              dict(pattern=p, observed=r or 'no output', expected='a priority or an error message'))
            continue
        if not r.startswith('ok '):
            res.count('patterns_rejected_by_the_parser')
            continue
        _, prio, greedy, hir = r.split(' ', 3)
        re_ = capmod.coq_re(capmod.parse_sexpr(hir))
        exprs.append('[complexity_sat %s; (if lits_small %s then 1 else 0); (if greedy %s then 1 else 0)]' % (re_, re_, re_))
        idx.append((p, int(prio), int(greedy)))
    vals = coqeval.coq_eval(exprs, 'From LogosV Require Import Regex.Re Regex.Greedy.', 'patinfo', shard=max(50, len(exprs) // 8 + 1)) if exprs else []
    for (p, prio, greedy), v in zip(idx, vals):
        ok = (v[0] == prio and v[1] == 1 and v[2] == greedy)
        if not ok:
            nbad += 1
            if nbad <= 4:
                res.violation(p.encode('utf8'), 'pattern %r: Pattern::priority() = %d, greedy flag %d; model complexity_sat = %d, greedy = %d' % (p, prio, greedy, v[0], v[2]),
                              dict(pattern=p, observed='priority %d greedy %d' % (prio, greedy), expected='priority %d greedy %d' % (v[0], v[2])))
    res.oblige(nbad == 0)


def check_C09(tier):
    import coqeval
    res = Result('C09', tier)
    framework(res, ['C09_complexity_le_len', 'C09_literal_never_beaten', 'C09_rule_concat', 'C09_rule_alternation', 'C09_rule_repetition', 'C09_rule_assertion',
                    'C09_code_value_is_rule_saturated', 'C09_code_value_exact'])
    pattern_stage(res, tier, 'C09')
    repo_caps, rand_caps = ce.corpora(tier, res)
    extra = build.capture_files(front_files(), 'front-extra')
    caps = [c for c in list(repo_caps) + list(rand_caps) + list(extra) if c.panic is None and c.leaves]
    exprs = []; idx = []
    for c in caps:
        for l in c.leaves:
            if l['hir'] and l['hir'] != '-':
                exprs.append('[complexity_sat %s]' % capmod.coq_re(capmod.parse_sexpr(l['hir'])))
                idx.append((c, l))
    vals = coqeval.coq_eval(exprs, 'From LogosV Require Import Regex.Re.', 'cplx', shard=max(50, len(exprs) // 16 + 1))
    nbad = 0
    for (c, l), v in zip(idx, vals):
        res.count('leaves_checked')
        bad = None
        if v[0] != l['default_prio']:
            bad = 'Pattern::priority() = %d, documented rule (Coq complexity_sat of the captured HIR: the rule, cut off at usize::MAX) = %d' % (l['default_prio'], v[0])
        elif len(c.attrs) == len(c.leaves):
            a = c.attrs[l['idx']]
            if a.get('kind') == ('token' if l['lit'] else a.get('kind')) and 'lit' in a:
                explicit = a.get('prio', '-')
                if not explicit.isdigit() and explicit != '-' and c.accepted and 'prioval' in a:
                    explicit = a['prioval']
                litlen = 0 if a['lit'] == '-' else len(a['lit']) // 2
                expected = int(explicit) if explicit.isdigit() else (2 * litlen if a['kind'] == 'token' else v[0])
                res.count('leaf_priorities_checked_against_attribute')
                if l['prio'] != expected:
                    bad = 'leaf priority %d, expected %d (%s, explicit=%s)' % (l['prio'], expected, a['kind'], explicit)
        res.oblige(bad is None)
        if bad:
            nbad += 1
            if nbad <= 6:
                res.violation(None, '%s leaf %d %s: %s' % (c.id, l['idx'], l['src'], bad), dict(definition=c.source, definition_id=c.id, leaf=l['idx'], pattern=l['src'], hir=l['hir'][:300]))
    # end to end on accepted definitions: a literal token is never beaten on its own text by a default-priority regex
    nb = 0
    for c in caps:
        if not (c.accepted and c.dfa and c.dfa.get('start') is not None and len(c.attrs) == len(c.leaves)):
            continue
        dfa = capmod.Dfa(c)
        for l in c.leaves:
            a = c.attrs[l['idx']]
            if a.get('kind') != 'token' or a.get('icase') == '1' or a.get('lit') in (None, '-'):
                continue
            w = bytes.fromhex(a['lit'])
            q = dfa.start
            for b in w:
                q = dfa.step(q, b)
            for u in [256] + list(range(256)):
                ms = dfa.match(dfa.step(q, u))
                if l['idx'] in ms:
                    wn = dfa.win(dfa.step(q, u))
                    res.count('token_vs_regex_states')
                    if wn and wn[0] == 'tie' and l['prio'] == max(dfa.prio[m] for m in ms):
                        nb += 1
                        if nb <= 4:
                            res.violation(None, '%s: literal %r ties at the top priority on its own text, yet the derive accepted the definition (it neither wins nor is an ambiguity reported)' % (c.id, w),
                                          dict(definition=c.source, input_hex=w.hex(), token_leaf=l['idx'], matching_leaves=list(ms)))
                    if wn and wn[0] == 'one' and wn[1] != l['idx']:
                        other = c.leaves[wn[1]]; oa = c.attrs[wn[1]]
                        if oa.get('kind') != 'token' and oa.get('prio', '-') == '-' and a.get('prio', '-') == '-':
                            nb += 1
                            if nb <= 4:
                                res.violation(None, '%s: literal %r is beaten on its own text by default-priority regex %s' % (c.id, w, other['src']),
                                              dict(definition=c.source, input_hex=w.hex(), token_leaf=l['idx'], winner_leaf=wn[1]))
                    break
    res.oblige(nb == 0)
    res.cov['rule'] = ('every leaf of every definition of the corpora: Coq `complexity` of the HIR printed by the hook vs Pattern::priority(); leaf priority vs explicit priority / 2 x literal byte length '
                       '(attributes scanned independently by the capture tool); on accepted definitions every literal token is run through the captured DFA on its own text against default-priority regexes')
    res.trusted += ['Coq kernel + vm_compute', 'hook HIR printer (hir_sexpr) and lib/cap.py coq_re (Unicode classes truncated to 24 ranges: complexity does not depend on them)', 'tools/capture/src/attrs.rs attribute scan']
    res.assumptions += ['Matches treats look-arounds as the empty string (over-approximation, sound for the upper bound)', 'HIR construction is regex-syntax (modelled as data)']
    return res.finish('./vcheck C09 --tier ' + tier)


def bisim_stage(res, drv, pairs, what):
    """pairs: list of dict(tag, cap, leaf, ref(RefDfa-like with .states/.start), refleaf, describe, source).
    Python BFS finds a distinguishing input or a relation hint; the extracted Coq checker validates the hint."""
    import equiv
    jobs = []; pend = []
    nviol = 0
    for k, p in enumerate(pairs):
        d1 = capmod.Dfa(p['cap'])
        R, dist = equiv.product(d1, p['leaf'], p['ref'], p['refleaf'])
        res.count('language_equalities_checked')
        if dist is not None:
            res.oblige(False)
            nviol += 1
            if nviol <= 6:
                bs, u = dist
                q1 = d1.start; q2 = p['ref'].start
                for b in bs:
                    q1 = d1.step(q1, b); q2 = p['ref'].step(q2, b)
                m1 = p['leaf'] in d1.match(d1.step(q1, u)); m2 = p['refleaf'] in p['ref'].match(p['ref'].step(q2, u))
                res.violation(None, '%s: %s; text %r (followed by %s) is %s by the derive\'s automaton and %s by the reference' %
                              (p['tag'], p['describe'], bs, 'end of input' if u == 256 else 'byte 0x%02x' % u, 'matched' if m1 else 'not matched', 'matched' if m2 else 'not matched'),
                              dict(definition=p['source'], check=what, input_hex=bs.hex(), input=repr(bs), next_unit=u, derive_matches=m1, reference_matches=m2, reference=p['describe']))
            continue
        jobs.append(engine.dfa_header(p['cap']) + equiv.d2_lines(p['ref']) + [equiv.br_line(R), 'BS b%d %d %d' % (k, p['leaf'], p['refleaf'])])
        pend.append((k, p))
    out = engine.run_modeldrv(drv, certs._batch(jobs)) if jobs else []
    ok = {}
    for ln in out:
        if ln.startswith('BS '):
            _, t, v = ln.split()
            ok[t] = v == '1'
    for k, p in pend:
        good = ok.get('b%d' % k, False)
        res.oblige(good)
        if not good:
            res.violation(None, '%s: certificate bisim_ok rejected (%s)' % (p['tag'], p['describe']),
                          dict(definition=p['source'], no_longer_checks='bisim_ok certificate for %s' % p['tag']), found_input=False)
    return nviol


def check_C10(tier):
    import coqeval, equiv, frontgen as fg
    res = Result('C10', tier)
    framework(res, ['C10_escape_str_roundtrip', 'C10_escape_bytes_roundtrip', 'C10_bisim_sound'])
    drv = build.extraction_build()
    rng = random.Random(seed() * 31 + 10)
    n = 60 if tier == 'quick' else 600
    defs = []   # (name, source, kind, info)
    fixed = ['mask', 'k', 's', 'KS', 'Kelvin', 'ſ', 'K', 'ß', 'ǆ', 'σς', 'i', 'I', 'İ', 'a.b', '(x)', 'a|b', '[k]', 'k+', 's*', '\\', '^$', '{2}', '-~', '#&',
             '<>', '=>', 'br>', '</a', 'a<b', '!"%', "',/", ':;@', '_`=', 'b<', 'B>z',
             '\u01c5-1', '\u01c5', '\u01c8_', '\u1f88',
             '\u03c0', '\u03c1', '\u0570\u0561\u0575', '\u24d0', '\u03b8', '\u03c6']          # titlecase letters: neither lower nor upper case, yet they fold
    for i in range(n):
        lit = fixed[i] if i < len(fixed) else fg.random_literal(rng)
        defs.append(('TokS%d' % i, '#[derive(Logos)] enum TokS%d { #[token(%s)] A, #[regex("[0-9]+")] N }' % (i, fg.rust_str_lit(lit)), 'tok', dict(lit=lit.encode('utf8'), bytes=False)))
        defs.append(('TokSI%d' % i, '#[derive(Logos)] enum TokSI%d { #[token(%s, ignore(case))] A, #[regex("[0-9]+")] N }' % (i, fg.rust_str_lit(lit)), 'toki', dict(lit=lit, bytes=False)))
        bl = fixed[i].encode('utf8') if i < len(fixed) else fg.random_byte_literal(rng)
        defs.append(('TokB%d' % i, '#[derive(Logos)] #[logos(utf8 = false)] enum TokB%d { #[token(%s)] A, #[regex("[0-9]+")] N }' % (i, fg.rust_bytes_lit(bl)), 'tok', dict(lit=bl, bytes=True)))
        defs.append(('TokBI%d' % i, '#[derive(Logos)] #[logos(utf8 = false)] enum TokBI%d { #[token(%s, ignore(case))] A, #[regex("[0-9]+")] N }' % (i, fg.rust_bytes_lit(bl)), 'toki', dict(lit=bl, bytes=True)))
    pats = ['[a-c]+x', 'ab|cd', 'k[a-z]?', 'é+', 'straße', '[^a-y]z', 'a{2,3}b', 'sS', '(?-i:a)b', 'ǆ', '[k-m]+',
            '[0-_]+', '[:-\\[]+', '[@-\\[]1', '\u01c5+', '[!-~]2']      # no cased character in the source text, yet (?i) changes the language
    for i, pat in enumerate(pats):
        defs.append(('RegI%d' % i, '#[derive(Logos)] enum RegI%d { #[regex(%s, ignore(case))] A, #[token("0")] Z }' % (i, fg.rust_str_lit(pat)), 'regi', dict(pat=pat)))
        defs.append(('SkipI%d' % i, '#[derive(Logos)] #[logos(skip(%s, ignore(case)))] enum SkipI%d { #[token("0")] Z }' % (fg.rust_str_lit(pat), i), 'skipi', dict(pat=pat)))
    # ignore(case) also covers the text that comes from a subpattern
    for i, (sub, body, pat, inl) in enumerate([('xd', '[0-9a-f]', '0x(?&xd)+', '0x(?u:[0-9a-f])+'), ('kw', 'select|from', '(?&kw) ', '(?u:select|from) '),
                                               ('u', 'kb|mb', '[0-9]+(?&u)', '[0-9]+(?u:kb|mb)'),
                                               ('kw2', 'select|from', '(?&kw2)', '(?u:select|from)'), ('hx', '[0-9a-f]+h', '(?&hx)', '(?u:[0-9a-f]+h)')]):
        defs.append(('RegSub%d' % i, '#[derive(Logos)] #[logos(subpattern %s = %s)] enum RegSub%d { #[regex(%s, ignore(case))] A, #[token("~")] Z }'
                     % (sub, fg.rust_str_lit(body), i, fg.rust_str_lit(pat)), 'regi', dict(pat=inl)))
        defs.append(('SkipSub%d' % i, '#[derive(Logos)] #[logos(subpattern %s = %s)] #[logos(skip(%s, ignore(case)))] enum SkipSub%d { #[token("~")] Z }'
                     % (sub, fg.rust_str_lit(body), fg.rust_str_lit(pat), i), 'skipi', dict(pat=inl)))
    for i in range(6):
        lit = ''.join(rng.choice('abckKzs ') for _ in range(rng.randint(1, 3)))
        defs.append(('SkipLI%d' % i, '#[derive(Logos)] #[logos(skip(%s, ignore(case)))] enum SkipLI%d { #[token("0")] Z }' % (fg.rust_str_lit(fg.regex_escape(lit)), i), 'skipi', dict(pat=fg.regex_escape(lit))))
    d = cache_dir('gen', 'c10-%d-%d' % (seed(), n))
    src = os.path.join(d, 'c10.rs')
    open(src, 'w').write('\n'.join(x[1] for x in defs) + '\n')
    caps = {c.name: c for c in build.capture_files([src], 'c10-%d-%d' % (seed(), n))}
    # references built without logos
    specs = []
    for name, source, kind, info in defs:
        c = caps.get(name)
        if c is None:
            continue
        if kind == 'toki':
            if info['bytes']:
                specs.append((name, 0, 0, 0, '(?i-u:' + fg.regex_escape_bytes(info['lit']) + ')'))
            else:
                specs.append((name, 1, 1, 0, '(?i:' + fg.regex_escape(info['lit']) + ')'))
        elif kind in ('regi', 'skipi'):
            specs.append((name, 1, 1, 0, '(?i:' + info['pat'] + ')'))
    refs = fg.refdfas(specs, 'c10')
    pairs = []
    for name, source, kind, info in defs:
        c = caps.get(name)
        if c is None or c.panic is not None:
            res.violation(None, '%s: no capture / panic' % name, dict(definition=source), found_input=False); continue
        res.count('generated_definitions')
        if not (c.dfa and c.dfa.get('start') is not None) or not c.leaves:
            # a literal that the derive rejects outright is a violation only for plain tokens
            if kind == 'tok':
                res.violation(None, '%s: literal token rejected: %s' % (name, c.cerrs[:1]), dict(definition=source))
            continue
        if kind == 'tok':
            ref = equiv.chain_dfa(info['lit'])
            pairs.append(dict(tag=name, cap=c, leaf=0, ref=ref, refleaf=0, source=source, describe='#[token] must match exactly the bytes %r' % info['lit']))
        else:
            rc = refs.get(name)
            if rc is None or not rc.dfa or rc.dfa.get('start') is None:
                continue
            ref = equiv.RefDfa(rc.dfa['states'], rc.dfa['start'])
            leaf = 0
            pairs.append(dict(tag=name, cap=c, leaf=leaf, ref=ref, refleaf=0, source=source, describe='ignore(case) must denote the regex crate\'s %s' % [sp for sp in specs if sp[0] == name][0][4]))
    # nothing else changes: the companion leaf of TokS<i> and TokSI<i> has the same language
    for i in range(n):
        a, b = caps.get('TokS%d' % i), caps.get('TokSI%d' % i)
        if a and b and a.dfa and b.dfa and a.dfa.get('start') is not None and b.dfa.get('start') is not None and len(a.leaves) == 2 and len(b.leaves) == 2:
            pairs.append(dict(tag='TokSI%d-companion' % i, cap=b, leaf=1, ref=equiv.RefDfa(a.dfa['states'], a.dfa['start']), refleaf=1, source=b.source,
                              describe='ignore(case) on one token must not change the other pattern'))
    bisim_stage(res, drv, pairs, 'C10')
    # the code emitted for the generated definitions is the program of their graphs (translator K12 + prog_ok): the byte
    # tests rendered for case-folded classes (pairs of bytes, ranges with holes) accept exactly the bytes of the class
    emitted_stage(res, tier, 'C10', None, report_shape=True, only_groups=[('c10gen-%d-%d' % (seed(), n), [src])])
    # nothing else changes: ignore(case) leaves the priorities of both leaves as they are (2 x byte length for the token)
    nprio = 0
    for i in range(n):
        for sfx, isb in (('S', False), ('B', True)):
            a, b = caps.get('Tok%s%d' % (sfx, i)), caps.get('Tok%sI%d' % (sfx, i))
            if not (a and b and len(a.leaves) == 2 and len(b.leaves) == 2):
                continue
            res.count('ignore_case_priority_pairs')
            pa, pb = [l['prio'] for l in a.leaves], [l['prio'] for l in b.leaves]
            if pa != pb:
                nprio += 1
                if nprio <= 4:
                    res.violation(None, 'ignore(case) changes a priority: %s has leaf priorities %r, %s has %r' % (a.name, pa, b.name, pb), dict(definition=b.source, canonical_definition=a.source))
    res.oblige(nprio == 0)
    # K8: Literal::escape(true) of the real code vs the Coq model, on the generated literals
    lines = []; exprs = []; lits = []
    for name, source, kind, info in defs:
        if kind in ('tok', 'toki') and 'lit' in info:
            if info['bytes']:
                tok = fg.rust_bytes_lit(info['lit']); bs = info['lit']; fn = 'escape_bytes'
            else:
                lit = info['lit'] if isinstance(info['lit'], str) else info['lit'].decode('utf8')
                tok = fg.rust_str_lit(lit); bs = lit.encode('utf8'); fn = 'escape_str'
            lines.append('%s %s 1' % (name, tok.encode('utf8').hex())); lits.append((name, bs, fn))
            exprs.append('%s %s' % (fn, coqeval.nlist(bs)))
    real = fg.front_tool('escape', lines)
    model = coqeval.coq_eval(exprs, 'From LogosV Require Import Front.Escape.', 'esc')
    nb = 0
    for (name, bs, fn), m in zip(lits, model):
        r = real.get(name, '')
        exp = 'ok ' + (bytes(m).hex() or '-')
        res.count('escape_cases')
        if r != exp:
            nb += 1
            if nb <= 4:
                res.violation(None, 'Literal::escape(true) of %r: real %s, model %s' % (bs, r, exp), dict(literal_hex=bs.hex(), kind=fn, observed=r, expected=exp,
                                                                                                        no_longer_checks='correspondence K8 Literal::escape vs Front.Escape.%s' % fn), found_input=False)
    res.oblige(nb == 0)
    res.cov['rule'] = ('seeded literals over every regex metacharacter, cased ASCII, characters with non-trivial simple case folding (K sign, long s, sigma, dz digraph, dotted/dotless i), 3- and 4-byte characters, and for byte strings all of 0x80..0xFF: '
                       'plain #[token] vs the chain automaton of its bytes; ignore(case) on token / regex / skip vs the DFA regex-automata builds for (?i:escaped) without any logos code; companion leaf unchanged; '
                       'Literal::escape vs Front.Escape by vm_compute')
    res.trusted += ce.TRUSTED + ['tools/capture refdfa (reference DFAs: regex-syntax + regex-automata only)', 'lib/frontgen.py regex_escape (independent escape for the reference pattern)']
    res.assumptions += ['Unicode simple case folding tables and the regex grammar are regex-syntax data (not modelled); only Logos glue is proved, the composition is decided per generated case by bisim_ok']
    return res.finish('./vcheck C10 --tier ' + tier)


def py_inline(subdefs, pattern):
    """Independent inliner: subdefs [(name, src, unicode)] in order; returns pattern with every (?&name)
    replaced by a non-capturing group holding the (already inlined) subpattern source with its own unicode flag.
    None when a name is undefined at its point of use."""
    import re as _re
    env = {}
    ok = True

    def expand(text):
        nonlocal ok
        def rep(m):
            nonlocal ok
            if m.group(1) not in env:
                ok = False
                return ''
            return env[m.group(1)]
        return _re.sub(r'\(\?&([0-9a-zA-Z_]+)\)', rep, text)
    for name, src, uni in subdefs:
        ok = True
        t = expand(src)
        if ok:
            env[name] = '(?%s:%s)' % ('u' if uni else '-u', t)
    ok = True
    out = expand(pattern)
    return out if ok else None


C11_CASES = [
    # (subpatterns [(name, src, is_str)], [patterns])
    ([('alt', 'a|b', True)], ['(?&alt)c', 'x(?&alt)', '(?&alt)+', 'x(?&alt)y', '((?&alt)c)+d']),
    ([('ci', '(?i)x', True)], ['(?&ci)y', 'y(?&ci)', '(?&ci)(?&ci)z']),
    ([('dot', '(?s).', True)], ['a(?&dot)b', '(?&dot)\\n']),
    ([('d', '[0-9]', True), ('dd', '(?&d)(?&d)', True), ('date', '(?&dd)-(?&dd)', True)], ['(?&date)', 'on (?&date)!', '(?&d)+x', '(?&dd)|(?&d)a']),
    ([('lazy', 'a+?', True)], ['(?&lazy)b', '(?&lazy)']),
    ([('anch', 'a$', True)], ['(?&anch)', 'b(?&anch)']),
    ([('grk', '\\p{Greek}+', True)], ['(?&grk)!', '<(?&grk)>']),
    ([('x_1', 'q', True), ('X1', 'r', True)], ['(?&x_1)(?&X1)', '(?&X1)|(?&x_1)s']),
    ([('emp', 'a?', True)], ['b(?&emp)c']),
    ([('cls', '[a-c&&[^b]]', True)], ['(?&cls)+d']),
]
C11_BYTE_CASES = [
    ([('hi', b'[\x80-\xff]', False)], ['a(?&hi)', '(?&hi)+z']),
    ([('b1', b'\xce', False), ('b2', b'(?&b1)\xbb', False)], ['(?&b2)x']),
    ([('mix', 'é', True), ('raw', b'\xc3', False)], ['(?&mix)a', '(?&raw)\\xa9']),
]
# str-literal subpatterns keep their own Unicode mode in a byte-mode definition
C11_BYTE_UNICODE_CASES = [
    ([('word', '\\w+', True)], ['(?&word)', '=(?&word)']),
    ([('any', '.', True)], ['<(?&any)>']),
    ([('notq', '[^q]', True)], ['x(?&notq)y']),
    ([('dig', '\\d', True), ('dd', '(?&dig)(?&dig)', True)], ['#(?&dd)']),
    ([('sp', '\\s+', True)], ['a(?&sp)b']),
]
C11_UNDEFINED = [
    ([('a', 'x', True)], '(?&b)'),
    ([('a', '(?&later)', True), ('later', 'y', True)], '(?&a)'),
    ([], '(?&nothing)z'),
    ([('a', 'x', True)], 'q(?&a)(?&A)'),
]


def check_C11(tier):
    import coqeval, equiv, frontgen as fg
    res = Result('C11', tier)
    framework(res, ['C11_subst_group_free', 'C11_subst_prefix_copied', 'C11_subst_at_group', 'C11_subst_undefined', 'C11_bisim_sound'])
    drv = build.extraction_build()
    rng = random.Random(seed() * 37 + 11)
    cases = []
    for subs, pats in C11_CASES:
        for p in pats:
            cases.append((subs, p, True))
    for subs, pats in C11_BYTE_CASES + C11_BYTE_UNICODE_CASES:
        for p in pats:
            cases.append((subs, p, False))
    # the same references from a byte-string regex literal: the str subpattern keeps (?u:..) there too
    bytes_regex_cases = set()
    for subs, pats in C11_BYTE_UNICODE_CASES + C11_BYTE_CASES[2:]:
        for p in pats:
            bytes_regex_cases.add(len(cases))
            cases.append((subs, p, False))
    for body in ['[0-9]', '[a-f]', 'q|r', 'é', '[0-9]']:
        cases.append(([('d', body, True)], '(?&d)+x', True))
        cases.append(([('d', body, True), ('dd', '(?&d)(?&d)', True)], '(?&dd)y', True))
    # random combinations of references inside small contexts
    ctxs = ['%s', 'a%sb', '(%s)+', '%s|z', 'x(%s|y)', '%s%s',
            # multi-byte characters in the referencing pattern and a short tail after the last reference (byte vs char offsets)
            'é%s+', '€%s*', 'éé%s?', '日%sx', '😀%s+', 'é%sé', '%sé+']
    nrand = 20 if tier == 'quick' else 200
    for k_ in range(nrand + 7):
        subs, pats = rng.choice(C11_CASES)
        refs = ['(?&%s)' % n for n, _, _ in subs]
        ctx = ctxs[6 + k_ - nrand] if k_ >= nrand else rng.choice(ctxs)
        p = ctx % tuple(rng.choice(refs) for _ in range(ctx.count('%s')))
        cases.append((subs, p, True))
    # the referencing attribute's own arguments (ignore(case), priority, callback) apply to the inlined pattern as a whole:
    # lone references, references in context, chains
    # flags in force at the reference (verbose mode) apply to the included text exactly as they would to the inlined group
    for subs, pats in [([('ws', 'a b', True)], ['(?x)(?&ws) c', '(?x: (?&ws) ) d', '(?&ws)c']), ([('h', 'a#b', True)], ['(?x)(?&h)c']),
                       ([('sp', 'x y', True), ('spp', '(?&sp) z', True)], ['(?x)(?&spp)!', '(?&spp)!'])]:
        for p in pats:
            cases.append((subs, p, True))
    # a later subpattern may use any earlier one, whatever their names are
    for subs, pats in [([('alpha', '[a-zA-Z]', True), ('digit', '[0-9]', True), ('alphanum', '(?&alpha)|(?&digit)', True)], ['(?&alphanum)+', '(?&digit)(?&alphanum)']),
                       ([('z', 'x', True), ('m', '(?&z)y', True), ('a', '(?&m)(?&z)', True)], ['(?&a)!', '(?&m)?(?&a)'])]:
        for p in pats:
            cases.append((subs, p, True))
    icase_cases = set()
    for subs, pats in [([('kw', 'select|from', True)], ['(?&kw)', '(?&kw)+', 'x(?&kw)', '(?&kw)|to']),
                       ([('h', '[a-f]', True), ('hh', '(?&h)(?&h)', True)], ['(?&hh)', '(?&h)', '0x(?&hh)+', '(?&h)(?&hh)']),
                       ([('w', '(?i:ab)c', True)], ['(?&w)', '(?&w)d']),
                       ([('g', 'straße|é', True)], ['(?&g)', '(?&g)x'])]:
        for p in pats:
            icase_cases.add(len(cases))
            cases.append((subs, p, True))
    defs = []
    for i, (subs, pat, strmode) in enumerate(cases):
        attrs = ''.join('#[logos(subpattern %s = %s)] ' % (n, fg.rust_str_lit(s) if isinstance(s, str) else fg.rust_bytes_lit(s)) for n, s, _ in subs)
        mode = '' if strmode else '#[logos(utf8 = false)] '
        isb = i in bytes_regex_cases
        lit = ('b' + fg.rust_str_lit(pat)) if isb else fg.rust_str_lit(pat)
        extra = ', ignore(case), priority = 9' if i in icase_cases else ''
        defs.append(('Sp%d' % i, '#[derive(Logos)] %s%senum Sp%d { #[regex(%s%s)] A, #[token("0")] Z }' % (mode, attrs, i, lit, extra), subs, pat, strmode, isb))
    und = []
    for i, (subs, pat) in enumerate(C11_UNDEFINED):
        attrs = ''.join('#[logos(subpattern %s = %s)] ' % (n, fg.rust_str_lit(s)) for n, s, _ in subs)
        und.append(('Und%d' % i, '#[derive(Logos)] %senum Und%d { #[regex(%s)] A }' % (attrs, i, fg.rust_str_lit(pat))))
    d = cache_dir('gen', 'c11-%d-%s' % (seed(), tier))
    src = os.path.join(d, 'c11.rs')
    open(src, 'w').write('\n'.join([x[1] for x in defs] + [x[1] for x in und]) + '\n')
    caps = {c.name: c for c in build.capture_files([src], 'c11-%d-%s' % (seed(), tier))}
    specs = []
    for name, source, subs, pat, strmode, isb in defs:
        tosrc = lambda s: s if isinstance(s, str) else fg.regex_escape_bytes(s).replace('\\\\x', '\\x') if False else (s if isinstance(s, str) else ''.join(chr(b) if b <= 127 else '\\x%02X' % b for b in s))
        inl = py_inline([(n, tosrc(s), u) for n, s, u in subs], pat)
        if inl is not None:
            specs.append((name, 1 if strmode else 0, 0 if isb else 1, 1 if int(name[2:]) in icase_cases else 0, inl))
    refs = fg.refdfas(specs, 'c11')
    pairs = []
    for name, source, subs, pat, strmode, isb in defs:
        c = caps.get(name)
        res.count('generated_definitions')
        if c is None or c.panic is not None:
            res.violation(None, '%s: no capture / panic' % name, dict(definition=source), found_input=False); continue
        rc = refs.get(name)
        ref_ok = rc is not None and rc.dfa and rc.dfa.get('start') is not None and rc.outcome == 'accepted'
        if not (c.dfa and c.dfa.get('start') is not None and c.leaves):
            # rejected by the derive: fine only if the reference cannot be built either, or for a reason outside C11 (empty match, utf8)
            other = any(('empty string' in m or 'UTF-8' in m or 'greedy' in m) for m in c.cerrs)
            if ref_ok and not other:
                res.violation(None, '%s: rejected (%s) although the inlined pattern %r is a valid regex' % (name, c.cerrs[:1], [sp for sp in specs if sp[0] == name][0][4]), dict(definition=source))
            continue
        if not ref_ok:
            continue
        inl = [sp for sp in specs if sp[0] == name][0][4]
        pairs.append(dict(tag=name, cap=c, leaf=0, ref=equiv.RefDfa(rc.dfa['states'], rc.dfa['start']), refleaf=0, source=source,
                          describe='pattern %r with subpatterns must denote the inlined pattern %r' % (pat, inl)))
    bisim_stage(res, drv, pairs, 'C11')
    for name, source in und:
        c = caps.get(name)
        ok = c is not None and c.panic is None and not c.accepted and any('not found' in m for m in c.cerrs)
        res.oblige(ok); res.count('undefined_reference_cases')
        if not ok:
            res.violation(None, '%s: reference to an undefined subpattern is not reported (outcome %s, %s)' % (name, c.outcome if c else None, c.cerrs[:2] if c else None), dict(definition=source))
    # K8: the real Subpatterns::new + subst_subpatterns vs Front.Subpat (vm_compute)
    lines = []; exprs = []; meta = []
    allcases = [(subs, pat, sm) for _, _, subs, pat, sm, _ in defs] + [(subs, pat, True) for subs, pat in C11_UNDEFINED]
    for i, (subs, pat, strmode) in enumerate(allcases):
        parts = ['k%d' % i, '1' if strmode else '0', pat.encode('utf8').hex()]
        cd = []
        for n, s, u in subs:
            tok = fg.rust_str_lit(s) if isinstance(s, str) else fg.rust_bytes_lit(s)
            parts += [n, tok.encode('utf8').hex()]
            srcb = s.encode('utf8') if isinstance(s, str) else ''.join(chr(b) if b <= 127 else '\\x%02X' % b for b in s).encode('utf8')
            cd.append('(%s, %s, %s)' % (coqeval.nlist(n.encode()), 'true' if u else 'false', coqeval.nlist(srcb)))
        lines.append(' '.join(parts))
        pb = pat.encode('utf8')
        exprs.append('match subst %d (build_env [%s] []) %s with Some t => 1 :: t | None => [0] end' % (len(pb) + 1, ';'.join(cd), coqeval.nlist(pb)))
        meta.append((subs, pat))
    real = fg.front_tool('subst', lines)
    model = coqeval.coq_eval(exprs, 'From LogosV Require Import Front.Subpat.', 'subst')
    nb = 0
    for i, ((subs, pat), m) in enumerate(zip(meta, model)):
        r = real.get('k%d' % i, '')
        exp = 'none -' if m[0] == 0 else 'some ' + (bytes(m[1:]).hex() or '-')
        res.count('subst_cases')
        if not r.startswith(exp):
            nb += 1
            if nb <= 4:
                res.violation(None, 'subst_subpatterns(%r) with %r: real %s, model %s' % (pat, subs, r, exp),
                              dict(pattern=pat, subpatterns=repr(subs), observed=r, expected=exp, no_longer_checks='correspondence K8 subst_subpatterns vs Front.Subpat.subst'), found_input=False)
    res.oblige(nb == 0)
    res.cov['rule'] = ('subpatterns with top-level alternation, inline flags, lazy repetition, end assertion, Unicode class, byte-string subpatterns, chains three deep, references at start / middle / end / under repetition, '
                       'random combinations: captured leaf DFA vs the DFA regex-automata builds for the pattern inlined by an independent inliner (lib/checks.py py_inline); undefined references must be compile errors; '
                       'subst_subpatterns vs Front.Subpat by vm_compute')
    res.trusted += ce.TRUSTED + ['tools/capture refdfa', 'lib/checks.py py_inline (the specification of textual inclusion)']
    res.assumptions += ['that (?u:a|b)c groups as intended is regex-syntax grammar, exercised through bisim_ok, not proved']
    return res.finish('./vcheck C11 --tier ' + tier)


def check_C18(tier):
    import coqeval, frontgen as fg, itertools
    res = Result('C18', tier)
    framework(res, ['C18_parse_join_items', 'C18_named_args_commute', 'C18_old_refuted', 'C18_generic_items_commute', 'C18_type_lifetime_swap', 'C18_old_generic_items_refuted', 'C18_reordered_leaves_agree'])
    rng = random.Random(seed() * 41 + 18)
    # ---- K8: the real tokenizer vs Front.AttrParser on generated attribute contents
    named = ['priority = 3', 'priority = 12', 'callback = my_cb', 'callback = |lex| lex.slice().len()', 'ignore(case)', 'allow_greedy = true',
             'allow_greedy = false', 'callback = path::to::cb', 'priority = 0x10', 'ignore(case, case)', 'unknown = 1', 'skip "x"', 'subpattern d = r"[0-9]"',
             'type T = u32', 'extras = Vec<(u8, u8)>', 'error = MyErr', 'error(MyErr, my_cb)', 'utf8 = false', 'crate = ::logos', 'skip(" ", priority = 2)',
             'export_dir = "d"', 'lifetime = \'a', 'callback = |lex| lex.slice().len() < 3', 'callback = |lex| lex.extras << 1', 'callback = |l| l.slice().len() <= 2',
             'callback = |l| if l.slice().len() > 1 { 1 } else { 2 }', 'callback = |l| l.slice().parse::<u8>()', 'extras = HashMap<u8, Vec<u8>>', 'callback = |l| a < b && c > d',
             'callback = |l| -> u8 { 1 }', 'callback = |l| match l { _ => 1 }', 'priority = 1 < 2']
    positional = ['my_cb', 'logos::skip', '|lex| lex.slice().parse()', '|lex| { foo(lex, 1, 2) }', '"lit"', 'b"\\xFF"', '|_| ()', 'a . b', '= 3', 'x y z', 'x y = 1',
                  '|lex| lex.slice().len() < 3', '|lex| lex.extras << 2', '|l| l.slice().parse::<u8>().ok()', '|l| a > b']
    texts = []
    for a in named + positional:
        texts.append(a)
    for _ in range(150 if tier == 'quick' else 1500):
        k = rng.randint(2, 5)
        items = [rng.choice(named + positional) if rng.random() < 0.85 else rng.choice(['', ',', 'x,', '= =', '(a, b)']) for _ in range(k)]
        texts.append(', '.join(items) + (',' if rng.random() < 0.1 else ''))
    lines = ['a%d %s' % (i, t.encode('utf8').hex() or '-') for i, t in enumerate(texts)]
    real = fg.front_tool('attr', lines)
    exprs = []; exp_real = []; keep = []
    for i, t in enumerate(texts):
        r = real.get('a%d' % i)
        if r is None or r == 'PANIC':
            res.violation(None, 'attribute tokenizer panicked / no result on %r' % t, dict(attribute=t), found_input=True); continue
        parts = r.split(' ')
        canon = bytes.fromhex(parts[0]).decode() if parts[0] != '-' else ''
        items = [bytes.fromhex(x).decode() for x in parts[1:] if x]
        toks = fg.parse_canon(canon)
        exprs.append('run_parse [%s]' % ';'.join(fg.coq_tok(x) for x in toks))
        enc = []
        for it in items:
            enc += fg.enc_item_text(it)
        exp_real.append(enc); keep.append(t)
    model = coqeval.coq_eval(exprs, 'From LogosV Require Import Front.AttrParser.', 'attr')
    nb = 0
    for t, m, e in zip(keep, model, exp_real):
        res.count('tokenizer_cases')
        if m != e:
            nb += 1
            if nb <= 4:
                res.violation(None, 'attribute %r: real tokenizer and Front.AttrParser differ' % t, dict(attribute=t, real_encoded=e, model_encoded=m,
                              no_longer_checks='correspondence K8 AttributeParser vs Front.AttrParser.parse_all'), found_input=False)
    res.oblige(nb == 0)
    # ---- end to end: every order of the named arguments gives the same outcome and the same generated code
    args = {'priority': 'priority = 7', 'callback': 'callback = cb', 'ignore': 'ignore(case)', 'allow_greedy': 'allow_greedy = true'}
    args_lt = dict(args, callback='callback = |lex| lex.slice().len() < 3')
    defs = []
    kinds = [('token', '"ab"', ['priority', 'callback', 'ignore']), ('regex', '"a[b-d]+.*"', ['priority', 'callback', 'ignore', 'allow_greedy']),
             ('skip', '"[x-z]+.*"', ['priority', 'callback', 'ignore', 'allow_greedy'])]
    poscbs = [None, 'cb', '|lex| cb(lex)']
    idx = 0
    groups = []
    for kind, lit, names in kinds:
        for r in range(0, len(names) + 1):
            for subset in itertools.combinations(names, r):
                for pos in poscbs:
                    if pos is not None and 'callback' in subset:
                        continue
                    for argset in ((args, args_lt) if 'callback' in subset else (args,)):
                        members = []
                        for perm in itertools.permutations(subset):
                            parts = [lit] + ([pos] if pos else []) + [argset[a] for a in perm]
                            body = ', '.join(parts)
                            if kind == 'skip':
                                src = '#[derive(Logos)] #[logos(skip(%s))] enum P%d { #[token("q")] Q }' % (body, idx)
                            else:
                                src = '#[derive(Logos)] enum P%d { #[%s(%s)] A, #[token("q")] Q }' % (idx, kind, body)
                            members.append(('P%d' % idx, src, body)); idx += 1
                        groups.append((kind, members))
    if tier == 'quick':
        rng.shuffle(groups)
        groups = sorted(groups, key=lambda g: -len(g[1]))[:40] + groups[40:80]
    # #[logos(...)] items: permutations that keep subpatterns before their use
    litems = ['skip " "', 'skip("#", priority = 9)', 'subpattern d = "[0-9]"', 'subpattern dd = "(?&d)(?&d)"', 'extras = u8', 'error = E', 'utf8 = false',
              'skip b"\\xFF+"', 'export_dir = "target/logos-export"']
    lgroups = []
    forced = [['skip b"\\xFF+"', 'utf8 = false'], ['skip b"\\xFF+"', 'utf8 = false', 'extras = u8'], ['utf8 = false', 'skip " "', 'error = E'],
              ['export_dir = "target/logos-export"', 'skip " "'], ['export_dir = "target/logos-export"', 'extras = u8', 'subpattern d = "[0-9]"']]
    for it_ in range(12 if tier == 'quick' else 120):
        k = rng.randint(2, 5)
        sub = forced[it_] if it_ < len(forced) else rng.sample(litems, k)
        perms = []
        for perm in itertools.permutations(sub):
            if 'subpattern dd = "(?&d)(?&d)"' in perm and ('subpattern d = "[0-9]"' not in perm or perm.index('subpattern d = "[0-9]"') > perm.index('subpattern dd = "(?&d)(?&d)"')):
                continue
            # keep the relative order of the skips (their order numbers the leaves)
            sk = [x for x in perm if x.startswith('skip')]
            if sk != [x for x in sub if x.startswith('skip')]:
                continue
            perms.append(perm)
        members = []
        for perm in perms[:24]:
            body = ', '.join(perm)
            use = '(?&dd)x' if any('dd' in x for x in perm) else ('(?&d)y' if any('subpattern d ' in x for x in perm) else 'zz')
            src = '#[derive(Logos)] #[logos(%s)] enum P%d { #[regex("%s")] A }' % (body, idx, use)
            members.append(('P%d' % idx, src, body)); idx += 1
        if len(members) > 1:
            lgroups.append(('logos', members))
    # items that configure generics: a generic enum with `type T = ..` and `lifetime = ..` (and neighbours) in every order
    gitems = ["type T = &'a str", "lifetime = 'a", 'skip " "', 'extras = u8', 'error = E']
    for _ in range(6 if tier == 'quick' else 40):
        k = rng.randint(2, 4)
        sub = rng.sample(gitems, k)
        if "type T = &'a str" not in sub:
            sub[0] = "type T = &'a str"
        members = []
        for perm in list(itertools.permutations(sub))[:24]:
            body = ', '.join(perm)
            src = "#[derive(Logos)] #[logos(%s)] enum P%d<'a, T> { #[regex(\"[a-z]+\")] A(T), #[token(\"!\")] B(&'a str) }" % (body, idx)
            members.append(('P%d' % idx, src, body)); idx += 1
        if len(members) > 1:
            lgroups.append(('logos-generics', members))
    # items that reorder the skips themselves: the leaves are numbered differently, so the lexers are compared as graphs
    # (gsim_ok, C01_bisimilar_graphs_agree) after matching the leaves by their content
    sitems = ['skip " "', 'skip("#", priority = 9)', 'skip(r" +", count_blanks)', 'skip r"[ \\t]+"', 'skip("[a-c]+", note_abc)', 'skip("[b-d]+", priority = 3)',
              'skip("[b-d]+x")', 'skip("\\t", priority = 3)', 'skip("#+", priority = 9, callback = hashes)', 'extras = u8', 'subpattern d = "[0-9]"']
    sforced = [['skip(r" +", count_blanks)', 'skip r"[ \\t]+"'], ['skip("#", priority = 9)', 'skip("#+", priority = 9, callback = hashes)', 'extras = u8'],
               ['skip " "', 'skip("[a-c]+", note_abc)', 'skip("[b-d]+", priority = 3)'], ['skip " "', 'skip("\\t", priority = 3)', 'skip r"[ \\t]+"'],
               ['skip("[a-c]+", note_abc)', 'skip("[b-d]+x")', 'skip " "'],
               ['skip("[a-c].*x", allow_greedy = true)', 'skip "#.*"'], ['skip("//.*", allow_greedy = true)', 'skip("[0-9].*", priority = 3)', 'extras = u8'],
               ['skip("[a-c].*x", allow_greedy = true)', 'skip("#[^x]+", allow_greedy = false)', 'skip "%.+"'],
               ['utf8 = false', 'skip(b" +", saw_space)', 'skip(b"\\t+", saw_tab)'], ['skip(b"#+", hashes)', 'utf8 = false', 'skip(b" +", saw_space)', 'extras = u8']]
    sgroups = []
    for it_ in range(10 if tier == 'quick' else 80):
        sub = sforced[it_] if it_ < len(sforced) else rng.sample(sitems, rng.randint(2, 4))
        if sum(1 for x in sub if x.startswith('skip')) < 2:
            continue
        members = []
        for perm in list(itertools.permutations(sub))[:12]:
            body = ', '.join(perm)
            if 'utf8 = false' in perm:
                # binary lexers: a state with a single edge in front of an any-byte position
                src = '#[derive(Logos)] #[logos(%s)] enum P%d { #[regex(b"\\x01(?s-u:.)\\x02")] M, #[regex(b"[e-z]+")] A, #[token(b"0")] Z }' % (body, idx)
            else:
                src = '#[derive(Logos)] #[logos(%s)] enum P%d { #[regex("[e-z]+")] A, #[token("0")] Z }' % (body, idx)
            members.append(('P%d' % idx, src, body)); idx += 1
        sgroups.append(('logos-skips', members))
    allgroups = groups + lgroups + sgroups
    d = cache_dir('gen', 'c18-%d-%s' % (seed(), tier))
    srcp = os.path.join(d, 'c18.rs')
    open(srcp, 'w').write('\n'.join(src for _, ms in allgroups for _, src, _ in ms) + '\n')
    caps = {c.name: c for c in build.capture_files([srcp], 'c18-%d-%s' % (seed(), tier), gen=True)}
    import re as _re
    nb2 = 0
    skip_order_stage(res, tier, sgroups, caps)
    for kind, members in groups + lgroups:
        base = None
        for name, src, body in members:
            c = caps.get(name)
            res.count('permutation_definitions')
            if c is None or c.panic is not None:
                res.violation(None, 'derive panicked on %s' % body, dict(definition=src)); continue
            gen = open(c.gen_path).read() if os.path.exists(c.gen_path) else ''
            gen = gen.replace(name, 'P')
            sig = (c.outcome, gen if c.accepted else None, tuple((l['prio'], l['hir'], l['kind']) for l in c.leaves))
            if base is None:
                base = (sig, body, src, c)
            elif sig != base[0]:
                nb2 += 1
                if nb2 <= 6:
                    what = 'outcome %s vs %s' % (c.outcome, base[3].outcome) if sig[0] != base[0][0] else 'generated lexer differs'
                    res.violation(None, 'argument order matters: `%s` vs `%s`: %s (%s)' % (body, base[1], what, (c.cerrs or base[3].cerrs)[:1]),
                                  dict(definition=src, canonical_definition=base[2], errors=c.cerrs[:3], canonical_errors=base[3].cerrs[:3]))
    res.oblige(nb2 == 0)
    res.cov['permutation_groups'] = len(allgroups)
    res.cov['rule'] = ('K8: the real AttributeParser vs Front.AttrParser.parse_all (vm_compute) on curated and random comma-joined attribute contents incl. malformed ones; '
                       'end to end: every permutation of up to 4 named arguments x {token, regex, skip(...)} x {no positional callback, label, closure} and dependency-respecting permutations of #[logos(...)] items: '
                       'same accept/reject, same leaves, byte-identical generated code as the first order; permutations of the skip items themselves (which number the leaves): same accept/reject, same leaves by content, '
                       'graphs related by gsim_ok after translating the leaf numbers (C18_reordered_leaves_agree), failing input searched with the model executor on both graphs')
    res.trusted += ['Coq kernel + vm_compute', 'hook canonical_tokens / nested_debug printers', 'lib/frontgen.py encoders']
    res.assumptions += ['values of arguments are parsed by syn (outside the model); callbacks of permuted skips are compared by their token text']
    return res.finish('./vcheck C18 --tier ' + tier)


def skip_order_stage(res, tier, sgroups, caps):
    """Definitions that differ only in the order of the skip items of one #[logos(...)]: same accept/reject; when
    accepted, the same leaves (kind, priority, pattern, callback) and, with the leaves matched, graphs related by the
    proved bisimulation checker gsim_ok (C01_bisimilar_graphs_agree: every walk of the generated code agrees)."""
    import types
    drv = build.extraction_build()
    jobs = []; meta = {}
    nbad = 0

    def sig(c, l):
        return (l['kind'], l['prio'], l['hir'], c.leafcb.get(l['idx'], '-'))

    for kind, members in sgroups:
        base = None
        for name, src, body in members:
            c = caps.get(name)
            res.count('skip_order_definitions')
            if c is None or c.panic is not None:
                res.violation(None, 'derive panicked on %s' % body, dict(definition=src)); nbad += 1; continue
            if base is None:
                base = (c, src, body); continue
            b = base[0]
            if c.accepted != b.accepted:
                nbad += 1
                res.violation(None, 'order of skip items matters: `%s` is %s, `%s` is %s (%s)' % (body, c.outcome, base[2], b.outcome, (c.cerrs or b.cerrs)[:1]),
                              dict(definition=src, canonical_definition=base[1], errors=c.cerrs[:3], canonical_errors=b.cerrs[:3]))
                continue
            if not c.accepted:
                continue
            # match the leaves by content
            pool = {}
            for l in b.leaves:
                pool.setdefault(sig(b, l), []).append(l['idx'])
            ren = {}
            okm = True
            for l in c.leaves:
                k = pool.get(sig(c, l))
                if not k:
                    okm = False; break
                ren[l['idx']] = k.pop(0)
            if not okm or len(c.leaves) != len(b.leaves):
                nbad += 1
                res.violation(None, 'order of skip items matters: `%s` and `%s` have different leaves' % (body, base[2]), dict(definition=src, canonical_definition=base[1]))
                continue
            g2 = dict(root=c.graph['root'], states={})
            rn = lambda x: None if x is None else ren[x]
            for sid_, st in c.graph['states'].items():
                g2['states'][sid_] = dict(st, early=rn(st['early']), accept=rn(st['accept']))
            c2 = types.SimpleNamespace(graph=g2, leaves=b.leaves, utf8=c.utf8, name=c.name, attrs=b.attrs, leafcb=b.leafcb, id=c.id)
            c2.__dict__.update({k: v for k, v in b.__dict__.items() if k not in c2.__dict__ and k not in ('graph', 'dfa')})
            tag = 'g%d' % len(meta)
            meta[tag] = (b, c, c2, src, base[1], body, base[2])
            lm = [ren[i] for i in range(len(c.leaves))]
            jobs.append(engine.problem_header(b, with_dfa=False) + ['GS 0'] + engine.problem_header(c, with_dfa=False)
                        + ['LM %d %s' % (len(lm), ' '.join(map(str, lm))), 'GG ' + tag])
    out = engine.run_modeldrv(drv, jobs) if jobs else []
    seen = set()
    for ln in out:
        if not ln.startswith('GG '):
            continue
        f = ln.split()
        tag = f[1]; seen.add(tag)
        b, c, c2, src, bsrc, body, bbody = meta[tag]
        res.count('skip_order_graph_pairs')
        if len(f) > 2 and f[2] == '1':
            continue
        nbad += 1
        path = bytes(int(x) for x in f[3:]) if len(f) > 3 else b''
        # look for an input on which the two lexers differ (graph executor of the model on both graphs)
        rng = random.Random(seed())
        cands = [path + t for t in (b'', b' ', b'e', b'  e', b'\t', b'x')] + [path[:i] for i in range(1, len(path))] + ce.make_probes(b, rng, 'quick')[:200]
        cands = [w for w in dict.fromkeys(cands) if w and (not b.utf8 or probes_is_utf8(w))]
        pj = []
        for side, cc in (('a', b), ('b', c2)):
            lines = engine.problem_header(cc, with_dfa=False)
            for i, w in enumerate(cands):
                lines.append('P %s%d 0 %d %s' % (side, i, len(w), ' '.join(map(str, w))))
            pj.append(lines)
        po = engine.run_modeldrv(drv, pj)
        ra = {}; rb = {}
        for l2 in po:
            if l2.startswith('P a'):
                ra[int(l2.split()[1][1:])] = l2.split('ref:')[1].split('|')[0].strip()
            elif l2.startswith('P b'):
                rb[int(l2.split()[1][1:])] = l2.split('ref:')[1].split('|')[0].strip()
        diff = [i for i in range(len(cands)) if ra.get(i) != rb.get(i)]
        if diff:
            i = min(diff, key=lambda j: len(cands[j]))
            res.violation(cands[i], 'order of skip items matters: `%s` vs `%s`: on %r the lexers differ (model executor on the two captured graphs, leaves matched by content): %s vs %s'
                          % (body, bbody, cands[i], rb.get(i), ra.get(i)), dict(definition=src, canonical_definition=bsrc))
        else:
            res.violation(None, 'order of skip items matters: `%s` vs `%s`: the captured graphs are not related by gsim_ok (first unrelated pair after %r)' % (body, bbody, path),
                          dict(definition=src, canonical_definition=bsrc, no_longer_checks='certificate gsim_ok between the two captured graphs (C01_bisimilar_graphs_agree)'), found_input=False)
    if len(seen) != len(meta):
        nbad += 1
        res.violation(None, 'skip-order stage: %d of %d graph comparisons produced no verdict' % (len(meta) - len(seen), len(meta)), {}, found_input=False)
    res.oblige(nbad == 0)


def probes_is_utf8(w):
    try:
        w.decode('utf8'); return True
    except UnicodeDecodeError:
        return False


def build_cli():
    tdir = cache_dir('target-cli')
    r = sh(['cargo', 'build', '--offline', '-p', 'logos-cli', '--target-dir', tdir], cwd=REPO, check=False, timeout=1800)
    if r.returncode != 0:
        raise build.BuildError('logos-cli does not build:\n' + r.stdout[-3000:])
    return os.path.join(tdir, 'debug', 'logos-cli')


def c17_sources(rng, n):
    derive_pool = ['Debug', 'Clone', 'PartialEq', 'serde::Serialize', '::core::fmt::Debug', 'Eq', 'core::hash::Hash', 'Copy']
    logos_forms = ['Logos', 'logos::Logos', '::logos::Logos', 'lg::Logos', 'my_lexer::Logos', 'crate::deps::logos::Logos', '::lexgen::Logos']
    out = []
    for i in range(n):
        k = rng.randint(0, 4)
        ds = rng.sample(derive_pool, k)
        pos = rng.randint(0, len(ds))
        ds.insert(pos, rng.choice(logos_forms) if rng.random() < 0.5 else 'Logos')
        trailing = ',' if rng.random() < 0.15 else ''
        attrs = ['#[derive(%s%s)]' % (', '.join(ds), trailing)]
        if rng.random() < 0.3: attrs.insert(0, '/// Token doc comment')
        if rng.random() < 0.3: attrs.append('#[repr(u8)]')
        if rng.random() < 0.3: attrs.append('#[cfg_attr(test, derive(Hash))]')
        if rng.random() < 0.3: attrs.insert(rng.randint(0, len(attrs)), '#[derive(PartialOrd)]')
        if rng.random() < 0.5: attrs.append('#[logos(skip " +")]')
        if rng.random() < 0.3: attrs.append('#[allow(dead_code)]')
        if rng.random() < 0.3: attrs.append(rng.choice(['#[error("lexing failed")]', '#[serde(rename_all = "snake_case")]', '#[tokens(all)]', '#[regexp]', '#[logos_like]']))
        if rng.random() < 0.35:
            # a logos attribute with several kept attributes after it (their written order must survive)
            attrs.insert(rng.randint(0, max(0, len(attrs) - 2)), '#[logos(extras = u8)]')
            attrs += ['#[allow(clippy::all)]', '/// trailing doc line one', '/// trailing doc line two', '#[deny(unused_must_use)]'][:rng.randint(2, 4)]
        vs = []
        for j in range(rng.randint(1, 4)):
            va = []
            if rng.random() < 0.3: va.append('/// variant doc')
            va.append('#[token("t%d")]' % j if rng.random() < 0.5 else '#[regex("r%d[a-z]+")]' % j)
            if rng.random() < 0.3: va.append('#[allow(unused)]')
            if rng.random() < 0.25: va.append(rng.choice(['#[error("bad token")]', '#[serde(rename = "v")]', '#[error(transparent)]']))
            if rng.random() < 0.2: va.append('#[regex("s%d[0-9]")]' % j)
            if rng.random() < 0.3:
                va += ['/// first line after the pattern', '/// second line', '#[cfg(all())]'][:rng.randint(2, 3)]
            body = 'V%d' % j
            if rng.random() < 0.25:
                body += '(%s&\'a str)' % (rng.choice(['#[allow(unused)] ', '#[error(not(source))] ', '']))
            vs.append('    ' + '\n    '.join(va) + '\n    ' + body + ',')
        if rng.random() < 0.2:
            vs.append('    Plain,')
        lt = "<'a>" if any("'a" in v for v in vs) else ''
        vis = rng.choice(['pub ', '', 'pub(crate) '])
        where = ''
        if rng.random() < 0.25:
            # generic parameters with a where clause (the item must come back whole)
            if lt:
                where = " where 'a: 'static"
            else:
                lt = '<T>'; where = ' where T: Copy + Default'
                attrs.append('#[logos(type T = u32)]')
                vs.append('    #[regex("g[0-9]+", |_| T::default())]\n    Gen(T),')
        out.append('\n'.join(attrs) + '\n%senum Tok%d%s%s {\n%s\n}\n' % (vis, i, lt, where, '\n'.join(vs)))
    return out


def check_C17(tier):
    import coqeval, frontgen as fg, tempfile, shutil
    res = Result('C17', tier)
    framework(res, ['C17_strip_derive_keeps_others', 'C17_strip_derive_spec', 'C17_old_refuted', 'C17_check_never_writes', 'C17_check_ok_iff', 'C17_write_then_check_ok'])
    cli = build_cli()
    rng = random.Random(seed() * 43 + 17)
    srcs = c17_sources(rng, 40 if tier == 'quick' else 400)
    srcs.insert(0, '#[derive(Logos, serde::Serialize, Debug)]\nenum Tok { #[token("a")] A }\n')
    srcs.insert(1, '#[derive(::core::fmt::Debug, Logos)]\n#[derive(core::clone::Clone)]\npub enum Tok { #[regex("a+")] A, #[token("b")] B }\n')
    work = cache_dir('c17work')
    for f in os.listdir(work):
        os.remove(os.path.join(work, f))
    lines = []
    nb = 0
    for i, src in enumerate(srcs):
        ip = os.path.join(work, 'in%d.rs' % i); op = os.path.join(work, 'out%d.rs' % i)
        open(ip, 'w').write(src)
        r = sh([cli, ip], check=False)
        res.count('cli_runs')
        if r.returncode != 0:
            res.oblige(False); nb += 1
            res.violation(None, 'logos-cli failed (exit %d) on a valid enum' % r.returncode, dict(input=src, output=r.stdout[-500:])); continue
        open(op, 'w').write(r.stdout)
        lines.append('c%d %s %s' % (i, ip.encode().hex(), op.encode().hex()))
    verdicts = fg.front_tool('clicheck', lines)
    for i, src in enumerate(srcs):
        v = verdicts.get('c%d' % i)
        if v is None:
            continue
        ok = v.startswith('valid_rust=1 enum_ok=1 impl_ok=1')
        res.oblige(ok)
        if not ok:
            nb += 1
            if nb <= 6:
                parts = v.split(' ')
                detail = bytes.fromhex(parts[-1]).decode('utf8', 'replace') if parts and all(c in '0123456789abcdef' for c in parts[-1]) and parts[-1] else v
                res.violation(None, 'logos-cli output for an enum is not the stripped enum + derive implementation: %s (%s)' % (' '.join(parts[:3]), detail),
                              dict(input=src, cli_output_head=open(os.path.join(work, 'out%d.rs' % i)).read()[:400], verdict=v))
    # --output / --check sequences against the Coq model of main()
    scen = [('write', None), ('check', None), ('edit', 'crlf'), ('check', None), ('edit', 'trailing_newline'), ('check', None), ('edit', 'change'), ('check', None),
            ('write', None), ('check', None), ('edit', 'delete'), ('check', None), ('write', None), ('edit', 'blank_line'), ('check', None)]
    nseq = 2 if tier == 'quick' else 8
    nbad = 0
    for k in range(nseq):
        ip = os.path.join(work, 'in%d.rs' % k); tp = os.path.join(work, 'target%d.rs' % k)
        if os.path.exists(tp): os.remove(tp)
        output = sh([cli, ip], check=False).stdout
        output = output[:-1] if output.endswith('\n') else output        # println! adds the newline on stdout
        exprs = []; observed = []
        for op, arg in scen:
            before = open(tp, 'rb').read() if os.path.exists(tp) else None
            if op in ('write', 'check'):
                cmd = [cli, ip, '--output', tp] + (['--check'] if op == 'check' else [])
                r = sh(cmd, check=False)
                after = open(tp, 'rb').read() if os.path.exists(tp) else None
                observed.append((op, 0 if r.returncode == 0 else 1, after))
                ex = '(fun _ => %s)' % ('None' if before is None else 'Some %s' % coqeval.nlist(before))
                exprs.append('match run %s (Some 0) %s %s with (o, _, f) => (match o with Ok => 0 | Err => 1 end) :: match f 0 with Some t => 1 :: t | None => [0] end end'
                             % (coqeval.nlist(output.encode()), 'true' if op == 'check' else 'false', ex))
            else:
                if arg == 'delete':
                    if os.path.exists(tp): os.remove(tp)
                elif before is not None:
                    if arg == 'crlf': new = before.replace(b'\n', b'\r\n')
                    elif arg == 'trailing_newline': new = before + b'\n'
                    elif arg == 'blank_line': new = before + b'\n\n'
                    else: new = before.replace(b'enum', b'enum ', 1) if b'enum' in before else before + b'x'
                    open(tp, 'wb').write(new)
        model = coqeval.coq_eval(exprs, 'From LogosV Require Import Cli.Cli.', 'cli', shard=1)
        for (op, code, after), m in zip(observed, model):
            res.count('cli_sequence_steps')
            exp_after = None if m[1] == 0 else bytes(m[2:])
            if code != m[0] or after != exp_after:
                nbad += 1
                if nbad <= 4:
                    res.violation(None, 'logos-cli %s step: exit %d (model %d), file %s' % (op, code, m[0], 'as the model says' if after == exp_after else 'differs from the model'),
                                  dict(input=open(ip).read(), step=op, exit=code, model_exit=m[0], file_changed=(after != exp_after)))
    res.oblige(nbad == 0)
    res.cov['rule'] = ('generated enum sources (Logos in every position of the derive list, as Logos / logos::Logos / ::logos::Logos, path derives with and without leading ::, trailing comma, several derive attributes, cfg_attr, repr, doc comments, '
                       'variant and field attributes, lifetimes, visibility): the logos-cli binary output is parsed (valid Rust), its enum compared structurally with an independent syn-based expectation and the rest with generate(); '
                       'sequences of write / --check / external edits (CRLF, trailing newline, blank line, content change, delete) against Cli.run evaluated by vm_compute')
    res.trusted += ['Coq kernel + vm_compute', 'tools/capture/src/clicheck.rs (independent expectation, written from the property)', 'lib/checks.py sequence driver']
    res.assumptions += ['"valid Rust" is checked by parsing with syn, not proved', 'the file system is modelled as a map; rustfmt (--format) is outside the property']
    return res.finish('./vcheck C17 --tier ' + tier)


C19_FRAGS_TOK = ['"a"', '"a", f', '"a", |l| 1', '"a", priority = 1', '"a", priority = 1, priority = 2', '"a", callback = f, callback = g', '"a", f, callback = g',
                 '"a", ignore(case)', '"a", ignore(case), ignore(case)', '"a", ignore()', '"a", ignore(x)', '"a", foo', '"a", foo = 1', '"a", = 1', '"a", ,', '1', 'b"\\xff"', "'c'", '', 'x y', '"a" "b"',
                 '"a", priority = -1', '"a", priority = 99999999999999999999999', '"a", allow_greedy = true', '"a", callback = |a, b| 1', '"a", callback = ', '"a", priority', '"a", ignore(case) priority = 2']
C19_REGEXES = ['a', 'a*', 'a+', '(a|)', '', '$', 'a$', '(?m:^)a', '^a', '^#![a-z/ ]*', '\\\\Aa', '(?-u:\\b)a', 'a(?-u:\\b)', 'a\\b', '.*', 'a.*', '(a.*)+', '(a.+)?b', 'a(.*b)?', '[^\\n]*x', '(?s).+', 'a.*?', '.{2,}', '(.*)', '((a|.*))',
               '(a', '[a', 'a{2,1}', '\\1', '(?=a)', '(?<n>a)', '(?&nope)', '(?&)', '\\p{Nope}', '\\xZZ', 'a{99999}', '(a*)*', '(a+)+b', '[\\x80-\\xff]', '(?-u:\\xff)', '(?i)a', '(?x) a b']
C19_SHAPES = ['A', 'A()', 'A(u8)', 'A(u8, u8)', 'A { x: u8 }', 'A(&\'s str)', 'A(T)']
C19_LOGOS = ['skip " "', 'skip', 'skip("x", f)', 'skip("x", callback = f, callback = g)', 'skip(".*")', 'skip("(a.*)+")', 'extras = A', 'extras = A, extras = B', 'error = E', 'error(E, f)', 'error(E, callback = f, callback = g)',
             'error(E, f, g)', 'error()', 'utf8 = false', 'utf8 = 3', 'subpattern a = "x"', 'subpattern a = "x", subpattern a = "y"', 'subpattern a "x"', 'subpattern 1a = "x"', 'type T = u8', 'type T', 'crate = ::logos',
             'crate', 'export_dir = "d"', 'lifetime = \'s', 'lifetime = none', 'source = str', 'bogus', '"lit"', '= 3', ',', '']


def c19_random(rng, n):
    out = []
    for i in range(n):
        k = rng.random()
        logos = ''
        if rng.random() < 0.5:
            logos = '#[logos(%s)] ' % ', '.join(rng.choice(C19_LOGOS) for _ in range(rng.randint(1, 3)))
        gen = rng.choice(['', '', '', "<'s>", '<T>', '<const N: usize>', "<'s, T>"])
        vs = []
        for j in range(rng.randint(1, 3)):
            shape = rng.choice(C19_SHAPES).replace('A', 'V%d' % j, 1)
            if k < 0.5:
                attr = '#[token(%s)]' % rng.choice(C19_FRAGS_TOK)
            else:
                rx = rng.choice(C19_REGEXES)
                extra = rng.choice(['', '', ', priority = 3', ', allow_greedy = true', ', ignore(case)', ', f', ', callback = f, callback = g'])
                attr = '#[regex("%s"%s)]' % (rx, extra)
            if rng.random() < 0.1:
                attr += ' #[error]'
            vs.append('%s %s' % (attr, shape))
        out.append('#[derive(Logos)] %senum M%d%s { %s }' % (logos, i, gen, ', '.join(vs)))
    return out


C19_NULLABLE = ['a*', '(a|)', '', 'a?b?', '(ab|)c?', '[0-9]*', '(a*)*', '$', 'a*$', '(?:x|y*)', 'a{0,3}', '(a|b)*']


def c19_nullable():
    """Definitions that are well formed except for one pattern that can match the empty string."""
    out = []
    k = 0
    for bmode in (False, True):
        hdr = '#[logos(utf8 = false)] ' if bmode else ''
        lit = (lambda x: 'b"%s"' % x) if bmode else (lambda x: '"%s"' % x)
        for rx in C19_NULLABLE:
            out.append('#[derive(Logos)] %senum Nul%d { #[regex(%s)] A, #[token(%s)] B }' % (hdr, k, lit(rx), lit('q'))); k += 1
            out.append('#[derive(Logos)] %s#[logos(skip %s)] enum Nul%d { #[token(%s)] B }' % (hdr, lit(rx), k, lit('q'))); k += 1
            out.append('#[derive(Logos)] %senum Nul%d { #[token(%s)] B, #[regex(%s, priority = 9)] A, #[regex(%s)] C }' % (hdr, k, lit('q'), lit(rx), lit('[r-t]+'))); k += 1
        out.append('#[derive(Logos)] %senum Nul%d { #[token(%s)] A, #[token(%s)] B }' % (hdr, k, lit(''), lit('q'))); k += 1
    return out


def check_C19(tier):
    import coqeval, json as _json
    res = Result('C19', tier)
    framework(res, ['C19_never_panics', 'C19_bad_variant_rejected', 'C19_greedy_complete', 'C19_greedy_sound',
                    'C19_old_panics_on_empty_tuple', 'C19_old_panics_on_duplicate_callback', 'C19_greedy_old_refuted', 'C19_greedy_nocap_refuted',
                    'C19_complexity_fits', 'C19_old_complexity_overflows'])
    pattern_stage(res, tier, 'C19')
    rng = random.Random(seed() * 47 + 19)
    mal = os.path.join(VERIF, 'corpus', 'front', 'malformed.rs')
    n = 250 if tier == 'quick' else 3000
    d = cache_dir('gen', 'c19-%d-%d' % (seed(), n))
    rnd = os.path.join(d, 'c19rand.rs')
    open(rnd, 'w').write('\n'.join(c19_random(rng, n)) + '\n')
    # ---- every nullable pattern, in every position and both source modes, must be rejected
    nul = os.path.join(cache_dir('gen', 'c19-nullable'), 'nullable.rs')
    open(nul, 'w').write('\n'.join(c19_nullable()) + '\n')
    # ---- library entry point under catch_unwind
    curated = build.capture_files([mal, nul], 'c19-malformed')
    randcaps = build.capture_files([rnd], 'c19-rand-%d-%d' % (seed(), n))
    repo_caps, rand_graph = ce.corpora(tier, res)
    if len(randcaps) < 0.6 * n:
        raise RuntimeError('only %d of %d random malformed definitions reached the derive (capture tool could not parse the rest)' % (len(randcaps), n))
    res.count('random_malformed_definitions', len(randcaps))
    npanic = 0
    for c in list(curated) + list(randcaps) + list(repo_caps) + list(rand_graph):
        res.count('generate_calls')
        if c.panic is not None:
            npanic += 1
            if npanic <= 5:
                res.violation(None, 'generate() panicked on %s: %s' % (c.id, c.panic[:120]), dict(definition=c.source, panic=c.panic[:300], mode='library'))
    res.oblige(npanic == 0)
    nacc = 0
    for c in curated:
        if c.panic is None and c.outcome != 'rejected':
            nacc += 1
            if nacc <= 6:
                res.violation(None, '%s must be rejected (it cannot be implemented faithfully / is malformed) but is accepted' % c.id, dict(definition=c.source))
    res.oblige(nacc == 0)
    res.count('curated_must_reject', len(curated))
    # ---- semantic rule on every accepted definition of every corpus: no leaf matches the empty string
    # (the raw DFA reports a match right after the start state)
    nemp = 0
    for c in list(curated) + list(randcaps) + list(repo_caps) + list(rand_graph):
        if c.panic is not None or not c.accepted or not c.dfa or c.dfa.get('start') is None:
            continue
        res.count('accepted_definitions_checked_for_empty_match')
        dfa = capmod.Dfa(c)
        hit = None
        for u in [256] + list(range(256)):
            ms = dfa.match(dfa.step(dfa.start, u))
            if ms:
                hit = (u, list(ms)); break
        if dfa.match(dfa.start):
            hit = (None, list(dfa.match(dfa.start)))
        if hit:
            nemp += 1
            if nemp <= 5:
                res.violation(None, '%s is accepted although leaf %s matches the empty string' % (c.id, hit[1]), dict(definition=c.source, unit_after_start=hit[0], leaves=hit[1]))
    res.oblige(nemp == 0)
    # ---- greedy-dot test: Pattern::check_for_greedy_all vs Regex.Greedy.greedy on every captured leaf; and the reject rule
    exprs = []; idx = []
    for c in list(curated) + list(randcaps) + list(repo_caps) + list(rand_graph):
        if c.panic is not None:
            continue
        for l in c.leaves:
            if l['hir'] and l['hir'] != '-':
                exprs.append('[if greedy %s then 1 else 0]' % capmod.coq_re(capmod.parse_sexpr(l['hir']), max_ranges=4000 if 'CU' not in l['hir'] or len(l['hir']) < 400 else 24))
                idx.append((c, l))
    vals = coqeval.coq_eval(exprs, 'From LogosV Require Import Regex.Re Regex.Greedy.', 'greedy', shard=max(50, len(exprs) // 16 + 1))
    nb = 0
    for (c, l), v in zip(idx, vals):
        res.count('leaves_greedy_checked')
        bad = None
        if bool(v[0]) != l['greedy_all']:
            bad = 'check_for_greedy_all = %s, specification (unbounded greedy dot repetition at any depth) = %s' % (l['greedy_all'], bool(v[0]))
        elif v[0] and len(c.attrs) == len(c.leaves) and c.attrs[l['idx']].get('allow_greedy', '-') != 'true' and c.attrs[l['idx']].get('kind') != 'token' and c.accepted:
            bad = 'unbounded greedy dot repetition accepted without allow_greedy'
        if bad:
            nb += 1
            if nb <= 6:
                res.violation(None, '%s leaf %d %s: %s' % (c.id, l['idx'], l['src'], bad), dict(definition=c.source, pattern=l['src'], hir=l['hir'][:300]))
    res.oblige(nb == 0)
    # ---- the same inputs through rustc as a real proc macro
    pdir = cache_dir('c19probe')
    os.makedirs(os.path.join(pdir, 'src'), exist_ok=True)
    defs = []
    for c in list(curated) + list(randcaps)[:(100 if tier == "quick" else 600)]:
        if c.source:
            defs.append((c.id, c.source, c))
    lib = ['#![allow(dead_code, unused)]']
    ranges = []
    for k, (cid, src, c) in enumerate(defs):
        start = len(lib) + 1
        lib.append('mod m%d { use logos::Logos; pub struct E; pub struct A; pub struct B; pub fn f() {} pub fn g() {} pub fn my_cb() {}' % k)
        lib.append(src)
        lib.append('}')
        ranges.append((start, len(lib), cid, c))
    open(os.path.join(pdir, 'src', 'lib.rs'), 'w').write('\n'.join(lib) + '\n')
    open(os.path.join(pdir, 'Cargo.toml'), 'w').write('[package]\nname = "c19probe"\nversion = "0.1.0"\nedition = "2021"\n\n[workspace]\n\n[dependencies]\nlogos = { path = "%s" }\n' % REPO)
    shutil_copy = __import__('shutil').copy
    shutil_copy(os.path.join(REPO, 'Cargo.lock'), os.path.join(pdir, 'Cargo.lock'))
    r = sh(['cargo', 'build', '--offline', '--message-format=json', '--target-dir', cache_dir('target-c19')], cwd=pdir, check=False, timeout=1800)
    diags = []
    for ln in r.stdout.split('\n'):
        if ln.startswith('{'):
            try:
                m = _json.loads(ln)
            except ValueError:
                continue
            if m.get('reason') == 'compiler-message':
                msg = m['message']
                line = None
                for sp in msg.get('spans', []):
                    if sp.get('is_primary'):
                        line = sp['line_start']
                diags.append((msg.get('level'), msg.get('message', ''), line))
    npan = 0
    errs_by_def = {}
    for level, text, line in diags:
        owner = None
        if line is not None:
            for a, b, cid, c in ranges:
                if a <= line <= b:
                    owner = (cid, c)
        if 'proc-macro derive panicked' in text or 'proc macro panicked' in text:
            npan += 1
            if npan <= 5:
                res.violation(None, 'rustc: proc-macro derive panicked on %s' % (owner[0] if owner else 'line %s' % line),
                              dict(definition=owner[1].source if owner else None, rustc_message=text[:300], mode='rustc'))
        if level == 'error' and owner:
            errs_by_def.setdefault(owner[0], []).append(text)
    res.oblige(npan == 0)
    res.count('rustc_definitions', len(defs))
    res.count('rustc_diagnostics', len(diags))
    if not diags and r.returncode != 0:
        raise RuntimeError('rustc probe produced no diagnostics: ' + r.stdout[-800:])
    # every definition the library rejects must carry an error in rustc too
    miss = 0
    for a, b, cid, c in ranges:
        if c.panic is None and c.outcome == 'rejected' and cid not in errs_by_def:
            miss += 1
            if miss <= 4:
                res.violation(None, 'rustc reports no error for rejected definition %s' % cid, dict(definition=c.source, mode='rustc'))
    res.oblige(miss == 0)
    res.cov['rule'] = ('curated must-reject definitions by class (variant shapes, duplicated / misplaced / unknown arguments, wrong literal kinds, malformed #[logos(...)] items, empty matches, look-behind at the start, '
                       'unsupported regex features, greedy dots at every depth, undefined subpatterns) + seeded random malformed definitions + the repo corpus: generate() under catch_unwind; '
                       'the same sources compiled by rustc with the real proc macro (stderr scanned for "proc-macro derive panicked", every rejected definition must carry an error); '
                       'check_for_greedy_all vs Regex.Greedy.greedy (vm_compute) on every leaf')
    res.trusted += ['Coq kernel + vm_compute', 'hook HIR printer', 'rustc JSON diagnostics parsing in lib/checks.py']
    res.assumptions += ['panics inside syn / regex-syntax / regex-automata / rustc are outside the model; termination is observed (every call returned), the skeleton model covers only the two panic sites of logos code']
    return res.finish('./vcheck C19 --tier ' + tier)


def check_C16(tier):
    import glob as _glob, hashlib
    res = Result('C16', tier)
    framework(res, ['C16_collect_then_sort_deterministic', 'C16_sorted_with_duplicates_unique'])
    files = build.repo_corpus_files() + front_files() + [os.path.join(VERIF, 'corpus', 'engine', f) for f in sorted(os.listdir(os.path.join(VERIF, 'corpus', 'engine')))]
    sd = seed()
    d = cache_dir('gen', 'graph-%d-%d' % (sd, 300 if tier == 'quick' else 4000))
    rg = os.path.join(d, 'randgraph.rs')
    if os.path.exists(rg):
        files.append(rg)
    # the cross product of attribute forms (rejected definitions with their diagnostics included)
    import gen as _gen
    cp = os.path.join(cache_dir('gen', 'cross'), 'cross.rs')
    if not os.path.exists(cp):
        open(cp, 'w').write('\n'.join(_gen.cross_corpus()) + '\n')
    files.append(cp)
    lst = os.path.join(cache_dir('c16'), 'files.lst')
    open(lst, 'w').write('\n'.join(files) + '\n')
    nproc = 3 if tier == 'quick' else 6
    nthreads = 4 if tier == 'quick' else 12
    digests = {}
    nondet = []
    # the derive built in the dev profile (both generators) and in the release profile (no debug assertions)
    for sm, rel in ((False, False), (True, False), (False, True)):
        tool = build.capture_tool(sm, release=rel)
        outs = []
        for k in range(nproc if not rel else 2):
            out = cache_dir('c16', 'run-%s%s-%d' % ('sm' if sm else 'tc', '-rel' if rel else '', k))
            for f in _glob.glob(os.path.join(out, '*')):
                os.remove(f)
            sh([tool, 'defs', out, '--list', lst], env=dict(ENV, VERIF_WRITE_GEN='1', VERIF_REPEAT=str(nthreads)))
            outs.append(out)
        names = sorted(os.path.basename(p) for p in _glob.glob(os.path.join(outs[0], '*.cap')))
        for nm in names:
            res.count('definitions_x_generators')
            texts = []
            for out in outs:
                cp = os.path.join(out, nm); gp = cp[:-4] + '.gen'
                capt = '\n'.join(l for l in open(cp).read().split('\n') if not l.startswith('repeat ')) if os.path.exists(cp) else None
                gent = open(gp).read() if os.path.exists(gp) else None
                # the cap records the in-process repetition verdict
                texts.append((capt, gent))
            c0 = capmod.parse_cap(os.path.join(outs[0], nm))
            bad = None
            if any(t != texts[0] for t in texts[1:]):
                which = 'generated code' if any(t[1] != texts[0][1] for t in texts[1:]) else 'captured graph'
                bad = '%s differs between processes' % which
            for out in outs:
                c = capmod.parse_cap(os.path.join(out, nm))
                if c.repeat and c.repeat[1] > 0:
                    bad = (bad + '; ' if bad else '') + '%d of %d repeated generate() calls in fresh threads differ' % (c.repeat[1], c.repeat[0])
                    break
            res.count('generate_calls', nproc * (1 + nthreads))
            if bad:
                nondet.append((nm, ('sm' if sm else 'tc') + ('/release' if rel else ''), bad, c0))
    res.oblige(not nondet)
    for nm, sm, bad, c0 in nondet[:6]:
        res.violation(None, '%s (%s build of the derive): %s' % (nm[:-4], sm, bad), dict(definition=c0.source, file=c0.file, generator=sm))
    # logos-cli: two runs byte-identical, then --check accepts its own output
    cli = build_cli()
    work = cache_dir('c16', 'cli')
    srcs = ['#[derive(Logos, Debug)]\nenum A {\n  #[regex("[a-z]+")] W, #[regex("[0-9]+")] N, #[token("if")] If, #[token("in")] In, #[regex(r"\\s+", logos::skip)] Ws, #[token("==")] Eq, #[token("=")] As }\n',
            '#[derive(Logos)]\nenum B {\n  #[regex("[a-c]+")] X, #[regex("[b-d]+")] Y, #[regex("[0-5]+")] P, #[regex("[3-9]+")] Q }\n']
    for i, src in enumerate(srcs):
        ip = os.path.join(work, 'in%d.rs' % i); op = os.path.join(work, 'out%d.rs' % i)
        open(ip, 'w').write(src)
        a = sh([cli, ip], check=False).stdout; b = sh([cli, ip], check=False).stdout
        if os.path.exists(op): os.remove(op)
        w = sh([cli, ip, '--output', op], check=False); c = sh([cli, ip, '--output', op, '--check'], check=False)
        ok = (a == b) and w.returncode == 0 and c.returncode == 0
        # the bytes written do not depend on what the output file held before: a longer and a shorter stale file
        fresh = open(op).read() if os.path.exists(op) else None
        for stale in (lambda t: (t or '') + '// stale line\n' * 400, lambda t: (t or '')[:len(t or '') // 2]):
            open(op, 'w').write(stale(fresh))
            w2 = sh([cli, ip, '--output', op], check=False); c2 = sh([cli, ip, '--output', op, '--check'], check=False)
            now = open(op).read()
            res.count('cli_overwrite_cases')
            if not (w2.returncode == 0 and c2.returncode == 0 and now == fresh):
                ok = False
                res.violation(None, 'logos-cli --output over an existing file: the result depends on the old contents (%d bytes vs %d bytes into a fresh path; --check exit %d)' % (len(now), len(fresh or ''), c2.returncode),
                              dict(input=src, old_file_bytes=len(stale(fresh)), written_bytes=len(now), fresh_bytes=len(fresh or '')))
        res.oblige(ok); res.count('cli_determinism_cases')
        if not ok:
            res.violation(None, 'logos-cli: two runs differ or --check rejects its own output', dict(input=src, same_stdout=(a == b), write_exit=w.returncode, check_exit=c.returncode))
    res.cov['rule'] = ('every definition of the repo / curated / front-end / seeded random corpora (incl. rejected ones, definitions with several conflicts, states with >= 3 edges, >= 9 LUT masks), both generators: '
                       'generate() in %d fresh processes x (1 + %d fresh threads) each (every HashMap gets a new RandomState): generated text and captured graph byte-identical; logos-cli twice + --check' % (nproc, nthreads))
    res.trusted += ['Coq kernel', 'capture tool repeat mode']
    res.assumptions += ['"every hash seed" is modelled as "every permutation"; that the five sorted sites are the only order-sensitive ones is supported by the runs, not proved about the Rust code']
    return res.finish('./vcheck C16 --tier ' + tier)


def api_pairs(enums):
    plain = [(en, mod, c) for en, (mod, c) in sorted(enums.items()) if c.accepted and 'extras' not in (c.source or '') and "<'" not in (c.source or '')]
    out = []
    for group in ([x for x in plain if x[2].utf8], [x for x in plain if not x[2].utf8]):
        for (a, ma, ca), (b, mb, cb) in zip(group, group[1:] + group[:1]):
            if a != b:
                out.append((a, b))
    return out


def check_C14(tier):
    res = Result('C14', tier)
    framework(res, ['C14_step_only_current', 'C14_clone_is_copy', 'C14_morph_preserves', 'C14_morph_back', 'C14_spanned_eq_next', 'C14_bump_in_range'])
    drv = build.extraction_build()
    fss = ['tc', 'sm', 'tcsafe']      # slice()/remainder() have separate forbid_unsafe branches
    sets = ce.compiled_sets(tier, fss)
    rng = random.Random(seed() * 53 + 14)
    label, h, enums = sets[0]
    exe0, caps0 = h['tc']
    pairs = [(a, b) for a, b in api_pairs(enums) if a in caps0 and b in caps0 and None not in engine.behaviour_codes(caps0[a]) and None not in engine.behaviour_codes(caps0[b])]
    rng.shuffle(pairs)
    pairs = pairs[:14 if tier == 'quick' else 60]
    nh = 140 if tier == 'quick' else 900
    jobs = []; lines = []; meta = {}
    for pi, (a, b) in enumerate(pairs):
        ca, cb = caps0[a], caps0[b]
        job = engine.problem_header(ca, with_dfa=False) + ['GS 0'] + engine.problem_header(cb, with_dfa=False) + ['GS 1', 'U %d' % (1 if ca.utf8 else 0)]
        inputs = ce.make_probes(ca, rng, 'quick') + ce.make_probes(cb, rng, 'quick')
        inputs = [x for x in inputs if 0 < len(x) <= 24 and (not ca.utf8 or probes.is_utf8(x))]
        for k in range(nh):
            w = rng.choice(inputs) + (rng.choice(inputs) if rng.random() < 0.5 else b'')
            if ca.utf8 and not probes.is_utf8(w):
                continue
            partial = 1 if rng.random() < 0.2 else 0
            ops = []
            for _ in range(rng.randint(4, 14)):
                r = rng.random()
                if r < 0.45: ops.append(('n', 0))
                elif r < 0.55: ops.append(('p', 0))
                elif r < 0.7: ops.append(('b', rng.randint(0, 3)))
                elif r < 0.75: ops.append(('c', 0))
                elif r < 0.8: ops.append(('f', 0))
                elif r < 0.9: ops.append(('s', rng.randint(0, 5)))
                else: ops.append(('m', 0))
            hid = 'h%d_%d' % (pi, k)
            code = {'n': 0, 'b': 1, 'c': 2, 's': 3, 'm': 4, 'p': 5, 'f': 2}     # clone_from must be a clone
            job.append('H %s %d %d %s %d %s' % (hid, partial, len(w), ' '.join(map(str, w)), len(ops), ' '.join('%d %d' % (code[o], x) for o, x in ops)))
            lines.append('H %s %s+%s %d %s %s' % (hid, a, b, partial, w.hex() or '-', ' '.join('%s%d' % (o, x) if o in 'bs' else o for o, x in ops)))
            meta[hid] = (a, b, w, partial, ops)
        jobs.append(job)
    model = {}
    for ln in engine.run_modeldrv(drv, jobs):
        if ln.startswith('H '):
            _, hid, rest = (ln.split(' ', 2) + [''])[:3]
            nums = [int(x) for x in rest.split()] if rest and not rest.startswith('NOSLOTS') else None
            model[hid] = nums
    nbad = 0; nops_total = 0; morphs = 0; clones = 0
    for fs in fss:
        real = run_lines(h[fs][0], lines, 'H')
        for hid, (a, b, w, partial, ops) in meta.items():
            r = real.get(hid); m = model.get(hid)
            bad = None
            if r is None or m is None or 'PANIC' in r or r.startswith('NODEF'):
                bad = 'no result / panic: %r' % (r,)
            else:
                obs = []; curobs = []
                for x in m:
                    if x == 999999:
                        obs.append(curobs); curobs = []
                    else:
                        curobs.append(x)
                parts = [x for x in r.split(';') if x]
                if len(parts) != len(ops) or len(obs) != len(ops):
                    bad = 'op count real %d model %d' % (len(parts), len(obs))
                else:
                    # python tracks only which token type each pooled lexer has (to name variants)
                    pool = [0]; cur = 0
                    for (o, x), part, ob in zip(ops, parts, obs):
                        nops_total += 1
                        f = part.split(':')
                        flag = f[3].endswith('!'); rs, re_ = int(f[2]), int(f[3].rstrip('!'))
                        if o in 'cf': pool.append(pool[cur]); cur = len(pool) - 1; clones += 1
                        elif o == 's': cur = x % len(pool)
                        elif o == 'm': pool[cur] = 1 - pool[cur]; morphs += 1
                        cdef = caps0[a] if pool[cur] == 0 else caps0[b]
                        if flag:
                            bad = 'slice()/remainder() disagree with source[span] after %s' % part; break
                        if (rs, re_) != (ob[-2], ob[-1]):
                            bad = 'after op %s: span real %d..%d model %d..%d' % (part, rs, re_, ob[-2], ob[-1]); break
                        if o in 'np':
                            if f[1].endswith('?'):
                                bad = 'spanned() span differs from span() at %s' % part; break
                            if ob[0] == 2:
                                exp = 'F'
                            elif ob[0] == 3:
                                bad = 'model broken'; break
                            elif ob[0] == 1:
                                rec = engine.MItem(True, ob[1] - 1, ob[2], ob[3], ob[4], ob[5])
                                exp = 'O.' + str(engine.expected_variant(cdef, rec))
                            else:
                                exp = 'E.'
                            got = f[1] if not f[1].startswith('E.') else 'E.'
                            if got != exp:
                                bad = 'after op %s: result real %s model %s' % (part, f[1], exp); break
            if bad:
                nbad += 1
                if nbad <= 6:
                    res.violation(None, '%s+%s/%s input %r history %s: %s' % (a, b, fs, w, ' '.join('%s%d' % (o, x) if o in 'bs' else o for o, x in ops), bad),
                                  dict(definitions=[enums[a][1].source, enums[b][1].source], featureset=fs, input_hex=w.hex(), partial=bool(partial),
                                       history=[('%s%d' % (o, x) if o in 'bs' else o) for o, x in ops], observed=r, model=m))
    res.oblige(nbad == 0)
    res.count('histories', len(meta) * len(fss)); res.count('operations', nops_total); res.count('morph_ops', morphs); res.count('clone_ops', clones)
    if meta:
        k0 = sorted(meta)[0]
        res.sample(dict(pair=meta[k0][:2], input=repr(meta[k0][2]), history=[('%s%d' % (o, x) if o in 'bs' else o) for o, x in meta[k0][4]]))
    res.cov['rule'] = ('random histories (4..14 operations) of next / spanned next / in-range bump / clone (continue with the clone) / switch between lexers / morph to the other token type and back, over pairs of compiled definitions '
                       'sharing a source type (str and [u8]), ordinary and partial mode, both generators: after EVERY operation span(), slice() == source[span], remainder() == source[end..], and the result of next are compared with Runtime.LexerApi.run_history (extracted)')
    res.trusted += ce.TRUSTED
    res.assumptions += ASSUME_ENGINE + ['extras are () in the compiled pairs (morph with Extras conversion is not exercised)']
    return res.finish('./vcheck C14 --tier ' + tier)


def setup():
    ok, msg = build.coq_build()
    if not ok:
        log(msg); return 1
    build.extraction_build()
    build.capture_tool()
    return 0
