"""Generators and helpers for the front-end checks (literals, attributes, subpatterns)."""
import os, random
from common import *
import build

META = '\\.+*?()|[]{}^$#&-~'
# ASCII punctuation that regex_syntax::escape leaves alone (some of it means something after a backslash: \\< \\> \\b ..)
PUNCT = '!"%\',/:;<=>@_`'


def rust_str_lit(s):
    out = '"'
    for ch in s:
        o = ord(ch)
        if ch in '"\\':
            out += '\\' + ch
        elif 32 <= o < 127:
            out += ch
        elif ch == '\n':
            out += '\\n'
        else:
            out += '\\u{%x}' % o
    return out + '"'


def rust_bytes_lit(bs):
    out = 'b"'
    for b in bs:
        if b in (0x22, 0x5c):
            out += '\\' + chr(b)
        elif 32 <= b < 127:
            out += chr(b)
        else:
            out += '\\x%02X' % b
    return out + '"'


def regex_escape(s):
    """independent re-implementation of regex_syntax::escape"""
    return ''.join('\\' + ch if ch in META else ch for ch in s)


def regex_escape_bytes(bs):
    out = ''
    for b in bs:
        if b <= 127:
            ch = chr(b)
            out += '\\' + ch if ch in META else ch
        else:
            out += '\\x%02X' % b
    return out


def random_literal(rng):
    alpha = list(META) + list(' aAbBzZkKsS09_') + ['é', 'É', 'ß', 'ǆ', 'K', 'ſ', 'σ', 'ς', 'Σ', '日', '😀', 'İ', 'ı']
    n = rng.choice([1, 1, 2, 2, 3, 4, 6])
    return ''.join(rng.choice(alpha) for _ in range(n))


def random_byte_literal(rng):
    n = rng.choice([1, 1, 2, 3, 4])
    out = []
    for _ in range(n):
        k = rng.random()
        if k < 0.4:
            out.append(rng.randint(0x80, 0xff))
        elif k < 0.7:
            out.append(ord(rng.choice(META + PUNCT + ' aAzZkK09')))
        else:
            out.append(rng.choice([0, 9, 10, 0x7f, 0x41, 0x61, 0x5a, 0x7a]))
    return bytes(out)


def front_tool(sub, lines):
    """Run `verif-capture front <sub>` on spec lines; returns {id: rest}."""
    tool = build.capture_tool()
    d = cache_dir('problems')
    p = os.path.join(d, 'front_%d_%s.txt' % (os.getpid(), sub))
    open(p, 'w').write('\n'.join(lines) + '\n')
    r = sh([tool, 'front', sub, p], check=False)
    os.remove(p)
    if r.returncode != 0:
        raise RuntimeError('front tool failed: ' + r.stdout[-1000:])
    out = {}
    for ln in r.stdout.split('\n'):
        if ln.strip():
            i, _, rest = ln.partition(' ')
            out[i] = rest
    return out


def refdfas(specs, name):
    """specs: list of (id, utf8mode, unicode, icase, pattern text). Returns {id: Cap}."""
    import cap as capmod, glob
    tool = build.capture_tool()
    out = cache_dir('refdfa', name)
    for f in glob.glob(os.path.join(out, '*')):
        os.remove(f)
    sp = os.path.join(out, 'spec.txt')
    open(sp, 'w').write('\n'.join('%s %d %d %d %s' % (i, u, un, ic, (pat.encode('utf8').hex() or '-')) for i, u, un, ic, pat in specs) + '\n')
    sh([tool, 'refdfa', out, sp])
    res = {}
    for p in glob.glob(os.path.join(out, '*.cap')):
        c = capmod.parse_cap(p)
        res[c.id] = c
    return res


# ------------------------------------------------------------------------------------------------
# canonical token lists (hook canonical_tokens) -> python trees / Coq terms / encodings
# ------------------------------------------------------------------------------------------------
def parse_canon(text):
    toks = text.split()
    pos = [0]

    def seq(until_close):
        out = []
        while pos[0] < len(toks):
            t = toks[pos[0]]
            if t == ')':
                if until_close:
                    pos[0] += 1
                    return out
                raise ValueError('unbalanced')
            pos[0] += 1
            if t.startswith('i:'):
                out.append(('i', t[2:].encode()))
            elif t.startswith('p:'):
                _, c, sp = t.split(':')
                out.append(('p', int(c), sp == 'J'))
            elif t.startswith('l:'):
                out.append(('l', bytes.fromhex(t[2:])))
            elif t.startswith('g') and t.endswith('('):
                out.append(('g', int(t[1:-1]), seq(True)))
            else:
                raise ValueError('bad canonical token ' + t)
        return out
    return seq(False)


def coq_tok(t):
    nl = lambda bs: '[' + ';'.join(str(b) for b in bs) + ']'
    if t[0] == 'i': return '(TIdent %s)' % nl(t[1])
    if t[0] == 'p': return '(TPunct %d %s)' % (t[1], 'true' if t[2] else 'false')
    if t[0] == 'l': return '(TLit %s)' % nl(t[1])
    return '(TGroup %d [%s])' % (t[1], ';'.join(coq_tok(x) for x in t[2]))


def enc_tok(t):
    if t[0] == 'i': return [1, len(t[1])] + list(t[1])
    if t[0] == 'p': return [2, t[1], 1 if t[2] else 0]
    if t[0] == 'l': return [3, len(t[1])] + list(t[1])
    out = [4, t[1], len(t[2])]
    for x in t[2]:
        out += enc_tok(x)
    return out


def enc_toks(ts):
    out = [len(ts)]
    for t in ts:
        out += enc_tok(t)
    return out


def enc_item_text(s):
    """Encode one item printed by the hook (U[ .. ], X[ .. ], N[name]A[ .. ], ...) like Front.AttrParser.enc_nested."""
    import re
    eb = lambda b: [len(b)] + list(b)
    m = re.match(r'U\[ (.*) \]$|U\[  \]$', s)
    if s.startswith('U['):
        return [10] + enc_toks(parse_canon(s[2:-1]))
    if s.startswith('X['):
        return [11] + enc_toks(parse_canon(s[2:-1]))
    m = re.match(r'N\[([^\]]*)\]([ALGK])\[(.*)\]$', s)
    name = m.group(1).encode()
    k = m.group(2); rest = m.group(3)
    if k == 'A':
        return [12] + eb(name) + enc_toks(parse_canon(rest))
    if k == 'L':
        t = parse_canon(rest)
        return [13] + eb(name) + eb(t[0][1])
    if k == 'G':
        return [14] + eb(name) + enc_toks(parse_canon(rest))
    m2 = re.match(r'([^\]]*)\]\[(.*)$', rest)
    return [15] + eb(name) + eb(m2.group(1).encode()) + enc_toks(parse_canon(m2.group(2)))
