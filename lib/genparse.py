"""Translator: the token text that logos_codegen::generate emits (captured by the hook, `<id>.gen`) -> the
program IR of coq/Engine/Prog.v.

The generated `fn lex` body is matched *strictly*, token by token, against the templates of
logos-codegen/src/generator/{mod,fork,fast_loop,leaf}.rs; only the holes (state names, leaf names, byte
literals, table contents, comparison bounds) are data.  Anything that does not match a template raises
ShapeError: the emitted code no longer has the shape whose meaning Engine/Prog.v models.

IR (python): dict(
   codegen='tc'|'sm', root=int, restart=int, luts=[[256 ints]],
   err_arm_ok=True, leaves=[dict(kind=..., cb=...)],
   states={n: dict(loop=None|(lut, mask), setup=None|('early', leaf)|('accept', leaf),
                   fork=('chain', [(cond, target)]) | ('table', [256 x (None|int)]),
                   eoi=dict(prefix=bool, root=bool, target=None|int))})
   cond = ('lut', lut, mask) | ('cmp', [(lo, hi, [ex..])])
"""
import re

TOKEN = re.compile(r'''
    (?P<str>b?"(?:\\.|[^"\\])*") |
    (?P<raw>b?r\#*"(?:.|\n)*?"\#*) |
    (?P<chr>b?'(?:\\u\{[0-9a-fA-F]+\}|\\x[0-9a-fA-F]{2}|\\.|[^'\\])') |
    (?P<life>'[A-Za-z_][A-Za-z0-9_]*) |
    (?P<word>[A-Za-z0-9_]+(?:\.[0-9]+)?) |
    (?P<delim>[(){}\[\],;]) |
    (?P<punct>[-+*/%^!&|=<>@.:?~\#$]+)
''', re.X)


class ShapeError(Exception):
    pass


def tokenize(s):
    out = []
    i = 0
    n = len(s)
    while i < n:
        if s[i].isspace():
            i += 1; continue
        m = TOKEN.match(s, i)
        if not m:
            raise ShapeError('cannot tokenize at %r' % s[i:i + 40])
        out.append(m.group(0))
        i = m.end()
    return out


_tokcache = {}


def toks(text):
    if text not in _tokcache:
        _tokcache[text] = tokenize(text)
    return _tokcache[text]


class Cur:
    def __init__(self, ts, i=0):
        self.ts = ts; self.i = i

    def peek(self, k=0):
        return self.ts[self.i + k] if self.i + k < len(self.ts) else None

    def at(self, text):
        t = toks(text)
        return self.ts[self.i:self.i + len(t)] == t

    def expect(self, text):
        t = toks(text)
        if self.ts[self.i:self.i + len(t)] != t:
            # find first differing token for the message
            k = 0
            while k < len(t) and self.i + k < len(self.ts) and self.ts[self.i + k] == t[k]:
                k += 1
            raise ShapeError('expected `%s` but found `%s` (after `%s`)' % (' '.join(t[k:k + 8]), ' '.join(self.ts[self.i + k:self.i + k + 8]),
                                                                             ' '.join(self.ts[max(0, self.i + k - 6):self.i + k])))
        self.i += len(t)

    def take(self):
        t = self.peek()
        if t is None:
            raise ShapeError('unexpected end of generated code')
        self.i += 1
        return t

    def find(self, text, start=None):
        t = toks(text)
        i = self.i if start is None else start
        n = len(t)
        while i + n <= len(self.ts):
            if self.ts[i:i + n] == t:
                return i
            i += 1
        return -1

    def skip_balanced(self, open_tok, close_tok):
        """cursor is just after an opening delimiter; returns the tokens up to the matching close and moves past it."""
        depth = 1; j = self.i
        while j < len(self.ts):
            t = self.ts[j]
            if t == open_tok: depth += 1
            elif t == close_tok:
                depth -= 1
                if depth == 0:
                    body = self.ts[self.i:j]; self.i = j + 1
                    return body
            j += 1
        raise ShapeError('unbalanced %s' % open_tok)


def byte_lit(t):
    """value of a byte as byte_to_tokens renders it: b'x' for the listed printable bytes, NNu8 otherwise"""
    m = re.fullmatch(r'(\d+)u8', t)
    if m:
        v = int(m.group(1))
        if v > 255: raise ShapeError('byte literal out of range: ' + t)
        return v
    m = re.fullmatch(r"b'(\\.|[^'\\])'", t)
    if m:
        c = m.group(1)
        if c.startswith('\\'):
            esc = {"\\'": 39, '\\\\': 92, '\\"': 34}
            if c not in esc: raise ShapeError('unexpected byte escape ' + t)
            return esc[c]
        return ord(c)
    raise ShapeError('not a byte literal: ' + t)


def num(t, suffix=''):
    m = re.fullmatch(r'(\d+)' + suffix, t)
    if not m: raise ShapeError('not a number%s: %s' % (' with suffix ' + suffix if suffix else '', t))
    return int(m.group(1))


FAST_LOOP = ("macro_rules ! _fast_loop { ($ lex : ident , $ test : ident , $ offset : ident) => { 'fast_loop : { "
             "while let _Option :: Some (arr) = $ lex . read :: < & [:: core :: primitive :: u8 ; 8usize] > ($ offset) { "
             + ' '.join("if $ test (arr [%dusize]) { $ offset += %dusize ; break 'fast_loop ; }" % (k, k) for k in range(8)) +
             " $ offset += 8usize ; } while let _Option :: Some (byte) = $ lex . read :: < :: core :: primitive :: u8 > ($ offset) { "
             "if $ test (byte) { break 'fast_loop ; } $ offset += 1 ; } } } ; }")

TAKE_ACTION_HEAD = ("macro_rules ! _take_action { ($ lex : ident , $ offset : ident , $ context : ident , $ state : ident) => { { "
                    "let action = _get_action ($ lex , $ offset , $ context) ; match action { "
                    "CallbackResult :: Emit (tok) => { return _Option :: Some (_Result :: Ok (tok)) ; } , "
                    "CallbackResult :: Skip => { $ lex . trivia () ; $ offset = $ lex . offset () ; $ context = _Option :: None ; ")
TAKE_ACTION_TAIL = ("} , CallbackResult :: Error (err) => { return _Option :: Some (_Result :: Err (err)) ; } , "
                    "CallbackResult :: DefaultError => { return _Option :: Some (_Result :: Err (_make_error ($ lex))) ; } , } } } }")

ERR_ARM = ("match context { _Option :: None => { lex . end_to_boundary (offset . max (lex . offset () + 1)) ; "
           "CallbackResult :: Error (_make_error (lex)) } ,")

READ_BYTE = "let other = lex . read :: < :: core :: primitive :: u8 > (offset) ; if let _Option :: Some (byte) = other {"
PREFIX_TEST = "if lex . is_prefix () { lex . end (lex . offset ()) ; return _Option :: None }"
ROOT_TEST = "if lex . offset () == offset { return _Option :: None }"
TAKE = "_take_action ! (lex , offset , context , state)"
USIZE = ":: core :: primitive :: usize"


def state_no(t, prefix):
    m = re.fullmatch(prefix + r'(\d+)', t)
    if not m: raise ShapeError('not a state name: ' + t)
    return int(m.group(1))


def leaf_no(t):
    m = re.fullmatch(r'Leaf(\d+)', t)
    if not m: raise ShapeError('not a leaf name: ' + t)
    return int(m.group(1))


class Parser:
    def __init__(self, text):
        self.ts = tokenize(text)
        self.c = Cur(self.ts)
        self.sm = None

    # ---- transitions
    def transition(self, c):
        """`return stateN (lex , offset , context) ;`  or  `state = LogosState :: StateN ; continue ;`"""
        if self.sm:
            c.expect('state = LogosState ::'); n = state_no(c.take(), 'State'); c.expect('; continue ;')
        else:
            c.expect('return'); n = state_no(c.take(), 'state'); c.expect('(lex , offset , context) ;')
        return n

    def lut_ref(self, c):
        t = c.take()
        m = re.fullmatch(r'_TABLE_(\d+)', t)
        if not m: raise ShapeError('not a LUT name: ' + t)
        c.expect('[byte as ' + USIZE + '] &')
        mask = num(c.take(), 'u8')
        if mask not in (1, 2, 4, 8, 16, 32, 64, 128): raise ShapeError('LUT mask is not a single bit: %d' % mask)
        return int(m.group(1)), mask

    def condition(self, c):
        if (c.peek() or '').startswith('_TABLE_'):
            lut, mask = self.lut_ref(c); c.expect('!= 0')
            return ('lut', lut, mask)
        cmps = []
        while True:
            c.expect('(')
            if c.at('byte =='):
                c.expect('byte =='); v = byte_lit(c.take()); c.expect(')')
                cmps.append((v, v, []))
            else:
                c.expect(':: core :: matches ! (byte ,'); lo = byte_lit(c.take()); c.expect('..='); hi = byte_lit(c.take()); c.expect(')')
                ex = []
                while c.at('&& byte !='):
                    c.expect('&& byte !='); ex.append(num(c.take(), 'u8'))
                c.expect(')')
                cmps.append((lo, hi, ex))
            if c.at('||'):
                c.expect('||'); continue
            break
        return ('cmp', cmps)

    def fork_body(self, c):
        """inside `if let Some(byte) = other {`  up to its closing brace (consumed)"""
        if self.sm and c.at('const TABLE'):
            c.expect('const TABLE : [_Option < LogosState > ; 256] = [')
            tab = []
            while not c.at(']'):
                if c.at('_Option :: None'):
                    c.expect('_Option :: None'); tab.append(None)
                else:
                    c.expect('_Option :: Some (LogosState ::'); tab.append(state_no(c.take(), 'State')); c.expect(')')
                if c.at(','): c.expect(',')
            c.expect('] ;')
            c.expect('let next_state = TABLE [byte as ' + USIZE + '] ; if let _Option :: Some (next_state) = next_state { offset += 1 ; state = next_state ; continue ; }')
            c.expect('}')
            if len(tab) != 256: raise ShapeError('jump table has %d entries' % len(tab))
            return ('table', tab)
        if (not self.sm) and c.at('# [derive'):
            c.expect('# [derive (:: core :: marker :: Copy , :: core :: clone :: Clone)] enum LogosNextState { ___')
            names = []
            while c.at(','):
                c.expect(','); names.append(state_no(c.take(), 'State'))
            c.expect('}')
            c.expect('const TABLE : [LogosNextState ; 256] = { use LogosNextState :: * ; [')
            tab = []
            while not c.at(']'):
                t = c.take()
                tab.append(None if t == '___' else state_no(t, 'State'))
                if c.at(','): c.expect(',')
            c.expect('] } ;')
            c.expect('offset += 1 ; match TABLE [byte as ' + USIZE + '] {')
            arms = {}
            while c.at('LogosNextState ::') and not c.at('LogosNextState :: ___'):
                c.expect('LogosNextState ::'); n = state_no(c.take(), 'State'); c.expect('=> {')
                arms[n] = self.transition(c); c.expect('}')
                if c.at(','): c.expect(',')
            c.expect('LogosNextState :: ___ => { } , }')
            c.expect('offset -= 1 ;')
            c.expect('}')
            if len(tab) != 256: raise ShapeError('jump table has %d entries' % len(tab))
            if sorted(arms) != sorted(names) or sorted(set(x for x in tab if x is not None)) != sorted(names):
                raise ShapeError('jump table names, enum and match arms disagree')
            for n, t in arms.items():
                if n != t: raise ShapeError('match arm State%d transitions to state%d' % (n, t))
            return ('table', tab)
        chain = []
        while c.at('if'):
            c.expect('if'); cond = self.condition(c); c.expect('{ offset += 1 ;'); t = self.transition(c); c.expect('}')
            chain.append((cond, t))
        c.expect('}')
        return ('chain', chain)

    def state_body(self, c):
        st = dict(loop=None, setup=None)
        if c.at('# [inline] fn loop_test'):
            c.expect('# [inline] fn loop_test (byte : :: core :: primitive :: u8) -> :: core :: primitive :: bool {')
            lut, mask = self.lut_ref(c); c.expect('== 0 }')
            c.expect('_fast_loop ! (lex , loop_test , offset) ;')
            st['loop'] = (lut, mask)
        if c.at('lex . end (offset) ;'):
            c.expect('lex . end (offset) ; context = _Option :: Some (LogosLeaf ::'); st['setup'] = ('early', leaf_no(c.take())); c.expect(') ;')
        elif c.at('lex . end (offset - 1) ;'):
            c.expect('lex . end (offset - 1) ; context = _Option :: Some (LogosLeaf ::'); st['setup'] = ('accept', leaf_no(c.take())); c.expect(') ;')
        c.expect(READ_BYTE)
        st['fork'] = self.fork_body(c)
        c.expect('else {')
        eoi = dict(prefix=False, root=False, target=None)
        if c.at(PREFIX_TEST):
            c.expect(PREFIX_TEST); eoi['prefix'] = True
        if c.at(ROOT_TEST):
            c.expect(ROOT_TEST); eoi['root'] = True
        if c.at('offset += 1 ;'):
            c.expect('offset += 1 ;'); eoi['target'] = self.transition(c)
        c.expect('}')
        st['eoi'] = eoi
        c.expect(TAKE)
        c.expect('}')
        return st

    def parse(self):
        c = self.c
        i = c.find(FAST_LOOP)
        if i < 0: raise ShapeError('the _fast_loop macro does not have the modelled text')
        # everything before it: trait header and `use` lines of fn lex (no executable statement may precede the macros)
        head = self.ts[:i]
        k = None
        for j in range(len(head) - 1):
            if head[j] == 'fn' and head[j + 1] == 'lex':
                k = j; break
        if k is None: raise ShapeError('fn lex not found')
        cc = Cur(head, k)
        while cc.peek() != '{':
            cc.take()
        cc.take()
        # `#[logos(crate = path)]` replaces `:: logos`; the path is a hole (identifiers and `::` only)
        def crate_path():
            path = []
            while cc.peek() is not None and (cc.peek() == '::' or re.fullmatch(r'[A-Za-z_][A-Za-z0-9_]*', cc.peek())) \
                    and not (cc.peek() == '::' and cc.peek(1) in ('internal', 'Lexer', 'Logos') and cc.peek(2) in ('::', 'as', ';')):
                path.append(cc.take())
            if not path: raise ShapeError('no crate path in the use lines')
            return path
        cc.expect('use'); cp = crate_path()
        cc.expect(':: internal :: { LexerInternal , CallbackRetVal , CallbackResult , SkipRetVal , SkipResult , } ; '
                  'use :: core :: result :: Result as _Result ; use :: core :: option :: Option as _Option ; use')
        if crate_path() != cp: raise ShapeError('crate paths differ')
        cc.expect(':: Lexer as _Lexer ; use')
        if crate_path() != cp: raise ShapeError('crate paths differ')
        cc.expect(':: Logos ;')
        if cc.peek() is not None: raise ShapeError('unexpected code before the _fast_loop macro: ' + ' '.join(head[cc.i:cc.i + 10]))
        c.i = i; c.expect(FAST_LOOP)
        c.expect(TAKE_ACTION_HEAD)
        if c.at('$ state ='):
            self.sm = True
            c.expect('$ state = LogosState ::'); restart = state_no(c.take(), 'State'); c.expect('; continue ;')
        else:
            self.sm = False
            c.expect('return'); restart = state_no(c.take(), 'state'); c.expect('($ lex , $ offset , $ context) ;')
        c.expect(TAKE_ACTION_TAIL)
        luts = []
        while c.at('const') and (c.peek(1) or '').startswith('_TABLE_'):
            c.expect('const'); t = c.take()
            if t != '_TABLE_%d' % len(luts): raise ShapeError('LUT %s out of order' % t)
            c.expect(': [:: core :: primitive :: u8 ; 256] = [')
            row = []
            while not c.at(']'):
                row.append(num(c.take(), 'u8'))
                if c.at(','): c.expect(',')
            c.expect('] ;')
            if len(row) != 256: raise ShapeError('LUT has %d entries' % len(row))
            luts.append(row)
        # _make_error: body is user-configurable; skip it
        c.expect('# [inline] fn _make_error')
        while c.peek() != '{': c.take()
        c.take(); make_error_body = c.skip_balanced('{', '}')
        c.expect('# [inline] fn _get_action')
        while not c.at('-> CallbackResult'): c.take()
        while c.peek() != '{': c.take()
        c.take()
        c.expect(ERR_ARM)
        leaves = []
        while c.at('_Option :: Some (LogosLeaf ::'):
            c.expect('_Option :: Some (LogosLeaf ::'); n = leaf_no(c.take()); c.expect(') => {')
            body = c.skip_balanced('{', '}')
            if n != len(leaves): raise ShapeError('leaf arms out of order')
            leaves.append(body)
            if c.at(','): c.expect(',')
        if c.at('_Option :: Some (_) =>'):
            c.expect('_Option :: Some (_) => :: core :: unreachable ! ("There are no matchable tokens") ,')
        c.expect('} }')
        c.expect('# [derive (:: core :: clone :: Clone , :: core :: marker :: Copy)] enum LogosLeaf {')
        k = 0
        while not c.at('}'):
            if leaf_no(c.take()) != k: raise ShapeError('LogosLeaf variants out of order')
            c.expect('=');
            if num(c.take(), 'isize') != k: raise ShapeError('LogosLeaf discriminant')
            if c.at(','): c.expect(',')
            k += 1
        c.expect('}')
        if k != len(leaves): raise ShapeError('%d leaf arms but %d leaves' % (len(leaves), k))
        states = {}
        if self.sm:
            c.expect('# [derive (:: core :: clone :: Clone , :: core :: marker :: Copy)] enum LogosState {')
            names = []
            while not c.at('}'):
                names.append(state_no(c.take(), 'State'))
                if c.at(','): c.expect(',')
            c.expect('}')
            c.expect('let mut state = LogosState ::'); root = state_no(c.take(), 'State')
            c.expect('; let mut offset = lex . offset () ; let mut context : _Option < LogosLeaf > = _Option :: None ; loop { match state {')
            while c.at('LogosState ::'):
                c.expect('LogosState ::'); n = state_no(c.take(), 'State'); c.expect('=> {')
                if n in states: raise ShapeError('state %d rendered twice' % n)
                states[n] = self.state_body(c)
            c.expect('} }')
            if sorted(names) != sorted(states): raise ShapeError('LogosState variants and match arms disagree')
        else:
            while c.at('fn') and (c.peek(1) or '').startswith('state'):
                c.expect('fn'); n = state_no(c.take(), 'state')
                # generics, parameters and return type mention the user's type; the parameter list is fixed
                while not c.at('(lex : & mut _Lexer <'): c.take()
                c.expect('(lex : & mut _Lexer <')
                while not c.at(', mut offset : ' + USIZE + ' , mut context : _Option < LogosLeaf >) ->'): c.take()
                c.expect(', mut offset : ' + USIZE + ' , mut context : _Option < LogosLeaf >) ->')
                while c.peek() != '{': c.take()
                c.take()
                if n in states: raise ShapeError('state %d rendered twice' % n)
                states[n] = self.state_body(c)
            root = state_no(c.take(), 'state'); c.expect('(lex , lex . offset () , _Option :: None)')
        # end of fn lex and of the impl
        c.expect('} }')
        if c.peek() is not None: raise ShapeError('trailing tokens after the impl: ' + ' '.join(self.ts[c.i:c.i + 8]))
        return dict(codegen='sm' if self.sm else 'tc', root=root, restart=restart, luts=luts, leaves=leaves, states=states,
                    make_error=make_error_body)


def parse_generated(text):
    return Parser(text).parse()


# ---- leaf bodies (generator/leaf.rs generate_callback) --------------------------------------------------
def classify_leaf_body(body):
    """Returns (shape, callback text or None). shape in skip, skip_cb, unit, unit_cb, value, value_cb."""
    c = Cur(body)
    def cb_text(cur):
        # `label (lex)` or `{ let arg = lex ; body }`
        start = cur.i
        if cur.peek() == '{':
            cur.take(); inner = cur.skip_balanced('{', '}')
            return 'inline:' + ' '.join(inner)
        depth = 0
        while cur.peek() is not None and not (depth == 0 and cur.peek() == ';'):
            t = cur.take()
            if t in '([{': depth += 1
            elif t in ')]}': depth -= 1
        txt = cur.ts[start:cur.i]
        if txt[-3:] != ['(', 'lex', ')']: raise ShapeError('callback call is not `label (lex)`: ' + ' '.join(txt[-6:]))
        return 'label:' + ''.join(txt[:-3])
    if c.at('CallbackResult :: Skip') and len(body) == 3:
        return 'skip', None
    if c.at('CallbackResult :: Emit ('):
        return 'unit', None
    if c.at('let token ='):
        return 'value', None
    if c.at('let cb_result ='):
        c.expect('let cb_result ='); cb = cb_text(c); c.expect(';')
        if c.at('let srv = SkipRetVal ::'):
            return 'skip_cb', cb
        if c.at('CallbackRetVal ::'):
            rest = c.ts[c.i:]
            unit = any(rest[k:k + 4] == ['|', '(', ')', '|'] for k in range(len(rest)))
            return ('unit_cb' if unit else 'value_cb'), cb
    raise ShapeError('leaf body has no modelled shape: ' + ' '.join(body[:12]))


# ---- IR -> problem-file records for the extracted checker (coq/extract/driver.ml: PGM / PL / PS / PG) ----
def prog_records(ir):
    o = lambda x: 0 if x is None else x + 1
    lines = ['PGM %d %d' % (ir['root'], ir['restart'])]
    for row in ir['luts']:
        lines.append('PL ' + ' '.join(map(str, row)))
    for s in sorted(ir['states']):
        st = ir['states'][s]
        parts = ['PS', s]
        parts += [1, st['loop'][0], st['loop'][1]] if st['loop'] else [0]
        su = st['setup']
        parts += [0] if su is None else ([1, su[1]] if su[0] == 'early' else [2, su[1]])
        e = st['eoi']
        parts += [int(e['prefix']), int(e['root']), o(e['target'])]
        kind, body = st['fork']
        if kind == 'chain':
            parts += [0, len(body)]
            for cond, t in body:
                if cond[0] == 'lut':
                    parts += [0, cond[1], cond[2]]
                else:
                    parts += [1, len(cond[1])]
                    for lo, hi, ex in cond[1]:
                        parts += [lo, hi, len(ex)] + list(ex)
                parts.append(t)
        else:
            parts += [1] + [o(x) for x in body]
        lines.append(' '.join(map(str, parts)))
    return lines


# ---- IR -> Coq term of type Engine.Prog.prog (kernel instances) ----
def coq_prog(ir):
    L = lambda xs: '[' + '; '.join(xs) + ']'
    pid = lambda s: '%d%%positive' % (s + 1)
    osid = lambda s: 'None' if s is None else 'Some %s' % pid(s)
    sts = []
    for s in sorted(ir['states']):
        st = ir['states'][s]
        loop = 'None' if st['loop'] is None else 'Some (%d, %d)' % st['loop']
        su = st['setup']
        setup = 'PNoSetup' if su is None else ('PEarly %d' % su[1] if su[0] == 'early' else 'PAccept %d' % su[1])
        kind, body = st['fork']
        if kind == 'chain':
            items = []
            for cond, t in body:
                if cond[0] == 'lut':
                    c = 'PLut %d %d' % (cond[1], cond[2])
                else:
                    c = 'PCmp ' + L('{| c_lo := %d; c_hi := %d; c_ex := %s |}' % (lo, hi, L(map(str, ex))) for lo, hi, ex in cond[1])
                items.append('(%s, %s)' % (c, pid(t)))
            fork = 'PChain ' + L(items)
        else:
            fork = 'PTable ' + L('(%s)' % osid(x) if x is not None else 'None' for x in body)
        e = st['eoi']
        sts.append('(%s, {| p_loop := %s; p_setup := %s; p_fork := %s; p_prefix := %s; p_roottest := %s; p_eoi := %s |})' %
                   (pid(s), loop, setup, fork, 'true' if e['prefix'] else 'false', 'true' if e['root'] else 'false', osid(e['target'])))
    luts = L(L(map(str, row)) for row in ir['luts'])
    return 'mk_prog %s %s %s %s' % (luts, L(sts), pid(ir['root']), pid(ir['restart']))
