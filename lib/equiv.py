"""Language equality of one leaf of a DFA with one leaf of a reference DFA: python BFS computes the
relation hint (or a distinguishing input); the extracted Coq checker bisim_ok validates the hint."""
from collections import deque
import cap as capmod


class RefDfa:
    """Minimal DFA interface (step/match) over the dict format of cap.dfa."""
    def __init__(self, states, start):
        self.states = states; self.start = start
        self.table = {}
        for q, st in states.items():
            row = [0] * 256
            for lo, hi, t in st['trans']:
                for b in range(lo, hi + 1):
                    row[b] = t
            self.table[q] = row

    def step(self, q, u):
        if q not in self.states:
            return 0
        return self.states[q]['eoi'] if u == 256 else self.table[q][u]

    def match(self, q):
        st = self.states.get(q)
        return st['match'] if st else []


def chain_dfa(w):
    """The delayed-match automaton of the literal byte string w: state i+1 = i bytes matched (ids from 1;
    0 is dead), len+1 = whole literal read, M = match shown by the unit that follows."""
    n = len(w)
    M = n + 2
    states = {}
    for i in range(n):
        states[i + 1] = dict(trans=[(w[i], w[i], i + 2)], eoi=0, match=[], dead=False)
    states[n + 1] = dict(trans=[(0, 255, M)], eoi=M, match=[], dead=False)
    states[M] = dict(trans=[], eoi=0, match=[0], dead=False)
    return RefDfa(states, 1)


def runs_of(states, q):
    st = states.get(q)
    return st['trans'] if st else []


def product(d1, l1, d2, l2, limit=400000):
    """BFS over pairs. Returns (R, None) or (None, (bytes, final_unit))."""
    start = (d1.start, d2.start)
    prev = {start: None}
    dq = deque([start])
    while dq:
        q1, q2 = cur = dq.popleft()
        # boundaries where either transition function changes
        cuts = {0}
        for lo, hi, t in runs_of(d1.states, q1):
            cuts.add(lo); cuts.add(hi + 1)
        for lo, hi, t in runs_of(d2.states, q2):
            cuts.add(lo); cuts.add(hi + 1)
        units = sorted(c for c in cuts if c < 256) + [256]
        for u in units:
            n1, n2 = d1.step(q1, u), d2.step(q2, u)
            if (l1 in d1.match(n1)) != (l2 in d2.match(n2)):
                path = [u]
                c = cur
                while prev[c] is not None:
                    c, uu = prev[c]; path.append(uu)
                path.reverse()
                return None, (bytes(x for x in path[:-1] if x < 256), path[-1])
            nx = (n1, n2)
            if nx not in prev:
                prev[nx] = (cur, u); dq.append(nx)
                if len(prev) > limit:
                    raise RuntimeError('product too large')
    R = {}
    for a, b in prev:
        R.setdefault(a, []).append(b)
    return R, None


def d2_lines(ref):
    lines = ['D2 %d' % ref.start]
    for q in sorted(ref.states):
        if q == 0:
            continue
        st = ref.states[q]
        tr = [(lo, hi, t) for lo, hi, t in st['trans'] if t != 0]
        parts = ['Q2', q, st['eoi'], len(st['match'])] + list(st['match']) + [len(tr)]
        for lo, hi, t in tr:
            parts += [lo, hi, t]
        lines.append(' '.join(map(str, parts)))
    return lines


def br_line(R):
    parts = ['BR', len(R)]
    for a, bs in sorted(R.items()):
        parts += [a, len(bs)] + sorted(bs)
    return ' '.join(map(str, parts))
