"""Seeded generator of random lexer definitions (Rust enum sources)."""
import random

ATOMS_ASCII = list('abcd01 x')
ATOMS_MULTI = ['λ', '日', '😀', 'é']
LOOKS_END = ['$', '(?m:$)', r'(?-u:\b)', r'(?-u:\B)', r'(?-u:\b{end})', r'(?-u:\b{end-half})']
LOOKS_MID = [r'(?-u:\b)', r'(?-u:\B)', '(?m:^)', r'(?-u:\b{start-half})', '(?m:$)']


def esc(ch):
    return '\\' + ch if ch in r'\.+*?()|[]{}^$#&-~ ' and ch != ' ' else ch


class Gen:
    def __init__(self, rng, multibyte=True, looks=True):
        self.rng = rng
        self.multibyte = multibyte
        self.looks = looks
        self.allow_empty = False
        self.bytes_mode = False

    def atom_char(self):
        r = self.rng
        if self.multibyte and r.random() < 0.15:
            return r.choice(ATOMS_MULTI)
        return r.choice(ATOMS_ASCII)

    def klass(self):
        r = self.rng
        if self.bytes_mode and r.random() < 0.5:
            return r.choice(['(?-u:[^a])', '(?-u:[\\x80-\\xff])', '(?-u:[^\\x00-\\x20])', '(?s-u:.)', '(?-u:[\\x00-\\x7f])', '(?-u:[^ab0])', '(?-u:[\\xc0-\\xff])'])
        k = r.random()
        if k < 0.5:
            a, b = sorted(r.sample('abcdefg', 2))
            return '[%s-%s]' % (a, b)
        if k < 0.7:
            return '[%s]' % ''.join(sorted(set(r.choice('abcd01') for _ in range(r.randint(2, 3)))))
        if k < 0.8:
            return '[^%s]' % r.choice('ab0 ')
        if k < 0.9 and self.multibyte:
            return r.choice([r'\p{Greek}', '[α-ω]', '[日月]', r'\d', '[a-cλ]'])
        return r.choice(['[0-9]', '[a-z]', r'\s'])

    def nonempty(self, depth):
        """A pattern that cannot match the empty string."""
        r = self.rng
        k = r.random()
        if depth <= 0 or k < 0.35:
            return esc(self.atom_char()) if r.random() < 0.6 else self.klass()
        if k < 0.55:
            return self.nonempty(depth - 1) + self.maybe_empty(depth - 1)
        if k < 0.7:
            return self.maybe_empty(depth - 1) + self.nonempty(depth - 1)
        if k < 0.82:
            return '(%s|%s)' % (self.nonempty(depth - 1), self.nonempty(depth - 1))
        if k < 0.92:
            q = r.choice(['+', '+?', '{2}', '{1,3}', '{2,}', '{1,2}?'])
            return '(%s)%s' % (self.nonempty(depth - 1), q)
        return self.nonempty(depth - 1) + self.nonempty(depth - 1)

    def maybe_empty(self, depth):
        r = self.rng
        k = r.random()
        if depth <= 0 or k < 0.3:
            base = esc(self.atom_char()) if r.random() < 0.6 else self.klass()
            return base + r.choice(['*', '?', '*?', '??', '{0,2}'])
        if k < 0.6:
            return '(%s)%s' % (self.nonempty(depth - 1), r.choice(['*', '?', '*?', '{0,2}']))
        if k < 0.7 and self.looks:
            return r.choice(LOOKS_MID)
        return self.nonempty(depth - 1)

    def pattern(self):
        r = self.rng
        if self.allow_empty and r.random() < 0.05:
            return self.maybe_empty(r.randint(0, 2))
        p = self.nonempty(r.randint(0, 3))
        if self.looks and r.random() < 0.35:
            p += r.choice(LOOKS_END)
        return p

    def literal(self):
        r = self.rng
        return ''.join(self.atom_char() for _ in range(r.randint(1, 4)))


def rust_str(s):
    return 'r#"%s"#' % s if '"' not in s or '#' not in s else '"%s"' % s.replace('\\', '\\\\').replace('"', '\\"')


def random_definition(rng, name, forced_accept=True, looks=True, multibyte=True, n_leaves=None, bytes_mode=False):
    g = Gen(rng, multibyte=multibyte and not bytes_mode, looks=looks)
    g.allow_empty = not forced_accept
    g.bytes_mode = bytes_mode
    n = n_leaves or rng.randint(2, 6)
    variants = []
    prios = list(range(1, 4 * n + 1))
    rng.shuffle(prios)
    header = ['#[derive(Logos, Debug, PartialEq, Clone)]']
    if bytes_mode:
        header.append('#[logos(utf8 = false)]')
    if rng.random() < 0.3:
        pr = ', priority = %d' % prios.pop() if forced_accept else ''
        header.append('#[logos(skip(%s%s))]' % (rust_str(g.nonempty(1)), pr))
    for i in range(n):
        pr = ', priority = %d' % prios.pop() if (forced_accept or rng.random() < 0.3) else ''
        k = rng.random()
        if k < 0.3:
            ic = ', ignore(case)' if rng.random() < 0.15 else ''
            attr = '#[token(%s%s%s)]' % (rust_str(g.literal()), pr, ic)
        else:
            skip = ', logos::skip' if rng.random() < 0.12 else ''
            attr = '#[regex(%s%s%s)]' % (rust_str(g.pattern()), skip, pr)
        variants.append('    %s V%d,' % (attr, i))
    return '\n'.join(header) + '\npub enum %s {\n%s\n}\n' % (name, '\n'.join(variants))


def tie_rich_definition(rng, name):
    """Overlapping classes with explicit priorities drawn from a tiny set: many ties, adjacent and not."""
    n = rng.randint(3, 6)
    vs = []
    for i in range(n):
        a, b = sorted(rng.sample('abcdefgh', 2))
        pat = rng.choice(['[%s-%s]+' % (a, b), '[%s-%s][0-9a-z]?' % (a, b), '[%s-%s]{1,2}' % (a, b), '%s[a-z]*' % a])
        vs.append('    #[regex("%s", priority = %d)] V%d,' % (pat, rng.choice([1, 2, 2, 3, 3]), i))
    # some of the overlapping patterns are skips (ties among skips only, or between a skip and a variant)
    hdr = ''
    for j in range(rng.choice([0, 0, 1, 2])):
        a, b = sorted(rng.sample('abcdefgh', 2))
        pat = rng.choice(['[%s-%s]+' % (a, b), '[%s-%s][0-9a-z]?' % (a, b), '%s[a-z]*' % a])
        hdr += '#[logos(skip("%s", priority = %d))]\n' % (pat, rng.choice([1, 2, 3, 3]))
    return '#[derive(Logos, Debug, PartialEq, Clone)]\n%spub enum %s {\n%s\n}\n' % (hdr, name, '\n'.join(vs))


def random_corpus(seed, count, prefix='R', **kw):
    rng = random.Random(seed)
    out = []
    for i in range(count):
        if rng.random() < 0.12:
            out.append(tie_rich_definition(rng, '%s%d' % (prefix, i)))
            continue
        forced = rng.random() < 0.6
        out.append(random_definition(rng, '%s%d' % (prefix, i), forced_accept=forced,
                                     looks=rng.random() < 0.6, bytes_mode=kw.get('bytes_mode', False) or rng.random() < 0.1))
    return out


def cross_corpus():
    """Deterministic cross product of the attribute forms: kind x literal kind x source mode x named arguments x
    pattern content.  The checks that read the graph-level corpora judge every member generically (K4 leaf language,
    C09 priorities from the attribute text, C08 ties from independently scanned priorities, UTF-8 certificates,
    empty-match rule, emitted-program tie), so no expectation is attached here."""
    def rs(x, isb):
        esc = ''.join(('\\\\' if ch == '\\' else '\\"' if ch == '"' else ch) for ch in x)
        return ('b"%s"' if isb else '"%s"') % esc
    toks = ['ab', 'if', 'K', '=>', 'a.b', '<<', '\u00e9t\u00e9', '\u01c5']
    regs = ['[a-c]+x', 'k[a-z]?', '\u00e9+', '[0-_]+', 'a{2,3}', 'x$', 'a(?-u:\\b)', '[^a-y]z', '(?:ab|cd)+', '[0-9]{2}', '.x', 'a\\x41']
    argsets = [[], ['priority = 3'], ['ignore(case)'], ['priority = 3', 'ignore(case)'], ['priority = 30'], ['priority = 65536'], ['priority = 65600']]
    out = []; k = 0
    for bmode in (False, True):
        hdr = '#[logos(utf8 = false)] ' if bmode else ''
        for isb in (False, True):
            fill = '#[token(%s)] Z' % rs('~', isb)
            for t in toks:
                if isb and any(ord(ch) > 127 for ch in t):
                    continue
                for args in argsets:
                    a = ''.join(', ' + x for x in args)
                    out.append('#[derive(Logos)] %senum X%d { #[token(%s%s)] A, #[regex(%s)] W, %s }' % (hdr, k, rs(t, isb), a, rs('[a-z=<>.]+', isb), fill)); k += 1
            for r in regs:
                if isb and any(ord(ch) > 127 for ch in r):
                    continue
                for args in argsets:
                    a = ''.join(', ' + x for x in args)
                    out.append('#[derive(Logos)] %senum X%d { #[regex(%s%s)] A, %s }' % (hdr, k, rs(r, isb), a, fill)); k += 1
                    if args in ([], ['priority = 3'], ['ignore(case)']):
                        out.append('#[derive(Logos)] %s#[logos(skip(%s%s))] enum X%d { %s }' % (hdr, rs(r, isb), a, k, fill)); k += 1
                out.append('#[derive(Logos)] %s#[logos(skip %s)] enum X%d { %s }' % (hdr, rs(r, isb), k, fill)); k += 1
    # byte-mode regexes whose literal runs are not valid UTF-8 (Pattern::complexity counts bytes there, characters otherwise),
    # and loops over one range anchored at 0x00 or 0xFF
    for r in ['\\xE2\\x82', '\\xF0\\x9F\\x98', '\\xC3\\xA9\\xFF', '\\xFF\\xFE', 'a\\xE2\\x82b', '(?-u:[\\x80-\\xFF])+', '(?-u:[\\x00-\\x20])+q']:
        for args in ([], ['priority = 4'], ['priority = 2']):
            a = ''.join(', ' + x for x in args)
            out.append('#[derive(Logos)] #[logos(utf8 = false)] enum X%d { #[regex(b"%s"%s)] A, #[regex(b"(?-u:[\\x80-\\xFF])(?-u:[\\x80-\\xFF])", priority = 4)] W, #[token(b"~")] Z }' % (k, r, a)); k += 1
    for r in ['[\\x00-\\x20]+', '[[:ascii:]]+x', '[\\x00-\\x1F]*!']:
        out.append('#[derive(Logos)] enum X%d { #[regex("%s")] A, #[token("~~")] Z }' % (k, r)); k += 1
    # a longer token that extends a higher-priority shorter one by exactly one byte (promptness of partial lexing)
    out.append('#[derive(Logos)] enum X%d { #[token("=", priority = 10)] Eq, #[token("==")] EqEq, #[regex("[a-z]+")] W }' % k); k += 1
    out.append('#[derive(Logos)] enum X%d { #[token("if")] If, #[regex("[a-z]*!")] Macro, #[token(" ")] Sp }' % k); k += 1
    # wide enums (more than 64 leaves) with one equal-priority overlap whose second member sits at every position
    # from 60 to 79, next to a lower-priority overlap early in the enum: the tie must be reported wherever it is
    for pos in range(60, 80):
        vs = []
        for i in range(80):
            if i == 5:
                vs.append('#[regex("[0-9u-z]+", priority = 1)] Tail')
            elif i == 6:
                vs.append('#[regex("[a-z]+")] Ident')
            elif i == pos:
                vs.append('#[regex("[a-t]+")] Word')
            else:
                vs.append('#[token("%%%02d")] F%d' % (i, i))
        out.append('#[derive(Logos)] enum X%d { %s }' % (k, ', '.join(vs))); k += 1
    # patterns that can never match, alone and next to live ones (a working lexer that reports every byte as an error)
    for pats in (['[a&&b]'], ['[^\\s\\S]'], ['\\P{any}'], ['x[^\\s\\S]y', '[a&&b]+'], ['[a&&b]', 'ok']):
        out.append('#[derive(Logos)] enum X%d { %s }' % (k, ', '.join('#[regex("%s")] V%d' % (p_, i_) for i_, p_ in enumerate(pats)))); k += 1
    out.append('#[derive(Logos)] #[logos(utf8 = false)] enum X%d { #[regex(b"[^\\x00-\\xFF]")] A }' % k); k += 1
    out.append('#[derive(Logos)] #[logos(skip "[a&&b]")] enum X%d { #[regex("[^\\s\\S]")] A }' % k); k += 1
    # an undefined reference next to several defined subpatterns (the diagnostic must not depend on a hash order)
    out.append('#[derive(Logos)] #[logos(subpattern a = "x", subpattern b = "y", subpattern c = "z", subpattern d = "w", subpattern e = "v", subpattern f = "u")] enum X%d { #[regex("(?&a)(?&bb)")] A, #[regex("(?&zz)")] B }' % k); k += 1
    # multi-byte literal tokens next to a pattern whose explicit priority lies between 2 x characters and 2 x bytes
    for args in ('', ', ignore(case)'):
        for hdr in ('', '#[logos(utf8 = false)] '):
            out.append('#[derive(Logos)] %senum X%d { #[token("\u00e9t\u00e9"%s)] Summer, #[regex("[a-z\u00e0-\u00ff]+", priority = 7)] Word, #[token(" ")] Sp }' % (hdr, k, args)); k += 1
    return out
