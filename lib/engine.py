"""Engine correspondence (K2/K3): run compiled lexers and the extracted Coq model on the same probes."""
import os, re, subprocess, concurrent.futures as cf
from common import *
import cap as capmod


CB_CODES = {'decide_bool': 10, 'decide_option': 11, 'decide_result': 12, 'decide_filter': 13, 'decide_filterresult': 14,
            'decide_skip': 15, 'decide_result_skip': 16, 'decide_unit': 17, 'decide_value': 18,
            'decide_tok': 19, 'decide_tok_result': 20, 'decide_tok_filter': 21, 'decide_tok_filterresult': 22,
            'decide_skipcb_unit': 23, 'decide_skipcb_result': 24, 'decide_bump': 25,
            'decide_bool_b': 10, 'decide_filter_b': 13, 'decide_bump_b': 25,
            'named::boolish::skip': 10, 'named::filt::skip': 13, 'named::fr::skip': 14, 'named::valueish::skip': 18,
            'named::bumping::skip': 25, 'decide_bump_skip': 26, 'decide_bump_skip_unit': 26, 'named::unitish::skip': 23, 'named::resultish::skip': 24}


def behaviour_codes(c):
    """Per leaf: 0 emit, 1 skip, 2 checksum-decided (harness callback `decide*`)."""
    codes = []
    for l in c.leaves:
        cb = c.leafcb.get(l['idx'], '')
        if cb == '':
            codes.append(1 if l['kind'] == 'skip' else 0)
        elif cb in ('logos::skip', 'skip'):
            codes.append(1)
        elif cb in CB_CODES:
            codes.append(CB_CODES[cb])
        else:
            codes.append(None)     # unknown callback: cannot be modelled
    return codes


def leaf_variant(c, i):
    k = c.leaves[i]['kind']
    return None if k == 'skip' else k.split(':', 1)[1]


def expected_variant(c, rec):
    """Variant name the model predicts for an Ok item (any-token callbacks of the corpus choose Alt when k >= 2)."""
    codes = behaviour_codes(c)
    if rec[1] is not None and codes[rec[1]] in (19, 20, 21, 22) and getattr(rec, 'k', 0) >= 2:
        return 'Alt'
    return leaf_variant(c, rec[1])


def problem_header(c, with_dfa=True, hints=False):
    """Problem-file records for one definition (graph, DFA, ranks, behaviour, utf8)."""
    g = c.graph
    lines = ['G %d' % g['root']]
    o = lambda x: 0 if x is None else x + 1
    for s in sorted(g['states']):
        st = g['states'][s]
        parts = ['S', s, o(st['early']), o(st['accept']), o(st['eoi']), len(st['edges'])]
        for t, rs in st['edges']:
            parts += [t, len(rs)]
            for lo, hi in rs:
                parts += [lo, hi]
        lines.append(' '.join(map(str, parts)))
    if with_dfa:
        d = c.dfa
        lines.append('D %d' % d['start'])
        for q in sorted(d['states']):
            if q == 0:
                continue
            st = d['states'][q]
            tr = [(lo, hi, t) for lo, hi, t in st['trans'] if t != 0]
            parts = ['Q', q, st['eoi'], len(st['match'])] + st['match'] + [len(tr)]
            for lo, hi, t in tr:
                parts += [lo, hi, t]
            lines.append(' '.join(map(str, parts)))
        lines.append('PR %d %s' % (len(c.leaves), ' '.join(str(l['prio']) for l in c.leaves)))
        dfa = capmod.Dfa(c)
        rank = dfa.live_ranks()
        lines.append('R %d %s' % (len(rank), ' '.join('%d %d' % kv for kv in sorted(rank.items()))))
        if hints:
            V = capmod.compute_pairing(c, dfa)
            parts = ['V', len(V)]
            for s, qs in sorted(V.items()):
                parts += [s, len(qs)] + qs
            lines.append(' '.join(map(str, parts)))
            dead = sorted(set([q for q in list(dfa.states) + [0] if q not in rank]))
            lines.append('DS %d %s' % (len(dead), ' '.join(map(str, dead))))
            P = capmod.utf8_product(dfa)
            parts = ['PU', len(P)]
            for q, us in sorted(P.items()):
                parts += [q, len(us)] + sorted(us)
            lines.append(' '.join(map(str, parts)))
    codes = behaviour_codes(c)
    lines.append('A %d %s' % (len(codes), ' '.join(str(x or 0) for x in codes)))
    lines.append('U %d' % (1 if c.utf8 else 0))
    return lines


def dfa_header(c, prios=None):
    """Problem-file records for a DFA-only capture (subpatterns): DFA, dead-set and UTF-8 product hints."""
    d = c.dfa
    lines = ['D %d' % d['start']]
    for q in sorted(d['states']):
        if q == 0:
            continue
        st = d['states'][q]
        tr = [(lo, hi, t) for lo, hi, t in st['trans'] if t != 0]
        parts = ['Q', q, st['eoi'], len(st['match'])] + st['match'] + [len(tr)]
        for lo, hi, t in tr:
            parts += [lo, hi, t]
        lines.append(' '.join(map(str, parts)))
    lines.append('PR %d %s' % (len(c.leaves), ' '.join(str(x) for x in (prios if prios is not None else [l['prio'] for l in c.leaves]))))
    dfa = capmod.Dfa(c)
    rank = dfa.live_ranks()
    dead = sorted(set([q for q in list(dfa.states) + [0] if q not in rank]))
    lines.append('DS %d %s' % (len(dead), ' '.join(map(str, dead))))
    P = capmod.utf8_product(dfa)
    parts = ['PU', len(P)]
    for q, us in sorted(P.items()):
        parts += [q, len(us)] + sorted(us)
    lines.append(' '.join(map(str, parts)))
    return lines


def run_modeldrv(exe, jobs):
    """jobs: list of list-of-lines (one problem file each). Returns concatenated output lines."""
    d = cache_dir('problems')

    def one(ij):
        i, lines = ij
        p = os.path.join(d, 'prob_%d_%d.txt' % (os.getpid(), i))
        with open(p, 'w') as f:
            f.write('\n'.join(lines) + '\n')
        r = subprocess.run([exe, p], stdout=subprocess.PIPE, stderr=subprocess.STDOUT, text=True, timeout=3600)
        os.remove(p)
        if r.returncode != 0:
            raise RuntimeError('modeldrv failed: ' + r.stdout[-2000:])
        return r.stdout.split('\n')

    out = []
    with cf.ThreadPoolExecutor(max_workers=NPROC) as ex:
        for lines in ex.map(one, list(enumerate(jobs))):
            out += lines
    return out


class MItem(tuple):
    """(ok, leaf|None, s, e) with extra attributes .custom (error supplied by the callback) and .k (checksum)."""
    def __new__(cls, ok, leaf, s, e, custom=0, k=0):
        o = super().__new__(cls, (ok, leaf, s, e))
        o.custom = custom; o.k = k
        return o


def parse_model_line(s):
    """'n n n ...' -> (items, final).  Region records are six numbers: items start with 0/1,
    skipped regions with 5 (kept in items.skips); the trailer is 2 s e (Finished), 3 (Broken) or 4."""
    ns = [int(x) for x in s.split()] if s.strip() not in ('', '-') else []
    items = ItemList(); i = 0
    while i + 5 < len(ns) and ns[i] in (0, 1, 5):
        rec = MItem(ns[i] == 1, None if ns[i + 1] == 0 else ns[i + 1] - 1, ns[i + 2], ns[i + 3], ns[i + 4], ns[i + 5])
        if ns[i] == 5:
            items.skips.append(rec)
        else:
            items.append(rec)
        items.regions.append((ns[i] == 5, rec))
        i += 6
    rest = ns[i:]
    if len(rest) == 3 and rest[0] == 2:
        final = ('fin', rest[1], rest[2])
    elif rest and rest[0] == 3:
        final = ('broken',)
    else:
        final = ('odd', rest)
    return items, final


class ItemList(list):
    def __init__(self, *a):
        super().__init__(*a)
        self.skips = []
        self.regions = []


def parse_model_output(lines):
    res = {}
    for ln in lines:
        if ln.startswith('P '):
            m = re.match(r'P (\S+) ref: (.*) \| spec: (.*)$', ln)
            res[m[1]] = (parse_model_line(m[2]), None if m[3].strip() == '-' else parse_model_line(m[3]))
        elif ln.startswith('TI '):
            head, _, rest = ln.partition('|')
            p = head.split()
            sets = [tuple(int(x) for x in part.split()) for part in rest.split('|') if part.strip()]
            res['TI:' + p[1]] = (p[2] == '1', p[3] == '1', sets)
        elif ln.startswith('CU '):
            p = ln.split()
            res['CU:' + p[1]] = [x == '1' for x in p[2:5]]
        elif ln.startswith('C '):
            p = ln.split()
            res['C:' + p[1]] = [x == '1' for x in p[2:10]]
        elif ln.startswith('GB '):
            p = ln.split()
            res['GB:' + p[1]] = [x == '1' for x in p[2:11]]
    return res


def parse_real_line(s):
    """'O:Var:s:e;E:hex:s:e;F:s:e;...' -> dict(items, finals, flags, panic, traces)"""
    r = dict(items=[], finals=[], bad_slice=False, panic=None, traces=[], raw=s, cbs=[], guarddiff=None)
    if ' GUARDDIFF ' in s:
        s, _, other = s.partition(' GUARDDIFF ')
        r['guarddiff'] = other
    if s.endswith('PANIC') and not s.endswith(':PANIC') and 'PANIC:' not in s:
        r['panic'] = 'panic in guarded run'; s = s[:-5]
    if s.startswith('NODEF') or s.startswith('BADUTF8'):
        r['panic'] = s
        return r
    for part in s.split(';'):
        if not part:
            continue
        if part.startswith('PANIC:'):
            r['panic'] = capmod.unhex(part[6:]).decode('utf8', 'replace')
            continue
        tr = None
        cbs = []
        m = re.match(r'(.*)\{(.*)\}$', part)
        if m:
            part = m[1]
            cbs = [tuple(x.split(':')) for x in m[2].split(',')]
        r['cbs'].append(cbs)
        m = re.match(r'(.*)\[(.*)\]$', part)
        if m:
            part, tr = m[1], m[2]
        if part.endswith('!'):
            r['bad_slice'] = True
            part = part[:-1]
        f = part.split(':')
        if f[0] == 'O':
            r['items'].append((True, f[1], int(f[2]), int(f[3])))
        elif f[0] == 'E':
            r['items'].append((False, capmod.unhex(f[1]).decode('utf8', 'replace'), int(f[2]), int(f[3])))
        elif f[0] == 'F':
            r['finals'].append((int(f[1]), int(f[2])))
        r['traces'].append(tr)
    return r


def run_real(exe, probes):
    """probes: list of (id, defname, mode, bytes). Returns {id: parsed}.  A probe on which the harness
    process dies (signal) is reported as panic 'CRASH ...' and the rest of its shard is re-run."""
    d = cache_dir('problems')
    nshard = min(NPROC, max(1, len(probes) // 200))
    shards = [probes[i::nshard] for i in range(nshard)]

    def one(ij):
        i, ps = ij
        out = {}
        todo = list(ps)
        rounds = 0
        while todo and rounds < 12:
            rounds += 1
            p = os.path.join(d, 'real_%d_%d.txt' % (os.getpid(), i))
            with open(p, 'w') as f:
                for pid, dn, mode, b in todo:
                    f.write('P %s %s %d %s\n' % (pid, dn, mode, b.hex() or '-'))
            # a probe takes microseconds; a process that does not finish is hanging in a lexer
            budget = 45 + len(todo) // 50
            try:
                r = subprocess.run([exe, p], stdout=subprocess.PIPE, stderr=subprocess.PIPE, text=True, timeout=budget, preexec_fn=limit_memory(3))
                stdout, code = r.stdout, r.returncode
            except subprocess.TimeoutExpired as e:
                so = e.stdout or b''
                stdout, code = (so.decode('utf8', 'replace') if isinstance(so, bytes) else so), 'timeout after %ds' % budget
            os.remove(p)
            lines_out = stdout.split('\n')
            if code != 0 and lines_out and not stdout.endswith('\n'):
                lines_out = lines_out[:-1]          # a partially written last line
            for ln in lines_out:
                if ln.startswith('P '):
                    _, pid, rest = (ln.split(' ', 2) + [''])[:3]
                    out[pid] = parse_real_line(rest)
            if code == 0:
                break
            # the first probe without a result killed the process
            rest = [x for x in todo if x[0] not in out]
            if not rest:
                break
            crashed = rest[0]
            pr = parse_real_line('')
            pr['panic'] = ('HANG: the lexer did not return (%s)' % code) if isinstance(code, str) else ('CRASH: harness process died (exit %s) on this probe' % code)
            out[crashed[0]] = pr
            todo = rest[1:]
        return out

    res = {}
    with cf.ThreadPoolExecutor(max_workers=nshard) as ex:
        for o in ex.map(one, list(enumerate(shards))):
            res.update(o)
    return res


def compare(c, real, model_items, model_final, check_final=True):
    """Compare one probe. Returns None if equal, else a description."""
    if real['panic'] is not None:
        return 'real lexer: ' + str(real['panic'])
    if real['bad_slice']:
        return 'slice()/remainder() disagree with source[span]'
    if model_final and model_final[0] != 'fin':
        return 'model outcome %r' % (model_final,)
    ri = real['items']
    if len(ri) != len(model_items):
        return 'item count real %d model %d' % (len(ri), len(model_items))
    for k, (a, b) in enumerate(zip(ri, model_items)):
        if a[0] != b[0] or a[2] != b[2] or a[3] != b[3]:
            return 'item %d real %r model %r' % (k, a, b)
        if a[0] and expected_variant(c, b) != a[1]:
            return 'item %d variant real %s model leaf %d (%s)' % (k, a[1], b[1], expected_variant(c, b))
    if check_final and model_final:
        fins = real['finals']
        if not fins:
            return 'real lexer never returned None'
        if any(f != (model_final[1], model_final[2]) for f in fins[:1]):
            return 'final span real %r model %r' % (fins[0], model_final[1:])
        if len(set(fins)) != 1:
            return 'None not absorbing: %r' % (fins,)
    return None
