"""Probe (input) generation driven by the captured graph / DFA, plus random token-biased inputs."""
from collections import deque
import cap as capmod


def state_paths(c):
    """Shortest byte path from the root to every graph state reachable through byte edges."""
    g = c.graph
    paths = {g['root']: b''}
    dq = deque([g['root']])
    while dq:
        s = dq.popleft()
        for t, rs in g['states'][s]['edges']:
            if t not in paths:
                paths[t] = paths[s] + bytes([rs[0][0]])
                dq.append(t)
    return paths


def class_reps(gst, dst_trans):
    """Representative bytes: boundaries of every graph edge range and every DFA run, +-1."""
    reps = set()
    for t, rs in gst['edges']:
        for lo, hi in rs:
            reps.update((lo, hi, (lo + hi) // 2))
            if lo > 0: reps.add(lo - 1)
            if hi < 255: reps.add(hi + 1)
    for lo, hi, t in dst_trans or ():
        reps.update((lo, hi))
    reps.update((0, 255, 0x41, 0x61, 0x20, 0x0a, 0x80, 0xbf, 0xc3, 0xe6, 0xf0))
    return sorted(reps)


def live_continuation(c, dfa, s, maxlen=6):
    """A short byte string from graph state s along edges (towards any accept), may be empty."""
    g = c.graph
    out = b''
    seen = set()
    while len(out) < maxlen and s not in seen:
        seen.add(s)
        es = g['states'][s]['edges']
        nxt = [(t, rs) for t, rs in es if t != s]
        if not nxt:
            break
        t, rs = nxt[0]
        out += bytes([rs[0][0]])
        s = t
    return out


def graph_probes(c, rng, budget=400, full_bytes=False):
    """Inputs that drive the lexer to every state and then feed each byte class / EOI, with
    continuations; self-loop states additionally with run lengths 0..17."""
    dfa = capmod.Dfa(c)
    g = c.graph
    paths = state_paths(c)
    out = []
    dead_candidates = [0x00, 0x7f, 0xff, 0x40, 0x5f]
    states = sorted(paths)
    per_state = max(8, budget // max(1, len(states)))
    for s in states:
        gst = g['states'][s]
        p = paths[s]
        # DFA state paired with s along this path
        q = dfa.start
        for b in p:
            q = dfa.step(q, b)
        reps = list(range(256)) if full_bytes else class_reps(gst, dfa.states.get(q, {}).get('trans'))
        if len(reps) > per_state:
            keep = set(rng.sample(reps, per_state))
            for t, rs in gst['edges']:
                keep.add(rs[0][0]); keep.add(rs[-1][1])
            reps = sorted(keep)
        out.append(p)                                   # EOI in this state
        for b in reps:
            out.append(p + bytes([b]))
            t = capmod.edge_target(gst, b)
            if t is not None:
                cont = live_continuation(c, dfa, t)
                if cont:
                    out.append(p + bytes([b]) + cont)
                    out.append(p + bytes([b]) + cont + bytes([rng.choice(dead_candidates)]))
            else:
                out.append(p + bytes([b]) + p)           # restart after stopping
        # self loops: run lengths around the 8-byte unroll
        for t, rs in gst['edges']:
            if t == s:
                lb = rs[0][0]
                others = [x for x in (0x21, 0x7a, 0x30, 0xff) if capmod.edge_target(gst, x) is None]
                exits = [rs2[0][0] for t2, rs2 in gst['edges'] if t2 != s][:2]
                for n in range(0, 18):
                    out.append(p + bytes([lb]) * n)
                    for x in exits + others[:1]:
                        out.append(p + bytes([lb]) * n + bytes([x]))
                for n in (23, 24, 25, 31, 32, 33, 40):
                    out.append(p + bytes([lb]) * n + bytes(exits[:1]))
    # de-duplicate, keep order
    seen = set(); res = []
    for x in out:
        if x not in seen:
            seen.add(x); res.append(x)
    return res


def token_samples(c, rng, n=12, maxlen=10):
    """Random strings matched by some leaf: random walks on the graph that end in accepting states."""
    g = c.graph
    res = []
    for _ in range(n * 3):
        s = g['root']; out = b''
        for _ in range(rng.randint(1, maxlen)):
            es = g['states'][s]['edges']
            if not es:
                break
            t, rs = rng.choice(es)
            lo, hi = rng.choice(rs)
            out += bytes([rng.randint(lo, hi)])
            s = t
        if out:
            res.append(out)
        if len(res) >= n:
            break
    return res


def random_inputs(c, rng, n=60, maxlen=48, noise=0.15):
    toks = token_samples(c, rng, 16)
    noise_bytes = [0x20, 0x0a, 0x41, 0x7a, 0x30, 0x5f, 0xff, 0x80, 0xce, 0xbb, 0xe6, 0x97, 0xa5, 0xf0, 0x9f, 0x98, 0x80, 0x00]
    res = []
    for _ in range(n):
        target = rng.choice([0, 1, 2, 3, 5, 7, 8, 9, 15, 16, 17, 23, 24, 25, 31, 32, 33, 40, rng.randint(0, maxlen)])
        out = b''
        while len(out) < target:
            if toks and rng.random() > noise:
                out += rng.choice(toks)
            else:
                out += bytes([rng.choice(noise_bytes)])
        res.append(out[:max(target, 0)] if rng.random() < 0.5 else out)
    return res


def is_utf8(b):
    try:
        b.decode('utf8')
        return True
    except UnicodeDecodeError:
        return False
