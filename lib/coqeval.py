"""Evaluate closed Coq expressions of type `list N` with vm_compute inside coqc (zero glue)."""
import os, re, concurrent.futures as cf
from common import *


def coq_eval(exprs, imports, tag='eval', shard=400):
    """exprs: list of Coq terms of type list N. Returns list of lists of ints (same order)."""
    d = cache_dir('coqeval')
    shards = [exprs[i:i + shard] for i in range(0, len(exprs), shard)]

    def one(ij):
        i, es = ij
        p = os.path.join(d, '%s_%d_%d.v' % (tag, os.getpid(), i))
        src = ['From Coq Require Import List NArith.', imports, 'Import ListNotations.', 'Open Scope N_scope.']
        src.append('Definition cases : list (list N) := [\n' + ';\n'.join(es) + '\n].')
        src.append('Eval vm_compute in cases.')
        open(p, 'w').write('\n'.join(src) + '\n')
        r = sh(['timeout', '900', 'coqc', '-noglob', '-Q', COQ, 'LogosV', p], cwd=d, check=False)
        for ext in ('.v', '.vo', '.vok', '.vos', '.glob'):
            try:
                os.remove(p[:-2] + ext)
            except OSError:
                pass
        if r.returncode != 0:
            raise RuntimeError('coq_eval failed: ' + r.stdout[-1500:])
        txt = r.stdout
        a = txt.index('= ') + 2
        b = txt.rindex(': list (list N)')
        body = txt[a:b].replace('%N', '')
        out = []
        depth = 0; cur = None; num = ''
        for ch in body:
            if ch == '[':
                depth += 1
                if depth == 2:
                    cur = []
            elif ch == ']':
                if num:
                    cur.append(int(num)); num = ''
                if depth == 2:
                    out.append(cur); cur = None
                depth -= 1
            elif ch.isdigit():
                num += ch
            else:
                if num and cur is not None:
                    cur.append(int(num))
                num = ''
        if len(out) != len(es):
            raise RuntimeError('coq_eval: parsed %d results for %d cases' % (len(out), len(es)))
        return out

    res = []
    with cf.ThreadPoolExecutor(max_workers=NPROC) as ex:
        for o in ex.map(one, list(enumerate(shards))):
            res += o
    return res


def nlist(bs):
    return '[' + ';'.join(str(b) for b in bs) + ']'
