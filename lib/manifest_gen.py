"""Regenerates MANIFEST.json from the table below (run: python3 lib/manifest_gen.py)."""
import json, os
VERIF = os.path.dirname(os.path.dirname(os.path.abspath(__file__)))
ALL = ['C%02d' % i for i in range(1, 21)]

CHECKS = {
 'C01': dict(
   technique='Coq proof (induction over the input) of the attempt theorem over arbitrary DFA/graph + kernel-checked per-definition certificates + differential correspondence with compiled lexers',
   text='Generic theorem C01_maximal_munch (Coq, closed under the global context): for every DFA d and state graph g related by a valid certificate (dfa_ok, sim_ok) and every input and start offset, the reference semantics of the generated code records exactly the longest non-empty match and its unique highest-priority leaf. The certificate is re-evaluated on every run on the DFA and graph captured from the real Graph::new for every accepted definition of the repo corpus, the curated corpus and a seeded random corpus (kernel vm_compute + instantiated theorem for repo+curated, extracted checker for all). The compiled lexers (tail-call and state-machine generators) are run against the extracted executor model and the DFA-level specification on graph-driven probes.',
   design='DESIGN.md sections 5, 7 (C01)',
   note='Trusted: Coq kernel + vm_compute; capture hook printer and Python term printer (translator); extraction + OCaml driver; harness. regex-automata determinisation is modelled as data (the captured DFA), regex-level reading relies on it. Inputs: all (theorem). Definitions: those whose certificate evaluates to true; evaluated on the corpora only.'),
 'C02': dict(
   technique='Coq proof (induction over the input; soundness of liveness-rank certificates) + kernel-checked per-definition certificates + differential correspondence',
   text='Theorems C02_error_span, C02_stop_exact, C02_lv_is_live, C02_emitted_stop_exact (closed): under certificates dfa_ok, sim_ok, exact_ok, an attempt with no match stops exactly at the first byte (EOI counting as one) after which the text read cannot be extended to a match (FirstDead, stated with the inductive Live), next() yields one Err with span start..fb(max(start+v,start+1)) and the next attempt starts there; in every attempt a byte is consumed only if the state reached is live or confirms a match and the attempt stops only at a non-live successor (Stops). Certificates re-evaluated per run on captured DFA+graph; compiled lexers compared with the executor model and the DFA-level specification on error spans.',
   design='DESIGN.md sections 5, 7 (C02)',
   note='As C01. exact_ok additionally trusts nothing: liveness ranks are untrusted hints validated by rank_ok/classify_ok. Error values are compared on the compiled callback definitions (error_value_stage; the dispatch table is C13). find_boundary is modelled (fb_str) and tied by K2 on multi-byte inputs.'),
 'C03': dict(
   technique='Coq proof (strong induction on remaining input) of termination, progress and tiling + certificates + differential correspondence',
   text='Theorems C03_tiling, C03_none_absorbing, C03_fb_str_ok, C03_emitted_tiling (closed): under the certificates, iterating next() never gets stuck or runs out of fuel, yields finitely many items then None with span len..len forever, and items plus skipped regions are non-empty, contiguous from 0 to the input length, for every callback oracle that bumps in range. "No empty-matching definition is accepted" is decided per definition by dfa_ok (no unit successor of the start state is a match state) on every accepted definition of the corpora, including random definitions with nullable patterns.',
   design='DESIGN.md sections 5, 7 (C03)',
   note='As C01/C02. The iterator is additionally called three more times after None in K2; Source::is_boundary / find_boundary are compared with the model on a grid (K6b).'),
 'C06': dict(
   technique='Coq proof (induction; fast-loop / fork-lookup lemmas) that the per-state program emitted by both generators equals the reference semantics + differential run of both generators',
   text='Theorems C06_opt_is_ref, C06_generators_agree (closed): the per-state program both generators emit (unrolled self-loop with any unroll factor, record, one-byte fork rendered as if-chain or 256-entry table, end-of-input block) computes the reference walk on every well-formed graph, for every input, in ordinary and partial mode; hence any two renderings agree. wf_graph is re-evaluated on every accepted definition per run. The tail-call and state-machine lexers are compiled and compared with each other and with the model on all probes (results, spans, final spans, both modes); state-machine output is scanned structurally; long inputs run on a 128 KiB stack.',
   design='DESIGN.md sections 5.2, 7 (C06)',
   note='Both generators share one model (they differ only in transition rendering, which no result observes); the tie of each generator to that model is K2. Stack usage is supported by structure scan + small-stack runs, not proved (partial).'),
 'C07': dict(
   technique='Coq proof (structural induction over the prefix) of prefix safety for every graph + promptness certificate + differential run of partial vs one-shot lexers on every split',
   text='Theorems C07_next_prefix_safe, C07_next_prefix_none (closed, no certificate needed): for every graph, input w and split k, an item the partial lexer yields over w[..k] (after the same skipped regions) is exactly what the ordinary lexer yields over w, and at None the reported empty span s..s is where the ordinary lexer continues. Promptness: C07_determined_scan (in a determined DFA state the recorded match is the same for every continuation) and C07_prompt_one_byte / C07_no_test_acts (under the certificate prompt_ok a determined state acts at the end of the buffer, or every state one byte further does), with prompt_ok evaluated on every paired state of every accepted definition. C07_prompt_strict / C07_waits_only_if_open: under the strict certificate prompt_strict_ok (required of every definition without look-around) a determined state acts at once, and a state that waits has a successor from which a match is still reachable or two successors that disagree. Stream level: C07_stream_prefix (every graph), C07_partial_runs_end and C07_chunked_is_oneshot: for EVERY schedule of growing buffers the concatenated regions equal the one-shot lexing; C07_emitted_chunked_is_oneshot the same for the program parsed from the generated code. Real partial lexers are run on every prefix of generated inputs against the real one-shot lexer (the property\'s own oracle) and the model, and on random multi-buffer schedules. Finding F1 was re-found by this check and fixed (known_findings.txt).',
   design='DESIGN.md sections 7 (C07), 9 (F1)',
   note='The converse of promptness is stated at the certificate level (Live successor or disagreeing winners), not as a pair of concrete continuations. Callbacks bumping past the prefix panic in real code (outside the theorem).'),
 'C20': dict(
   technique='Coq proof (induction over visits; sorted-log composition lemmas) on the read log of the emitted per-state program + exact trace correspondence through the read hook',
   text='Theorem C20_reads_monotone_linear (closed): for every graph, unroll factor >= 1, mode and input, the offsets read within one attempt never decrease, none precedes the attempt start, and #reads <= 3 * (offsets examined), independent of the graph. With C06_opt_is_ref the log belongs to the program that computes the reference semantics. The real read trace (hook in Lexer::read, next and trivia) of both generators equals the model log exactly on all probes, and the bound / monotonicity / restart-at-item-end are also checked directly on the real traces.',
   design='DESIGN.md sections 5.2, 7 (C20)',
   note='Trace equality is for unroll factor 8 (the value in generator/mod.rs). Callbacks are outside the property.'),
 'C05': dict(
   technique='Coq proof of the index model (Source::read with checked_add; ordered read requests of the emitted program) + differential grid of the real read function and of default vs forbid_unsafe builds',
   text='Theorems C05_read_spec, C05_requests_ordered (+ C06_opt_is_ref) (closed): read(offset) returns a chunk exactly when offset+size <= len without usize overflow and then holds those bytes; every read request of an attempt of the emitted per-state program lies at or after the attempt start and requests are ordered. Ties: the real Source::read (str and [u8], u8 and &[u8;N] chunks) against the model on a grid incl. offsets near 2^64, in four builds; the real read requests (hook) equal the model log on all probes; default vs forbid_unsafe builds (debug and release) give identical results without panic on all probes (exact-size heap inputs).',
   design='DESIGN.md sections 7 (C05), 10',
   note='PARTIAL by nature: machine-level memory safety of the unsafe pointer reads is modelled as index bounds and observed offsets; no sanitizer result is claimed.'),
 'C13': dict(
   technique='Coq proof by exhaustive case analysis of the return-value dispatch + structural lemmas of the lexing loop + differential run with recording callbacks',
   text='Theorems C13_construct_matches_table (every CallbackRetVal/SkipRetVal impl and value shape maps to the documented outcome), C13_decision_determines_item, C13_skip_transparent, C13_bump_extends_and_excludes, C13_inline_body_complete (of an inline callback the derive keeps every token of the body; finding F12, regression lemma C13_old_inline_body_drops_tokens) (closed). Compiled definitions with one callback per impl (14+4), any-token callbacks, an error callback and bumping callbacks (str and byte sources) are run under both generators; every leaf of every corpus definition carries a callback exactly when its attribute declares one (independent scan); per next() the result, chosen variant, error value, span and the log of callback invocations (count, observed span and slice) are compared with the model.',
   design='DESIGN.md section 7 (C13)',
   note='construct is a hand mirror of src/internal.rs (29 value shapes); its tie to the code is the compiled corpus. Callbacks are modelled as an oracle (decision, bump).'),
 'C15': dict(
   technique='Coq proof of bump_spec on the model of Lexer::bump (usize wrap-around explicit) + refutation lemmas for the pre-fix code + differential grid in debug and release',
   text='Theorems C15_bump_spec, C15_never_invalid (closed): bump succeeds iff end+n does not overflow and is an in-range boundary, otherwise panics leaving the position unchanged; a valid position stays valid. C15_old_release_refuted / C15_old_panic_corrupts: the code as it was is refuted by vm_compute witnesses (finding F3, fixed). Real bump under catch_unwind on every position of small str/byte sources x n incl. values that wrap onto every in-range position, in debug/release x default/forbid_unsafe builds, against the model evaluated in coqc.',
   design='DESIGN.md sections 7 (C15), 9 (F3)',
   note='The model of bump is hand-written (8 lines) and tied by the grid; slice() is only called on states the spec calls valid (no sanitizer).'),
 'C04': dict(
   technique='Coq proof (UTF-8 automaton product; induction over input and over the lexing loop) + kernel-extracted certificates per definition and per independently compiled subpattern + differential run',
   text='Theorems C04_match_ends_on_boundary, C04_bnd_is_char_boundary, C04_spans_on_boundaries, C04_fb_str_boundary, C04_emitted_spans_on_boundaries (closed): under utf8_ok (complete exploration of DFA x UTF-8 validity automaton, validated hint), every match starting on a char boundary of valid UTF-8 ends on one; the automaton notion coincides with str::is_char_boundary; every boundary of every token, error, skipped region and the final span produced by the lexing loop is a char boundary (for callbacks that bump onto boundaries, as Lexer::bump enforces). Acceptance half: utf8_ok+utf8_strict_ok decide "matches only valid UTF-8" on the captured DFA of every accepted str-mode definition and on the independently built DFA of each of its subpatterns; curated must-reject definitions.',
   design='DESIGN.md sections 5.3, 7 (C04)',
   note='As C01. The UTF-8 automaton is Unicode table 3-7, hand-written (Base/Utf8.v), with its continuation-byte table proved by exhaustive vm_compute. Subpattern DFAs are built by the capture tool, not by logos.'),
 'C12': dict(
   technique='Coq proof of the two per-call theorems (mode independence up to find_boundary; one-byte errors inside a character under the strictness certificate) + graph equality across modes + differential run of mode twins',
   text='Theorems C12_next_fb_independent and C12_inside_char_error (closed): the two modes run the same graph and one next() call from the same position yields the same skipped regions and Ok item, or an error whose end is each mode\'s rounding of the same raw end; in byte mode an attempt starting inside a character of valid UTF-8 dies on its first byte (under utf8_strict_ok), so the errors cover the same bytes. C12_streams_agree: with every default error cut into one-byte pieces the whole streams of the two modes are equal lists (same Ok items, skipped matches, callback errors, error bytes, in order); C12_emitted_streams_agree the same for the program parsed from the generated code. Per run: captured graphs and leaf priorities of every dual definition are equal across modes; compiled twins agree on Ok tokens, spans and the set of error bytes on all valid-UTF-8 probes; acceptance pairs (rejected in str mode, accepted with utf8 = false).',
   design='DESIGN.md section 7 (C12)',
   note='The stream theorem holds for any byte string (on text that is not valid UTF-8 it compares the byte lexer with a lexer whose find_boundary skips continuation bytes); the compiled twins are compared on valid UTF-8 probes (K2).'),
 'C08': dict(
   technique='Coq proof (winner characterisation; reachability certificate) + exhaustive per-definition exploration of the captured raw DFA by the extracted checker',
   text='Theorems C08_tie_iff_shared, C08_no_silent_choice, C08_tie_has_ambiguous_string (closed): a DFA state wins by tie exactly when two different leaves share the greatest priority among the matching leaves; an accepted DFA (dfa_ok) never has such a state on any input; a tie state with a validated reachability hint yields a concrete byte string matched by both patterns. Per run, for every definition of the corpora (incl. rejected ones and 40% random definitions with free priorities): the tie sets computed in Coq from the raw DFA (printed by the hook without get_state_type) equal the GraphError::Disambiguation sets, the accept/reject outcome agrees, every conflicting leaf is named by a diagnostic.',
   design='DESIGN.md section 7 (C08)', category='proof',
   note='"Some string is fully matched by patterns" is read on the captured DFA (regex-automata modelled as data). Definitions rejected earlier for empty matches / no universal start are outside the iff.'),
 'C09': dict(
   technique='Coq proof (nested induction over the match relation of the HIR mirror) + per-leaf evaluation of the Coq rule on the captured HIR',
   text='Theorems C09_complexity_le_len, C09_literal_never_beaten and the four structural rules (closed): any string matched by r has at least complexity(r)/2 bytes, so a default-priority regex matching a literal token\'s text never has a greater priority than the token (2 x byte length): the token wins or C08 reports the tie. C09_code_value_is_rule_saturated / C09_code_value_exact: the usize arithmetic of Pattern::complexity (saturating since finding F11 was repaired) gives the documented value cut off at usize::MAX. Per run: for every leaf of every corpus definition the Coq complexity_sat of the HIR printed by the hook equals Pattern::priority(); the same on pattern text through Pattern::compile (counted repetitions whose product leaves usize, alternations with empty branches, multi-byte classes); leaf priority equals the explicit priority or the default (attributes scanned independently); on accepted definitions each literal is run through the captured DFA on its own text.',
   design='DESIGN.md section 7 (C09)',
   note='Matches treats look-arounds as empty (sound for the upper bound). HIR construction is regex-syntax. Unicode classes are truncated to 24 ranges when printed to Coq (complexity ignores class contents).'),
 'C10': dict(
   technique='Coq proof of the escape round trip and of the language-equality certificate (bisimulation) + per-case certificates against reference automata built without logos',
   text='Theorems C10_escape_str_roundtrip, C10_escape_bytes_roundtrip (the escaped literal denotes exactly the literal bytes, all byte strings) and C10_bisim_sound (a validated relation implies the two leaves match the same texts in the same contexts) (closed). Per run, seeded literals over all regex metacharacters, case-folding-sensitive characters, 3/4-byte characters and bytes 0x80..0xFF: plain #[token] vs the chain automaton of its bytes; ignore(case) token / regex / skip vs the DFA regex-automata builds for (?i:escaped) without logos; companion leaf and all priorities unchanged; the code emitted for the generated definitions is the program of their graphs (K12); Literal::escape vs the Coq model. Finding F2 (skip ignores ignore(case)) re-found and fixed.',
   design='DESIGN.md sections 7 (C10), 9 (F2)',
   note='Unicode case folding and the regex grammar are regex-syntax data; the composition is decided per generated case by bisim_ok (hint from Python BFS, validated by the extracted checker), not for all literals at once.'),
 'C11': dict(
   technique='Coq model and lemmas of the textual substitution + language-equality certificates against an independent inliner',
   text='Theorems C11_subst_group_free, C11_subst_prefix_copied, C11_subst_at_group, C11_subst_undefined, C11_bisim_sound (closed) on the model of subst_subpatterns. Per run: curated and random definitions with subpatterns (top-level alternation, inline flags, lazy repetition, assertions, byte-string subpatterns, chains three deep, references under repetition): the captured leaf DFA is language-equal (bisim_ok) to the DFA of the pattern inlined by an independent inliner with scoped (?u:..)/(?-u:..) groups; undefined references are compile errors; the real subst_subpatterns equals Front.Subpat.subst by vm_compute.',
   design='DESIGN.md section 7 (C11)',
   note='The subst model is a hand mirror tied by K8; grouping semantics of the regex grammar is exercised, not proved.'),
 'C17': dict(
   technique='Coq proof on token-list models (derive-list rewriting; CLI write/check over a file-system map) + differential run of the logos-cli binary against an independent syn-based expectation',
   text='Theorems C17_strip_derive_keeps_others / _spec (the repaired rewriting keeps exactly the paths not ending in Logos, path-qualified ones included), C17_old_refuted (the token loop as it was: finding F4), C17_check_never_writes, C17_check_ok_iff (check succeeds iff the file holds the output up to line endings, with str::lines modelled), C17_write_then_check_ok (closed). Per run: the real binary on generated enum sources (Logos in every derive position and spelling, path derives, cfg_attr, repr, docs, variant and field attributes, lifetimes): output parsed as Rust, enum compared structurally with an expectation written from the property, the rest with generate(); write / --check / external-edit sequences against Cli.run by vm_compute.',
   design='DESIGN.md sections 7 (C17), 9 (F4)',
   note='Models are hand mirrors (lib.rs:449-493, main.rs:41-57) tied by K10. "Valid Rust" is checked by parsing. rustfmt (--format) is outside.'),
 'C18': dict(
   technique='Coq proof (induction over the item list) on a statement-by-statement model of the attribute tokenizer + permutation-invariance proof of named arguments + differential and end-to-end permutation runs',
   text='Theorems C18_parse_join_items (for every list of well-formed items name = v / name(..) / name "lit" / name ident = v / positional, the tokenizer returns exactly those items from their comma-joined text), C18_named_args_commute (any permutation of named arguments over distinct fields gives the same definition and no error), C18_old_refuted (finding F5), C18_generic_items_commute / C18_type_lifetime_swap (finding F10), C18_reordered_leaves_agree (graphs related by gsim_ok after a leaf translation give the same walks) (closed). Per run: the real AttributeParser equals the model by vm_compute on curated and random attribute contents incl. malformed ones; every permutation of up to 4 named arguments x {token, regex, skip(..)} x {no positional callback, label, closure} and dependency-respecting permutations of #[logos(..)] items give the same outcome, leaves and byte-identical generated code.',
   design='DESIGN.md sections 7 (C18), 9 (F5)',
   note='Argument values are parsed by syn (outside the model). Permutations of the skip items themselves renumber the leaves: they are compared by outcome, by leaf content and by the bisimulation checker after translating leaf numbers.'),
 'C19': dict(
   technique='Coq proof on the panic-relevant decision skeleton and on the greedy-dot test (soundness and completeness w.r.t. an inductive specification) + catch_unwind and real-rustc runs on curated and random malformed definitions',
   text='Theorems C19_never_panics, C19_bad_variant_rejected (skeleton of the two panic sites and of variant shapes), C19_greedy_complete / C19_greedy_sound (the repaired test finds an unbounded greedy dot repetition at any depth and only those), C19_complexity_fits and regression lemmas for F6, F7, F8, F9, F11 (closed). Per run: ~90 curated must-reject definitions by class, seeded random malformed definitions and the repo corpus through generate() under catch_unwind; the same sources through rustc with the real proc macro (scanned for "proc-macro derive panicked"; every rejected definition must carry an error); check_for_greedy_all equals the Coq test on every captured HIR and no greedy leaf is accepted without allow_greedy. Empty-match / UTF-8 / undefined-subpattern rejections are decided by C03 / C04 / C11.',
   design='DESIGN.md sections 7 (C19), 9 (F6-F8)',
   note='PARTIAL: panics inside syn / regex-syntax / regex-automata and rustc itself are outside the model, and so is memory exhaustion in regex-automata for astronomically large counted repetitions (logos sets no NFA size limit; DESIGN.md 0.7); termination is observed per call, not proved; the skeleton covers logos\' own panic sites only.'),
 'C14': dict(
   technique='Coq proof on the state-machine model of the public Lexer API (pool of lexers; next is the engine model) + differential run of random API histories',
   text='Theorems C14_step_only_current (an operation never changes a lexer other than the current one: clones and originals are independent), C14_clone_is_copy, C14_morph_preserves, C14_morph_back, C14_spanned_eq_next, C14_bump_in_range (closed). Per run: thousands of random histories of next / spanned / in-range bump / clone / switch / morph over pairs of compiled definitions sharing a source (str and bytes, ordinary and partial mode, both generators): after every operation span(), slice() == source[span], remainder() == source[end..] and the result of next are compared with the extracted run_history.',
   design='DESIGN.md section 7 (C14)',
   note='In the model slice()/remainder() are source[span] by definition; their agreement with the implementation is the correspondence. Extras are () in the compiled pairs.'),
 'C16': dict(
   technique='Coq proof that a sorted permutation is unique (hash iteration modelled as an arbitrary permutation) + repeated generation under fresh hash seeds in threads and processes',
   text='Theorems C16_collect_then_sort_deterministic (whatever order a hash container was iterated in, collecting and sorting by a distinct key gives the same list) and C16_sorted_with_duplicates_unique (closed): the reason each of the five sorted sites is order-independent. Per run: every definition of the corpora (incl. rejected ones, several conflicts, many edges and LUT masks), both generators: generate() in several fresh processes x several fresh threads (every HashMap draws a new RandomState): generated text and captured graph byte-identical; logos-cli twice then --check.',
   design='DESIGN.md section 7 (C16)',
   note='PARTIAL: that the sorted sites are the only order-sensitive ones is supported by the runs, not proved about the Rust code; "every hash seed" = "every permutation".'),
}

def main():
    man = dict(version=1,
      setup_cmd='./vcheck setup',
      hooks=dict(guard='verif_hooks',
                 enable='cargo feature verif_hooks on logos / logos-derive / logos-codegen (harness and capture tool Cargo.toml enable it)',
                 baseline_off_cmd='cd /repo && cargo test --workspace --no-fail-fast --offline',
                 source_commits=open(os.path.join(VERIF, 'hooks_commits.txt')).read().split() if os.path.exists(os.path.join(VERIF, 'hooks_commits.txt')) else [],
                 add_only=True),
      engines=[dict(name='coq', path='coq', serves_properties=sorted(CHECKS), kind_free_text='Coq 8.16.1 development: models, certificate checkers, generic theorems; extracted OCaml evaluator'),
               dict(name='harness', path='tools', serves_properties=sorted(CHECKS), kind_free_text='Rust capture tool and generated harness crates built against /repo with verif_hooks')],
      checks=[], notes='See DESIGN.md. Known findings: known_findings.txt.', not_applicable=[])
    for p in ALL:
        if p in CHECKS:
            c = CHECKS[p]
            man['checks'].append(dict(property_id=p, quick_cmd='./vcheck %s --tier quick' % p,
              thorough_cmd='./vcheck %s --tier thorough' % p, evidence_file='evidence/%s.json' % p,
              replay_cmd_template='./vcheck replay --replay {path}', engine='coq',
              level_claimed=dict(category=c.get('category', 'proof'), text=c['text'], design_ref=c['design']),
              level_note=c['note'], technique=c['technique']))
        else:
            man['not_applicable'].append(dict(property_id=p, reason='check not built yet in this round (planned: see DESIGN.md section 7); not a claim that the technique cannot apply'))
    json.dump(man, open(os.path.join(VERIF, 'MANIFEST.json'), 'w'), indent=1)

if __name__ == '__main__':
    main()
