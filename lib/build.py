"""Build stages: Coq development (+ hygiene audit), extraction driver, capture tool, harness crates."""
import glob, os, re, shutil
from common import *
import cap as capmod

FORBIDDEN = re.compile(r'\b(Admitted|admit|Axiom|Parameter|Conjecture|Unset Guard|bypass_check|Admit Obligations|-type-in-type|Hypothesis|Variable)\b')


def coq_sources():
    out = []
    for line in open(os.path.join(COQ, '_CoqProject')):
        line = line.strip()
        if line.endswith('.v'):
            out.append(line)
    return out


def coq_build():
    """Full .vo build of /verif/coq (incremental through make), hygiene grep, statement pins."""
    if not os.path.exists(os.path.join(COQ, 'Makefile')) or \
            os.path.getmtime(os.path.join(COQ, 'Makefile')) < os.path.getmtime(os.path.join(COQ, '_CoqProject')):
        sh(['coq_makefile', '-f', '_CoqProject', '-o', 'Makefile'], cwd=COQ)
    r = sh(['timeout', '1500', 'make', '-j%d' % NPROC], cwd=COQ, check=False)
    if r.returncode != 0:
        log(r.stdout[-3000:])
        return False, 'coq build failed'
    # hygiene: no forbidden vernacular outside comments (Variables/Hypotheses are allowed inside Sections only)
    bad = []
    for f in coq_sources() + ['extract/Extract.v']:
        txt = open(os.path.join(COQ, f)).read()
        txt = strip_comments(txt)
        depth = 0
        for ln, line in enumerate(txt.split('\n'), 1):
            if re.match(r'\s*Section\b', line): depth += 1
            if re.match(r'\s*End\b', line) and depth > 0: depth -= 1
            for m in FORBIDDEN.finditer(line):
                w = m.group(1)
                if w in ('Variable', 'Hypothesis') and depth > 0:
                    continue
                bad.append('%s:%d:%s' % (f, ln, w))
    if bad:
        return False, 'forbidden vernacular: ' + ', '.join(bad[:5])
    return True, ''


def strip_comments(txt):
    out = []; depth = 0; i = 0
    while i < len(txt):
        if txt.startswith('(*', i):
            depth += 1; i += 2
        elif txt.startswith('*)', i) and depth > 0:
            depth -= 1; i += 2
        else:
            if depth == 0:
                out.append(txt[i])
            elif txt[i] == '\n':
                out.append('\n')
            i += 1
    return ''.join(out)


def coq_audit(theorems):
    """Print Assumptions for the named theorems (Properties.*); returns {name: 'closed' | [axioms]}."""
    src = 'From LogosV Require Import Properties.All.\n' + ''.join('Print Assumptions %s.\n' % t for t in theorems)
    d = cache_dir('audit')
    p = os.path.join(d, 'Audit_%d.v' % os.getpid())
    open(p, 'w').write(src)
    r = sh(['coqc', '-Q', COQ, 'LogosV', p], cwd=d, check=False)
    res = {}
    if r.returncode != 0:
        return None, r.stdout[-2000:]
    chunks = re.split(r'(?=Closed under the global context|Axioms:)', r.stdout)
    chunks = [c for c in chunks if c.strip()]
    for t, c in zip(theorems, chunks):
        if c.startswith('Closed under the global context'):
            res[t] = 'closed'
        else:
            res[t] = [l.split(':')[0].strip() for l in c.split('\n')[1:] if l and not l.startswith(' ') and ':' in l]
    for f in glob.glob(p[:-2] + '*'):
        os.remove(f)
    return res, ''


def extraction_build():
    d = os.path.join(COQ, 'extract')
    key = file_hash([os.path.join(COQ, f) for f in coq_sources()] + [os.path.join(d, 'Extract.v'), os.path.join(d, 'driver.ml')])
    out = cache_dir('extract')
    exe = os.path.join(out, 'modeldrv')
    if stamp_ok(out, key) and os.path.exists(exe):
        return exe
    for f in ('Extract.v', 'driver.ml'):
        shutil.copy(os.path.join(d, f), out)
    sh(['coqc', '-Q', COQ, 'LogosV', 'Extract.v'], cwd=out)
    sh(['ocamlfind', 'ocamlopt', '-O2', '-w', '-a', 'model.mli', 'model.ml', 'driver.ml', '-o', 'modeldrv'], cwd=out)
    stamp_write(out, key)
    return exe


def capture_tool(sm=False, release=False):
    src = os.path.join(VERIF, 'tools', 'capture')
    tdir = cache_dir('target-capture' + ('-sm' if sm else ''))
    shutil.copy(os.path.join(REPO, 'Cargo.lock'), os.path.join(src, 'Cargo.lock'))
    cmd = ['cargo', 'build', '--offline', '--target-dir', tdir]
    if release:
        cmd += ['--release']        # logos-codegen without debug assertions / overflow checks
    if sm:
        cmd += ['--features', 'state_machine_codegen']
    r = sh(cmd, cwd=src, check=False)
    if r.returncode != 0:
        raise BuildError('capture tool does not build against /repo:\n' + r.stdout[-3000:])
    return os.path.join(tdir, 'release' if release else 'debug', 'verif-capture')


class BuildError(Exception):
    """the instrumented build of /repo (capture tool, harness) fails"""
    pass


class CorpusRejected(Exception):
    """a curated definition that the unchanged derive accepts is rejected"""
    pass


def capture_files(files, name, sm=False, gen=False, fresh=False):
    """Run the real generate() (library mode) over the enums of `files`; returns list of Cap.
    With gen=True the generated code is kept next to each cap (<id>.gen); cap.gen_path is set."""
    tool = capture_tool(sm)
    out = cache_dir('caps', repo_hash(), name + ('-sm' if sm else '') + ('-gen' if gen else ''))
    key = file_hash(files) + repo_hash() + file_hash([os.path.join(VERIF, 'tools', 'capture', 'src')])
    if fresh or not stamp_ok(out, key):
        for f in glob.glob(os.path.join(out, '*')):
            os.remove(f)
        lst = os.path.join(out, 'files.lst')
        open(lst, 'w').write('\n'.join(files) + '\n')
        env = dict(ENV, VERIF_WRITE_GEN='1') if gen else ENV
        sh([tool, 'defs', out, '--list', lst], env=env)
        stamp_write(out, key)
    caps = []
    for p in sorted(glob.glob(os.path.join(out, '*.cap'))):
        c = capmod.parse_cap(p)
        c.gen_path = p[:-4] + '.gen'
        caps.append(c)
    return caps


def capture_subpatterns(files, name):
    """Independent DFA of every subpattern (tools/capture subpats). Returns list of Cap (DFA only)."""
    tool = capture_tool()
    out = cache_dir('caps', repo_hash(), name + '-subpats')
    key = file_hash(files) + repo_hash() + file_hash([os.path.join(VERIF, 'tools', 'capture', 'src')])
    if not stamp_ok(out, key):
        for f in glob.glob(os.path.join(out, '*')):
            os.remove(f)
        lst = os.path.join(out, 'files.lst')
        open(lst, 'w').write('\n'.join(files) + '\n')
        sh([tool, 'subpats', out, '--list', lst])
        stamp_write(out, key)
    return [capmod.parse_cap(p) for p in sorted(glob.glob(os.path.join(out, '*.cap')))]


def repo_corpus_files():
    files = []
    for sub in ('tests', 'examples', 'logos-codegen/tests', 'logos-cli/tests', 'src'):
        for root, dirs, fs in os.walk(os.path.join(REPO, sub)):
            dirs[:] = [d for d in dirs if d != 'target']
            for f in sorted(fs):
                if f.endswith('.rs'):
                    files.append(os.path.join(root, f))
    # fenced rust blocks of the book and README
    md_out = cache_dir('md', repo_hash())
    mds = sorted(glob.glob(os.path.join(REPO, 'book', 'src', '**', '*.md'), recursive=True)) + [os.path.join(REPO, 'README.md')]
    for md in mds:
        if not os.path.exists(md):
            continue
        txt = open(md, errors='replace').read()
        for i, m in enumerate(re.finditer(r'```rust[^\n]*\n(.*?)```', txt, re.S)):
            body = '\n'.join(l[2:] if l.startswith('# ') else l for l in m.group(1).split('\n'))
            if 'Logos' not in body:
                continue
            p = os.path.join(md_out, '%s_%d.rs' % (os.path.basename(md)[:-3], i))
            open(p, 'w').write(body)
            files.append(p)
    return files


# ------------------------------------------------------------------------------------------------
# harness
# ------------------------------------------------------------------------------------------------
FEATURESETS = {'tc': [], 'sm': ['sm'], 'tcsafe': ['safe'], 'smsafe': ['sm', 'safe']}


def make_twin(text):
    """Byte-mode twin of a corpus file: every enum gets `utf8 = false` and the suffix B."""
    return re.sub(r'pub enum (\w+)', lambda m: '#[logos(utf8 = false)]\npub enum %sB' % m.group(1), text)


def harness_sources(files_dual, files_plain, extra_mods=()):
    """Returns {relpath: text} of the generated crate and the list of (module, file) pairs."""
    srcs = {}
    mods = []
    for f in files_dual:
        base = os.path.basename(f)[:-3]
        txt = open(f).read()
        srcs['src/defs/%s.rs' % base] = 'use logos::Logos;\n' + txt
        srcs['src/defs/%s_b.rs' % base] = 'use logos::Logos;\n' + make_twin(txt)
        mods += [base, base + '_b']
    for f in files_plain:
        base = os.path.basename(f)[:-3]
        srcs['src/defs/%s.rs' % base] = 'use logos::Logos;\n' + open(f).read()
        mods.append(base)
    return srcs, mods


def build_harness(name, files_dual, files_plain, featuresets, profile='debug'):
    """Generate + build the harness crate for each feature set.
    Returns {fs: (exe, {enum_name: Cap})}."""
    srcs, mods = harness_sources(files_dual, files_plain)
    hdir = cache_dir('harness', name)
    # enumerate enums (library-mode capture of the generated module files gives names and utf8 mode)
    os.makedirs(os.path.join(hdir, 'src', 'defs'), exist_ok=True)
    for rel, txt in srcs.items():
        p = os.path.join(hdir, rel)
        if not os.path.exists(p) or open(p).read() != txt:
            open(p, 'w').write(txt)
    for p in glob.glob(os.path.join(hdir, 'src', 'defs', '*.rs')):
        if os.path.relpath(p, hdir) not in srcs:
            os.remove(p)
    modfiles = [os.path.join(hdir, 'src', 'defs', m + '.rs') for m in mods]
    caps = capture_files(modfiles, 'harness-' + name)
    enums = {}
    for c in caps:
        mod = os.path.basename(c.file)[:-3]
        en = c.id.split('_', 1)[1]
        if en in enums:
            raise RuntimeError('duplicate enum name in harness corpus: ' + en)
        enums[en] = (mod, c)
    disp = []; dispc = []; dispb = []
    for en, (mod, c) in sorted(enums.items()):
        if c.accepted:
            if c.utf8:
                dispb.append('        "%s" => match std::str::from_utf8(input) { Ok(s) => bump_str::<defs::%s::%s>(s, k, n, out), Err(_) => out.push_str("BADUTF8") },' % (en, mod, en))
            else:
                dispb.append('        "%s" => bump_bytes::<defs::%s::%s>(input, k, n, out),' % (en, mod, en))
            if c.utf8:
                dispc.append('        "%s" => match std::str::from_utf8(input) { Ok(s) => count_str::<defs::%s::%s>(s, out), Err(_) => out.push_str("BADUTF8") },' % (en, mod, en))
            else:
                dispc.append('        "%s" => count_bytes::<defs::%s::%s>(input, out),' % (en, mod, en))
    for en, (mod, c) in sorted(enums.items()):
        if not c.accepted:
            continue
        if c.utf8:
            disp.append('        "%s" => match std::str::from_utf8(input) { Ok(s) => run_str::<defs::%s::%s>(s, partial, trace, out), Err(_) => out.push_str("BADUTF8") },' % (en, mod, en))
        else:
            disp.append('        "%s" => run_bytes::<defs::%s::%s>(input, partial, trace, out),' % (en, mod, en))
    # pairs of token types sharing a source (for morph), only plain definitions (Extras = (), no lifetime)
    disph = []
    plain = [(en, mod, c) for en, (mod, c) in sorted(enums.items()) if c.accepted and 'extras' not in (c.source or '') and "<'" not in (c.source or '')]
    for group in ([x for x in plain if x[2].utf8], [x for x in plain if not x[2].utf8]):
        for (a, ma, ca), (b, mb, cb) in zip(group, group[1:] + group[:1]):
            if a == b:
                continue
            fn = 'hist_str' if ca.utf8 else 'hist_bytes'
            if ca.utf8:
                disph.append('        "%s+%s" => match std::str::from_utf8(input) { Ok(s) => %s::<defs::%s::%s, defs::%s::%s>(s, partial, ops, out), Err(_) => out.push_str("BADUTF8") },' % (a, b, fn, ma, a, mb, b))
            else:
                disph.append('        "%s+%s" => %s::<defs::%s::%s, defs::%s::%s>(input, partial, ops, out),' % (a, b, fn, ma, a, mb, b))
    tmpl = open(os.path.join(VERIF, 'tools', 'harness', 'main.rs.tmpl')).read()
    modtxt = 'mod defs {\n' + ''.join('    pub mod %s;\n' % m for m in mods) + '}\n'
    main = tmpl.replace('//@MODS@', modtxt).replace('//@DISPATCH@', '\n'.join(disp)).replace('//@DISPATCH_COUNT@', '\n'.join(dispc)).replace('//@DISPATCH_BUMP@', '\n'.join(dispb)).replace('//@DISPATCH_HIST@', '\n'.join(disph))
    cargo = '''[package]
name = "verif-harness"
version = "0.1.0"
edition = "2021"

[workspace]

[dependencies]
logos = { path = "%s", features = ["verif_hooks"] }

[features]
sm = ["logos/state_machine_codegen"]
safe = ["logos/forbid_unsafe"]

[profile.dev]
debug = false
opt-level = 0
overflow-checks = true

[profile.release]
lto = false
opt-level = 2
''' % REPO
    for rel, txt in (('src/main.rs', main), ('Cargo.toml', cargo)):
        p = os.path.join(hdir, rel)
        if not os.path.exists(p) or open(p).read() != txt:
            open(p, 'w').write(txt)
    shutil.copy(os.path.join(REPO, 'Cargo.lock'), os.path.join(hdir, 'Cargo.lock'))
    # rejected definitions are dropped from the modules? No: they would not compile. Strip them.
    rejected = [en for en, (mod, c) in enums.items() if not c.accepted]
    if rejected:
        raise CorpusRejected('the derive rejects valid definitions of the curated corpus: %s' % rejected)
    out = {}
    import concurrent.futures as cf

    def one(fs):
        tdir = cache_dir('target-harness-%s-%s' % (name, fs))
        dump = cache_dir('dump-%s-%s-%s' % (name, fs, profile))
        key = file_hash([hdir + '/src', hdir + '/Cargo.toml']) + repo_hash()
        exe = os.path.join(tdir, profile, 'verif-harness')
        if not (stamp_ok(dump, key) and os.path.exists(exe)):
            for f in glob.glob(os.path.join(dump, '*.cap')):
                os.remove(f)
            # force the derive to run again so that the dump is complete
            sh(['touch', os.path.join(hdir, 'src', 'main.rs')])
            cmd = ['cargo', 'build', '--offline', '--target-dir', tdir]
            if profile == 'release':
                cmd.append('--release')
            feats = FEATURESETS[fs]
            if feats:
                cmd += ['--features', ','.join(feats)]
            env = dict(ENV, LOGOS_VERIF_DUMP=dump)
            r = sh(cmd, cwd=hdir, env=env, check=False, timeout=1800)
            if r.returncode != 0:
                raise BuildError('harness (%s) does not build against /repo:\n%s' % (fs, r.stdout[-4000:]))
            stamp_write(dump, key)
        dcaps = {}
        for p in glob.glob(os.path.join(dump, '*.cap')):
            c = capmod.parse_cap(p)
            dcaps[c.name] = c
        return fs, exe, dcaps

    with cf.ThreadPoolExecutor(max_workers=len(featuresets)) as ex:
        for fs, exe, dcaps in ex.map(one, featuresets):
            out[fs] = (exe, dcaps)
    return out, enums
