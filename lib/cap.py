"""Parsing of .cap files written by the verif_hooks capture, hint computation, Coq term emission.

Everything here is *untrusted* glue except `coq_terms` (the translator: it prints the captured DFA
and graph as Coq terms; a bug here could misrepresent the code to the prover and is part of the
trusted base).  Hints (pairing V, dead set D, ranks R) can only make a certificate fail."""
import os, re
from collections import deque


class Cap:
    def __init__(self):
        self.id = None; self.file = None; self.source = None
        self.panic = None; self.name = None; self.utf8 = True; self.codegen = None
        self.leaves = []          # dicts
        self.leafcb = {}
        self.attrs = []
        self.repeat = None
        self.dfa = None           # dict: start, has_empty, states{qid: dict(match, eoi, trans[(lo,hi,t)], dead)}
        self.graph = None         # dict: root, states{sid: dict(early, accept, eoi, edges[(t, [(lo,hi)])])}
        self.gerrs = []           # ('disamb',[..]) | ('nostart',) | ('empty', n)
        self.cerrs = []
        self.builderr = None
        self.outcome = None       # accepted | rejected | None
        self.nocapture = False

    @property
    def accepted(self):
        return self.outcome == 'accepted'


def unhex(s):
    return b'' if s == '-' else bytes.fromhex(s)


def parse_cap(path):
    c = Cap()
    with open(path) as f:
        for line in f:
            line = line.rstrip('\n')
            if not line:
                continue
            k, _, rest = line.partition(' ')
            if k == 'id': c.id = rest
            elif k == 'file': c.file = rest
            elif k == 'source': c.source = unhex(rest).decode('utf8', 'replace')
            elif k == 'panic':
                p = rest.split(' ')
                c.panic = None if p[0] == '0' else (unhex(p[1]).decode('utf8', 'replace') if len(p) > 1 else '')
            elif k == 'def': c.name = rest
            elif k == 'utf8': c.utf8 = rest == '1'
            elif k == 'codegen': c.codegen = rest
            elif k == 'nocapture': c.nocapture = True
            elif k == 'leaf':
                m = re.match(r'(\d+) (\S+) prio=(\d+) cb=(\d) lit=(\d) isutf8=(\d) minlen=(-?\d+) default_prio=(\d+) greedy_all=(\d) src=(\S+) hir=(.*)$', rest)
                assert m, rest
                c.leaves.append(dict(idx=int(m[1]), kind=m[2], prio=int(m[3]), cb=m[4] == '1', lit=m[5] == '1',
                                     isutf8=m[6] == '1', minlen=int(m[7]), default_prio=int(m[8]),
                                     greedy_all=m[9] == '1', src=unhex(m[10]).decode('utf8', 'replace'), hir=m[11]))
            elif k == 'repeat':
                pp = rest.split()
                c.repeat = (int(pp[0]), int(pp[2]))
            elif k == 'attr':
                i, _, rest2 = rest.partition(' ')
                c.attrs.append(dict(kv.split('=', 1) for kv in rest2.split() if '=' in kv))
            elif k == 'leafcb':
                i, _, h = rest.partition(' ')
                c.leafcb[int(i)] = unhex(h).decode('utf8', 'replace')
            elif k == 'dfa':
                if rest == 'nostart':
                    c.dfa = dict(start=None, has_empty=False, states={})
                else:
                    m = re.match(r'start=(\d+) has_empty=(\d) states=(\d+)', rest)
                    c.dfa = dict(start=int(m[1]), has_empty=m[2] == '1', states={})
            elif k == 'dstate':
                m = re.match(r'(\d+) dead=(\d) match=(\S+) eoi=(\d+) trans=(\S+)$', rest)
                assert m, rest
                trans = []
                for r in m[5].split(','):
                    rng, t = r.split(':'); lo, hi = rng.split('-')
                    trans.append((int(lo), int(hi), int(t)))
                c.dfa['states'][int(m[1])] = dict(dead=m[2] == '1',
                                                  match=[] if m[3] == '-' else [int(x) for x in m[3].split(',')],
                                                  eoi=int(m[4]), trans=trans)
            elif k == 'graph':
                m = re.match(r'root=(\d+) states=(\d+)', rest)
                c.graph = dict(root=int(m[1]), states={})
            elif k == 'gstate':
                m = re.match(r'(\d+) early=(\S+) accept=(\S+) eoi=(\S+) edges=(\S+)$', rest)
                assert m, rest
                o = lambda s: None if s == '-' else int(s)
                edges = []
                if m[5] != '-':
                    for e in m[5].split(';'):
                        t, rs = e.split(':')
                        edges.append((int(t), [tuple(int(x) for x in r.split('-')) for r in rs.split('+')]))
                c.graph['states'][int(m[1])] = dict(early=o(m[2]), accept=o(m[3]), eoi=o(m[4]), edges=edges)
            elif k == 'gerr':
                p = rest.split(' ')
                if p[0] == 'disamb': c.gerrs.append(('disamb', [int(x) for x in p[1].split(',')]))
                elif p[0] == 'empty': c.gerrs.append(('empty', int(p[1])))
                else: c.gerrs.append(('nostart',))
            elif k == 'cerr': c.cerrs.append(unhex(rest).decode('utf8', 'replace'))
            elif k == 'builderr': c.builderr = unhex(rest).decode('utf8', 'replace')
            elif k == 'outcome': c.outcome = rest
    return c


# ------------------------------------------------------------------------------------------------
# DFA helpers (python mirror, used only for hints, diagnostics and input search)
# ------------------------------------------------------------------------------------------------
class Dfa:
    def __init__(self, cap):
        self.states = cap.dfa['states']
        self.start = cap.dfa['start']
        self.prio = [l['prio'] for l in cap.leaves]
        self.table = {}
        for q, st in self.states.items():
            row = [0] * 256
            for lo, hi, t in st['trans']:
                for b in range(lo, hi + 1):
                    row[b] = t
            self.table[q] = row

    def step(self, q, u):  # u: 0..255 or 256 (EOI)
        if q not in self.states:
            return 0
        if u == 256:
            return self.states[q]['eoi']
        return self.table[q][u]

    def match(self, q):
        st = self.states.get(q)
        return st['match'] if st else []

    def win(self, q):
        """None | ('one', l) | ('tie',)"""
        acc = None; best = 0
        for l in self.match(q):
            p = self.prio[l]
            if acc is None:
                acc = ('one', l); best = p
            elif best < p:
                acc = ('one', l); best = p
            elif p == best:
                acc = ('tie',)
        return acc

    def live_ranks(self):
        """rank[q] = length of the shortest non-empty unit sequence (bytes then optionally EOI last)
        reaching a match state, minus 1; states absent are not live."""
        rank = {}
        preds = {}
        for q in self.states:
            for b in range(256):
                preds.setdefault(self.table[q][b], set()).add(q)
        dq = deque()
        for q in self.states:
            if any(self.match(self.step(q, u)) for u in range(257)):
                rank[q] = 0; dq.append(q)
        while dq:
            q = dq.popleft()
            for p in preds.get(q, ()):
                if p not in rank:
                    rank[p] = rank[q] + 1; dq.append(p)
        return rank


def edge_target(gst, b):
    for t, rs in gst['edges']:
        for lo, hi in rs:
            if lo <= b <= hi:
                return t
    return None


def compute_pairing(cap, dfa):
    """BFS over (graph state, DFA state) along present edges."""
    g = cap.graph
    V = {}
    start = (g['root'], dfa.start)
    seen = {start}
    dq = deque([start])
    while dq:
        s, q = dq.popleft()
        V.setdefault(s, []).append(q)
        gst = g['states'].get(s)
        if gst is None:
            continue
        for t, rs in gst['edges']:
            for lo, hi in rs:
                for b in range(lo, hi + 1):
                    p = (t, dfa.step(q, b))
                    if p not in seen:
                        seen.add(p); dq.append(p)
        if gst['eoi'] is not None:
            p = (gst['eoi'], dfa.step(q, 256))
            if p not in seen:
                seen.add(p); dq.append(p)
        if len(seen) > 200000:
            break
    return V


# ------------------------------------------------------------------------------------------------
# Coq terms (the translator)
# ------------------------------------------------------------------------------------------------
def coq_list(xs):
    return '[' + '; '.join(xs) + ']'


def coq_dfa(cap):
    """mk_dfa [(q, [(lo,hi,t);...], eoi, [matches]);...] start [prios]; dead state (id 0) and runs to it omitted."""
    sts = []
    for q in sorted(cap.dfa['states']):
        st = cap.dfa['states'][q]
        if q == 0:
            continue
        tr = coq_list('(%d,%d,%d)' % (lo, hi, t) for lo, hi, t in st['trans'] if t != 0)
        sts.append('(%d, %s, %d, %s)' % (q, tr, st['eoi'], coq_list(str(m) for m in st['match'])))
    return 'mk_dfa %s %d %s' % (coq_list(sts), cap.dfa['start'], coq_list(str(l['prio']) for l in cap.leaves))


def coq_opt(o):
    return 'None' if o is None else '(Some %d)' % o


def coq_graph(cap):
    sts = []
    for s in sorted(cap.graph['states']):
        st = cap.graph['states'][s]
        edges = coq_list('(%s, %d)' % (coq_list('(%d,%d)' % r for r in rs), t) for t, rs in st['edges'])
        sts.append('(%d, %s, %s, %s, %s)' % (s, coq_opt(st['early']), coq_opt(st['accept']), edges, coq_opt(st['eoi'])))
    return 'mk_graph %s %d' % (coq_list(sts), cap.graph['root'])


def coq_hints(cap, dfa=None):
    dfa = dfa or Dfa(cap)
    V = compute_pairing(cap, dfa)
    rank = dfa.live_ranks()
    dead = [q for q in list(dfa.states) + [0] if q not in rank]
    dead = sorted(set(dead))
    v = 'mk_pairing ' + coq_list('(%d, %s)' % (s, coq_list(str(q) for q in qs)) for s, qs in sorted(V.items()))
    dd = 'mk_pset ' + coq_list(str(q) for q in dead)
    r = 'mk_rank ' + coq_list('(%d,%d)' % (q, rk) for q, rk in sorted(rank.items()))
    return v, dd, r, dict(pairs=sum(len(x) for x in V.values()), live=len(rank), dead=len(dead))


# ------------------------------------------------------------------------------------------------
# UTF-8 automaton (python mirror of Base/Utf8.v, used only to compute the product hint)
# ------------------------------------------------------------------------------------------------
U0, U1, U2, U2a, U2b, U3, U3a, U3b, UREJ = range(9)


def ustep(u, b):
    r = lambda lo, hi: lo <= b <= hi
    if u == U0:
        if r(0, 127): return U0
        if r(194, 223): return U1
        if b == 224: return U2a
        if r(225, 236) or r(238, 239): return U2
        if b == 237: return U2b
        if b == 240: return U3a
        if r(241, 243): return U3
        if b == 244: return U3b
        return UREJ
    if u == U1: return U0 if r(128, 191) else UREJ
    if u == U2: return U1 if r(128, 191) else UREJ
    if u == U2a: return U1 if r(160, 191) else UREJ
    if u == U2b: return U1 if r(128, 159) else UREJ
    if u == U3: return U2 if r(128, 191) else UREJ
    if u == U3a: return U2 if r(144, 191) else UREJ
    if u == U3b: return U2 if r(128, 143) else UREJ
    return UREJ


def utf8_product(dfa):
    """Pairs (q, u) reachable from (start, U0) through bytes the UTF-8 automaton accepts."""
    seen = {(dfa.start, U0)}
    dq = deque(seen)
    while dq:
        q, u = dq.popleft()
        if q not in dfa.states:
            continue
        for lo, hi, t in dfa.states[q]['trans']:
            if t == 0:
                continue
            for b in range(lo, hi + 1):
                u2 = ustep(u, b)
                if u2 != UREJ and (t, u2) not in seen:
                    seen.add((t, u2)); dq.append((t, u2))
    P = {}
    for q, u in seen:
        P.setdefault(q, []).append(u)
    P[0] = list(range(8))        # the dead state paired with every non-rejecting UTF-8 state
    return P


def reach_hint(dfa):
    """q -> (pred, unit, depth): BFS over bytes from the start state, then end-of-input successors."""
    H = {}
    depth = {dfa.start: 0}
    dq = deque([dfa.start])
    while dq:
        p = dq.popleft()
        if p not in dfa.states:
            continue
        for lo, hi, t in dfa.states[p]['trans']:
            if t != 0 and t not in depth:
                depth[t] = depth[p] + 1; H[t] = (p, lo, depth[t]); dq.append(t)
    for p in list(depth):
        if p in dfa.states:
            t = dfa.states[p]['eoi']
            if t != 0 and t not in depth and t not in H:
                H[t] = (p, 256, depth[p] + 1)
    return H


# ------------------------------------------------------------------------------------------------
# HIR s-expressions -> Coq `re` terms (Regex/Re.v)
# ------------------------------------------------------------------------------------------------
def parse_sexpr(s):
    toks = s.replace('(', ' ( ').replace(')', ' ) ').split()
    pos = [0]

    def rd():
        t = toks[pos[0]]; pos[0] += 1
        if t == '(':
            out = []
            while toks[pos[0]] != ')':
                out.append(rd())
            pos[0] += 1
            return out
        return t
    return rd()


def coq_re(x, max_ranges=24):
    if x == 'E':
        return 'REmpty'
    h = x[0]
    if h == 'L':
        bs = b'' if x[1] == '-' else bytes.fromhex(x[1])
        return '(RLit [%s])' % ';'.join(str(b) for b in bs)
    if h in ('CU', 'CB'):
        rs = [r.split('-') for r in x[1:]][:max_ranges]
        return '(%s [%s])' % ('RClassU' if h == 'CU' else 'RClassB', ';'.join('(%s,%s)' % (a, b) for a, b in rs))
    if h == 'K':
        return 'RLook'
    if h == 'R':
        mx = 'None' if x[2] == 'inf' else '(Some %s)' % x[2]
        return '(RRep %s %s %s %s)' % (x[1], mx, 'true' if x[3] == 'g' else 'false', coq_re(x[4], max_ranges))
    if h == 'P':
        return '(RCap %s)' % coq_re(x[1], max_ranges)
    if h in ('C', 'A'):
        return '(%s [%s])' % ('RCat' if h == 'C' else 'RAlt', ';'.join(coq_re(y, max_ranges) for y in x[1:]))
    raise ValueError('bad hir ' + repr(x))
