"""Shared plumbing for the checks: paths, hashing, caching, subprocesses, evidence, violations."""
import hashlib, json, os, subprocess, sys, time, random, shutil

VERIF = os.path.dirname(os.path.dirname(os.path.abspath(__file__)))
REPO = os.environ.get('VERIF_REPO', '/repo')
CACHE = os.path.join(VERIF, '.cache')
COQ = os.path.join(VERIF, 'coq')
ENV = dict(os.environ, CARGO_NET_OFFLINE='true')
NPROC = os.cpu_count() or 8

REPO_SRC = ['src', 'logos-codegen/src', 'logos-codegen/Cargo.toml', 'logos-derive/src', 'logos-derive/Cargo.toml',
            'logos-cli/src', 'logos-cli/Cargo.toml', 'Cargo.toml', 'Cargo.lock']


def log(*a):
    print('[vcheck]', *a, file=sys.stderr, flush=True)


def limit_memory(gib=3):
    """preexec_fn for processes that run code generated from /repo (harness, CLI): a lexer that loops while it logs
    reads or callbacks must die by allocation failure, not take the machine's memory."""
    import resource
    def f():
        resource.setrlimit(resource.RLIMIT_AS, (gib << 30, gib << 30))
    return f


def sh(cmd, cwd=None, env=None, timeout=3600, check=True, capture=True, input=None, mem_gib=None):
    t0 = time.time()
    r = subprocess.run(cmd, cwd=cwd, env=env or ENV, timeout=timeout, text=True, input=input,
                       stdout=subprocess.PIPE if capture else None, stderr=subprocess.STDOUT if capture else None,
                       shell=isinstance(cmd, str), preexec_fn=limit_memory(mem_gib) if mem_gib else None)
    if check and r.returncode != 0:
        log('command failed:', cmd if isinstance(cmd, str) else ' '.join(cmd))
        log((r.stdout or '')[-4000:])
        raise RuntimeError('command failed: %s' % (cmd,))
    r.wall = time.time() - t0
    return r


def file_hash(paths, base=None):
    h = hashlib.sha256()
    for p in sorted(paths):
        full = os.path.join(base, p) if base else p
        if os.path.isdir(full):
            for root, dirs, files in os.walk(full):
                dirs.sort()
                for f in sorted(files):
                    fp = os.path.join(root, f)
                    h.update(os.path.relpath(fp, base or '/').encode())
                    with open(fp, 'rb') as fh:
                        h.update(fh.read())
        elif os.path.exists(full):
            h.update(p.encode())
            with open(full, 'rb') as fh:
                h.update(fh.read())
    return h.hexdigest()[:16]


_repo_hash = None


def repo_hash():
    global _repo_hash
    if _repo_hash is None:
        _repo_hash = file_hash(REPO_SRC, REPO)
    return _repo_hash


def cache_dir(*parts):
    d = os.path.join(CACHE, *parts)
    os.makedirs(d, exist_ok=True)
    return d


def stamp_ok(d, key):
    p = os.path.join(d, '.stamp')
    return os.path.exists(p) and open(p).read() == key


def stamp_write(d, key):
    with open(os.path.join(d, '.stamp'), 'w') as f:
        f.write(key)


class Rng(random.Random):
    pass


def seed():
    try:
        return int(os.environ.get('VERIF_SEED', '1'))
    except ValueError:
        return 1


# ------------------------------------------------------------------------------------------------
# known findings
# ------------------------------------------------------------------------------------------------
def known_findings():
    """Lines of /verif/known_findings.txt: 'known: property=<id> key=<key> <text>' / 'fixed: ...'."""
    out = []
    p = os.path.join(VERIF, 'known_findings.txt')
    if os.path.exists(p):
        for line in open(p):
            line = line.strip()
            if not line or line.startswith('#'):
                continue
            kind, _, rest = line.partition(':')
            fields = dict(kv.split('=', 1) for kv in rest.split() if '=' in kv and kv.split('=')[0] in ('property', 'key'))
            out.append(dict(kind=kind.strip(), prop=fields.get('property'), key=fields.get('key'), text=rest.strip()))
    return out


class Result:
    """Collects what a check covered and what it found."""

    def __init__(self, prop, tier, level='proof'):
        self.prop = prop; self.tier = tier; self.level = level
        self.t0 = time.time()
        self.obligations = 0; self.discharged = 0
        self.cov = {}
        self.samples = []
        self.trusted = []
        self.assumptions = []
        self.violations = []     # dicts: key, what, replay(dict), found_input(bool)
        self.notes = []

    def oblige(self, ok, n=1):
        self.obligations += n
        if ok:
            self.discharged += n

    def count(self, key, n=1):
        self.cov[key] = self.cov.get(key, 0) + n

    def sample(self, s, cap=6):
        if len(self.samples) < cap:
            self.samples.append(s)

    def violation(self, key, what, replay, found_input=True):
        self.violations.append(dict(key=key, what=what, replay=replay, found_input=found_input))

    def finish(self, checker_cmd):
        known = [k for k in known_findings() if k['kind'] == 'known' and k['prop'] == self.prop]
        code = 0
        nviol = 0
        os.makedirs(os.path.join(VERIF, 'replay', self.prop), exist_ok=True)
        seen_known = set()
        for i, v in enumerate(self.violations):
            match = [k for k in known if k['key'] and v['key'] and v['key'] == k['key']]
            if match:
                if match[0]['key'] not in seen_known:
                    seen_known.add(match[0]['key'])
                    print('KNOWN-FINDING: property=%s %s' % (self.prop, match[0]['text']))
                continue
            nviol += 1
            if nviol > 5:
                continue
            path = os.path.join(VERIF, 'replay', self.prop, '%s_%d.json' % (self.tier, i))
            with open(path, 'w') as f:
                json.dump(dict(property=self.prop, tier=self.tier, seed=seed(), what=v['what'], key=v['key'],
                               found_failing_input=v['found_input'], **v['replay']), f, indent=1, default=str)
            tail = '' if v['found_input'] else ' no-failing-input-found'
            print('VIOLATION property=%s replay=%s%s' % (self.prop, path, tail))
            log('violation:', v['what'])
            code = 1
        cov = dict(self.cov)
        cov.update(obligations=self.obligations, discharged=self.discharged, checker_cmd=checker_cmd,
                   trusted_base=self.trusted, samples=self.samples[:8])
        ev = dict(property_id=self.prop, tier=self.tier, seed=seed(), level=self.level, coverage=cov,
                  assumptions=self.assumptions, wall_s=round(time.time() - self.t0, 2), violations=nviol,
                  notes=self.notes)
        os.makedirs(os.path.join(VERIF, 'evidence'), exist_ok=True)
        with open(os.path.join(VERIF, 'evidence', self.prop + '.json'), 'w') as f:
            json.dump(ev, f, indent=1, default=str)
        log('%s %s: obligations %d/%d, violations %d, %.1fs' % (self.prop, self.tier, self.discharged, self.obligations, nviol, time.time() - self.t0))
        return code
