// Curated engine corpus: each enum is here for a mechanism (see DESIGN.md section 6).
// Every enum in this file is also compiled a second time with `utf8 = false` (byte twin).

#[derive(Logos, Debug, PartialEq, Clone)]
pub enum KwIdent {
    #[token("fn")] Fn,
    #[token("for")] For,
    #[token("fort")] Fort,
    #[regex("[a-z]+")] Ident,
    #[regex("[0-9]+")] Num,
    #[regex("[0-9]+\\.[0-9]+")] Float,
    #[regex(r"[ \t\n]+", logos::skip)] Ws,
}

#[derive(Logos, Debug, PartialEq, Clone)]
pub enum Overlap {
    #[regex("(a|ab)*c")] Abc,
    #[regex("a+")] As,
    #[token("ab")] Ab,
    #[token("abab")] Abab,
}

#[derive(Logos, Debug, PartialEq, Clone)]
pub enum NestedRep {
    #[regex("(a*)*b")] Ab,
    #[regex("a{2,5}c")] Ac,
    #[regex("a{3}")] Aaa,
    #[token("d")] D,
}

#[derive(Logos, Debug, PartialEq, Clone)]
pub enum LookEnd {
    #[regex("a$")] AEnd,
    #[token("b")] B,
    #[regex("a+c")] Ac,
}

#[derive(Logos, Debug, PartialEq, Clone)]
pub enum LookWord {
    #[token("a")] A,
    #[regex(r"c(?-u:\b)")] CWord,
    #[regex(r"cd+")] Cd,
    #[token(" ")] Sp,
}

#[derive(Logos, Debug, PartialEq, Clone)]
pub enum LookLine {
    #[regex(r"a(?m:$)")] ALine,
    #[regex(r"\r?\n")] Nl,
    #[regex(r"a+b")] Ab,
    #[regex(r"x(?-u:\B)", priority = 3)] XNonWord,
    #[regex(r"x")] X,
}

#[derive(Logos, Debug, PartialEq, Clone)]
pub enum Strings {
    #[regex(r#""([^"\\]|\\.)*""#)] Str,
    #[regex(r"//[^\n]*", allow_greedy = true)] LineComment,
    #[regex(r"/\*([^*]|\*+[^*/])*\*+/")] BlockComment,
    #[token("/")] Slash,
    #[token("*")] Star,
    #[regex(r"\s+", logos::skip)] Ws,
}

#[derive(Logos, Debug, PartialEq, Clone)]
pub enum Greek {
    #[regex(r"\p{Greek}+")] Greek,
    #[regex(r"[a-zλ]+", priority = 3)] LatinLambda,
    #[token("日本")] Nihon,
    #[regex("[😀-😏]")] Emoji,
    #[regex(r"\s", logos::skip)] Ws,
}

#[derive(Logos, Debug, PartialEq, Clone)]
pub enum Dots {
    #[regex(r"<.>")] AnyOne,
    #[regex(r"\[[^\]]*\]")] Bracket,
    #[regex(r"[^\x00-\x7f<\[]")] NonAscii,
}

#[derive(Logos, Debug, PartialEq, Clone)]
pub enum Prio {
    #[regex("[a-c]+", priority = 10)] Low,
    #[regex("[b-d]+", priority = 11)] Mid,
    #[regex("abc", priority = 12)] Abc,
    #[token("abcd", priority = 1)] AbcdLowest,
    #[regex("[a-d]+e")] Ade,
}

#[derive(Logos, Debug, PartialEq, Clone)]
#[logos(skip r"[ ]+")]
#[logos(skip(r"#[^\n]*", priority = 5, allow_greedy = true))]
pub enum SkipOnly {
    #[token("x")] X,
}

#[derive(Logos, Debug, PartialEq, Clone)]
pub enum TwoThree {
    // states with exactly 2 and exactly 3 outgoing edges (if-chain / table boundary)
    #[regex("a[bc]")] A2,
    #[regex("d[ef]g")] D,
    #[regex("h(i|j|k)l")] H3,
    #[regex("m[n-p]|m[r-t]q")] M,
}

#[derive(Logos, Debug, PartialEq, Clone)]
pub enum ClassGaps {
    // classes separated by exactly one byte (impl_with_cmp `except` path) and by two; touching 0x00 / 0x7f
    #[regex("[a-eg-k]+")] Gap1,
    #[regex("[A-EH-K]+")] Gap2,
    #[regex("[\x00-\x08]+")] Low,
    #[regex("[0-46-9]x")] Digits,
    #[regex("[!#%')+]+")] Sparse,
}

#[derive(Logos, Debug, PartialEq, Clone)]
pub enum SelfLoops {
    // accept states with self loops and long runs (unrolled fast loop, 8-byte chunks)
    #[regex("a+")] As,
    #[regex("a+b")] Ab,
    #[regex("[0-9]+(_[0-9]+)*")] Digits,
    #[regex("x[yz]*w")] Xw,
    #[regex(" +", logos::skip)] Ws,
}

#[derive(Logos, Debug, PartialEq, Clone)]
pub enum Lazy {
    #[regex("a+?b")] Ab,
    #[regex("<!--(.|\n)*?-->")] Comment,
    #[regex("c{2,}?")] Cs,
    #[token("<")] Lt,
}

#[derive(Logos, Debug, PartialEq, Clone)]
pub enum CaseIns {
    #[token("select", ignore(case))] Select,
    #[regex("[a-z]+", ignore(case))] Word,
    #[token("É", ignore(case))] EAcute,
    #[token(" ")] Sp,
}

#[derive(Logos, Debug, PartialEq, Clone)]
pub enum LongLit {
    #[token("abcdefghijklmnopqrstuvwxyz")] Alphabet,
    #[token("abcdefghijklmnopqrstuvwxyzabcdefghijklmnopqrstuvwxyz0")] Double,
    #[regex("[a-z]")] One,
}

#[derive(Logos, Debug, PartialEq, Clone)]
pub enum WordEnd {
    #[regex(r"foo(?-u:\b{end})")] FooEnd,
    #[regex(r"foo[a-z]+")] FooMore,
    #[regex(r"b(?-u:\b{start-half})ar")] Bar,
    #[regex(r"[ .]")] Punct,
    #[regex(r"ba(?-u:\b{end-half})")] BaHalf,
}

#[derive(Logos, Debug, PartialEq, Clone)]
pub enum ErrRecover {
    // error spans: tokens that die late
    #[token("abcdef")] Abcdef,
    #[regex("ab+x")] Abx,
    #[regex("é+!")] EBang,
    #[token("z")] Z,
}

// a loop over one range anchored at 0x00 (count_ops = 1 although the range is wide), a longer token extending a
// higher-priority shorter one by one byte, and an end-anchored pattern with a value callback-free item
#[derive(Logos, Debug, PartialEq, Clone)]
pub enum EdgeShapes {
    #[regex("[\\x00-\\x20]+")] Ctl,
    #[token("=", priority = 10)] Eq,
    #[token("==")] EqEq,
    #[token("if")] If,
    #[regex("[a-z]*!")] Macro,
    #[regex("[a-z]+")] Word,
}

// a multi-byte literal token (priority 2 x bytes = 10) against a pattern of priority 7 on the same text
#[derive(Logos, Debug, PartialEq, Clone)]
pub enum MbTokenPrio {
    #[token("\u{e9}t\u{e9}")] Summer,
    #[regex("[a-z\u{e0}-\u{ff}]+", priority = 7)] Word,
    #[token(" ")] Sp,
}
#[derive(Logos, Debug, PartialEq, Clone)]
pub enum MbTokenPrioI {
    #[token("n\u{e3}o", ignore(case))] Not,
    #[regex("\\p{L}+", priority = 7)] Word,
    #[token(" ")] Sp,
}

// classes that cover every lead byte but exclude single non-ASCII characters (loops that must leave on those)
#[derive(Logos, Debug, PartialEq, Clone)]
pub enum NonSpace {
    #[regex(r"\S+")] Word,
    #[regex(r"\s+")] Space,
}
#[derive(Logos, Debug, PartialEq, Clone)]
pub enum NoLineSep {
    #[regex("\"[^\"\u{2028}\u{2029}]*\"")] Str,
    #[regex("[^,\u{3001}\" ]+")] Field,
    #[token(",")] Comma,
    #[token("\u{3001}")] WideComma,
    #[token(" ")] Sp,
}
