// Definitions whose graphs have end-of-input edges out of states without byte edges (pure
// look-ahead at the end), the shape behind finding F1 (C07).
#[derive(Logos, Debug, PartialEq, Clone)]
pub enum EndOnly {
    #[regex("a$")] AEnd,
    #[token("b")] B,
}

#[derive(Logos, Debug, PartialEq, Clone)]
pub enum EndOnlyLine {
    #[regex(r"key(?m:$)")] KeyEol,
    #[token("key=")] KeyEq,
    #[token("\n")] Nl,
    #[regex("[a-z]", priority = 1)] Letter,
}

#[derive(Logos, Debug, PartialEq, Clone)]
pub enum WordEndOnly {
    #[regex(r"if(?-u:\b)")] If,
    #[regex(r"[a-z]+", priority = 1)] Ident,
    #[token(" ")] Sp,
}
