// Definitions whose graphs have end-of-input edges out of states without byte edges (pure
// look-ahead at the end), the shape behind finding F1 (C07).
#[derive(Logos, Debug, PartialEq, Clone)]
pub enum EndOnly {
    #[regex("a$")] AEnd,
    #[token("b")] B,
}

#[derive(Logos, Debug, PartialEq, Clone)]
pub enum EndOnlyLine {
    #[regex(r"key(?m:$)")] KeyEol,
    #[token("key=")] KeyEq,
    #[token("\n")] Nl,
    #[regex("[a-z]", priority = 1)] Letter,
}

#[derive(Logos, Debug, PartialEq, Clone)]
pub enum WordEndOnly {
    #[regex(r"if(?-u:\b)")] If,
    #[regex(r"[a-z]+", priority = 1)] Ident,
    #[token(" ")] Sp,
}

// states that carry BOTH a late accept (a look-ahead match confirmed by the byte just read) and an
// early accept (another pattern completes on that very byte): the generated code must prefer the
// early, longer match.
#[derive(Logos, Debug, PartialEq, Clone)]
pub enum WordCall {
    #[regex(r"[a-z]+(?-u:\b)")] Word,
    #[regex(r"[a-z]+\(")] Call,
    #[token(")")] Close,
    #[token(" ")] Sp,
}

#[derive(Logos, Debug, PartialEq, Clone)]
pub enum EolOrCrlf {
    #[regex(r"[a-z]+(?m:$)")] LineEndWord,
    #[regex(r"[a-z]+\n")] WordNl,
    #[regex(r"[a-z]+", priority = 1)] Word,
    #[token("\n")] Nl,
    #[token(" ")] Sp,
}

#[derive(Logos, Debug, PartialEq, Clone)]
pub enum NotWordThenDot {
    #[regex(r"[0-9]+(?-u:\b)")] Int,
    #[regex(r"[0-9]+\.[0-9]+")] Float,
    #[regex(r"[0-9]+\.\.")] RangeStart,
    #[token(".")] Dot,
    #[regex(r"[a-z]+")] Ident,
}
