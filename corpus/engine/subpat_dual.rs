// Definitions whose Unicode-aware constructs are reached through subpatterns (C11, C12): the byte-mode
// twin must stay Unicode-aware inside a str-literal subpattern.
#[derive(Logos, Debug, PartialEq, Clone)]
#[logos(subpattern word = r"\w+")]
#[logos(subpattern notq = r"[^q]")]
pub enum SubWord {
    #[regex("(?&word)")] Word,
    #[regex("<(?&notq)>")] Angle,
    #[regex(" +")] Sp,
    #[token("=")] Eq,
}

#[derive(Logos, Debug, PartialEq, Clone)]
#[logos(subpattern any = r".")]
#[logos(subpattern digits = r"\d+")]
#[logos(subpattern pair = r"(?&any)(?&any)")]
pub enum SubDot {
    #[regex(r"\((?&pair)\)")] Pair,
    #[regex(r"#(?&digits)")] Num,
    #[regex(r"\s")] Ws,
}
