// Byte-mode-only curated definitions (utf8 = false).
#[derive(Logos, Debug, PartialEq, Clone)]
#[logos(utf8 = false)]
pub enum RawBytes {
    #[token(b"\xFF\xFE")] Bom,
    #[regex(b"[\x80-\xBF]+")] Conts,
    #[regex(b"\x00+")] Zeros,
    #[regex("[a-z]+")] Word,
    #[regex(r"\p{Greek}")] Greek,
    #[token(b"\xCE")] LoneLead,
}

#[derive(Logos, Debug, PartialEq, Clone)]
#[logos(utf8 = false)]
pub enum AnyByte {
    #[regex(b"(?s-u:.)")] Any,
    #[regex(b"(?-u:[^a-z])x")] NonLowerX,
    #[token("ab")] Ab,
}
