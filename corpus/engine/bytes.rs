// Byte-mode-only curated definitions (utf8 = false).
#[derive(Logos, Debug, PartialEq, Clone)]
#[logos(utf8 = false)]
pub enum RawBytes {
    #[token(b"\xFF\xFE")] Bom,
    #[regex(b"[\x80-\xBF]+")] Conts,
    #[regex(b"\x00+")] Zeros,
    #[regex("[a-z]+")] Word,
    #[regex(r"\p{Greek}")] Greek,
    #[token(b"\xCE")] LoneLead,
}

#[derive(Logos, Debug, PartialEq, Clone)]
#[logos(utf8 = false)]
pub enum AnyByte {
    #[regex(b"(?s-u:.)")] Any,
    #[regex(b"(?-u:[^a-z])x")] NonLowerX,
    #[token("ab")] Ab,
}

// self-loops whose class is byte-oriented (every non-ASCII byte, everything but one byte, ...):
// the unrolled fast loop and its LUT are generated per class
#[derive(Logos, Debug, PartialEq, Clone)]
#[logos(utf8 = false)]
pub enum ByteLoops {
    #[regex(b"<[^>]*>")] Tag,
    #[regex(b"(?-u:[\x80-\xff])+")] High,
    #[regex(b"\"(?-u:[^\"\\\\])*\"")] Str,
    #[regex(b"[a-z]+")] Word,
    #[token(b" ")] Sp,
}

#[derive(Logos, Debug, PartialEq, Clone)]
#[logos(utf8 = false)]
pub enum ByteLoops2 {
    #[regex(b"#(?-u:[^\n])*", allow_greedy = true)] Comment,
    #[regex(b"(?-u:[\x00-\x1f\x7f-\xff])+")] Ctl,
    #[regex(b"0(?s-u:.){3}")] Four,
    #[regex(b"[0-9]+")] Num,
}

// if-chain conditions (states with at most two outgoing edges): one range with isolated holes,
// `matches!(byte, lo..=hi) && byte != x1 && byte != x2`, as a non-looping edge
#[derive(Logos, Debug, PartialEq, Clone)]
#[logos(utf8 = false)]
pub enum ByteHoles {
    #[regex(b"'(?-u:[^'\\\\])'")] Char,            // 0..=255 minus two isolated bytes
    #[regex(b"/(?-u:[^*/])")] SlashOther,          // minus two bytes five apart
    #[regex(b"%(?-u:[\x10-\x12\x14-\x16])")] Pct,   // 0x10..=0x16 minus 0x13: two comparisons and one exception
    #[regex(b"@(?-u:[^\r\n])")] AtOther,
    #[regex(b"[a-z]+")] Word,
}

#[derive(Logos, Debug, PartialEq, Clone)]
#[logos(utf8 = false)]
pub enum ByteHoles2 {
    #[regex(b"=(?-u:[^=])")] EqOther,              // one hole
    #[regex(b"!(?-u:[^!?])!")] Bang,               // two holes 0x21, 0x3f
    #[regex(b"~(?-u:[\x00-\x40\x42-\xff])")] Tilde,
    #[regex(b"[0-9]+")] Num,
}

// any-byte tails reached through alternatives of different length (the tail state is numbered before its predecessor)
#[derive(Logos, Debug, PartialEq, Clone)]
#[logos(utf8 = false)]
pub enum AnyTail {
    #[regex(b"y(?s-u:.)|xz(?s-u:.)")] Rec,
    #[regex(b"[a-w]")] Letter,
    #[regex(b"(?-u:[\\x80-\\xFF])+")] High,
}
