// Callback corpus (C13): one callback per supported return type.  Every callback records the
// span and slice it observes (crate::cb::note) and decides by k = (sum of bytes + length) % 4
// through the table of its return type — the same table as Engine/Run.v `table`.
use logos::{Filter, FilterResult, Lexer, Skip};

#[derive(Debug, Clone, PartialEq, Default)]
pub enum LexErr {
    #[default]
    Default,
    Custom(u8),
    FromCb(usize, usize),
}

fn k_of<'s, T: Logos<'s, Source = str>>(lex: &Lexer<'s, T>) -> usize {
    crate::cb::note(lex.span(), lex.slice().as_bytes())
}
fn k_of_b<'s, T: Logos<'s, Source = [u8]>>(lex: &Lexer<'s, T>) -> usize {
    crate::cb::note(lex.span(), lex.slice())
}

fn decide_bool<'s, T: Logos<'s, Source = str>>(lex: &mut Lexer<'s, T>) -> bool { k_of(lex) % 2 == 0 }
fn decide_option<'s, T: Logos<'s, Source = str>>(lex: &mut Lexer<'s, T>) -> Option<u32> {
    let k = k_of(lex); if k % 2 == 0 { Some(k as u32) } else { None }
}
fn decide_result<'s, T: Logos<'s, Source = str>>(lex: &mut Lexer<'s, T>) -> Result<u32, LexErr> {
    let k = k_of(lex); if k % 2 == 0 { Ok(k as u32) } else { Err(LexErr::Custom(k as u8)) }
}
fn decide_filter<'s, T: Logos<'s, Source = str>>(lex: &mut Lexer<'s, T>) -> Filter<u32> {
    let k = k_of(lex); if k % 2 == 0 { Filter::Emit(k as u32) } else { Filter::Skip }
}
fn decide_filterresult<'s, T: Logos<'s, Source = str>>(lex: &mut Lexer<'s, T>) -> FilterResult<u32, LexErr> {
    match k_of(lex) { 0 | 3 => FilterResult::Emit(7), 1 => FilterResult::Skip, k => FilterResult::Error(LexErr::Custom(k as u8)) }
}
fn decide_skip<'s, T: Logos<'s, Source = str>>(lex: &mut Lexer<'s, T>) -> Skip { let _ = k_of(lex); Skip }
fn decide_result_skip<'s, T: Logos<'s, Source = str>>(lex: &mut Lexer<'s, T>) -> Result<Skip, LexErr> {
    let k = k_of(lex); if k % 2 == 0 { Ok(Skip) } else { Err(LexErr::Custom(k as u8)) }
}
fn decide_unit<'s, T: Logos<'s, Source = str>>(lex: &mut Lexer<'s, T>) { let _ = k_of(lex); }
fn decide_value<'s, T: Logos<'s, Source = str>>(lex: &mut Lexer<'s, T>) -> u32 { k_of(lex) as u32 }
fn decide_skipcb_unit<'s, T: Logos<'s, Source = str>>(lex: &mut Lexer<'s, T>) { let _ = k_of(lex); }
fn decide_skipcb_result<'s, T: Logos<'s, Source = str>>(lex: &mut Lexer<'s, T>) -> Result<(), LexErr> {
    let k = k_of(lex); if k % 2 == 0 { Ok(()) } else { Err(LexErr::Custom(k as u8)) }
}
fn decide_bump<'s, T: Logos<'s, Source = str>>(lex: &mut Lexer<'s, T>) -> u32 {
    let _ = k_of(lex);
    let want = lex.slice().as_bytes().iter().map(|b| *b as usize).sum::<usize>() % 3;
    let rem = lex.remainder();
    if want <= rem.len() && rem.is_char_boundary(want) { lex.bump(want); }
    want as u32
}

#[derive(Logos, Debug, PartialEq, Clone)]
#[logos(error = LexErr)]
pub enum CbTypes {
    #[regex("a[a-z]*", decide_bool)] Bool,
    #[regex("b[a-z]*", decide_option)] Opt(u32),
    #[regex("c[a-z]*", decide_result)] Res(u32),
    #[regex("d[a-z]*", decide_filter)] Filt(u32),
    #[regex("e[a-z]*", decide_filterresult)] FiltRes(u32),
    #[regex("f[a-z]*", decide_skip)] Skp,
    #[regex("g[a-z]*", decide_result_skip)] ResSkp,
    #[regex("h[a-z]*", decide_unit)] Unit,
    #[regex("i[a-z]*", decide_value)] Val(u32),
    #[regex("j[a-z]*")] Plain,
    #[regex("[0-9]+", decide_bump)] Bump(u32),
    #[token(" ")] Sp,
}

// any-token callbacks: the callback chooses the variant (Alt when k >= 2)
fn decide_tok<'s>(lex: &mut Lexer<'s, CbTok>) -> CbTok { if k_of(lex) >= 2 { CbTok::Alt } else { CbTok::Tok } }
fn decide_tok_result<'s>(lex: &mut Lexer<'s, CbTok>) -> Result<CbTok, LexErr> {
    match k_of(lex) { 0 => Ok(CbTok::TokR), 2 => Ok(CbTok::Alt), k => Err(LexErr::Custom(k as u8)) }
}
fn decide_tok_filter<'s>(lex: &mut Lexer<'s, CbTok>) -> Filter<CbTok> {
    match k_of(lex) { 0 => Filter::Emit(CbTok::TokF), 2 => Filter::Emit(CbTok::Alt), _ => Filter::Skip }
}
fn decide_tok_filterresult<'s>(lex: &mut Lexer<'s, CbTok>) -> FilterResult<CbTok, LexErr> {
    match k_of(lex) { 0 => FilterResult::Emit(CbTok::TokFR), 3 => FilterResult::Emit(CbTok::Alt), 1 => FilterResult::Skip, k => FilterResult::Error(LexErr::Custom(k as u8)) }
}

#[derive(Logos, Debug, PartialEq, Clone)]
#[logos(error = LexErr)]
#[logos(skip("x[a-z]*", decide_skipcb_unit))]
#[logos(skip("y[a-z]*", decide_skipcb_result))]
pub enum CbTok {
    #[regex("a[a-z]*", decide_tok)] Tok,
    #[regex("b[a-z]*", decide_tok_result)] TokR,
    #[regex("c[a-z]*", decide_tok_filter)] TokF,
    #[regex("d[a-z]*", decide_tok_filterresult)] TokFR,
    Alt,
    #[token(" ")] Sp,
}

// error callback configured: default errors come from the callback
fn make_err<'s>(lex: &mut Lexer<'s, CbErrCb>) -> LexErr { LexErr::FromCb(lex.span().start, lex.span().end) }

#[derive(Logos, Debug, PartialEq, Clone)]
#[logos(error(LexErr, make_err))]
pub enum CbErrCb {
    #[regex("a[a-z]*", decide_bool)] Bool,
    #[regex("b[a-z]*", decide_option)] Opt(u32),
    #[regex("c[a-z]*", decide_result)] Res(u32),
    #[regex("g[a-z]*", decide_result_skip)] ResSkp,
    #[token(" ")] Sp,
}

// byte source
fn decide_bool_b<'s, T: Logos<'s, Source = [u8]>>(lex: &mut Lexer<'s, T>) -> bool { k_of_b(lex) % 2 == 0 }
fn decide_filter_b<'s, T: Logos<'s, Source = [u8]>>(lex: &mut Lexer<'s, T>) -> Filter<()> {
    if k_of_b(lex) % 2 == 0 { Filter::Emit(()) } else { Filter::Skip }
}

#[derive(Logos, Debug, PartialEq, Clone)]
#[logos(utf8 = false)]
pub enum CbBytes {
    #[regex(b"a[a-z\xff]*", decide_bool_b)] Bool,
    #[regex(b"d[a-z\x80]*", decide_filter_b)] Filt,
    #[token(b" ")] Sp,
}

// a bumping callback on a byte source: every in-range bump is valid there, up to and including the end of the input
fn decide_bump_b<'s, T: Logos<'s, Source = [u8]>>(lex: &mut Lexer<'s, T>) -> u32 {
    let _ = k_of_b(lex);
    let want = lex.slice().iter().map(|b| *b as usize).sum::<usize>() % 3;
    if want <= lex.remainder().len() { lex.bump(want); }
    want as u32
}

#[derive(Logos, Debug, PartialEq, Clone)]
#[logos(utf8 = false)]
pub enum CbBumpB {
    #[regex(b"[a-z]+", decide_bump_b)] Word(u32),
    #[regex(b"[0-9\xff]+")] Num,
    #[token(b" ")] Sp,
}

// callbacks whose path merely ends in `skip` (they are ordinary user callbacks, not logos::skip)
pub mod named {
    pub mod boolish { use logos::{Lexer, Logos}; pub fn skip<'s, T: Logos<'s, Source = str>>(lex: &mut Lexer<'s, T>) -> bool { super::super::decide_bool(lex) } }
    pub mod filt { use logos::{Filter, Lexer, Logos}; pub fn skip<'s, T: Logos<'s, Source = str>>(lex: &mut Lexer<'s, T>) -> Filter<u32> { super::super::decide_filter(lex) } }
    pub mod fr { use logos::{FilterResult, Lexer, Logos}; pub fn skip<'s, T: Logos<'s, Source = str>>(lex: &mut Lexer<'s, T>) -> FilterResult<u32, super::super::LexErr> { super::super::decide_filterresult(lex) } }
    pub mod valueish { use logos::{Lexer, Logos}; pub fn skip<'s, T: Logos<'s, Source = str>>(lex: &mut Lexer<'s, T>) -> u32 { super::super::decide_value(lex) } }
    pub mod bumping { use logos::{Lexer, Logos}; pub fn skip<'s, T: Logos<'s, Source = str>>(lex: &mut Lexer<'s, T>) -> u32 { super::super::decide_bump(lex) } }
    pub mod unitish { use logos::{Lexer, Logos}; pub fn skip<'s, T: Logos<'s, Source = str>>(lex: &mut Lexer<'s, T>) { super::super::decide_skipcb_unit(lex) } }
    pub mod resultish { use logos::{Lexer, Logos}; pub fn skip<'s, T: Logos<'s, Source = str>>(lex: &mut Lexer<'s, T>) -> Result<(), super::super::LexErr> { super::super::decide_skipcb_result(lex) } }
}

#[derive(Logos, Debug, PartialEq, Clone)]
#[logos(error = LexErr)]
#[logos(skip("x[a-z]*", named::unitish::skip))]
#[logos(skip("y[a-z]*", named::resultish::skip))]
pub enum CbNamedSkip {
    #[regex("a[a-z]*", named::boolish::skip)] Bool,
    #[regex("d[a-z]*", named::filt::skip)] Filt(u32),
    #[regex("e[a-z]*", named::fr::skip)] FiltRes(u32),
    #[regex("i[a-z]*", named::valueish::skip)] Val(u32),
    #[regex("[0-9]+", named::bumping::skip)] Bump(u32),
    #[token(" ")] Sp,
}

// a callback that bumps and then asks for the match to be skipped: the bumped bytes belong to the skipped
// region and must not be lexed again
fn decide_bump_skip<'s, T: Logos<'s, Source = str>>(lex: &mut Lexer<'s, T>) -> Filter<u32> {
    let _ = k_of(lex);
    let want = lex.slice().as_bytes().iter().map(|b| *b as usize).sum::<usize>() % 3;
    let rem = lex.remainder();
    if want <= rem.len() && rem.is_char_boundary(want) { lex.bump(want); }
    Filter::Skip
}
fn decide_bump_skip_unit<'s, T: Logos<'s, Source = str>>(lex: &mut Lexer<'s, T>) {
    let _ = k_of(lex);
    let want = lex.slice().as_bytes().iter().map(|b| *b as usize).sum::<usize>() % 3;
    let rem = lex.remainder();
    if want <= rem.len() && rem.is_char_boundary(want) { lex.bump(want); }
}

#[derive(Logos, Debug, PartialEq, Clone)]
#[logos(error = LexErr)]
#[logos(skip("#[0-9]*", decide_bump_skip_unit))]
pub enum CbBumpSkip {
    #[regex("[0-9]+", decide_bump_skip)] Num(u32),
    #[regex("[a-z]+")] Word,
    #[token(" ")] Sp,
    #[token("!")] Bang,
}

// callbacks on patterns whose match is confirmed by the end of input (look-around): the callback must see the whole match
#[derive(Logos, Debug, PartialEq, Clone)]
#[logos(error = LexErr)]
pub enum CbLookEnd {
    #[regex("[a-z]+(?-u:\\b)", decide_value)] Word(u32),
    #[regex("[0-9]+$", decide_value, priority = 5)] LastNum(u32),
    #[regex("[0-9]+", decide_bool)] Num,
    #[token(" ")] Sp,
}

// named arguments after ignore(case): the callback still belongs to the pattern
#[derive(Logos, Debug, PartialEq, Clone)]
#[logos(error = LexErr)]
pub enum CbAfterIgnore {
    #[token("begin", ignore(case), callback = decide_bool)] Begin,
    #[regex("[0-9]+x", ignore(case), callback = decide_bool)] Hex,
    #[regex("[a-z]+", decide_value)] Word(u32),
    #[token(" ")] Sp,
}
