// inline closures as callbacks: the body the derive compiles must be the body as written
use logos::Logos;
#[derive(Logos)] enum InlinePlain { #[regex("[0-9]+", |lex| lex.slice().len())] Num(usize), #[token("a")] A }
#[derive(Logos)] enum InlineBraces { #[regex("[0-9]+", |lex| { let n = lex.slice().len(); n as u32 })] Num(u32), #[token("a")] A }
#[derive(Logos)] enum InlineGroupFirst { #[regex("[0-9]+", |lex| (lex.slice().len() as u32) * 2)] Num(u32), #[token("a")] A }
#[derive(Logos)] enum InlineGroupFirstNamed { #[regex("[0-9]+", callback = |lex| (lex.slice().len() as u32) + 1)] Num(u32), #[token("a")] A }
#[derive(Logos)] enum InlineBracesThenMore { #[regex("[0-9]+", |lex| { lex.slice().len() } as u32)] Num(u32), #[token("a")] A }
#[derive(Logos)] enum InlineArrayIndex { #[regex("[0-9]+", |lex| [lex.slice().len(), 7][0])] Num(usize), #[token("a")] A }
#[derive(Logos)] enum InlineTuple { #[regex("[0-9]+", |lex| (lex.slice().len(), 1u8))] Num((usize, u8)), #[token("a")] A }
#[derive(Logos)] enum InlineUnit { #[token("b", |lex| (lex.slice().len() > 0) && false)] B, #[token("a")] A }
#[derive(Logos)] #[logos(skip("#[a-z]*", |lex| (lex.slice().len() > 3) || true))] enum InlineSkip { #[token("a")] A }
