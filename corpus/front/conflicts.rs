// Definitions with equal-priority overlaps (must be rejected, naming the conflicting leaves) and
// near misses (must be accepted) — C08 / C09.
#[derive(Logos)]
enum TwoConflicts {
    #[regex("[a-c]+")] Abc,
    #[regex("[b-d]+")] Bcd,          // overlaps Abc on b, c, bc..: both priority 2
    #[regex("[0-9]+")] Digits,
    #[regex("[0-5]+")] LowDigits,    // overlaps Digits
    #[token("x")] X,
}

#[derive(Logos)]
enum ThreeWay {
    #[regex("a[a-z]")] A1,
    #[regex("[a-z]b")] A2,
    #[regex("(ab|cd)")] A3,          // "ab" matched by all three, priorities 4, 4, 4
}

#[derive(Logos)]
enum TokenVsRegexTie {
    #[token("ab")] Ab,               // priority 4
    #[regex("a[b-c]")] Abc,          // priority 4 -> tie on "ab"
}

#[derive(Logos)]
enum ResolvedByPriority {
    #[regex("[a-c]+", priority = 3)] Abc,
    #[regex("[b-d]+")] Bcd,
}

#[derive(Logos)]
enum ResolvedByLength {
    #[token("abc")] Abc,             // 6 beats the regex's 2 on "abc"
    #[regex("[a-c]+")] Letters,
}

#[derive(Logos)]
enum TieOnlyBelowTop {
    // Lo1 and Lo2 tie at priority 2 but Top (3) also matches everything they both match: no error
    #[regex("[ab]", priority = 2)] Lo1,
    #[regex("[bc]", priority = 2)] Lo2,
    #[regex("b", priority = 3)] Top,
}

#[derive(Logos)]
enum TieAtEoiOnly {
    #[regex("a$")] AEnd,             // priority 2
    #[regex("a")] A,                 // priority 2: both match "a" at end of input
}

#[derive(Logos)]
enum SkipVsToken {
    #[regex("[ ]+")] Ws,
    #[regex(r"[ \t]+", logos::skip)] Skip,
}

#[derive(Logos)]
enum RepetitionMin {
    #[regex("a{3}")] Three,          // 6
    #[regex("a{2,}")] TwoPlus,       // 4
    #[regex("(a|bb)c")] AltMin,      // min(2,4)+2 = 4
    #[regex("b+c")] Bc,              // 4 -> ties with AltMin on "bbc"
}
