// Definitions with equal-priority overlaps (must be rejected, naming the conflicting leaves) and
// near misses (must be accepted) — C08 / C09.
#[derive(Logos)]
enum TwoConflicts {
    #[regex("[a-c]+")] Abc,
    #[regex("[b-d]+")] Bcd,          // overlaps Abc on b, c, bc..: both priority 2
    #[regex("[0-9]+")] Digits,
    #[regex("[0-5]+")] LowDigits,    // overlaps Digits
    #[token("x")] X,
}

#[derive(Logos)]
enum ThreeWay {
    #[regex("a[a-z]")] A1,
    #[regex("[a-z]b")] A2,
    #[regex("(ab|cd)")] A3,          // "ab" matched by all three, priorities 4, 4, 4
}

#[derive(Logos)]
enum TokenVsRegexTie {
    #[token("ab")] Ab,               // priority 4
    #[regex("a[b-c]")] Abc,          // priority 4 -> tie on "ab"
}

#[derive(Logos)]
enum ResolvedByPriority {
    #[regex("[a-c]+", priority = 3)] Abc,
    #[regex("[b-d]+")] Bcd,
}

#[derive(Logos)]
enum ResolvedByLength {
    #[token("abc")] Abc,             // 6 beats the regex's 2 on "abc"
    #[regex("[a-c]+")] Letters,
}

#[derive(Logos)]
enum TieOnlyBelowTop {
    // Lo1 and Lo2 tie at priority 2 but Top (3) also matches everything they both match: no error
    #[regex("[ab]", priority = 2)] Lo1,
    #[regex("[bc]", priority = 2)] Lo2,
    #[regex("b", priority = 3)] Top,
}

#[derive(Logos)]
enum TieAtEoiOnly {
    #[regex("a$")] AEnd,             // priority 2
    #[regex("a")] A,                 // priority 2: both match "a" at end of input
}

#[derive(Logos)]
enum SkipVsToken {
    #[regex("[ ]+")] Ws,
    #[regex(r"[ \t]+", logos::skip)] Skip,
}

#[derive(Logos)]
enum RepetitionMin {
    #[regex("a{3}")] Three,          // 6
    #[regex("a{2,}")] TwoPlus,       // 4
    #[regex("(a|bb)c")] AltMin,      // min(2,4)+2 = 4
    #[regex("b+c")] Bc,              // 4 -> ties with AltMin on "bbc"
}

// ties whose members are NOT adjacent in declaration order: a lower-priority pattern that matches
// the same text sits between them (and around them)
#[derive(Logos)]
enum TieSplitByLower {
    #[regex("[a-z]+", priority = 5)] Lower,
    #[regex("[a-z0-9]+", priority = 1)] Word,
    #[regex("[a-c]+", priority = 5)] Abc,
}

#[derive(Logos)]
enum TieSplitTwice {
    #[regex("[a-z]+", priority = 7)] A,
    #[regex("[a-z0-9]+", priority = 2)] B,
    #[regex("[a-f]+", priority = 3)] C,
    #[regex("[a-c]+", priority = 7)] D,
    #[regex("[a-b]+", priority = 1)] E,
    #[regex("a+", priority = 7)] F,
}

#[derive(Logos)]
enum LowerTieBelowTopSplit {
    // 3-way tie at priority 2 hidden below a unique top: accepted
    #[regex("[ab]", priority = 2)] L1,
    #[regex("b", priority = 9)] Top,
    #[regex("[bc]", priority = 2)] L2,
}

#[derive(Logos)]
enum TieAfterHigherElsewhere {
    // "x1": H (9) wins; "xa": T1 and T2 tie at 4 with W (1) between them
    #[regex("x[a-z]", priority = 4)] T1,
    #[regex("x[0-9]", priority = 9)] H,
    #[regex("x[a-z0-9]", priority = 1)] W,
    #[regex("x[a-m]", priority = 4)] T2,
}

#[derive(Logos)]
enum TieSeparatedByLower {
    #[token("ab")] Lit,              // priority 4
    #[regex("[a-z]+")] Word,         // priority 2, also matches "ab", declared between the tied leaves
    #[regex("a[a-z]")] Pair,         // priority 4 -> tie with Lit on "ab"
}

#[derive(Logos)]
#[logos(skip "ab")]
enum TieSkipSeparatedByLower {
    #[regex("[a-z]+")] Word,         // priority 2
    #[regex("[a-c]{2}")] Two,        // priority 4 -> tie with the skip "ab" (4), Word in between
}

#[derive(Logos)]
enum TieSeparatedTwice {
    #[regex("[a-c]x", priority = 5)] A,
    #[regex("[a-z]x", priority = 1)] Lo1,
    #[regex("[b-d]x", priority = 5)] B,   // ties with A on "bx", "cx"
    #[regex("[a-z]+", priority = 2)] Lo2,
    #[regex("[c-e]x", priority = 5)] C,   // ties with A, B on "cx"; with B on "dx"
}

#[derive(Logos)]
enum LowerBetweenButNoTie {
    #[token("ab")] Lit,              // 4
    #[regex("[a-z]+")] Word,         // 2
    #[regex("a[a-z]c")] Triple,      // 6, never matches "ab": accepted
}

// ties among skip patterns only (no variant involved in the tie)
#[derive(Logos)]
#[logos(skip r"[ \t]+")]
#[logos(skip r"\s+")]
enum TiedSkips {
    #[regex("[a-z]+")] Word,
}

#[derive(Logos)]
#[logos(skip "[ ]+")]
#[logos(skip "[ \n]+")]
enum TiedPlainSkips {
    #[token("x")] X,
}

#[derive(Logos)]
#[logos(skip("//[a-z]*", priority = 5))]
#[logos(skip("//[a-z0-9]*", priority = 5))]
#[logos(skip("/[^/]", priority = 1))]
enum TiedSkipsWithPriority {
    #[regex("[a-z]+")] Word,
}

#[derive(Logos)]
#[logos(skip("[ \t]+", priority = 3))]
#[logos(skip r"\s+")]
enum SkipsResolvedByPriority {
    #[regex("[a-z]+")] Word,
}

// explicit priorities on byte-string tokens
#[derive(Logos)]
enum ByteTokenTiedByPriority {
    #[token(b"if", priority = 3)] If,            // explicit 3 (not 2 x 2)
    #[regex("[a-z]+", priority = 3)] Ident,      // ties with If on "if"
    #[token(" ")] Sp,
}

#[derive(Logos)]
#[logos(utf8 = false)]
enum BinaryTokenTiedByPriority {
    #[token(b"\xFFx", priority = 7)] Marker,
    #[regex(b"(?-u:[\x80-\xFF])[a-z]", priority = 7)] HighThenLetter,
}

#[derive(Logos)]
enum ByteTokenLoweredPriority {
    #[token(b"if", priority = 1)] If,            // explicit 1: the regex (2) wins, no tie
    #[regex("[a-z]+")] Ident,
}

// classes of multi-byte characters: the default priority counts 2 per class / per character, not per byte
#[derive(Logos)] enum TieMultiByteClass { #[regex("[α-ω]")] A, #[regex("[a-zα-ω]")] B }
#[derive(Logos)] enum TieMultiByteLiteral { #[regex("é")] A, #[regex("[à-ÿ]")] B }
#[derive(Logos)] enum TieMultiByteSeq { #[regex("[α-ω][α-ω]")] A, #[regex("λ[a-zα-ω]")] B }
#[derive(Logos)] enum NoTieMultiByteToken { #[token("α")] T, #[regex("[α-ω]")] R }
#[derive(Logos)] enum NoTieMultiByteToken2 { #[token("日本")] T, #[regex("[日月][本木]")] R }

// a priority written with a digit separator has the value Rust gives it (if the derive accepts it at all)
#[derive(Logos)] enum TieSeparatorPriority { #[token("let", priority = 1_0)] Let, #[regex("[a-z]+", priority = 10)] Id }
