// Definitions the derive must reject with compile_error diagnostics and never panic on (C19).
// One enum per case; every enum in this file is expected to be rejected.

// ---- variant shapes
#[derive(Logos)] enum EmptyTuple { #[token("a")] A() }
#[derive(Logos)] enum TwoFields { #[token("a")] A(u8, u8) }
#[derive(Logos)] enum NamedFields { #[token("a")] A { x: u8 } }
#[derive(Logos)] enum EmptyTupleRegex { #[regex("a+")] A(), #[token("b")] B }
#[derive(Logos)] enum OldErrorVariant { #[error] Error, #[token("a")] A }

// ---- duplicated / misplaced / unknown arguments
#[derive(Logos)] enum DupCallback { #[token("a", callback = f, callback = g)] A }
#[derive(Logos)] enum DupCallbackPos { #[token("a", f, callback = g)] A }
#[derive(Logos)] enum DupPriority { #[token("a", priority = 1, priority = 2)] A }
#[derive(Logos)] enum DupGreedy { #[regex("a.*", allow_greedy = true, allow_greedy = true)] A }
#[derive(Logos)] enum UnknownArg { #[token("a", foo = 1)] A }
#[derive(Logos)] enum UnknownFlag { #[token("a", ignore(shouting))] A }
#[derive(Logos)] enum AsciiCaseFlag { #[token("a", ignore(ascii_case))] A }
#[derive(Logos)] enum PositionalLate { #[token("a", priority = 3, my_cb)] A }
#[derive(Logos)] enum PriorityNotInt { #[token("a", priority = high)] A }
#[derive(Logos)] enum GreedyNotBool { #[regex("a.*", allow_greedy = maybe)] A }
#[derive(Logos)] enum PriorityGroup { #[token("a", priority(3))] A }
#[derive(Logos)] enum IgnoreAssign { #[token("a", ignore = case)] A }
#[derive(Logos)] enum CallbackGroup { #[token("a", callback(f))] A }
#[derive(Logos)] enum BadClosure { #[token("a", |a, b| 1)] A }
#[derive(Logos)] enum ClosureNoBody { #[token("a", |a|)] A }
#[derive(Logos)] #[logos(error(E, callback = f, callback = g))] enum DupErrCallback { #[token("a")] A }
#[derive(Logos)] #[logos(error(E, f, g))] enum ErrPositionalTwice { #[token("a")] A }
#[derive(Logos)] #[logos(error(E, nonsense = 1))] enum ErrUnknownArg { #[token("a")] A }

// ---- wrong literal kinds / missing literal
#[derive(Logos)] enum IntLiteral { #[token(1)] A }
#[derive(Logos)] enum CharLiteral { #[regex('c')] A }
#[derive(Logos)] enum NoArgs { #[token] A }
#[derive(Logos)] enum EmptyArgs { #[token()] A }
#[derive(Logos)] enum IdentFirst { #[regex(foo)] A }
#[derive(Logos)] enum NameValueAttr { #[token = "a"] A }

// ---- #[logos(...)] items
#[derive(Logos)] #[logos] enum LogosBare { #[token("a")] A }
#[derive(Logos)] #[logos(skip)] enum SkipBare { #[token("a")] A }
#[derive(Logos)] #[logos(skip = "a")] enum SkipAssign { #[token("b")] A }
#[derive(Logos)] #[logos(skip(3))] enum SkipInt { #[token("a")] A }
#[derive(Logos)] #[logos(extras = A, extras = B)] enum DupExtras { #[token("a")] A }
#[derive(Logos)] #[logos(error = A, error = B)] enum DupError { #[token("a")] A }
#[derive(Logos)] #[logos(utf8 = maybe)] enum Utf8NotBool { #[token("a")] A }
#[derive(Logos)] #[logos(utf8 = true, utf8 = false)] enum DupUtf8 { #[token("a")] A }
#[derive(Logos)] #[logos(utf8(false))] enum Utf8Group { #[token("a")] A }
#[derive(Logos)] #[logos(subpattern = "x")] enum SubpatNoName { #[token("a")] A }
#[derive(Logos)] #[logos(subpattern x "y")] enum SubpatNoEq { #[token("a")] A }
#[derive(Logos)] #[logos(subpattern x = 3)] enum SubpatInt { #[token("a")] A }
#[derive(Logos)] #[logos(subpattern x = "a", subpattern x = "b")] enum SubpatDup { #[regex("(?&x)")] A }
#[derive(Logos)] #[logos(subpattern x = "(")] enum SubpatBadRegex { #[regex("(?&x)")] A }
#[derive(Logos)] #[logos(type T)] enum TypeNoEq<T> { #[token("a")] A(T) }
#[derive(Logos)] #[logos(crate)] enum CrateBare { #[token("a")] A }
#[derive(Logos)] #[logos(export_dir = 3)] enum ExportInt { #[token("a")] A }
#[derive(Logos)] #[logos(export_dir("x"))] enum ExportGroup { #[token("a")] A }
#[derive(Logos)] #[logos(source = str)] enum SourceDeprecated { #[token("a")] A }
#[derive(Logos)] #[logos(nonsense = 1)] enum UnknownLogos { #[token("a")] A }
#[derive(Logos)] #[logos("literal")] enum LogosLiteral { #[token("a")] A }
#[derive(Logos)] #[logos(extras(A))] enum ExtrasGroup { #[token("a")] A }
#[derive(Logos)] #[logos(lifetime = 'a, lifetime = 'b)] enum DupLifetime<'a, 'b> { #[token("a")] A(&'a str), #[token("b")] B(&'b str) }
#[derive(Logos)] enum ConstGeneric<const N: usize> { #[token("a")] A }
#[derive(Logos)] enum TypeGenericUnset<T> { #[token("a")] A(T) }

// ---- patterns that cannot be implemented faithfully
#[derive(Logos)] enum EmptyStar { #[regex("a*")] A }
#[derive(Logos)] enum EmptyRegex { #[regex("")] A }
#[derive(Logos)] enum EmptyToken { #[token("")] A }
#[derive(Logos)] enum EmptyAlt { #[regex("(a|)")] A, #[token("b")] B }
#[derive(Logos)] enum EmptyDollar { #[regex("$")] A, #[token("b")] B }
#[derive(Logos)] enum EmptyOpt { #[regex("a?b?")] A }
#[derive(Logos)] #[logos(skip "b*")] enum EmptySkip { #[token("a")] A }
#[derive(Logos)] enum LookBehindStart { #[regex(r"(?-u:\b)foo")] Foo }
#[derive(Logos)] enum LookBehindNotWord { #[regex(r"(?-u:\B)foo")] Foo }
#[derive(Logos)] enum LineStart { #[regex(r"(?m:^)foo")] Foo }
#[derive(Logos)] enum UnicodeWordBoundary { #[regex(r"foo\b")] Foo }
#[derive(Logos)] enum BackReference { #[regex(r"(a)\1")] A }
#[derive(Logos)] enum LookAhead { #[regex(r"a(?=b)")] A }
#[derive(Logos)] enum UnclosedGroup { #[regex("(a")] A }
#[derive(Logos)] enum BadClass { #[regex("[z-a]")] A }
#[derive(Logos)] enum BadRepeat { #[regex("a{2,1}")] A }
#[derive(Logos)] enum GreedyDotStar { #[regex("a.*")] A }
#[derive(Logos)] enum GreedyDotPlus { #[regex(".+b")] A }
#[derive(Logos)] enum GreedyNotNewline { #[regex(r"//[^\n]*")] A }
#[derive(Logos)] enum GreedyDotAll { #[regex("(?s)<.*>")] A }
#[derive(Logos)] enum GreedyInAlt { #[regex("(a|b.*)")] A }
#[derive(Logos)] enum GreedyInGroup { #[regex("(a.*)b")] A }
#[derive(Logos)] enum GreedyUnderPlus { #[regex("(a.*)+")] A }
#[derive(Logos)] enum GreedyUnderOpt { #[regex("a(.*b)?")] A }
#[derive(Logos)] enum GreedyUnderStar { #[regex("x(a.+)*y")] A }
#[derive(Logos)] enum GreedyUnderBounded { #[regex("(a[^\n]*){2,3}")] A }
#[derive(Logos)] #[logos(skip(r"#.*"))] enum GreedySkip { #[token("a")] A }
#[derive(Logos)] #[logos(skip(r"(#.*)+"))] enum GreedySkipNested { #[token("a")] A }
#[derive(Logos)] enum UndefinedSubpattern { #[regex("(?&nope)")] A }
#[derive(Logos)] #[logos(subpattern a = "(?&b)")] enum SubpatternForwardRef { #[regex("(?&a)")] A }
#[derive(Logos)] enum NonUtf8InStr { #[token(b"\xFF")] A }
#[derive(Logos)] enum TieSamePattern { #[token("a")] A, #[regex("a")] B }
#[derive(Logos)] enum GreedyCounted { #[regex(".{2,}")] A }
#[derive(Logos)] enum GreedyCountedClass { #[regex(r"x[^\n]{3,}")] A }
#[derive(Logos)] enum GreedyCountedNested { #[regex("(a.{5,}b)+")] A }
#[derive(Logos)] #[logos(skip(r"//.{1,}"))] enum GreedyCountedSkip { #[token("a")] A }
#[derive(Logos)] enum GreedyCapturedDot { #[regex("(.)*x")] A }
#[derive(Logos)] enum GreedyCapturedDotNested { #[regex("a((.))+b")] A }

// look-behind on the text before the token start: a leading start-of-input assertion, however it is spelled
#[derive(Logos)] enum LeadingCaret { #[regex("^foo")] A, #[token("b")] B }
#[derive(Logos)] #[logos(skip r"^#![a-z/ ]*\n")] enum LeadingCaretSkip { #[regex("[a-z]+")] W }
#[derive(Logos)] enum LeadingStartText { #[regex(r"\Afoo")] A, #[token("b")] B }
#[derive(Logos)] enum GroupedCaret { #[regex("(^foo)")] A, #[token("b")] B }

// unsupported regex features: a backreference must not be read as an octal escape
#[derive(Logos)] enum BackRef { #[regex(r"([a-z])\1")] A }
#[derive(Logos)] #[logos(utf8 = false)] enum BackRefBytes { #[regex(b"(x|y)[a-z]*\\1")] A }
#[derive(Logos)] #[logos(skip r"(#+)[^#]+\1")] enum BackRefSkip { #[token("a")] A }
#[derive(Logos)] #[logos(subpattern q = r"(a)\1")] enum BackRefSub { #[regex("(?&q)b")] A }
#[derive(Logos)] enum BackRefSeven { #[regex(r"(a)(b)(c)(d)(e)(f)(g)\7")] A }
#[derive(Logos)] enum LookAhead { #[regex("a(?=b)")] A }
#[derive(Logos)] enum NamedBackRef { #[regex(r"(?P<n>a)\k<n>")] A }

// priority takes a plain unsigned decimal literal: other spellings are rejected, not truncated
#[derive(Logos)] enum PrioritySeparator { #[token("let", priority = 1_0)] A, #[regex("[a-z]+", priority = 10)] B }
#[derive(Logos)] enum PriorityHex { #[token("let", priority = 0x10)] A, #[regex("[a-z]+")] B }
#[derive(Logos)] enum PriorityFloat { #[regex("[a-z]+", priority = 2.5)] A }
#[derive(Logos)] enum PriorityExponent { #[regex("[a-z]+", priority = 1e3)] A }
#[derive(Logos)] #[logos(skip("[ ]+", priority = 1_000))] enum PrioritySkipSeparator { #[token("a")] A }
