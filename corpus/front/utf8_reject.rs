// str-mode definitions whose patterns or subpatterns can match text that is not valid UTF-8:
// the derive must reject every one of them (C04, C12).  With `utf8 = false` they are fine.
#[derive(Logos)]
enum ByteLit { #[token(b"\xFF")] Ff, #[token("a")] A }

#[derive(Logos)]
enum ByteClass { #[regex(b"[\x80-\xBF]+")] Conts, #[token("a")] A }

#[derive(Logos)]
enum AnyByteDot { #[regex("a(?s-u:.)")] ADot, #[token("b")] B }

#[derive(Logos)]
enum NegByteClass { #[regex(b"(?-u:[^a])x")] NotAx }

#[derive(Logos)]
#[logos(skip(b"\xC3"))]
enum SkipLead { #[token("a")] A }

#[derive(Logos)]
#[logos(subpattern lead = b"\xF0")]
enum SubpatLead { #[regex(b"(?&lead)\x9F\x98\x80")] Emoji }

#[derive(Logos)]
#[logos(subpattern lead = b"\xE6")]
#[logos(subpattern two = b"(?&lead)\x97")]
enum SubpatChain { #[regex(b"(?&two)\xA5")] Nichi, #[token("a")] A }

#[derive(Logos)]
enum Overlong { #[regex(b"\xC0\x80")] Nul }

#[derive(Logos)]
enum Surrogate { #[regex(b"\xED\xA0\x80")] Sur }

// a &str subpattern that switches Unicode mode off inline: the (?u:..) wrapper around a subpattern does not undo that
#[derive(Logos)]
#[logos(subpattern anyb = r"(?s-u:.)")]
enum StrSubAnyByte { #[token("a")] A }

#[derive(Logos)]
#[logos(subpattern lead = r"(?-u:\xC3)")]
enum StrSubLead { #[regex(r"(?&lead)(?-u:\xA9)")] E, #[token("a")] A }

#[derive(Logos)]
#[logos(subpattern nq = r#"(?-u:[^"])"#)]
enum StrSubNegByte { #[token("a")] A }
