(* Engine/ByteClass.v — model of logos-codegen/src/graph/mod.rs `ByteClass` (lines 199-262) and
   `Comparisons` (306-334): how the bytes of an edge are stored (sorted inclusive ranges), merged when
   state de-duplication folds two edges, and rendered as an if-chain condition
   `matches!(byte, lo..=hi) && byte != x ..` or, above two comparisons, as a look-up table.
   No proofs in this file (Engine/ByteClassProofs.v). *)
From Coq Require Import List NArith Bool.
From LogosV Require Import Engine.Model.
Import ListNotations.
Local Open Scope N_scope.

(* ByteClass::add_byte: extend the last range when the byte follows it directly, else push a new one *)
Fixpoint add_byte (rs : ranges) (b : N) : ranges :=
  match rs with
  | [] => [(b, b)]
  | (lo, hi) :: [] => if hi + 1 =? b then [(lo, b)] else [(lo, hi); (b, b)]
  | r :: rs' => r :: add_byte rs' b
  end.

(* ByteClass::to_table *)
Definition to_table (rs : ranges) : list bool := map (fun x => in_ranges x rs) all_bytes.

(* ByteClass::merge: both tables, then every byte of either re-added in ascending order *)
Definition merge_upto (a b : ranges) (bytes : list N) : ranges :=
  fold_left (fun acc x => if in_ranges x a || in_ranges x b then add_byte acc x else acc) bytes [].
Definition merge (a b : ranges) : ranges := merge_upto a b all_bytes.

(* Comparisons { range, except } *)
Record cmp := { c_lo : N; c_hi : N; c_ex : list N }.

(* ByteClass::impl_with_cmp, accumulator reversed *)
Fixpoint with_cmp_rev (rs : ranges) (acc : list cmp) : list cmp :=
  match rs with
  | [] => acc
  | (lo, hi) :: rs' =>
      match acc with
      | c :: acc' =>
          if lo =? c_hi c + 2
          then with_cmp_rev rs' ({| c_lo := c_lo c; c_hi := hi; c_ex := c_ex c ++ [lo - 1] |} :: acc')
          else with_cmp_rev rs' ({| c_lo := lo; c_hi := hi; c_ex := [] |} :: acc)
      | [] => with_cmp_rev rs' [{| c_lo := lo; c_hi := hi; c_ex := [] |}]
      end
  end.
Definition with_cmp (rs : ranges) : list cmp := rev (with_cmp_rev rs []).

(* Comparisons::count_ops *)
Definition count_ops (c : cmp) : N :=
  (if c_lo c =? c_hi c then 1
   else (if 0 <? c_lo c then 1 else 0) + (if c_hi c <? 255 then 1 else 0))
  + N.of_nat (length (c_ex c)).
Definition cmp_count (rs : ranges) : N := fold_right (fun c acc => count_ops c + acc) 0 (with_cmp rs).

(* the condition fork.rs emits for one comparison (impl_fork_match):
   range.len() == 1  =>  (byte == start)
   otherwise         =>  (matches!(byte, start..=end) && byte != e1 && byte != e2 ..) *)
Definition cmp_eval (c : cmp) (b : N) : bool :=
  if c_lo c =? c_hi c then b =? c_lo c
  else (c_lo c <=? b) && (b <=? c_hi c) && forallb (fun x => negb (b =? x)) (c_ex c).

(* the whole if-condition: sub-conditions joined by ||, or the table test above two comparisons *)
Definition cond_eval (rs : ranges) (b : N) : bool :=
  if 2 <? cmp_count rs then nth (N.to_nat b) (to_table rs) false
  else existsb (fun c => cmp_eval c b) (with_cmp rs).

(* well-formed class as add_byte builds it: lo <= hi < 256, ascending, separated by a missing byte *)
Fixpoint canonical_from (prev : option N) (rs : ranges) : bool :=
  match rs with
  | [] => true
  | (lo, hi) :: rs' =>
      (lo <=? hi) && (hi <? 256)
      && match prev with Some p => p + 1 <? lo | None => true end
      && canonical_from (Some hi) rs'
  end.
Definition canonical (rs : ranges) : bool := canonical_from None rs.

(* one line of the correspondence check K11: everything the hook re-export `byteclass_ops` returns *)
Definition bc_report (a b : ranges) : list N :=
  let m := merge a b in
  flat_map (fun r => [fst r; snd r]) m ++ [999]
  ++ flat_map (fun c => [c_lo c; c_hi c; N.of_nat (length (c_ex c))] ++ c_ex c) (with_cmp m) ++ [999]
  ++ [cmp_count m; 999]
  ++ map (fun t : bool => if t then 1 else 0) (to_table m) ++ [999]
  ++ map (fun x => if cond_eval m x then 1 else 0) all_bytes.
