(* Engine/ByteClassProofs.v — the byte classes of graph edges (Engine/ByteClass.v):
   merge is the union and keeps the canonical form; the if-chain condition rendered from
   impl_with_cmp and the table form accept exactly the bytes of the class. *)
From Coq Require Import List Arith NArith Bool Lia.
From LogosV Require Import Engine.Model Engine.CertProofs Engine.ByteClass.
Import ListNotations.
Local Open Scope N_scope.

Lemma existsb_rev {A} (f : A -> bool) (l : list A) : existsb f (rev l) = existsb f l.
Proof.
  induction l as [|x l IH]; [reflexivity|].
  cbn [rev existsb]. rewrite existsb_app. cbn [existsb]. rewrite IH, orb_false_r. apply orb_comm.
Qed.

Lemma in_range_spec b lo hi : in_range b (lo, hi) = true <-> lo <= b <= hi.
Proof. unfold in_range. cbn [fst snd]. rewrite andb_true_iff, !N.leb_le. tauto. Qed.

(* ---------- impl_with_cmp ---------- *)
Definition geval (c : cmp) (b : N) : bool :=
  (c_lo c <=? b) && (b <=? c_hi c) && forallb (fun x => negb (b =? x)) (c_ex c).

Definition CInv (c : cmp) : Prop :=
  c_lo c <= c_hi c /\ Forall (fun x => c_lo c < x /\ x < c_hi c) (c_ex c).

Lemma cmp_eval_geval c b : CInv c -> cmp_eval c b = geval c b.
Proof.
  intros [Hle Hex]. unfold cmp_eval, geval.
  destruct (N.eqb_spec (c_lo c) (c_hi c)) as [E|E]; [|reflexivity].
  assert (Hnil : c_ex c = []).
  { destruct (c_ex c) as [|x r]; [reflexivity|]. inversion Hex as [|? ? [H1 H2] _]; subst. lia. }
  rewrite Hnil. cbn [forallb]. rewrite andb_true_r.
  apply eq_iff_eq_true. rewrite andb_true_iff, !N.leb_le, N.eqb_eq. lia.
Qed.

Lemma forallb_ne_above (ex : list N) (m b : N) :
  Forall (fun x => x < m) ex -> m <= b -> forallb (fun x => negb (b =? x)) ex = true.
Proof.
  intros H Hb. apply forallb_forall. intros x Hx. rewrite Forall_forall in H. specialize (H x Hx).
  apply negb_true_iff. apply N.eqb_neq. lia.
Qed.

Lemma geval_merge c lo hi b :
  CInv c -> lo = c_hi c + 2 -> lo <= hi ->
  geval {| c_lo := c_lo c; c_hi := hi; c_ex := c_ex c ++ [lo - 1] |} b = geval c b || in_range b (lo, hi).
Proof.
  intros [Hle Hex] Hlo Hh. unfold geval. cbn [c_lo c_hi c_ex]. rewrite forallb_app. cbn [forallb]. rewrite andb_true_r.
  assert (Hlt : Forall (fun x => x < c_hi c) (c_ex c)).
  { apply Forall_forall. intros x Hx. rewrite Forall_forall in Hex. apply Hex. exact Hx. }
  unfold in_range. cbn [fst snd].
  destruct (N.le_gt_cases b (c_hi c)) as [C1|C1].
  - (* inside the old range *)
    replace (b <=? hi) with true by (symmetry; apply N.leb_le; lia).
    replace (b <=? c_hi c) with true by (symmetry; apply N.leb_le; lia).
    replace (negb (b =? lo - 1)) with true by (symmetry; apply negb_true_iff; apply N.eqb_neq; lia).
    replace (lo <=? b) with false by (symmetry; apply N.leb_gt; lia).
    rewrite !andb_true_r. cbn [andb]. rewrite orb_false_r. reflexivity.
  - replace (b <=? c_hi c) with false by (symmetry; apply N.leb_gt; lia).
    rewrite andb_false_r. cbn [andb orb].
    destruct (N.eq_dec b (lo - 1)) as [E|E].
    + replace (negb (b =? lo - 1)) with false by (symmetry; apply negb_false_iff; apply N.eqb_eq; exact E).
      rewrite !andb_false_r. symmetry. apply andb_false_iff. left. apply N.leb_gt. lia.
    + replace (negb (b =? lo - 1)) with true by (symmetry; apply negb_true_iff; apply N.eqb_neq; exact E).
      rewrite andb_true_r.
      rewrite (forallb_ne_above (c_ex c) (c_hi c) b Hlt) by lia. rewrite andb_true_r.
      replace (c_lo c <=? b) with true by (symmetry; apply N.leb_le; lia).
      replace (lo <=? b) with true by (symmetry; apply N.leb_le; lia). reflexivity.
Qed.

Lemma CInv_merge c lo hi : CInv c -> lo = c_hi c + 2 -> lo <= hi ->
  CInv {| c_lo := c_lo c; c_hi := hi; c_ex := c_ex c ++ [lo - 1] |}.
Proof.
  intros [Hle Hex] Hlo Hh. split; cbn [c_lo c_hi c_ex]; [lia|].
  apply Forall_app. split.
  - apply Forall_forall. intros x Hx. rewrite Forall_forall in Hex. specialize (Hex x Hx). lia.
  - constructor; [lia|constructor].
Qed.

Lemma CInv_new lo hi : lo <= hi -> CInv {| c_lo := lo; c_hi := hi; c_ex := [] |}.
Proof. intros H. split; cbn [c_lo c_hi c_ex]; [exact H|constructor]. Qed.

Lemma geval_new lo hi b : geval {| c_lo := lo; c_hi := hi; c_ex := [] |} b = in_range b (lo, hi).
Proof. unfold geval, in_range. cbn [c_lo c_hi c_ex forallb fst snd]. rewrite andb_true_r. reflexivity. Qed.

Definition ranges_ok (rs : ranges) : Prop := Forall (fun r => fst r <= snd r) rs.

Lemma with_cmp_rev_sem b : forall rs acc,
  ranges_ok rs -> Forall CInv acc ->
  Forall CInv (with_cmp_rev rs acc) /\
  existsb (fun c => geval c b) (with_cmp_rev rs acc) = in_ranges b rs || existsb (fun c => geval c b) acc.
Proof.
  induction rs as [|[lo hi] rs IH]; intros acc Hrs Hacc; cbn [with_cmp_rev].
  - split; [exact Hacc|reflexivity].
  - inversion Hrs as [|? ? Hr Hrs']; subst. cbn [fst snd] in Hr.
    unfold in_ranges. cbn [existsb]. fold (in_ranges b rs).
    destruct acc as [|c acc'].
    + destruct (IH [{| c_lo := lo; c_hi := hi; c_ex := [] |}] Hrs') as [H1 H2]; [constructor; [apply CInv_new; exact Hr|constructor]|].
      split; [exact H1|]. rewrite H2. cbn [existsb]. rewrite geval_new, !orb_false_r. apply orb_comm.
    + inversion Hacc as [|? ? Hc Hacc']; subst.
      destruct (N.eqb_spec lo (c_hi c + 2)) as [E|E].
      * destruct (IH ({| c_lo := c_lo c; c_hi := hi; c_ex := c_ex c ++ [lo - 1] |} :: acc') Hrs') as [H1 H2];
          [constructor; [apply CInv_merge; assumption|exact Hacc']|].
        split; [exact H1|]. rewrite H2. cbn [existsb]. rewrite (geval_merge c lo hi b Hc E Hr).
        destruct (geval c b), (in_range b (lo, hi)), (in_ranges b rs), (existsb (fun c0 => geval c0 b) acc'); reflexivity.
      * destruct (IH ({| c_lo := lo; c_hi := hi; c_ex := [] |} :: c :: acc') Hrs') as [H1 H2];
          [constructor; [apply CInv_new; exact Hr|exact Hacc]|].
        split; [exact H1|]. rewrite H2. cbn [existsb]. rewrite geval_new.
        destruct (geval c b), (in_range b (lo, hi)), (in_ranges b rs), (existsb (fun c0 => geval c0 b) acc'); reflexivity.
Qed.

Lemma existsb_ext_in {A} (f g : A -> bool) l : (forall x, In x l -> f x = g x) -> existsb f l = existsb g l.
Proof.
  induction l as [|x l IH]; intros H; [reflexivity|]. cbn [existsb].
  rewrite (H x (or_introl eq_refl)), IH; [reflexivity|]. intros y Hy. apply H. right. exact Hy.
Qed.

(* the comparisons accept exactly the bytes of the class *)
Theorem with_cmp_sem rs b : ranges_ok rs -> existsb (fun c => cmp_eval c b) (with_cmp rs) = in_ranges b rs.
Proof.
  intros Hrs. unfold with_cmp. rewrite existsb_rev.
  destruct (with_cmp_rev_sem b rs [] Hrs (Forall_nil _)) as [H1 H2].
  rewrite (existsb_ext_in (fun c => cmp_eval c b) (fun c => geval c b)).
  - rewrite H2. cbn [existsb]. apply orb_false_r.
  - intros c Hc. apply cmp_eval_geval. rewrite Forall_forall in H1. exact (H1 c Hc).
Qed.

(* ---------- the table form ---------- *)
Lemma upto_length n : length (upto n) = n.
Proof. induction n as [|n IH]; [reflexivity|]. cbn [upto]. rewrite app_length, IH. cbn [length]. lia. Qed.

Lemma nth_upto n : forall i d, (i < n)%nat -> nth i (upto n) d = N.of_nat i.
Proof.
  induction n as [|n IH]; intros i d H; [lia|]. cbn [upto].
  destruct (Nat.eq_dec i n) as [->|Hne].
  - rewrite app_nth2; rewrite upto_length; [|lia]. rewrite Nat.sub_diag. reflexivity.
  - rewrite app_nth1; [|rewrite upto_length; lia]. apply IH. lia.
Qed.

Lemma table_sem rs b : byte_ok b -> nth (N.to_nat b) (to_table rs) false = in_ranges b rs.
Proof.
  intros Hb. unfold to_table, byte_ok in *.
  assert (Hlt : (N.to_nat b < 256)%nat) by lia.
  rewrite (nth_indep _ false (in_ranges 0 rs)) by (rewrite map_length; unfold all_bytes; rewrite upto_length; exact Hlt).
  rewrite (map_nth (fun x => in_ranges x rs) all_bytes 0 (N.to_nat b)).
  unfold all_bytes. rewrite (nth_upto 256 (N.to_nat b) 0 Hlt). rewrite N2Nat.id. reflexivity.
Qed.

(* whichever form fork.rs picks, the emitted condition holds exactly on the bytes of the class *)
Theorem cond_eval_sem rs b : ranges_ok rs -> byte_ok b -> cond_eval rs b = in_ranges b rs.
Proof.
  intros Hrs Hb. unfold cond_eval. destruct (2 <? cmp_count rs).
  - apply table_sem. exact Hb.
  - apply with_cmp_sem. exact Hrs.
Qed.

(* ---------- add_byte and merge ---------- *)
Definition all_lt (b : N) (rs : ranges) : bool := forallb (fun r => snd r <? b) rs.

Lemma canonical_from_ok prev rs : canonical_from prev rs = true -> ranges_ok rs.
Proof.
  revert prev. induction rs as [|[lo hi] rs IH]; intros prev H; [constructor|].
  cbn [canonical_from] in H. apply andb_prop in H as [H Hrest]. apply andb_prop in H as [H _]. apply andb_prop in H as [H _].
  constructor; [cbn [fst snd]; apply N.leb_le; exact H|exact (IH _ Hrest)].
Qed.

Lemma canonical_ok rs : canonical rs = true -> ranges_ok rs.
Proof. unfold canonical. apply canonical_from_ok. Qed.

Lemma add_byte_sem x : forall rs b, ranges_ok rs -> in_ranges x (add_byte rs b) = in_ranges x rs || (x =? b).
Proof.
  induction rs as [|[lo hi] rs IH]; intros b Hok.
  - cbn [add_byte]. unfold in_ranges. cbn [existsb orb]. unfold in_range. cbn [fst snd]. rewrite orb_false_r.
    apply eq_iff_eq_true. rewrite andb_true_iff, !N.leb_le, N.eqb_eq. lia.
  - inversion Hok as [|? ? Hr Hok']; subst. cbn [fst snd] in Hr.
    destruct rs as [|r2 rs2].
    + cbn [add_byte]. destruct (N.eqb_spec (hi + 1) b) as [E|E].
      * unfold in_ranges. cbn [existsb]. rewrite !orb_false_r. unfold in_range. cbn [fst snd].
        apply eq_iff_eq_true. rewrite orb_true_iff, !andb_true_iff, !N.leb_le, N.eqb_eq. lia.
      * unfold in_ranges. cbn [existsb]. rewrite !orb_false_r. f_equal.
        unfold in_range. cbn [fst snd]. apply eq_iff_eq_true. rewrite andb_true_iff, !N.leb_le, N.eqb_eq. lia.
    + change (add_byte ((lo, hi) :: r2 :: rs2) b) with ((lo, hi) :: add_byte (r2 :: rs2) b).
      unfold in_ranges. cbn [existsb]. fold (in_ranges x (add_byte (r2 :: rs2) b)).
      rewrite (IH b Hok'). unfold in_ranges. cbn [existsb]. rewrite !orb_assoc. reflexivity.
Qed.

Lemma add_byte_canon b : b < 256 -> forall rs prev,
  canonical_from prev rs = true -> all_lt b rs = true ->
  match prev with Some p => (rs = [] -> p + 1 < b) | None => True end ->
  canonical_from prev (add_byte rs b) = true /\ all_lt (b + 1) (add_byte rs b) = true.
Proof.
  intros Hb. induction rs as [|[lo hi] rs IH]; intros prev Hc Hlt Hp.
  - cbn [add_byte canonical_from all_lt forallb snd]. split.
    + rewrite N.leb_refl. replace (b <? 256) with true by (symmetry; apply N.ltb_lt; exact Hb).
      destruct prev as [p|]; [|reflexivity]. specialize (Hp eq_refl).
      replace (p + 1 <? b) with true by (symmetry; apply N.ltb_lt; exact Hp). reflexivity.
    + replace (b <? b + 1) with true by (symmetry; apply N.ltb_lt; lia). reflexivity.
  - cbn [canonical_from] in Hc. apply andb_prop in Hc as [Hc Hrest]. apply andb_prop in Hc as [Hc Hprev].
    apply andb_prop in Hc as [Hlo Hhi]. apply N.leb_le in Hlo. apply N.ltb_lt in Hhi.
    cbn [all_lt forallb snd] in Hlt. apply andb_prop in Hlt as [Hh Hlt']. apply N.ltb_lt in Hh.
    destruct rs as [|r2 rs2].
    + cbn [add_byte]. destruct (N.eqb_spec (hi + 1) b) as [E|E].
      * cbn [canonical_from all_lt forallb snd]. split.
        -- replace (lo <=? b) with true by (symmetry; apply N.leb_le; lia).
           replace (b <? 256) with true by (symmetry; apply N.ltb_lt; exact Hb). rewrite Hprev. reflexivity.
        -- replace (b <? b + 1) with true by (symmetry; apply N.ltb_lt; lia). reflexivity.
      * cbn [canonical_from all_lt forallb snd]. split.
        -- replace (lo <=? hi) with true by (symmetry; apply N.leb_le; lia).
           replace (hi <? 256) with true by (symmetry; apply N.ltb_lt; lia). rewrite Hprev.
           rewrite N.leb_refl. replace (b <? 256) with true by (symmetry; apply N.ltb_lt; exact Hb).
           replace (hi + 1 <? b) with true by (symmetry; apply N.ltb_lt; lia). reflexivity.
        -- replace (hi <? b + 1) with true by (symmetry; apply N.ltb_lt; lia).
           replace (b <? b + 1) with true by (symmetry; apply N.ltb_lt; lia). reflexivity.
    + change (add_byte ((lo, hi) :: r2 :: rs2) b) with ((lo, hi) :: add_byte (r2 :: rs2) b).
      destruct (IH (Some hi) Hrest Hlt') as [H1 H2]; [intros E; discriminate|].
      cbn [canonical_from all_lt forallb snd]. split.
      * replace (lo <=? hi) with true by (symmetry; apply N.leb_le; lia).
        replace (hi <? 256) with true by (symmetry; apply N.ltb_lt; lia). rewrite Hprev. exact H1.
      * replace (hi <? b + 1) with true by (symmetry; apply N.ltb_lt; lia). exact H2.
Qed.

Lemma merge_upto_spec a b : forall n, (n <= 256)%nat ->
  let acc := merge_upto a b (upto n) in
  canonical acc = true /\ all_lt (N.of_nat n) acc = true /\
  forall x, in_ranges x acc = (x <? N.of_nat n) && (in_ranges x a || in_ranges x b).
Proof.
  induction n as [|n IH]; intros Hn; cbn zeta.
  - unfold merge_upto. cbn [upto fold_left]. repeat split.
    intros x. unfold in_ranges. cbn [existsb]. replace (x <? N.of_nat 0) with false by (symmetry; apply N.ltb_ge; lia). reflexivity.
  - destruct (IH ltac:(lia)) as [Hc [Hlt Hsem]].
    unfold merge_upto in *. cbn [upto]. rewrite fold_left_app. cbn [fold_left].
    set (acc := fold_left (fun acc x => if in_ranges x a || in_ranges x b then add_byte acc x else acc) (upto n) []) in *.
    destruct (in_ranges (N.of_nat n) a || in_ranges (N.of_nat n) b) eqn:Et.
    + assert (Hb : N.of_nat n < 256) by lia.
      destruct (add_byte_canon (N.of_nat n) Hb acc None Hc Hlt I) as [H1 H2].
      split; [exact H1|]. split; [replace (N.of_nat (S n)) with (N.of_nat n + 1) by lia; exact H2|].
      intros x. rewrite (add_byte_sem x acc (N.of_nat n) (canonical_from_ok _ _ Hc)). rewrite Hsem.
      destruct (N.eqb_spec x (N.of_nat n)) as [->|Hne].
      * rewrite Et. replace (N.of_nat n <? N.of_nat (S n)) with true by (symmetry; apply N.ltb_lt; lia).
        rewrite orb_true_r. reflexivity.
      * rewrite orb_false_r. f_equal. apply eq_iff_eq_true. rewrite !N.ltb_lt. lia.
    + split; [exact Hc|]. split.
      * unfold all_lt in *. rewrite forallb_forall in *. intros r Hr. specialize (Hlt r Hr).
        apply N.ltb_lt in Hlt. apply N.ltb_lt. lia.
      * intros x. rewrite Hsem. destruct (N.eqb_spec x (N.of_nat n)) as [->|Hne].
        -- rewrite Et. rewrite !andb_false_r. reflexivity.
        -- f_equal. apply eq_iff_eq_true. rewrite !N.ltb_lt. lia.
Qed.

(* merge is the union of the two classes, in canonical form, whatever form its arguments have *)
Theorem merge_sem a b x : byte_ok x -> in_ranges x (merge a b) = in_ranges x a || in_ranges x b.
Proof.
  intros Hx. unfold merge, all_bytes. destruct (merge_upto_spec a b 256 (le_n _)) as [_ [_ H]].
  rewrite H. replace (x <? N.of_nat 256) with true; [reflexivity|]. symmetry. apply N.ltb_lt. unfold byte_ok in Hx. lia.
Qed.

Theorem merge_canonical a b : canonical (merge a b) = true.
Proof. unfold merge, all_bytes. destruct (merge_upto_spec a b 256 (le_n _)) as [H _]. exact H. Qed.

Theorem merge_no_extra a b x : 256 <= x -> in_ranges x (merge a b) = false.
Proof.
  intros Hx. unfold merge, all_bytes. destruct (merge_upto_spec a b 256 (le_n _)) as [_ [_ H]].
  rewrite H. replace (x <? N.of_nat 256) with false; [reflexivity|]. symmetry. apply N.ltb_ge. lia.
Qed.

(* the condition emitted for a merged edge holds exactly on the bytes of either edge *)
Corollary merged_condition a b x : byte_ok x -> cond_eval (merge a b) x = in_ranges x a || in_ranges x b.
Proof.
  intros Hx. rewrite cond_eval_sem; [apply merge_sem; exact Hx| |exact Hx].
  apply canonical_ok. apply merge_canonical.
Qed.
