(* Engine/Utf8Lex.v — every span boundary produced by the lexing loop on valid UTF-8 input is a
   char boundary (C04). *)
From Coq Require Import List Arith NArith PArith Bool FMapPositive Lia.
From LogosV Require Import Base.Utf8 Engine.Model Engine.Cert Engine.CertProofs Engine.SpecProofs
  Engine.StopProofs Engine.LexProofs Engine.Utf8Proofs Engine.Run Runtime.Source.
Import ListNotations.
Local Open Scope N_scope.

Definition BndN (w : list N) (x : N) : Prop := Bnd w (N.to_nat x).

(* find_boundary of str returns a boundary *)
Lemma fb_rest_is_boundary w : forall rest pre, w = pre ++ rest ->
  is_boundary true w (fb_rest rest (N.of_nat (length pre))) = true.
Proof.
  induction rest as [|b rest IH]; intros pre Hw; cbn [fb_rest].
  - subst w. rewrite app_nil_r. unfold is_boundary.
    destruct (N.eqb_spec (N.of_nat (length pre)) 0); [reflexivity|].
    rewrite N.ltb_irrefl. rewrite Nat2N.id.
    replace (nth_error pre (length pre)) with (@None N) by (symmetry; apply nth_error_None; lia).
    apply N.eqb_refl.
  - destruct (Run.is_cont b) eqn:Ec.
    + specialize (IH (pre ++ [b])). rewrite app_length in IH. cbn [length] in IH.
      replace (N.of_nat (length pre + 1)) with (N.of_nat (length pre) + 1) in IH by lia.
      apply IH. rewrite <- app_assoc. exact Hw.
    + unfold is_boundary. destruct (N.eqb_spec (N.of_nat (length pre)) 0); [reflexivity|].
      subst w. rewrite app_length. cbn [length].
      replace (N.of_nat (length pre + S (length rest)) <? N.of_nat (length pre)) with false by (symmetry; apply N.ltb_ge; lia).
      rewrite Nat2N.id. rewrite nth_error_app2 by lia. rewrite Nat.sub_diag. cbn [nth_error].
      unfold Source.is_cont. unfold Run.is_cont in Ec. rewrite Ec. reflexivity.
Qed.

Lemma fb_str_boundary w i : bytes_ok w -> utf8_valid w = true -> i <= N.of_nat (length w) ->
  BndN w (fb_str w i).
Proof.
  intros Hw Hv Hi. unfold BndN. destruct (fb_str_ok w i Hi) as [A B].
  apply (bnd_iff_is_boundary w _ Hw Hv); [lia|]. rewrite N2Nat.id.
  unfold fb_str. pose proof (fb_rest_is_boundary w (skipn (N.to_nat i) w) (firstn (N.to_nat i) w)) as H.
  rewrite firstn_length in H. replace (N.of_nat (Nat.min (N.to_nat i) (length w))) with i in H by lia.
  apply H. symmetry. apply firstn_skipn.
Qed.

Section L.
  Variables (d : dfa) (g : graph) (V : pairing) (R : rankmap) (D : pset) (P : upairs).
  Hypothesis Hok : dfa_ok d = true.
  Hypothesis Hsim : sim_ok d g V D = true.
  Hypothesis Hex : exact_ok d g V R D = true.
  Hypothesis HU : utf8_ok d P = true.
  Variable act : leaf -> N -> N -> action * N.
  Variable fb : N -> N.
  Variable w : list byte.
  Hypothesis Hw : bytes_ok w.
  Hypothesis Hv : utf8_valid w = true.
  Let len := N.of_nat (length w).
  (* callbacks only bump onto boundaries inside the source (Lexer::bump panics otherwise) *)
  Hypothesis act_ok : forall l s e, s < e -> e <= len -> BndN w e ->
                      e + snd (act l s e) <= len /\ BndN w (e + snd (act l s e)).
  Hypothesis fb_ok : forall i, i <= len -> i <= fb i /\ fb i <= len /\ BndN w (fb i).

  Fixpoint ends_bnd (rs : list region) : Prop :=
    match rs with
    | [] => True
    | r :: rs' => BndN w (fst (region_span r)) /\ BndN w (snd (region_span r)) /\ ends_bnd rs'
    end.

  Lemma ends_bnd_app a b : ends_bnd a -> ends_bnd b -> ends_bnd (a ++ b).
  Proof. induction a as [|r a IH]; cbn [app ends_bnd]; [tauto|]. intros [A [B C]] Hb. repeat split; auto. Qed.

  (* one attempt from a boundary: a match ending on a boundary, or an error stopping inside the input *)
  Lemma attempt_bnd start : start < len -> BndN w start ->
    (exists l e off, attempt_ref g false start (skipn (N.to_nat start) w) = Acted (Some (l, e)) off /\
                     start < e /\ e <= len /\ BndN w e)
    \/ (exists off, attempt_ref g false start (skipn (N.to_nat start) w) = Acted None off /\ off <= len).
  Proof.
    intros Hlt Hb. unfold len in *.
    destruct (C01_maximal_munch_proof d g V D Hok Hsim w start Hw Hlt) as [c [off [Ha Hm]]].
    destruct c as [[l e]|].
    - left. exists l, e, off. split; [exact Ha|]. cbn in Hm. destruct Hm as [j [He [Hj [Hwin _]]]].
      rewrite skipn_length in Hj. repeat split; try lia.
      unfold BndN. replace (N.to_nat e) with (N.to_nat start + j)%nat by lia.
      apply (match_ends_on_boundary d P w (N.to_nat start) j HU Hw Hv Hb); [lia|].
      destruct Hwin as [Hin _]. intros E. rewrite E in Hin. exact Hin.
    - right. cbn in Hm.
      destruct (attempt_error d g V R D Hok Hsim Hex w start Hw Hlt Hm) as [v [[Hvv _] Hav]].
      exists (start + N.of_nat v). split; [exact Hav|]. rewrite skipn_length in Hvv. lia.
  Qed.

  Lemma next_bnd : forall fuel start sk o,
    start <= len -> BndN w start ->
    next_from (attempt_ref g) act fb w false fuel start = (sk, o) ->
    ends_bnd sk /\
    match o with
    | Yield it e => BndN w (fst (region_span (RItem it))) /\ BndN w (snd (region_span (RItem it))) /\ BndN w e /\ e <= len
    | Finished s e => BndN w s /\ BndN w e
    | Broken => True
    end.
  Proof.
    induction fuel as [|fuel IH]; intros start sk o Hle Hb H; cbn [next_from] in H.
    - injection H as <- <-. split; exact I.
    - destruct (N.eq_dec start len) as [->|Hne].
      + unfold len in H. rewrite (attempt_at_end d g V D Hsim w) in H. injection H as <- <-.
        split; [exact I|]. split; exact Hb.
      + assert (Hlt : start < len) by lia.
        destruct (attempt_bnd start Hlt Hb) as [[l [e [off [Ha [Hse [Hel Hbe]]]]]]|[off [Ha Hoff]]]; rewrite Ha in H.
        * destruct (act_ok l start e Hse Hel Hbe) as [Hb1 Hb2].
          destruct (act l start e) as [a bump]. cbn [snd] in Hb1, Hb2.
          destruct a.
          -- injection H as <- <-. split; [exact I|]. cbn. repeat split; assumption.
          -- destruct (next_from (attempt_ref g) act fb w false fuel (e + bump)) as [sk0 o0] eqn:En.
             injection H as <- <-. destruct (IH _ _ _ Hb1 Hb2 En) as [Hs Ho].
             split; [|exact Ho]. cbn [ends_bnd region_span fst snd]. repeat split; assumption.
          -- injection H as <- <-. split; [exact I|]. cbn. repeat split; assumption.
          -- injection H as <- <-. split; [exact I|]. cbn. repeat split; assumption.
        * injection H as <- <-. split; [exact I|].
          assert (Hm : nmax off (start + 1) <= len) by (unfold nmax; destruct (N.ltb_spec off (start + 1)); lia).
          destruct (fb_ok _ Hm) as [F1 [F2 F3]]. cbn. repeat split; assumption.
  Qed.

  Theorem lex_bnd : forall fuel start rs o,
    start <= len -> BndN w start ->
    lex_from (attempt_ref g) act fb w false fuel start = (rs, o) ->
    ends_bnd rs /\ match o with Finished s e => BndN w s /\ BndN w e | _ => True end.
  Proof.
    induction fuel as [|fuel IH]; intros start rs o Hle Hb H; cbn [lex_from] in H.
    - injection H as <- <-. split; exact I.
    - destruct (next_from (attempt_ref g) act fb w false (S (length w)) start) as [sk o1] eqn:En.
      destruct (next_bnd _ _ _ _ Hle Hb En) as [Hs Ho].
      destruct o1 as [it e|s e|].
      + destruct (lex_from (attempt_ref g) act fb w false fuel e) as [rs1 fin] eqn:El.
        injection H as <- <-. destruct Ho as [B1 [B2 [B3 B4]]].
        destruct (IH _ _ _ B4 B3 El) as [Hr Hf]. split; [|exact Hf].
        apply ends_bnd_app; [exact Hs|]. cbn [ends_bnd]. repeat split; assumption.
      + injection H as <- <-. split; [exact Hs|exact Ho].
      + injection H as <- <-. split; [exact Hs|exact I].
  Qed.
End L.

(* ---------- str mode vs byte mode (C12) ---------- *)
(* The two modes run the same graph and differ only in find_boundary.  One call of next() from the
   same position: same skipped regions; the same Ok item; or an error item with the same start whose
   end is the mode's rounding of the same raw end m. *)
Inductive out_rel (fb1 fb2 : N -> N) : outcome -> outcome -> Prop :=
| or_ok l s e : out_rel fb1 fb2 (Yield (Item true l s e) e) (Yield (Item true l s e) e)
| or_err_leaf l s e : out_rel fb1 fb2 (Yield (Item false (Some l) s e) e) (Yield (Item false (Some l) s e) e)
| or_err s m : out_rel fb1 fb2 (Yield (Item false None s (fb1 m)) (fb1 m)) (Yield (Item false None s (fb2 m)) (fb2 m))
| or_fin s e : out_rel fb1 fb2 (Finished s e) (Finished s e)
| or_broken : out_rel fb1 fb2 Broken Broken.

Theorem next_fb_independent attempt act fb1 fb2 w p : forall fuel start,
  fst (next_from attempt act fb1 w p fuel start) = fst (next_from attempt act fb2 w p fuel start) /\
  out_rel fb1 fb2 (snd (next_from attempt act fb1 w p fuel start)) (snd (next_from attempt act fb2 w p fuel start)).
Proof.
  induction fuel as [|fuel IH]; intros start; cbn [next_from].
  - split; [reflexivity|constructor].
  - destruct (attempt p start (skipn (N.to_nat start) w)) as [[[l e]|] off|r| |]; cbn [fst snd].
    + destruct (act l start e) as [[] bump]; cbn [fst snd]; try (split; [reflexivity|constructor]).
      specialize (IH (e + bump)).
      destruct (next_from attempt act fb1 w p fuel (e + bump)) as [sk1 o1].
      destruct (next_from attempt act fb2 w p fuel (e + bump)) as [sk2 o2].
      cbn [fst snd] in *. destruct IH as [-> Ho]. split; [reflexivity|exact Ho].
    + split; [reflexivity|constructor].
    + split; [reflexivity|constructor].
    + split; [reflexivity|constructor].
    + split; [reflexivity|constructor].
Qed.

Section Strict.
  Variables (d : dfa) (g : graph) (V : pairing) (R : rankmap) (D : pset) (P : upairs).
  Hypothesis Hok : dfa_ok d = true.
  Hypothesis Hsim : sim_ok d g V D = true.
  Hypothesis Hex : exact_ok d g V R D = true.
  Hypothesis HU : utf8_ok d P = true.
  Hypothesis HS : utf8_strict_ok d P D = true.

  (* In byte mode an attempt that starts inside a character (at a continuation byte of valid
     UTF-8 text) dies on its first byte: one Err covering exactly that byte. *)
  Theorem inside_char_error act (w : list byte) start b :
    nth_error w (N.to_nat start) = Some b -> byte_ok b -> ustep U0 b = URej ->
    forall fuel, next_from (attempt_ref g) act (fun i => i) w false (S fuel) start
                 = ([], Yield (Item false None start (start + 1)) (start + 1)).
  Proof.
    intros Hn Hb Hrej fuel. cbn [next_from].
    assert (Hsk : skipn (N.to_nat start) w = b :: skipn (S (N.to_nat start)) w).
    { clear -Hn. revert w Hn. generalize (N.to_nat start) as n. induction n as [|n IH]; intros w Hn; destruct w as [|x w]; try discriminate.
      - cbn in Hn. injection Hn as ->. reflexivity.
      - cbn [nth_error] in Hn. cbn [skipn]. exact (IH w Hn). }
    rewrite Hsk. unfold attempt_ref, hops_of. cbn [walk].
    pose proof (sim_root d g V D Hsim) as Hroot.
    pose proof (sim_pair d g V D Hsim _ _ Hroot) as Hp. unfold pair_ok in Hp.
    destruct (gfind g (g_root g)) as [st|] eqn:Est; [|discriminate].
    (* the byte cannot have an edge: its DFA successor is neither live nor matching *)
    assert (Hdead : pmem (dstep d (d_start d) (UB b)) D = true /\ dmatch d (dstep d (d_start d) (UB b)) = []).
    { pose proof (pu_start d P HU) as Hin. apply inPU_elements in Hin as [us [H1 H2]].
      unfold utf8_strict_ok in HS. rewrite forallb_forall in HS. specialize (HS _ H1). cbn [fst snd] in HS.
      rewrite forallb_forall in HS. specialize (HS _ H2). unfold utf8_strict_pair in HS.
      rewrite forallb_forall in HS. specialize (HS b (all_bytes_spec b Hb)).
      rewrite Hrej in HS. cbn in HS. split; [exact HS|].
      destruct (dfa_ok_facts d Hok) as [_ [_ [Hempty _]]]. apply Hempty. exact Hb. }
    destruct Hdead as [HD Hm].
    destruct (edge_first (g_edges st) b) as [t|] eqn:Ed.
    - exfalso. destruct (exact_facts d g V R D Hex _ _ st Hroot Est) as [Hx _].
      destruct (Hx b t Hb Ed) as [Hl|Hne]; [|contradiction].
      apply (lv_iff_live d g V R D Hok Hsim Hex) in Hl.
      exact (not_live_D d g V D Hsim _ HD Hl).
    - (* no edge: the root records nothing *)
      assert (Hrec : record st start None = None).
      { destruct (dfa_ok_facts d Hok) as [_ [Hs0 [Hempty _]]].
        destruct (pair_facts d g V D Hsim _ _ st Hroot Est) as [Hearly [Hacc _]].
        unfold record. destruct (opt_cases (g_early st)) as [[l El]|El]; rewrite El.
        - exfalso. specialize (Hearly l El UEoi I). rewrite win_nomatch in Hearly; [discriminate|]. apply Hempty. exact I.
        - destruct (opt_cases (g_accept st)) as [[l Ea]|Ea]; rewrite Ea; [|reflexivity].
          exfalso. specialize (Hacc l El Ea). rewrite win_nomatch in Hacc; [discriminate|exact Hs0]. }
      rewrite Hrec. unfold nmax. replace (start <? start + 1) with true by (symmetry; apply N.ltb_lt; lia).
      reflexivity.
  Qed.
End Strict.
