(* Engine/GsimProofs.v — soundness of the graph bisimulation checker [gsim_ok] of Engine/GraphBuild.v:
   two graphs related by a checked relation give the same result for every walk of the generated
   code (either mode, any hop fuel).  With Engine/BuildProofs.v this carries the correctness of the
   modelled construction [build d] over to the graph that the real Graph::new produced
   (de-duplicated and renumbered), whenever the checker accepts the pair. *)
From Coq Require Import List Arith NArith PArith Bool FMapPositive Lia.
From LogosV Require Import Engine.Model Engine.Cert Engine.GraphBuild Engine.CertProofs Engine.SimAbs Engine.BuildProofs Engine.SpecProofs.
Import ListNotations.
Local Open Scope N_scope.

(* ---------- the argument over an abstract relation ---------- *)
Definition StatesRel (g1 g2 : graph) (Rel : sid -> sid -> Prop) (s1 s2 : sid) : Prop :=
  exists a b, gfind g1 s1 = Some a /\ gfind g2 s2 = Some b /\
    (forall off c, record a off c = record b off c) /\
    partial_mode_test a = partial_mode_test b /\
    (forall x, byte_ok x -> match edge_first (g_edges a) x, edge_first (g_edges b) x with
                            | Some t1, Some t2 => Rel t1 t2
                            | None, None => True
                            | _, _ => False end) /\
    match g_eoi a, g_eoi b with
    | Some t1, Some t2 => Rel t1 t2
    | None, None => True
    | _, _ => False end.

Section GsimAbs.
  Variables (g1 g2 : graph) (Rel : sid -> sid -> Prop).
  Hypothesis Hrel : forall s1 s2, Rel s1 s2 -> StatesRel g1 g2 Rel s1 s2.

  Lemma rel_at_eoi isprefix start : forall hops s1 s2 off c,
    Rel s1 s2 -> (off = start -> s1 = g_root g1 /\ s2 = g_root g2) -> start <= off ->
    at_eoi g1 isprefix start hops s1 off c = at_eoi g2 isprefix start hops s2 off c.
  Proof.
    induction hops as [|h IH]; intros s1 s2 off c HR Hroot Hle;
      destruct (Hrel s1 s2 HR) as [a [b [Ea [Eb [Hrec [Hpm [_ Heoi]]]]]]];
      cbn [at_eoi]; rewrite Ea, Eb, Hrec, Hpm.
    - assert (Hr : (s1 =? g_root g1)%positive && (off =? start) = (s2 =? g_root g2)%positive && (off =? start)).
      { destruct (N.eqb_spec off start) as [E|E]; [|rewrite !andb_false_r; reflexivity].
        destruct (Hroot E) as [-> ->]. rewrite !Pos.eqb_refl. reflexivity. }
      rewrite Hr. destruct (g_eoi a), (g_eoi b); try contradiction; reflexivity.
    - assert (Hr : (s1 =? g_root g1)%positive && (off =? start) = (s2 =? g_root g2)%positive && (off =? start)).
      { destruct (N.eqb_spec off start) as [E|E]; [|rewrite !andb_false_r; reflexivity].
        destruct (Hroot E) as [-> ->]. rewrite !Pos.eqb_refl. reflexivity. }
      rewrite Hr. destruct (g_eoi a) as [t1|], (g_eoi b) as [t2|]; try contradiction; [|reflexivity].
      destruct (partial_mode_test b && isprefix); [reflexivity|].
      destruct ((s2 =? g_root g2)%positive && (off =? start)); [reflexivity|].
      apply IH; [exact Heoi|intros E; lia|lia].
  Qed.

  Lemma rel_walk isprefix start hops : forall rest s1 s2 off c,
    bytes_ok rest -> Rel s1 s2 -> (off = start -> s1 = g_root g1 /\ s2 = g_root g2) -> start <= off ->
    walk g1 isprefix start hops rest s1 off c = walk g2 isprefix start hops rest s2 off c.
  Proof.
    induction rest as [|x rest IH]; intros s1 s2 off c Hw HR Hroot Hle; cbn [walk].
    - apply rel_at_eoi; assumption.
    - inversion Hw as [|? ? Hx Hw']; subst.
      destruct (Hrel s1 s2 HR) as [a [b [Ea [Eb [Hrec [_ [Hedges _]]]]]]].
      rewrite Ea, Eb, Hrec. specialize (Hedges x Hx).
      destruct (edge_first (g_edges a) x) as [t1|], (edge_first (g_edges b) x) as [t2|]; try contradiction; [|reflexivity].
      apply IH; [exact Hw'|exact Hedges|intros E; lia|lia].
  Qed.

  Theorem rel_attempt isprefix start hops rest : Rel (g_root g1) (g_root g2) -> bytes_ok rest ->
    walk g1 isprefix start hops rest (g_root g1) start None = walk g2 isprefix start hops rest (g_root g2) start None.
  Proof.
    intros Hroot Hw. apply rel_walk; [exact Hw|exact Hroot|intros _; split; reflexivity|lia].
  Qed.
End GsimAbs.

Section Gsim.
  Variables (g1 g2 : graph) (R : pairing).
  Hypothesis Hok : gsim_ok g1 g2 R = true.

  Lemma gsim_root : inV R (g_root g1) (g_root g2) = true.
  Proof. unfold gsim_ok in Hok. apply andb_prop in Hok as [H _]. exact H. Qed.

  Lemma gsim_pair_of s1 s2 : inV R s1 s2 = true -> gsim_pair g1 g2 R s1 s2 = true.
  Proof.
    intros H. destruct (inV_elements R s1 s2 H) as [l [Hin Hl]].
    unfold gsim_ok in Hok. apply andb_prop in Hok as [_ Hall].
    rewrite forallb_forall in Hall. specialize (Hall _ Hin). cbn [fst snd] in Hall.
    rewrite forallb_forall in Hall. exact (Hall s2 Hl).
  Qed.

  (* what a related pair of states shares *)
  Lemma gsim_states s1 s2 : inV R s1 s2 = true -> StatesRel g1 g2 (fun t1 t2 => inV R t1 t2 = true) s1 s2.
  Proof.
    intros H. pose proof (gsim_pair_of s1 s2 H) as P. unfold gsim_pair in P. unfold StatesRel.
    destruct (gfind g1 s1) as [a|]; [|discriminate]. destruct (gfind g2 s2) as [b|]; [|discriminate].
    apply andb_prop in P as [P Peoi]. apply andb_prop in P as [P Pedges]. apply andb_prop in P as [P Ppm].
    apply andb_prop in P as [Pearly Pacc].
    exists a, b. split; [reflexivity|]. split; [reflexivity|]. repeat split.
    - intros off c. unfold record.
      destruct (g_early a) as [la|], (g_early b) as [lb|]; cbn [leaf_eqb] in Pearly; try discriminate.
      + apply N.eqb_eq in Pearly. subst. reflexivity.
      + cbn [is_some orb] in Pacc.
        destruct (g_accept a) as [xa|], (g_accept b) as [xb|]; cbn [leaf_eqb] in Pacc; try discriminate; [|reflexivity].
        apply N.eqb_eq in Pacc. subst. reflexivity.
    - apply eqb_prop. exact Ppm.
    - intros x Hx. rewrite forallb_forall in Pedges. specialize (Pedges x (all_bytes_spec x Hx)).
      destruct (edge_first (g_edges a) x), (edge_first (g_edges b) x); try discriminate; [exact Pedges|exact I].
    - destruct (g_eoi a), (g_eoi b); try discriminate; [exact Peoi|exact I].
  Qed.

  (* the two graphs agree on every attempt, for any hop fuel *)
  Theorem gsim_attempt isprefix start hops rest : bytes_ok rest ->
    walk g1 isprefix start hops rest (g_root g1) start None = walk g2 isprefix start hops rest (g_root g2) start None.
  Proof.
    intros Hw. exact (rel_attempt g1 g2 (fun t1 t2 => inV R t1 t2 = true) gsim_states isprefix start hops rest gsim_root Hw).
  Qed.
End Gsim.

(* The graph g produced by the real Graph::new, when the checker relates it to the modelled
   construction on the same raw DFA: its match attempt computes the DFA-level scan. *)
Theorem built_graph_correct d g R :
  build_side d = true -> gsim_ok (build d) g R = true ->
  forall start rest, bytes_ok rest -> rest <> [] ->
  exists off, attempt_ref g false start rest = Acted (scan d (d_start d) rest start None) off.
Proof.
  intros Hside Hsim start rest Hw Hne.
  unfold attempt_ref. rewrite <- (gsim_attempt (build d) g R Hsim false start (hops_of g) rest Hw).
  unfold hops_of.
  destruct (pair_build d Hside _ _ (root_InB d Hside)) as [st [Est _]].
  destruct (walk_scan_a d (build d) (InB d) (pair_build d Hside) start (PositiveMap.cardinal (g_states g)) rest
              (g_root (build d)) (d_start d) start None st Hw (root_InB d Hside) Est) as [off Hoff].
  - unfold pend_inv_a. intros _ _. rewrite (win_nomatch d _ (start_nomatch d Hside)). reflexivity.
  - intros E. contradiction.
  - lia.
  - exists off. rewrite Hoff. rewrite (win_nomatch d _ (start_nomatch d Hside)). reflexivity.
Qed.

(* maximal munch for the graph of the real Graph::new, through the modelled construction *)
Theorem maximal_munch_built d g R :
  build_side d = true -> gsim_ok (build d) g R = true ->
  forall (w : list byte) (start : N), bytes_ok w -> start < N.of_nat (length w) ->
  exists c off, attempt_ref g false start (skipn (N.to_nat start) w) = Acted c off /\
                MaximalMunch d (skipn (N.to_nat start) w) start c.
Proof.
  intros Hside Hsim w start Hw Hlt.
  assert (Hne : skipn (N.to_nat start) w <> []).
  { intros E. assert (L : length (skipn (N.to_nat start) w) = 0%nat) by (rewrite E; reflexivity).
    rewrite skipn_length in L. lia. }
  destruct (built_graph_correct d g R Hside Hsim start _ (bytes_ok_skipn _ w Hw) Hne) as [off Hoff].
  exists (scan d (d_start d) (skipn (N.to_nat start) w) start None), off. split; [exact Hoff|].
  apply scan_maximal_munch; [exact (side_dfa d Hside)|apply bytes_ok_skipn; exact Hw].
Qed.
