(* Engine/ExecOpt.v — model of what the two code generators actually emit for a state
   (generator/mod.rs:270-325, fast_loop.rs:53-74, fork.rs:60-229), with the log of every
   Lexer::read as (offset, chunk size).  No proofs in this file.

   For one state:  [fast self-loop: U-byte chunks, then single bytes] ; record ; read one byte ;
   branch over the edges other than the self edge (if-chain when <= 2 edges, 256-entry table
   otherwise) ; on None the end-of-input block ; otherwise fall through to _take_action.
   The tail-call and the state-machine generators differ only in how a transition is rendered
   (return f(lex, offset, context) vs state = ..; continue, and offset += 1 before / after the
   table lookup), which no read, span or result observes; both are this function. *)
From Coq Require Import List Arith NArith PArith Bool FMapPositive.
From LogosV Require Import Engine.Model.
Import ListNotations.
Local Open Scope N_scope.

Definition rlog := list (N * N).          (* (offset, size) of every read, in order *)

Fixpoint self_class (s : sid) (es : list (ranges * sid)) : option ranges :=
  match es with
  | [] => None
  | (rs, t) :: es' => if Pos.eqb t s then Some rs else self_class s es'
  end.

Definition edges_noself (s : sid) (es : list (ranges * sid)) : list (ranges * sid) :=
  filter (fun e => negb (Pos.eqb (snd e) s)) es.

(* impl_fork: table (last write wins) when the state has more than 2 edges, else if-chain *)
Definition fork_lookup (s : sid) (st : gstate) (b : byte) : option sid :=
  if (2 <? length (g_edges st))%nat then edge_last (edges_noself s (g_edges st)) b None
  else edge_first (edges_noself s (g_edges st)) b.

(* single-byte phase of _fast_loop *)
Fixpoint fast_single (C : ranges) (rest : list byte) (off : N) : list byte * N * rlog :=
  match rest with
  | [] => ([], off, [(off, 1)])
  | b :: r => if in_ranges b C
              then match fast_single C r (off + 1) with (r', o', t) => (r', o', (off, 1) :: t) end
              else (rest, off, [(off, 1)])
  end.

(* index of the first of the first n bytes of l that is not in C *)
Fixpoint first_out (C : ranges) (l : list byte) (n : nat) {struct n} : option nat :=
  match n, l with
  | O, _ => None
  | S n', b :: l' => if in_ranges b C then option_map S (first_out C l' n') else Some O
  | S _, [] => None
  end.

(* chunk phase; fuel >= length rest suffices *)
Fixpoint fast_chunk (fuel : nat) (U : nat) (C : ranges) (rest : list byte) (off : N) : list byte * N * rlog :=
  match fuel with
  | O => fast_single C rest off
  | S f =>
      if (U <=? length rest)%nat then
        match first_out C rest U with
        | Some i => (skipn i rest, off + N.of_nat i, [(off, N.of_nat U)])
        | None => match fast_chunk f U C (skipn U rest) (off + N.of_nat U) with
                  | (r', o', t) => (r', o', (off, N.of_nat U) :: t) end
        end
      else match fast_single C rest off with (r', o', t) => (r', o', (off, N.of_nat U) :: t) end
  end.

Definition fast_loop (U : nat) (s : sid) (st : gstate) (rest : list byte) (off : N) : list byte * N * rlog :=
  match self_class s (g_edges st) with
  | Some C => fast_chunk (S (length rest)) U C rest off
  | None => (rest, off, [])
  end.

(* the end-of-input block of fork_eoi, entered after the fork's read returned None; c is already
   recorded; k is what following the end-of-input edge yields *)
Definition eoi_block (g : graph) (isprefix : bool) (start : N) (s : sid) (st : gstate) (off : N) (c : ctx)
                     (k : stop * rlog) : stop * rlog :=
  if partial_mode_test st && isprefix then (RetNone true, [])
  else if (Pos.eqb s (g_root g)) && (off =? start) then (RetNone false, [])
  else match g_eoi st with
       | None => (Acted c off, [])
       | Some _ => k
       end.

(* fuel bounds state visits (S (length rest) + hops suffices); hops bounds the chain of
   end-of-input edges exactly as in the reference walk *)
Fixpoint walk_opt (U : nat) (g : graph) (isprefix : bool) (start : N) (fuel : nat) (hops : nat)
                  (rest : list byte) (s : sid) (off : N) (c : ctx) : stop * rlog :=
  match fuel with
  | O => (Diverged, [])
  | S f =>
      match gfind g s with
      | None => (Stuck, [])
      | Some st =>
          match fast_loop U s st rest off with
          | (rest1, off1, tr1) =>
              let c1 := record st off1 c in
              match rest1 with
              | [] =>
                  let k := match g_eoi st, hops with
                           | Some t, S h => walk_opt U g isprefix start f h [] t (off1 + 1) c1
                           | _, _ => (Diverged, [])
                           end in
                  match eoi_block g isprefix start s st off1 c1 k with
                  | (r, tr) => (r, tr1 ++ (off1, 1) :: tr) end
              | b :: rest' =>
                  match fork_lookup s st b with
                  | Some t => match walk_opt U g isprefix start f hops rest' t (off1 + 1) c1 with
                              | (r, tr) => (r, tr1 ++ (off1, 1) :: tr) end
                  | None => (Acted c1 off1, tr1 ++ [(off1, 1)])
                  end
              end
          end
      end
  end.

Definition attempt_opt (U : nat) (g : graph) (isprefix : bool) (start : N) (rest : list byte) : stop * rlog :=
  walk_opt U g isprefix start (S (length rest) + hops_of g) (hops_of g) rest (g_root g) start None.
