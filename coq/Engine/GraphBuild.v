(* Engine/GraphBuild.v — Coq model of the graph construction Graph::new (logos-codegen/src/graph/mod.rs
   :443-575) up to, but not including, state de-duplication and renumbering: graph states keep the
   ids of the DFA states they come from.  No proofs in this file.

   pass 1 (453-492): per state the winner of its match list (late accept) and its byte / EOI edges;
   pass 2 (498-519): early accept when no byte is missing and all children share the late accept;
   pass 3 (521-532): late accept removed when every parent is early with the same leaf;
   pass 4 (534-575): states that cannot reach an accepting state (and are not the root) are pruned.
   De-duplication (577-608) merges states with equal data; it is covered by comparing the result of
   this function with the captured graph up to bisimulation (gsim_ok below). *)
From Coq Require Import List NArith PArith Bool FMapPositive.
From LogosV Require Import Engine.Model Engine.Cert.
Import ListNotations.
Local Open Scope N_scope.

Definition wopt (wn : winner) : option leaf := match wn with WOne l => Some l | _ => None end.
Definition is_some {A} (o : option A) : bool := match o with Some _ => true | None => false end.

Definition set_of (l : list qid) : pset := fold_left (fun m q => PositiveMap.add q tt m) l (PositiveMap.empty unit).
Fixpoint nodup_acc (l seen : list qid) : list qid :=
  match l with
  | [] => rev seen
  | x :: r => if existsb (Pos.eqb x) seen then nodup_acc r seen else nodup_acc r (x :: seen)
  end.

Section Build.
  Variable d : dfa.

  Definition qs : list qid := map fst (PositiveMap.elements (d_states d)).
  Definition is_dead (q : qid) : bool := Pos.eqb q (d_dead d).
  Definition target (q : qid) (b : N) : qid := dstep d q (UB b).
  Definition etarget (q : qid) : qid := dstep d q UEoi.

  (* pass 1 *)
  Definition acc0 (q : qid) : option leaf := wopt (win d q).
  (* pass 2 *)
  Definition can_error (q : qid) : bool := existsb (fun b => is_dead (target q b)) all_bytes.
  Definition children (q : qid) : list qid :=
    map (target q) all_bytes ++ (if is_dead (etarget q) then [] else [etarget q]).
  Definition early (q : qid) : option leaf :=
    if can_error q then None
    else match acc0 (target q 0) with
         | Some l => if forallb (fun c => leaf_eqb (acc0 c) (Some l)) (children q) then Some l else None
         | None => None
         end.
  (* pass 3: the late accept of t stays iff some parent is not early with the same leaf.
     bad_list collects the children t of a parent p whose early accept differs from t's late accept. *)
  Definition bad_list : list qid :=
    flat_map (fun p => let e := early p in
                flat_map (fun u => let t := dstep d p u in if leaf_eqb e (acc0 t) then [] else [t]) all_units) qs.
  Definition bad_set : pset := set_of bad_list.

  Section WithBad.
    Variable B : pset.
    Definition acc1 (q : qid) : option leaf :=
      match acc0 q with
      | Some l => if pmem q B then Some l else None
      | None => None
      end.
    (* pass 4 *)
    Definition marked (q : qid) : bool := is_some (early q) || is_some (acc1 q) || Pos.eqb q (d_start d).
    Definition grow (R : pset) : pset :=
      fold_left (fun acc p =>
                   if pmem p acc then acc
                   else if existsb (fun u => let t := dstep d p u in negb (is_dead t) && pmem t R) all_units
                   then PositiveMap.add p tt acc else acc) qs R.
    Fixpoint iter (n : nat) (R : pset) : pset :=
      match n with
      | O => R
      | S m => let R' := grow R in
               if Nat.eqb (PositiveMap.cardinal R') (PositiveMap.cardinal R) then R else iter m R'
      end.
    Definition reach_set : pset := iter (length qs) (set_of (filter marked qs)).

    Section WithReach.
      Variable R : pset.
      (* R holds every marked state and every parent of a state it holds (checked, not proved) *)
      Definition reach_closed : bool :=
        forallb (fun p => pmem p R
                          || (negb (marked p)
                              && negb (existsb (fun u => let t := dstep d p u in negb (is_dead t) && pmem t R) all_units))) qs.

      (* edges: one per distinct live target, its class as singleton ranges *)
      Definition keep_target (t : qid) : bool := negb (is_dead t) && pmem t R.
      Definition targets (q : qid) : list qid := nodup_acc (filter keep_target (map (target q) all_bytes)) [].
      Definition class_of (q t : qid) : ranges :=
        map (fun b => (b, b)) (filter (fun b => Pos.eqb (target q b) t) all_bytes).
      Definition edges (q : qid) : list (ranges * sid) := map (fun t => (class_of q t, t)) (targets q).
      Definition eoi_edge (q : qid) : option sid := if keep_target (etarget q) then Some (etarget q) else None.

      Definition bstate (q : qid) : gstate :=
        {| g_early := early q; g_accept := acc1 q; g_edges := edges q; g_eoi := eoi_edge q |}.

      Definition build_with : graph :=
        {| g_states := fold_left (fun m q => if pmem q R then PositiveMap.add q (bstate q) m else m) qs (PositiveMap.empty gstate);
           g_root := d_start d |}.
    End WithReach.
  End WithBad.

  Definition build : graph := let B := bad_set in build_with B (reach_set B).

  (* DFA-level side conditions of the correctness theorem (decidable, evaluated per definition) *)
  (* an early accept computed from the byte children is also right at end of input *)
  Definition eoi_consistent : bool :=
    forallb (fun q => match early q with
                      | Some l => win_is (win d (etarget q)) l
                      | None => true end) qs.
  (* the state reached by end of input has no successors *)
  Definition eoi_terminal : bool :=
    forallb (fun q => forallb (fun u => is_dead (dstep d (etarget q) u)) all_units) qs.
  (* transition targets are states of the DFA or the dead state *)
  Definition closed_targets : bool :=
    forallb (fun q => forallb (fun u => let t := dstep d q u in
                         is_dead t || is_some (PositiveMap.find t (d_states d))) all_units) qs
    && is_some (PositiveMap.find (d_start d) (d_states d)).

  Definition build_side : bool :=
    dfa_ok d && closed_targets && eoi_consistent && eoi_terminal
    && (let B := bad_set in reach_closed B (reach_set B)).
  (* the graph and the side conditions in one pass, for the extracted checker *)
  Definition build_checked : graph * list bool :=
    let B := bad_set in let R := reach_set B in
    (build_with B R, [dfa_ok d; closed_targets; eoi_consistent; eoi_terminal; reach_closed B R]).
End Build.

(* ---------- bisimulation of two graphs (same recording, same edges up to a relation) ---------- *)
Definition gsim_pair (g1 g2 : graph) (R : pairing) (s1 s2 : sid) : bool :=
  match gfind g1 s1, gfind g2 s2 with
  | Some a, Some b =>
      leaf_eqb (g_early a) (g_early b)
      && (is_some (g_early a) || leaf_eqb (g_accept a) (g_accept b))
      && Bool.eqb (partial_mode_test a) (partial_mode_test b)
      && forallb (fun x => match edge_first (g_edges a) x, edge_first (g_edges b) x with
                           | Some t1, Some t2 => inV R t1 t2
                           | None, None => true
                           | _, _ => false end) all_bytes
      && match g_eoi a, g_eoi b with
         | Some t1, Some t2 => inV R t1 t2
         | None, None => true
         | _, _ => false end
  | _, _ => false
  end.
Definition gsim_ok (g1 g2 : graph) (R : pairing) : bool :=
  inV R (g_root g1) (g_root g2)
  && forallb (fun kv => forallb (gsim_pair g1 g2 R (fst kv)) (snd kv)) (PositiveMap.elements R).
