(* Engine/SimAbs.v — the attempt theorem over an abstract (Prop-level) simulation invariant.
   Engine/CertProofs.v proves it from the boolean certificate sim_ok; here the same argument is
   stated against the conditions themselves, so that it can also be instantiated by a *proof* that a
   graph-building algorithm establishes them for every DFA (Engine/BuildProofs.v). *)
From Coq Require Import List Arith NArith PArith Bool FMapPositive Lia.
From LogosV Require Import Engine.Model Engine.Cert Engine.CertProofs.
Import ListNotations.
Local Open Scope N_scope.

Section Abs.
  Variables (d : dfa) (g : graph).
  Variable InV : sid -> qid -> Prop.

  Definition PendOk (st st' : gstate) (q' : qid) : Prop :=
    g_early st = None -> g_early st' = None -> g_accept st' = None -> win d q' = WNone.

  Definition TerminalSt (st : gstate) : Prop := g_edges st = [] /\ g_eoi st = None /\ g_early st = None.

  Definition ByteOk (st : gstate) (q : qid) (b : N) : Prop :=
    match edge_first (g_edges st) b with
    | Some t => exists st', gfind g t = Some st' /\ InV t (dstep d q (UB b)) /\ PendOk st st' (dstep d q (UB b))
    | None => ~ Live d (dstep d q (UB b)) /\ (win d (dstep d q (UB b)) = WNone \/ g_early st <> None)
    end.

  Definition EoiOk (st : gstate) (q : qid) : Prop :=
    match g_eoi st with
    | Some t => exists st', gfind g t = Some st' /\ InV t (dstep d q UEoi) /\ TerminalSt st' /\ PendOk st st' (dstep d q UEoi)
    | None => win d (dstep d q UEoi) = WNone \/ g_early st <> None
    end.

  Definition PairOk (s : sid) (q : qid) : Prop :=
    exists st, gfind g s = Some st /\
      (forall l, g_early st = Some l -> forall u, unit_ok u -> win d (dstep d q u) = WOne l) /\
      (forall l, g_early st = None -> g_accept st = Some l -> win d q = WOne l) /\
      (forall b, byte_ok b -> ByteOk st q b) /\
      EoiOk st q.

  Hypothesis Hinv : forall s q, InV s q -> PairOk s q.

  Definition pend_inv_a (st : gstate) (q : qid) (off : N) (c : ctx) : Prop :=
    g_early st = None -> g_accept st = None -> upd c (off - 1) (win d q) = c.

  Lemma record_eff_a st q off c :
    (forall l, g_early st = None -> g_accept st = Some l -> win d q = WOne l) ->
    pend_inv_a st q off c -> g_early st = None ->
    record st off c = upd c (off - 1) (win d q).
  Proof.
    intros Hacc Hp En. unfold record. rewrite En.
    destruct (opt_cases (g_accept st)) as [[l Ea]|Ea]; rewrite Ea.
    - rewrite (Hacc l En Ea). reflexivity.
    - symmetry. apply Hp; [exact En|exact Ea].
  Qed.

  Lemma at_eoi_scan_a start hops s q off c st :
    InV s q -> gfind g s = Some st -> pend_inv_a st q off c ->
    (s = g_root g -> off <> start) -> start <= off ->
    exists off', at_eoi g false start (S (S hops)) s off c
                 = Acted (upd (upd c (off - 1) (win d q)) off (win d (dstep d q UEoi))) off'.
  Proof.
    intros HV Hst Hp Hroot Hle.
    destruct (Hinv s q HV) as [st0 [Hst0 [Hearly [Hacc [_ Heoi]]]]].
    rewrite Hst in Hst0. injection Hst0 as <-.
    cbn [at_eoi]. rewrite Hst. rewrite andb_false_r.
    assert (Hr : (s =? g_root g)%positive && (off =? start) = false).
    { destruct (Pos.eqb_spec s (g_root g)) as [E|E]; [|reflexivity]. cbn. apply N.eqb_neq. apply Hroot. exact E. }
    rewrite Hr. unfold EoiOk in Heoi.
    destruct (opt_cases (g_eoi st)) as [[t Et]|Et]; rewrite Et in *.
    - destruct Heoi as [st' [Est' [HVt [[Eed [Eeoi Eearly]] Hpend]]]].
      rewrite Est'. unfold partial_mode_test, no_edges. rewrite Eed, Eeoi. cbn [negb orb andb].
      assert (Hr2 : (t =? g_root g)%positive && (off + 1 =? start) = false).
      { apply andb_false_iff. right. apply N.eqb_neq. lia. }
      rewrite Hr2. eexists. f_equal.
      destruct (Hinv t _ HVt) as [st2 [Est2 [_ [Hacc' _]]]]. rewrite Est' in Est2. injection Est2 as <-.
      unfold record at 1. rewrite Eearly.
      replace (off + 1 - 1) with off by lia.
      destruct (opt_cases (g_early st)) as [[l Ee]|Ee].
      + rewrite (Hearly l Ee UEoi I). cbn [upd]. unfold record. rewrite Ee.
        destruct (opt_cases (g_accept st')) as [[l' Ea']|Ea']; rewrite Ea'; [|reflexivity].
        specialize (Hacc' l' Eearly Ea'). rewrite (Hearly l Ee UEoi I) in Hacc'. injection Hacc' as ->. reflexivity.
      + rewrite (record_eff_a st q off c Hacc Hp Ee).
        destruct (opt_cases (g_accept st')) as [[l' Ea']|Ea']; rewrite Ea'.
        * rewrite (Hacc' l' Eearly Ea'). reflexivity.
        * rewrite (Hpend Ee Eearly Ea'). reflexivity.
    - eexists. f_equal.
      destruct (opt_cases (g_early st)) as [[l Ee]|Ee].
      + rewrite (Hearly l Ee UEoi I). unfold record. rewrite Ee. reflexivity.
      + rewrite (record_eff_a st q off c Hacc Hp Ee).
        destruct Heoi as [H|H]; [rewrite H; reflexivity|congruence].
  Qed.

  Lemma walk_scan_a start hops : forall rest s q off c st,
    bytes_ok rest -> InV s q -> gfind g s = Some st -> pend_inv_a st q off c ->
    (rest = [] -> s = g_root g -> off <> start) -> start <= off ->
    exists off', walk g false start (S (S hops)) rest s off c
                 = Acted (scan d q rest off (upd c (off - 1) (win d q))) off'.
  Proof.
    induction rest as [|b rest IH]; intros s q off c st Hw HV Hst Hp Hroot Hle.
    - cbn [walk scan]. apply (at_eoi_scan_a start hops s q off c st); auto.
    - inversion Hw as [|? ? Hb Hw']; subst.
      destruct (Hinv s q HV) as [st0 [Hst0 [Hearly [Hacc [Hbytes _]]]]].
      rewrite Hst in Hst0. injection Hst0 as <-.
      specialize (Hbytes b Hb). unfold ByteOk in Hbytes.
      cbn [walk scan]. rewrite Hst.
      set (q' := dstep d q (UB b)) in *.
      destruct (edge_first (g_edges st) b) as [t|] eqn:Ed.
      + destruct Hbytes as [st' [Est' [HVt Hpend]]].
        assert (Hle' : start <= off + 1) by lia.
        assert (Hroot' : rest = [] -> t = g_root g -> off + 1 <> start) by (intros; lia).
        destruct (opt_cases (g_early st)) as [[l Ee]|Ee].
        * pose proof (Hearly l Ee (UB b) Hb) as Hw1. fold q' in Hw1.
          rewrite Hw1. cbn [upd].
          assert (Hrec : record st off c = Some (l, off)) by (unfold record; rewrite Ee; reflexivity).
          assert (Hp' : pend_inv_a st' q' (off + 1) (record st off c)).
          { unfold pend_inv_a. rewrite Hrec. intros _ _.
            replace (off + 1 - 1) with off by lia. rewrite Hw1. reflexivity. }
          destruct (IH t q' (off + 1) (record st off c) st' Hw' HVt Est' Hp' Hroot' Hle') as [o Ho].
          exists o. rewrite Ho. f_equal. f_equal.
          rewrite Hrec. replace (off + 1 - 1) with off by lia. rewrite Hw1. reflexivity.
        * rewrite <- (record_eff_a st q off c Hacc Hp Ee).
          assert (Hp' : pend_inv_a st' q' (off + 1) (record st off c)).
          { unfold pend_inv_a. intros Ee' Ea'. rewrite (Hpend Ee Ee' Ea'). reflexivity. }
          destruct (IH t q' (off + 1) (record st off c) st' Hw' HVt Est' Hp' Hroot' Hle') as [o Ho].
          exists o. rewrite Ho. f_equal. f_equal.
          replace (off + 1 - 1) with off by lia. reflexivity.
      + destruct Hbytes as [HD Hw0].
        exists off. f_equal.
        rewrite (scan_not_live d rest q' (off + 1) _ Hw' HD).
        destruct (opt_cases (g_early st)) as [[l Ee]|Ee].
        * pose proof (Hearly l Ee (UB b) Hb) as Hw1. fold q' in Hw1.
          rewrite Hw1. unfold record. rewrite Ee. reflexivity.
        * rewrite (record_eff_a st q off c Hacc Hp Ee).
          destruct Hw0 as [H|H]; [rewrite H; reflexivity|congruence].
  Qed.

  (* the attempt from the root computes the DFA-level scan *)
  Theorem attempt_ctx_correct_a start rest :
    InV (g_root g) (d_start d) -> dmatch d (d_start d) = [] ->
    bytes_ok rest -> rest <> [] ->
    exists off, attempt_ref g false start rest = Acted (scan d (d_start d) rest start None) off.
  Proof.
    intros Hroot Hs0 Hw Hne.
    destruct (Hinv _ _ Hroot) as [st [Est _]].
    unfold attempt_ref, hops_of.
    destruct (walk_scan_a start (PositiveMap.cardinal (g_states g)) rest (g_root g) (d_start d) start None st
                Hw Hroot Est) as [off Hoff].
    - unfold pend_inv_a. intros _ _. rewrite (win_nomatch d _ Hs0). reflexivity.
    - intros E. contradiction.
    - lia.
    - exists off. rewrite Hoff. rewrite (win_nomatch d _ Hs0). reflexivity.
  Qed.
End Abs.
