(* Engine/BuildProofs.v — the graph construction of Engine/GraphBuild.v (the model of Graph::new up to
   de-duplication) is correct for EVERY raw DFA that meets the decidable side conditions [build_side]:
   the match attempt of the generated code on [build d] computes the DFA-level scan.  The proof
   instantiates the abstract simulation argument of Engine/SimAbs.v with the identity pairing. *)
From Coq Require Import List Arith NArith PArith Bool FMapPositive Lia.
From LogosV Require Import Engine.Model Engine.Cert Engine.GraphBuild Engine.CertProofs Engine.SimAbs.
Import ListNotations.
Local Open Scope N_scope.

(* ---------- small facts about maps, sets and lists ---------- *)
Lemma in_qs d q : In q (qs d) <-> exists st, PositiveMap.find q (d_states d) = Some st.
Proof.
  unfold qs. split.
  - intros H. apply in_map_iff in H as [[q' st] [E Hin]]. cbn [fst] in E. subst q'.
    exists st. apply PositiveMap.elements_complete. exact Hin.
  - intros [st H]. apply in_map_iff. exists (q, st). split; [reflexivity|].
    apply PositiveMap.elements_correct. exact H.
Qed.

Lemma fold_add_spec (l : list qid) : forall (m0 : pset) t,
  pmem t (fold_left (fun m q => PositiveMap.add q tt m) l m0) = true <-> In t l \/ pmem t m0 = true.
Proof.
  induction l as [|x l IH]; intros m0 t; cbn [fold_left].
  - split; [intros H; right; exact H|intros [[]|H]; exact H].
  - rewrite IH.
    assert (E : pmem t (PositiveMap.add x tt m0) = true <-> t = x \/ pmem t m0 = true).
    { unfold pmem. destruct (Pos.eq_dec t x) as [->|Hne].
      - rewrite PositiveMap.gss. split; [intros _; left; reflexivity|reflexivity].
      - rewrite PositiveMap.gso by exact Hne. split; [intros H; right; exact H|intros [H|H]; [contradiction|exact H]]. }
    rewrite E. cbn [In]. split.
    + intros [H|[H|H]]; [left; right; exact H|left; left; symmetry; exact H|right; exact H].
    + intros [[H|H]|H]; [right; left; symmetry; exact H|left; exact H|right; right; exact H].
Qed.

Lemma set_of_spec l t : pmem t (set_of l) = true <-> In t l.
Proof.
  unfold set_of. rewrite fold_add_spec. split; [intros [H|H]; [exact H|]|intros H; left; exact H].
  unfold pmem in H. rewrite PositiveMap.gempty in H. discriminate.
Qed.

Lemma fold_states_find {A} (P : qid -> bool) (f : qid -> A) (l : list qid) : forall m0 q,
  PositiveMap.find q (fold_left (fun m x => if P x then PositiveMap.add x (f x) m else m) l m0)
  = if existsb (Pos.eqb q) l && P q then Some (f q) else PositiveMap.find q m0.
Proof.
  induction l as [|x l IH]; intros m0 q; cbn [fold_left existsb]; [reflexivity|].
  rewrite IH. destruct (Pos.eqb_spec q x) as [->|Hne]; cbn [orb].
  - destruct (P x) eqn:EP.
    + rewrite andb_true_r. rewrite PositiveMap.gss. destruct (existsb (Pos.eqb x) l); reflexivity.
    + rewrite andb_false_r. reflexivity.
  - destruct (P x); [|reflexivity].
    rewrite PositiveMap.gso by exact Hne. reflexivity.
Qed.

Lemma existsb_eqb_in (q : qid) l : existsb (Pos.eqb q) l = true <-> In q l.
Proof.
  rewrite existsb_exists. split.
  - intros [x [Hin E]]. apply Pos.eqb_eq in E. subst. exact Hin.
  - intros H. exists q. split; [exact H|apply Pos.eqb_refl].
Qed.

Lemma nodup_acc_mem (t : qid) : forall l seen,
  existsb (Pos.eqb t) (nodup_acc l seen) = existsb (Pos.eqb t) l || existsb (Pos.eqb t) seen.
Proof.
  induction l as [|x l IH]; intros seen; cbn [nodup_acc existsb].
  - cbn [orb]. apply eq_iff_eq_true. rewrite !existsb_eqb_in. symmetry. apply in_rev.
  - destruct (existsb (Pos.eqb x) seen) eqn:Es; rewrite IH.
    + destruct (Pos.eqb_spec t x) as [->|Hne]; cbn [orb]; [|reflexivity].
      rewrite Es. rewrite orb_true_r. reflexivity.
    + cbn [existsb]. destruct (Pos.eqb t x); cbn [orb]; [rewrite orb_true_r; reflexivity|reflexivity].
Qed.

Lemma win_of_none pr : forall ms acc best, win_of pr ms acc best = WNone -> acc = WNone /\ ms = [].
Proof.
  induction ms as [|l ms IH]; intros acc best H; cbn [win_of] in H; [split; [exact H|reflexivity]|].
  destruct acc as [|l0|].
  - apply IH in H as [H _]. discriminate.
  - destruct (best <? pr l); [apply IH in H as [H _]; discriminate|].
    destruct (pr l =? best); apply IH in H as [H _]; discriminate.
  - destruct (best <? pr l); [apply IH in H as [H _]; discriminate|].
    destruct (pr l =? best); apply IH in H as [H _]; discriminate.
Qed.

Lemma win_none_nomatch d q : win d q = WNone -> dmatch d q = [].
Proof. unfold win. intros H. apply win_of_none in H as [_ H]. exact H. Qed.

(* ---------- the construction ---------- *)
Section Correct.
  Variable d : dfa.
  Hypothesis Hside : build_side d = true.

  Let B := bad_set d.
  Let R := reach_set d B.
  Let g := build d.

  Lemma side_dfa : dfa_ok d = true.
  Proof. unfold build_side in Hside. apply andb_prop in Hside as [H _]. apply andb_prop in H as [H _]. apply andb_prop in H as [H _]. apply andb_prop in H as [H _]. exact H. Qed.
  Lemma side_closed : closed_targets d = true.
  Proof. unfold build_side in Hside. apply andb_prop in Hside as [H _]. apply andb_prop in H as [H _]. apply andb_prop in H as [H _]. apply andb_prop in H as [_ H]. exact H. Qed.
  Lemma side_eoic : eoi_consistent d = true.
  Proof. unfold build_side in Hside. apply andb_prop in Hside as [H _]. apply andb_prop in H as [H _]. apply andb_prop in H as [_ H]. exact H. Qed.
  Lemma side_eoit : eoi_terminal d = true.
  Proof. unfold build_side in Hside. apply andb_prop in Hside as [H _]. apply andb_prop in H as [_ H]. exact H. Qed.
  Lemma side_reach : reach_closed d B R = true.
  Proof. unfold build_side in Hside. apply andb_prop in Hside as [_ H]. exact H. Qed.

  Lemma dead_absent : PositiveMap.find (d_dead d) (d_states d) = None.
  Proof.
    pose proof side_dfa as H. unfold dfa_ok in H.
    apply andb_prop in H as [H _]. apply andb_prop in H as [H _]. apply andb_prop in H as [H _]. apply andb_prop in H as [_ H].
    destruct (PositiveMap.find (d_dead d) (d_states d)); [discriminate|reflexivity].
  Qed.

  Lemma no_tie q : In q (qs d) -> win d q <> WTie.
  Proof.
    intros Hin. pose proof side_dfa as H. unfold dfa_ok in H. apply andb_prop in H as [_ H].
    rewrite forallb_forall in H. apply in_qs in Hin as [st Hst].
    specialize (H (q, st) (PositiveMap.elements_correct _ _ Hst)). cbn [fst] in H.
    intros E. rewrite E in H. discriminate.
  Qed.

  Lemma dead_step u : dstep d (d_dead d) u = d_dead d.
  Proof. unfold dstep. rewrite dead_absent. reflexivity. Qed.
  Lemma dead_nomatch : dmatch d (d_dead d) = [].
  Proof. unfold dmatch. rewrite dead_absent. reflexivity. Qed.
  Lemma dead_not_live : ~ Live d (d_dead d).
  Proof.
    intros H. remember (d_dead d) as q eqn:E. induction H as [q u Hu Hm|q b Hb HL IH]; subst q.
    - rewrite dead_step in Hm. apply Hm. exact dead_nomatch.
    - rewrite dead_step in IH. apply IH. reflexivity.
  Qed.

  Lemma is_dead_true q : is_dead d q = true <-> q = d_dead d.
  Proof. unfold is_dead. apply Pos.eqb_eq. Qed.

  Lemma not_in_qs_dead_step q u : ~ In q (qs d) -> dstep d q u = d_dead d.
  Proof.
    intros H. unfold dstep. destruct (PositiveMap.find q (d_states d)) as [st|] eqn:E; [|reflexivity].
    exfalso. apply H. apply in_qs. exists st. exact E.
  Qed.

  (* a transition out of a DFA state lands in a DFA state or in the dead state *)
  Lemma step_closed q u : In q (qs d) -> unit_ok u -> dstep d q u = d_dead d \/ In (dstep d q u) (qs d).
  Proof.
    intros Hq Hu. pose proof side_closed as H. unfold closed_targets in H. apply andb_prop in H as [H _].
    rewrite forallb_forall in H. specialize (H q Hq). rewrite forallb_forall in H.
    specialize (H u (all_units_spec u Hu)). cbn zeta in H.
    apply orb_prop in H as [H|H]; [left; apply is_dead_true; exact H|right].
    apply in_qs. destruct (PositiveMap.find (dstep d q u) (d_states d)) as [st|]; [exists st; reflexivity|discriminate].
  Qed.

  Lemma start_in_qs : In (d_start d) (qs d).
  Proof.
    pose proof side_closed as H. unfold closed_targets in H. apply andb_prop in H as [_ H].
    apply in_qs. destruct (PositiveMap.find (d_start d) (d_states d)) as [st|]; [exists st; reflexivity|discriminate].
  Qed.

  (* acc0 and the winner *)
  Lemma acc0_some q l : acc0 d q = Some l <-> win d q = WOne l.
  Proof. unfold acc0, wopt. destruct (win d q); split; congruence. Qed.
  Lemma acc0_none q : In q (qs d) -> acc0 d q = None -> win d q = WNone.
  Proof.
    intros Hq H. pose proof (no_tie q Hq) as Ht. unfold acc0, wopt in H.
    destruct (win d q); [reflexivity|discriminate|congruence].
  Qed.
  Lemma win_dead : win d (d_dead d) = WNone.
  Proof. apply win_nomatch. exact dead_nomatch. Qed.

  Lemma leaf_eqb_some a l : leaf_eqb a (Some l) = true <-> a = Some l.
  Proof.
    unfold leaf_eqb. destruct a as [x|]; split; intros H; try discriminate.
    - apply N.eqb_eq in H. subst. reflexivity.
    - injection H as ->. apply N.eqb_refl.
  Qed.

  (* pass 2: an early accept is the winner after every unit *)
  Lemma early_sound q l : In q (qs d) -> early d q = Some l -> forall u, unit_ok u -> win d (dstep d q u) = WOne l.
  Proof.
    intros Hq He u Hu. unfold early in He.
    destruct (can_error d q) eqn:Ece; [discriminate|].
    destruct (acc0 d (target d q 0)) as [l0|] eqn:E0; [|discriminate].
    destruct (forallb (fun c => leaf_eqb (acc0 d c) (Some l0)) (children d q)) eqn:Ef; [|discriminate].
    injection He as ->. rewrite forallb_forall in Ef.
    destruct u as [b|].
    - apply acc0_some. apply leaf_eqb_some. apply Ef. unfold children. apply in_or_app. left.
      change (dstep d q (UB b)) with (target d q b). apply in_map. apply all_bytes_spec. exact Hu.
    - pose proof side_eoic as H. unfold eoi_consistent in H. rewrite forallb_forall in H. specialize (H q Hq).
      assert (Ee : early d q = Some l).
      { unfold early. rewrite Ece, E0.
        replace (forallb (fun c => leaf_eqb (acc0 d c) (Some l)) (children d q)) with true; [reflexivity|].
        symmetry. apply forallb_forall. exact Ef. }
      rewrite Ee in H. unfold win_is, etarget in H.
      destruct (win d (dstep d q UEoi)) as [|l'|]; try discriminate.
      apply N.eqb_eq in H. subst. reflexivity.
  Qed.

  (* pass 3 *)
  Lemma bad_spec t : pmem t B = true <->
    exists p u, In p (qs d) /\ In u all_units /\ dstep d p u = t /\ leaf_eqb (early d p) (acc0 d t) = false.
  Proof.
    unfold B, bad_set. rewrite set_of_spec. unfold bad_list. rewrite in_flat_map. split.
    - intros [p [Hp H]]. cbn zeta in H. apply in_flat_map in H as [u [Hu H]].
      destruct (leaf_eqb (early d p) (acc0 d (dstep d p u))) eqn:E; [destruct H|].
      destruct H as [<-|[]]. exists p, u. repeat split; assumption.
    - intros [p [u [Hp [Hu [Ht E]]]]]. exists p. split; [exact Hp|]. cbn zeta. apply in_flat_map. exists u.
      split; [exact Hu|]. rewrite Ht, E. left. reflexivity.
  Qed.

  Lemma acc1_sub q l : acc1 d B q = Some l -> acc0 d q = Some l.
  Proof. unfold acc1. destruct (acc0 d q) as [l0|]; [|discriminate]. destruct (pmem q B); congruence. Qed.

  (* a child of a parent that is not early keeps its late accept *)
  Lemma acc1_kept p u t : In p (qs d) -> unit_ok u -> dstep d p u = t -> early d p = None -> acc1 d B t = acc0 d t.
  Proof.
    intros Hp Hu Ht He. unfold acc1. destruct (acc0 d t) as [l|] eqn:E; [|reflexivity].
    replace (pmem t B) with true; [reflexivity|]. symmetry. apply bad_spec.
    exists p, u. repeat split; [exact Hp|apply all_units_spec; exact Hu|exact Ht|].
    rewrite He, E. reflexivity.
  Qed.

  (* pass 4: states outside R are not live *)
  Lemma reach_closed_spec p : In p (qs d) -> pmem p R = false ->
    marked d B p = false /\ forall u, unit_ok u -> dstep d p u = d_dead d \/ pmem (dstep d p u) R = false.
  Proof.
    intros Hp Hr. pose proof side_reach as H. unfold reach_closed in H. rewrite forallb_forall in H.
    specialize (H p Hp). rewrite Hr in H. cbn [orb] in H. apply andb_prop in H as [Hm He].
    split; [destruct (marked d B p); [discriminate|reflexivity]|].
    intros u Hu. apply negb_true_iff in He.
    destruct (Pos.eq_dec (dstep d p u) (d_dead d)) as [E|E]; [left; exact E|right].
    destruct (pmem (dstep d p u) R) eqn:Er; [|reflexivity].
    exfalso. refine (eq_true_false_abs _ _ He). apply existsb_exists.
    exists u. split; [apply all_units_spec; exact Hu|]. cbn zeta. rewrite Er, andb_true_r.
    apply negb_true_iff. destruct (is_dead d (dstep d p u)) eqn:Ed; [apply is_dead_true in Ed; contradiction|reflexivity].
  Qed.

  Lemma unmarked_child p u : In p (qs d) -> pmem p R = false -> unit_ok u -> dmatch d (dstep d p u) = [].
  Proof.
    intros Hp Hr Hu. destruct (reach_closed_spec p Hp Hr) as [Hm Hc].
    destruct (Hc u Hu) as [E|Hr']; [rewrite E; exact dead_nomatch|].
    destruct (step_closed p u Hp Hu) as [E|Ht]; [rewrite E; exact dead_nomatch|].
    destruct (reach_closed_spec _ Ht Hr') as [Hm' _].
    unfold marked in Hm, Hm'. apply orb_false_iff in Hm as [Hm _]. apply orb_false_iff in Hm as [Hm _].
    apply orb_false_iff in Hm' as [Hm' _]. apply orb_false_iff in Hm' as [_ Hm'].
    assert (Ee : early d p = None) by (destruct (early d p); [discriminate|reflexivity]).
    rewrite (acc1_kept p u _ Hp Hu eq_refl Ee) in Hm'.
    apply win_none_nomatch. apply acc0_none; [exact Ht|]. destruct (acc0 d (dstep d p u)); [discriminate|reflexivity].
  Qed.

  Lemma live_reached : forall q, Live d q -> In q (qs d) -> pmem q R = true.
  Proof.
    intros q HL. induction HL as [q u Hu Hm|q b Hb HL IH]; intros Hq.
    - destruct (pmem q R) eqn:Er; [reflexivity|]. exfalso. apply Hm. exact (unmarked_child q u Hq Er Hu).
    - destruct (pmem q R) eqn:Er; [reflexivity|]. exfalso.
      destruct (reach_closed_spec q Hq Er) as [_ Hc].
      destruct (Hc (UB b) Hb) as [E|Hr'].
      + rewrite E in HL. exact (dead_not_live HL).
      + destruct (step_closed q (UB b) Hq Hb) as [E|Ht]; [rewrite E in HL; exact (dead_not_live HL)|].
        rewrite (IH Ht) in Hr'. discriminate.
  Qed.

  Lemma dropped_not_live q u : In q (qs d) -> unit_ok u -> keep_target d R (dstep d q u) = false -> ~ Live d (dstep d q u).
  Proof.
    intros Hq Hu Hk HL. unfold keep_target in Hk.
    destruct (step_closed q u Hq Hu) as [E|Ht]; [rewrite E in HL; exact (dead_not_live HL)|].
    apply andb_false_iff in Hk as [Hk|Hk].
    - apply negb_false_iff in Hk. apply is_dead_true in Hk. rewrite Hk in HL. exact (dead_not_live HL).
    - rewrite (live_reached _ HL Ht) in Hk. discriminate.
  Qed.

  (* a dropped target has no winner, unless the parent is early *)
  Lemma dropped_no_win q u : In q (qs d) -> unit_ok u -> keep_target d R (dstep d q u) = false ->
    win d (dstep d q u) = WNone \/ early d q <> None.
  Proof.
    intros Hq Hu Hk.
    destruct (early d q) as [l|] eqn:Ee; [right; discriminate|left].
    destruct (step_closed q u Hq Hu) as [E|Ht]; [rewrite E; exact win_dead|].
    unfold keep_target in Hk. apply andb_false_iff in Hk as [Hk|Hk].
    - apply negb_false_iff in Hk. apply is_dead_true in Hk. rewrite Hk. exact win_dead.
    - destruct (reach_closed_spec _ Ht Hk) as [Hm _].
      unfold marked in Hm. apply orb_false_iff in Hm as [Hm _]. apply orb_false_iff in Hm as [_ Hm].
      rewrite (acc1_kept q u _ Hq Hu eq_refl Ee) in Hm.
      apply acc0_none; [exact Ht|]. destruct (acc0 d (dstep d q u)); [discriminate|reflexivity].
  Qed.

  (* ---------- the graph ---------- *)
  Lemma gfind_build q : In q (qs d) -> pmem q R = true -> gfind g q = Some (bstate d B R q).
  Proof.
    intros Hq Hr. unfold g, build, gfind, build_with. cbn [g_states]. fold B. fold R.
    rewrite (fold_states_find (fun q => pmem q R) (bstate d B R)).
    replace (existsb (Pos.eqb q) (qs d)) with true by (symmetry; apply existsb_eqb_in; exact Hq).
    rewrite Hr. reflexivity.
  Qed.

  Lemma in_class q t b : byte_ok b -> in_ranges b (class_of d q t) = Pos.eqb (target d q b) t.
  Proof.
    intros Hb. unfold in_ranges, class_of. apply eq_iff_eq_true. rewrite existsb_exists. split.
    - intros [r [Hin Hr]]. apply in_map_iff in Hin as [x [<- Hx]]. apply filter_In in Hx as [_ Hx].
      unfold in_range in Hr. cbn [fst snd] in Hr. apply andb_prop in Hr as [H1 H2].
      apply N.leb_le in H1. apply N.leb_le in H2. assert (x = b) by lia. subst. exact Hx.
    - intros H. exists (b, b). split.
      + apply in_map_iff. exists b. split; [reflexivity|]. apply filter_In. split; [apply all_bytes_spec; exact Hb|exact H].
      + unfold in_range. cbn [fst snd]. rewrite N.leb_refl. reflexivity.
  Qed.

  Lemma edge_first_map q b : byte_ok b -> forall ts,
    edge_first (map (fun t => (class_of d q t, t)) ts) b
    = if existsb (Pos.eqb (target d q b)) ts then Some (target d q b) else None.
  Proof.
    intros Hb. induction ts as [|t ts IH]; cbn [map edge_first existsb]; [reflexivity|].
    rewrite (in_class q t b Hb). destruct (Pos.eqb_spec (target d q b) t) as [->|Hne]; cbn [orb]; [reflexivity|exact IH].
  Qed.

  Lemma edge_first_edges q b : byte_ok b ->
    edge_first (edges d R q) b = if keep_target d R (target d q b) then Some (target d q b) else None.
  Proof.
    intros Hb. unfold edges. rewrite (edge_first_map q b Hb). unfold targets. rewrite nodup_acc_mem. cbn [existsb]. rewrite orb_false_r.
    replace (existsb (Pos.eqb (target d q b)) (filter (keep_target d R) (map (target d q) all_bytes)))
      with (keep_target d R (target d q b)); [reflexivity|].
    apply eq_iff_eq_true. rewrite existsb_eqb_in. rewrite filter_In. split.
    - intros H. split; [|exact H]. apply in_map. apply all_bytes_spec. exact Hb.
    - intros [_ H]. exact H.
  Qed.

  Definition InB (s : sid) (q : qid) : Prop := s = q /\ In q (qs d) /\ pmem q R = true.

  Lemma kept_InB q u : In q (qs d) -> unit_ok u -> keep_target d R (dstep d q u) = true -> InB (dstep d q u) (dstep d q u).
  Proof.
    intros Hq Hu Hk. unfold keep_target in Hk. apply andb_prop in Hk as [Hd Hr].
    split; [reflexivity|]. split; [|exact Hr].
    destruct (step_closed q u Hq Hu) as [E|Ht]; [|exact Ht].
    apply negb_true_iff in Hd. apply is_dead_true in E. congruence.
  Qed.

  Lemma pend_build q u : In q (qs d) -> unit_ok u -> In (dstep d q u) (qs d) ->
    PendOk d (bstate d B R q) (bstate d B R (dstep d q u)) (dstep d q u).
  Proof.
    intros Hq Hu Ht. unfold PendOk, bstate. cbn [g_early g_accept]. intros Ee _ Ea.
    rewrite (acc1_kept q u _ Hq Hu eq_refl Ee) in Ea. apply acc0_none; assumption.
  Qed.

  Lemma terminal_build q : In q (qs d) -> TerminalSt (bstate d B R (etarget d q)).
  Proof.
    intros Hq. pose proof side_eoit as H. unfold eoi_terminal in H. rewrite forallb_forall in H.
    specialize (H q Hq). rewrite forallb_forall in H.
    assert (Hall : forall u, unit_ok u -> dstep d (etarget d q) u = d_dead d).
    { intros u Hu. apply is_dead_true. apply H. apply all_units_spec. exact Hu. }
    assert (Hk : keep_target d R (d_dead d) = false).
    { unfold keep_target. replace (is_dead d (d_dead d)) with true; [reflexivity|]. symmetry. apply is_dead_true. reflexivity. }
    unfold TerminalSt, bstate. cbn [g_edges g_eoi g_early]. repeat split.
    - unfold edges, targets.
      replace (filter (keep_target d R) (map (target d (etarget d q)) all_bytes)) with (@nil qid); [reflexivity|].
      symmetry. assert (G : forall l, Forall byte_ok l -> filter (keep_target d R) (map (target d (etarget d q)) l) = []).
      { induction l as [|b l IH]; intros Hl; [reflexivity|]. inversion Hl as [|? ? Hb Hl']; subst.
        cbn [map filter]. unfold target at 1. rewrite (Hall (UB b) Hb), Hk. apply IH. exact Hl'. }
      apply G. apply Forall_forall. intros b Hb.
      unfold all_bytes in Hb. unfold byte_ok.
      assert (G2 : forall n x, In x (upto n) -> x < N.of_nat n).
      { induction n as [|n IHn]; intros x Hin; [destruct Hin|]. cbn [upto] in Hin.
        apply in_app_or in Hin as [Hin|[<-|[]]]; [specialize (IHn x Hin); lia|lia]. }
      apply (G2 256%nat b Hb).
    - unfold eoi_edge, etarget at 1. rewrite (Hall UEoi I), Hk. reflexivity.
    - unfold early, can_error.
      replace (existsb (fun b => is_dead d (target d (etarget d q) b)) all_bytes) with true; [reflexivity|].
      symmetry. apply existsb_exists. exists 0. split; [apply all_bytes_spec; unfold byte_ok; lia|].
      apply is_dead_true. apply (Hall (UB 0)). unfold unit_ok, byte_ok. lia.
  Qed.

  Lemma pair_build s q : InB s q -> PairOk d g InB s q.
  Proof.
    intros [-> [Hq Hr]]. exists (bstate d B R q). split; [exact (gfind_build q Hq Hr)|].
    unfold bstate at 1 2 3 4. cbn [g_early g_accept]. repeat split.
    - intros l He u Hu. exact (early_sound q l Hq He u Hu).
    - intros l _ Ha. apply acc0_some. apply acc1_sub. exact Ha.
    - intros b Hb. unfold ByteOk. cbn [g_edges g_early]. rewrite (edge_first_edges q b Hb).
      fold (target d q b). destruct (keep_target d R (target d q b)) eqn:Hk.
      + destruct (kept_InB q (UB b) Hq Hb Hk) as [_ [Ht Hrt]].
        exists (bstate d B R (target d q b)). split; [exact (gfind_build _ Ht Hrt)|].
        split; [exact (kept_InB q (UB b) Hq Hb Hk)|]. exact (pend_build q (UB b) Hq Hb Ht).
      + split; [exact (dropped_not_live q (UB b) Hq Hb Hk)|exact (dropped_no_win q (UB b) Hq Hb Hk)].
    - unfold EoiOk. change (g_eoi (bstate d B R q)) with (eoi_edge d R q). unfold eoi_edge.
      change (dstep d q UEoi) with (etarget d q).
      destruct (keep_target d R (etarget d q)) eqn:Hk.
      + destruct (kept_InB q UEoi Hq I Hk) as [_ [Ht Hrt]].
        exists (bstate d B R (etarget d q)). split; [exact (gfind_build _ Ht Hrt)|].
        split; [exact (kept_InB q UEoi Hq I Hk)|]. split; [exact (terminal_build q Hq)|].
        exact (pend_build q UEoi Hq I Ht).
      + exact (dropped_no_win q UEoi Hq I Hk).
  Qed.

  Lemma root_InB : InB (g_root g) (d_start d).
  Proof.
    split; [reflexivity|]. split; [exact start_in_qs|].
    destruct (pmem (d_start d) R) eqn:Er; [reflexivity|].
    destruct (reach_closed_spec _ start_in_qs Er) as [Hm _].
    unfold marked in Hm. rewrite Pos.eqb_refl, orb_true_r in Hm. discriminate.
  Qed.

  Lemma start_nomatch : dmatch d (d_start d) = [].
  Proof.
    pose proof side_dfa as H. unfold dfa_ok in H.
    apply andb_prop in H as [H _]. apply andb_prop in H as [H _]. apply andb_prop in H as [_ H].
    apply nomatch_true. exact H.
  Qed.

  (* the generated code's match attempt on the constructed graph is the DFA-level scan *)
  Theorem build_attempt_correct start rest :
    bytes_ok rest -> rest <> [] ->
    exists off, attempt_ref g false start rest = Acted (scan d (d_start d) rest start None) off.
  Proof.
    intros Hw Hne.
    exact (attempt_ctx_correct_a d g InB pair_build start rest root_InB start_nomatch Hw Hne).
  Qed.
End Correct.
