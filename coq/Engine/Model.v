(* Engine/Model.v — executable model of the Logos engine core.  No proofs in this file.

   Layers modelled here (anchors in /repo):
   - the raw all-matches anchored DFA that regex-automata hands to Graph::new (captured as data);
   - the state graph consumed by code generation (mirror of graph::StateData / Graph);
   - the reference semantics of the generated code for one match attempt
       (generator/mod.rs:270-325, fork.rs:31-58, fork.rs:60-125) and of _take_action / Lexer::next
       (generator/leaf.rs:60-93, generator/mod.rs:223-236, src/lexer.rs:251-255);
   - the DFA-level maximal-munch specification. *)
From Coq Require Import List NArith PArith Bool FMapPositive.
Import ListNotations.
Local Open Scope N_scope.

(* ---------- bytes, units ---------- *)
Notation byte := N (only parsing).                       (* well-formed when < 256 *)
Inductive unit_ := UB (b : byte) | UEoi.

Definition ranges := list (N * N).                      (* inclusive *)
Definition in_range (b : byte) (r : N * N) : bool := (fst r <=? b) && (b <=? snd r).
Definition in_ranges (b : byte) (rs : ranges) : bool := existsb (in_range b) rs.

(* 0 .. 255 *)
Fixpoint upto (n : nat) : list N :=
  match n with O => [] | S m => upto m ++ [N.of_nat m] end.
Definition all_bytes : list N := upto 256.
Definition all_units : list unit_ := UEoi :: map UB all_bytes.

(* ---------- raw DFA ---------- *)
Definition leaf := N.
Definition qid  := positive.
Record dstate := { d_trans : list (N * N * qid);        (* runs lo..hi -> next; absent = dead *)
                   d_eoi   : qid;
                   d_match : list leaf }.
Record dfa := { d_states : PositiveMap.t dstate;
                d_start : qid;
                d_dead : qid;                           (* must not be a key of d_states *)
                d_prio : list N }.                      (* priority of leaf i *)

Fixpoint run_lookup (t : list (N * N * qid)) (b : byte) (dead : qid) : qid :=
  match t with
  | [] => dead
  | (lo, hi, n) :: t' => if (lo <=? b) && (b <=? hi) then n else run_lookup t' b dead
  end.

Definition dstep (d : dfa) (q : qid) (u : unit_) : qid :=
  match PositiveMap.find q (d_states d) with
  | None => d_dead d
  | Some st => match u with UB b => run_lookup (d_trans st) b (d_dead d) | UEoi => d_eoi st end
  end.

Definition dmatch (d : dfa) (q : qid) : list leaf :=
  match PositiveMap.find q (d_states d) with None => [] | Some st => d_match st end.

Fixpoint drun (d : dfa) (q : qid) (w : list byte) : qid :=
  match w with [] => q | b :: w' => drun d (dstep d q (UB b)) w' end.

Definition prio (d : dfa) (l : leaf) : N := nth (N.to_nat l) (d_prio d) 0.

(* winner of a match list: the leaf with the strictly greatest priority *)
Inductive winner := WNone | WOne (l : leaf) | WTie.

Fixpoint win_of (pr : leaf -> N) (ms : list leaf) (acc : winner) (best : N) : winner :=
  match ms with
  | [] => acc
  | l :: ms' =>
      match acc with
      | WNone => win_of pr ms' (WOne l) (pr l)
      | _ => if best <? pr l then win_of pr ms' (WOne l) (pr l)
             else if pr l =? best then win_of pr ms' WTie best
             else win_of pr ms' acc best
      end
  end.

Definition win (d : dfa) (q : qid) : winner := win_of (prio d) (dmatch d q) WNone 0.

(* ---------- state graph (mirror of StateData / Graph) ---------- *)
Definition sid := positive.
Record gstate := { g_early : option leaf; g_accept : option leaf;
                   g_edges : list (ranges * sid); g_eoi : option sid }.
Record graph := { g_states : PositiveMap.t gstate; g_root : sid }.

Definition gfind (g : graph) (s : sid) : option gstate := PositiveMap.find s (g_states g).

Fixpoint edge_first (es : list (ranges * sid)) (b : byte) : option sid :=      (* if-chain order *)
  match es with
  | [] => None
  | (rs, t) :: es' => if in_ranges b rs then Some t else edge_first es' b
  end.

Fixpoint edge_last (es : list (ranges * sid)) (b : byte) (acc : option sid) : option sid :=  (* table *)
  match es with
  | [] => acc
  | (rs, t) :: es' => edge_last es' b (if in_ranges b rs then Some t else acc)
  end.

(* ---------- one match attempt, reference semantics ---------- *)
Definition ctx := option (leaf * N).                     (* recorded leaf and token_end *)
Inductive stop :=
| Acted (c : ctx) (offset : N)                           (* fell through to _take_action *)
| RetNone (reset_end : bool)                             (* returned None (partial / root at EOI) *)
| Stuck | Diverged.

(* the `setup` block of generate_state: early wins over accept *)
Definition record (st : gstate) (off : N) (c : ctx) : ctx :=
  match g_early st with
  | Some l => Some (l, off)
  | None => match g_accept st with Some l => Some (l, off - 1) | None => c end
  end.

Definition no_edges (st : gstate) : bool := match g_edges st with [] => true | _ => false end.

(* The partial-mode test of fork_eoi.  [partial_mode_test] is the per-state condition under which
   the generated code contains `if lex.is_prefix() { lex.end(lex.offset()); return None }`. *)
Definition partial_mode_test (st : gstate) : bool :=
  negb (no_edges st) || match g_eoi st with Some _ => true | None => false end.

(* EOI block of fork.rs; hop fuel bounds chains of EOI edges *)
Fixpoint at_eoi (g : graph) (isprefix : bool) (start : N) (hops : nat)
                (s : sid) (off : N) (c : ctx) : stop :=
  match gfind g s with
  | None => Stuck
  | Some st =>
      let c := record st off c in
      if partial_mode_test st && isprefix then RetNone true
      else if (Pos.eqb s (g_root g)) && (off =? start) then RetNone false
      else match g_eoi st with
           | None => Acted c off
           | Some t => match hops with
                       | O => Diverged
                       | S h => at_eoi g isprefix start h t (off + 1) c
                       end
           end
  end.

(* recursion on the unread input; `rest` starts at absolute offset `off` *)
Fixpoint walk (g : graph) (isprefix : bool) (start : N) (hops : nat)
              (rest : list byte) (s : sid) (off : N) (c : ctx) : stop :=
  match rest with
  | [] => at_eoi g isprefix start hops s off c
  | b :: rest' =>
      match gfind g s with
      | None => Stuck
      | Some st =>
          let c := record st off c in
          match edge_first (g_edges st) b with
          | Some t => walk g isprefix start hops rest' t (off + 1) c
          | None => Acted c off
          end
      end
  end.

(* ---------- DFA-level specification of one attempt ---------- *)
Definition upd (best : ctx) (k : N) (wn : winner) : ctx :=
  match wn with WOne l => Some (l, k) | _ => best end.

(* q = DFA state after the bytes of this attempt read so far; k = absolute offset of `rest`.
   A match of the text ending at offset k shows in the state reached by ONE more unit. *)
Fixpoint scan (d : dfa) (q : qid) (rest : list byte) (k : N) (best : ctx) : ctx :=
  match rest with
  | [] => upd best k (win d (dstep d q UEoi))
  | b :: rest' => let q' := dstep d q (UB b) in scan d q' rest' (k + 1) (upd best k (win d q'))
  end.

(* ---------- items and the lexing loop ---------- *)
Inductive action := AEmit | ASkip | AErr | ADefaultErr.   (* what the leaf body decided *)
Inductive item := Item (ok : bool) (l : option leaf) (s e : N).

(* how a call of next() ended *)
Inductive outcome :=
| Yield (it : item) (e : N)          (* Some(item); token_start..token_end = span of item, end = e *)
| Finished (s e : N)                 (* None; span() afterwards *)
| Broken.                            (* Stuck / Diverged / out of fuel *)

(* a region of the input: an item, or a match that was skipped *)
Inductive region := RItem (it : item) | RSkip (l : leaf) (s e : N).

Definition nmax (a b : N) := if a <? b then b else a.

Section Lex.
  Variable attempt : bool -> N -> list byte -> stop.
      (* attempt isprefix start rest : one walk from the root, `rest` = input from `start` on *)
  Variable act : leaf -> N -> N -> action * N.   (* callback oracle: decision and bump amount *)
  Variable fb : N -> N.                          (* find_boundary of the source (identity for bytes) *)
  Variable w : list byte.
  Variable isprefix : bool.

  (* one call of Iterator::next with token_end = start; fuel bounds consecutive skips.
     Returns the regions skipped on the way and how the call ended. *)
  Fixpoint next_from (fuel : nat) (start : N) : list region * outcome :=
    match fuel with
    | O => ([], Broken)
    | S f =>
        match attempt isprefix start (skipn (N.to_nat start) w) with
        | Acted None off =>
            let e := fb (nmax off (start + 1)) in ([], Yield (Item false None start e) e)
        | Acted (Some (l, e)) _ =>
            match act l start e with
            | (AEmit, bump) => ([], Yield (Item true (Some l) start (e + bump)) (e + bump))
            | (ASkip, bump) => let (sk, o) := next_from f (e + bump) in (RSkip l start (e + bump) :: sk, o)
            | (AErr, bump) | (ADefaultErr, bump) => ([], Yield (Item false (Some l) start (e + bump)) (e + bump))
            end
        | RetNone _ => ([], Finished start start)
        | Stuck | Diverged => ([], Broken)
        end
    end.

  (* iterate next() until None; fuel bounds the number of items *)
  Fixpoint lex_from (fuel : nat) (start : N) : list region * outcome :=
    match fuel with
    | O => ([], Broken)
    | S f =>
        match next_from (S (length w)) start with
        | (sk, Yield it e) => let (rs, fin) := lex_from f e in (sk ++ RItem it :: rs, fin)
        | (sk, o) => (sk, o)
        end
    end.

  Definition lex_all : list region * outcome := lex_from (S (S (length w))) 0.
End Lex.

Fixpoint items_of (rs : list region) : list item :=
  match rs with [] => [] | RItem it :: r => it :: items_of r | RSkip _ _ _ :: r => items_of r end.

Definition hops_of (g : graph) : nat := S (S (PositiveMap.cardinal (g_states g))).

Definition attempt_ref (g : graph) (isprefix : bool) (start : N) (rest : list byte) : stop :=
  walk g isprefix start (hops_of g) rest (g_root g) start None.

(* Where an attempt that finds no match stops: the offset of the first unit (end of input counting
   as one) after which the text read can no longer be extended to a match.  [lv] decides liveness
   of DFA states (it is validated against the inductive [Live] by a certificate). *)
Fixpoint viable_end (d : dfa) (lv : qid -> bool) (q : qid) (rest : list byte) (k : N) : N :=
  match rest with
  | [] => k
  | b :: rest' => let q' := dstep d q (UB b) in
                  if lv q' then viable_end d lv q' rest' (k + 1) else k
  end.

(* The DFA-level attempt (ordinary lexer): returns None only at end of input. *)
Definition attempt_spec (d : dfa) (lv : qid -> bool) (isprefix : bool) (start : N) (rest : list byte) : stop :=
  match rest with
  | [] => RetNone false
  | _ => Acted (scan d (d_start d) rest start None) (viable_end d lv (d_start d) rest start)
  end.
