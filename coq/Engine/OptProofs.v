(* Engine/OptProofs.v — the optimised executor (what the generators emit) computes what the
   reference walk computes (C06), and its read log is monotone and linear (C20, C05). *)
From Coq Require Import List Arith NArith PArith Bool FMapPositive Lia.
From LogosV Require Import Engine.Model Engine.Cert Engine.ExecOpt Engine.CertProofs.
Import ListNotations.
Local Open Scope N_scope.

(* ---------- record ---------- *)
Lemma record_idem st o1 o2 c : record st o2 (record st o1 c) = record st o2 c.
Proof. unfold record. destruct (g_early st); [reflexivity|]. destruct (g_accept st); reflexivity. Qed.

Lemma at_eoi_record_irrel g p start hops s st o c1 c2 :
  gfind g s = Some st -> record st o c1 = record st o c2 ->
  at_eoi g p start hops s o c1 = at_eoi g p start hops s o c2.
Proof. intros Hst H. destruct hops; cbn [at_eoi]; rewrite Hst, H; reflexivity. Qed.

Lemma walk_record_irrel g p start hops r s st o c1 c2 :
  gfind g s = Some st -> record st o c1 = record st o c2 ->
  walk g p start hops r s o c1 = walk g p start hops r s o c2.
Proof.
  intros Hst H. destruct r as [|b r]; cbn [walk].
  - exact (at_eoi_record_irrel g p start hops s st o c1 c2 Hst H).
  - rewrite Hst, H. reflexivity.
Qed.

(* the reference walk over a run of bytes that all take the self edge *)
Lemma walk_self_skip g p start hops s st : gfind g s = Some st ->
  forall pre r off c,
  Forall (fun b => edge_first (g_edges st) b = Some s) pre ->
  exists c', walk g p start hops (pre ++ r) s off c = walk g p start hops r s (off + N.of_nat (length pre)) c' /\
             record st (off + N.of_nat (length pre)) c' = record st (off + N.of_nat (length pre)) c.
Proof.
  intros Hst. induction pre as [|b pre IH]; intros r off c HF.
  - exists c. cbn [app length]. replace (off + N.of_nat 0) with off by lia. split; reflexivity.
  - inversion HF as [|? ? Hb HF']; subst. cbn [app walk]. rewrite Hst, Hb.
    destruct (IH r (off + 1) (record st off c) HF') as [c' [Hw Hr]].
    exists c'. cbn [length]. replace (off + N.of_nat (S (length pre))) with (off + 1 + N.of_nat (length pre)) by lia.
    split; [exact Hw|]. rewrite Hr. apply record_idem.
Qed.

(* ---------- fast loop: what it skips ---------- *)
Definition InC (C : ranges) (b : N) : Prop := in_ranges b C = true.

Lemma fast_single_sem C : forall rest off r' o' t,
  fast_single C rest off = (r', o', t) ->
  exists pre, rest = pre ++ r' /\ Forall (InC C) pre /\ o' = off + N.of_nat (length pre) /\
              (match r' with [] => True | b :: _ => in_ranges b C = false end).
Proof.
  induction rest as [|b rest IH]; intros off r' o' t H; cbn [fast_single] in H.
  - injection H as ? ? ?; subst. exists []. cbn. repeat split; [constructor|lia].
  - destruct (in_ranges b C) eqn:E.
    + destruct (fast_single C rest (off + 1)) as [[r1 o1] t1] eqn:E1. injection H as ? ? ?; subst.
      destruct (IH _ _ _ _ E1) as [pre [H1 [H2 [H3 H4]]]].
      exists (b :: pre). subst rest. cbn [app length]. repeat split; [constructor; assumption|lia|exact H4].
    + injection H as ? ? ?; subst. exists []. cbn. repeat split; [constructor|lia|exact E].
Qed.

Lemma first_out_some C : forall n l i, first_out C l n = Some i ->
  (i < n)%nat /\ Forall (InC C) (firstn i l) /\ exists b, nth_error l i = Some b /\ in_ranges b C = false.
Proof.
  induction n as [|n IH]; intros l i H; cbn [first_out] in H; [discriminate|].
  destruct l as [|b l]; [discriminate|].
  destruct (in_ranges b C) eqn:E.
  - destruct (first_out C l n) as [j|] eqn:Ej; [|discriminate]. injection H as <-.
    destruct (IH l j Ej) as [H1 [H2 H3]]. repeat split; [lia| |exact H3].
    cbn [firstn]. constructor; assumption.
  - injection H as <-. repeat split; [lia|constructor|]. exists b. split; [reflexivity|exact E].
Qed.

Lemma first_out_none C : forall n l, first_out C l n = None -> (n <= length l)%nat ->
  Forall (InC C) (firstn n l).
Proof.
  induction n as [|n IH]; intros l H Hl; [constructor|].
  destruct l as [|b l]; [cbn in Hl; lia|]. cbn [first_out] in H.
  destruct (in_ranges b C) eqn:E; [|discriminate].
  destruct (first_out C l n) eqn:Ej; [discriminate|].
  cbn [firstn]. constructor; [exact E|]. apply IH; [exact Ej|cbn in Hl; lia].
Qed.

Lemma fast_chunk_sem U C : forall fuel rest off r' o' t,
  fast_chunk fuel U C rest off = (r', o', t) ->
  exists pre, rest = pre ++ r' /\ Forall (InC C) pre /\ o' = off + N.of_nat (length pre) /\
              (match r' with [] => True | b :: _ => in_ranges b C = false end).
Proof.
  induction fuel as [|fuel IH]; intros rest off r' o' t H; cbn [fast_chunk] in H.
  - exact (fast_single_sem C rest off r' o' t H).
  - destruct (U <=? length rest)%nat eqn:EU.
    + apply Nat.leb_le in EU. destruct (first_out C rest U) as [i|] eqn:Ei.
      * injection H as ? ? ?; subst. destruct (first_out_some C U rest i Ei) as [Hi [HF [b [Hn Hb]]]].
        exists (firstn i rest). rewrite firstn_skipn. repeat split; [exact HF|rewrite firstn_length; lia|].
        destruct (skipn i rest) as [|x r] eqn:Es; [exact I|].
        assert (nth_error rest i = Some x).
        { rewrite <- (firstn_skipn i rest) at 1. rewrite nth_error_app2; rewrite firstn_length; [|lia].
          replace (i - Nat.min i (length rest))%nat with 0%nat by lia. rewrite Es. reflexivity. }
        congruence.
      * destruct (fast_chunk fuel U C (skipn U rest) (off + N.of_nat U)) as [[r1 o1] t1] eqn:E1.
        injection H as ? ? ?; subst. destruct (IH _ _ _ _ _ E1) as [pre [H1 [H2 [H3 H4]]]].
        exists (firstn U rest ++ pre). repeat split.
        -- rewrite <- app_assoc, <- H1. symmetry. apply firstn_skipn.
        -- apply Forall_app. split; [exact (first_out_none C U rest Ei EU)|exact H2].
        -- rewrite app_length, firstn_length. lia.
        -- exact H4.
    + destruct (fast_single C rest off) as [[r1 o1] t1] eqn:E1. injection H as ? ? ?; subst.
      exact (fast_single_sem C rest off _ _ _ E1).
Qed.

(* ---------- edge lookups on a well-formed state ---------- *)
Lemma count_zero_first es b : count_edges es b = 0%nat -> edge_first es b = None.
Proof.
  induction es as [|[rs t] es IH]; cbn [count_edges edge_first]; intros H; [reflexivity|].
  destruct (in_ranges b rs); [lia|]. apply IH. lia.
Qed.

Lemma edge_last_acc es b : forall acc, count_edges es b = 0%nat -> edge_last es b acc = acc.
Proof.
  induction es as [|[rs t] es IH]; intros acc H; cbn [count_edges edge_last] in *; [reflexivity|].
  destruct (in_ranges b rs); [lia|]. apply IH. lia.
Qed.

Lemma edge_last_first es b : (count_edges es b <= 1)%nat -> edge_last es b None = edge_first es b.
Proof.
  induction es as [|[rs t] es IH]; intros H; cbn [count_edges edge_last edge_first] in *; [reflexivity|].
  destruct (in_ranges b rs).
  - apply edge_last_acc. lia.
  - apply IH. lia.
Qed.

Lemma count_filter_le s es b : (count_edges (edges_noself s es) b <= count_edges es b)%nat.
Proof.
  induction es as [|[rs t] es IH]; cbn [edges_noself filter count_edges snd]; [lia|].
  destruct (negb (t =? s)%positive); cbn [count_edges]; fold (edges_noself s es); lia.
Qed.

(* a byte of the self class takes the self edge *)
Lemma self_class_first s : forall es C b,
  (count_edges es b <= 1)%nat -> self_class s es = Some C -> in_ranges b C = true ->
  edge_first es b = Some s.
Proof.
  induction es as [|[rs t] es IH]; intros C b Hc Hs Hb; cbn [self_class edge_first count_edges] in *; [discriminate|].
  destruct (Pos.eqb_spec t s) as [->|Hne].
  - injection Hs as <-. rewrite Hb. reflexivity.
  - destruct (in_ranges b rs) eqn:E.
    + (* then b is in two classes *) exfalso.
      assert (1 <= count_edges es b)%nat; [|lia].
      clear -Hs Hb. induction es as [|[rs' t'] es IH]; cbn [self_class count_edges] in *; [discriminate|].
      destruct (t' =? s)%positive; [injection Hs as <-; rewrite Hb; lia|]. specialize (IH Hs). lia.
    + apply (IH C b); [lia|exact Hs|exact Hb].
Qed.

(* a byte outside the self class (or no self class): the fork's lookup is the reference lookup *)
Lemma noself_first s : forall es b,
  NoDup (map snd es) ->
  (match self_class s es with Some C => in_ranges b C = false | None => True end) ->
  edge_first (edges_noself s es) b = edge_first es b.
Proof.
  induction es as [|[rs t] es IH]; intros b Hnd Hs; cbn [edges_noself filter self_class edge_first snd map] in *; [reflexivity|].
  inversion Hnd as [|? ? Hnin Hnd']; subst.
  destruct (Pos.eqb_spec t s) as [->|Hne]; cbn [negb].
  - rewrite Hs. fold (edges_noself s es).
    (* no other edge targets s, so filtering the tail changes nothing *)
    clear -Hnin. induction es as [|[rs' t'] es IH]; cbn [edges_noself filter edge_first snd map] in *; [reflexivity|].
    destruct (Pos.eqb_spec t' s) as [->|Hne]; [exfalso; apply Hnin; left; reflexivity|].
    cbn [negb edge_first]. fold (edges_noself s es). rewrite IH; [reflexivity|]. intros H. apply Hnin. right. exact H.
  - cbn [edge_first]. fold (edges_noself s es). destruct (in_ranges b rs); [reflexivity|]. apply IH; assumption.
Qed.

Lemma nodup_pos_sound l : nodup_pos l = true -> NoDup l.
Proof.
  induction l as [|x r IH]; cbn [nodup_pos]; intros H; [constructor|].
  apply andb_prop in H as [H1 H2]. constructor; [|exact (IH H2)].
  intros Hin. apply negb_true_iff in H1. assert (existsb (Pos.eqb x) r = true); [|congruence].
  apply existsb_exists. exists x. split; [exact Hin|apply Pos.eqb_refl].
Qed.

Lemma wf_state_facts st : wf_state st = true ->
  (forall b, byte_ok b -> (count_edges (g_edges st) b <= 1)%nat) /\ NoDup (map snd (g_edges st)).
Proof.
  unfold wf_state. intros H. apply andb_prop in H as [H1 H2]. split.
  - intros b Hb. rewrite forallb_forall in H1. apply Nat.leb_le. apply H1. apply all_bytes_spec. exact Hb.
  - apply nodup_pos_sound. exact H2.
Qed.

Lemma wf_graph_state g s st : wf_graph g = true -> gfind g s = Some st -> wf_state st = true.
Proof.
  unfold wf_graph, gfind. intros H Hs. rewrite forallb_forall in H.
  exact (H (s, st) (PositiveMap.elements_correct _ _ Hs)).
Qed.

Lemma fork_lookup_ref s st b : wf_state st = true -> byte_ok b ->
  (match self_class s (g_edges st) with Some C => in_ranges b C = false | None => True end) ->
  fork_lookup s st b = edge_first (g_edges st) b.
Proof.
  intros Hwf Hb Hs. destruct (wf_state_facts st Hwf) as [Hc Hnd].
  unfold fork_lookup. destruct (2 <? length (g_edges st))%nat.
  - rewrite edge_last_first; [apply noself_first; assumption|].
    pose proof (count_filter_le s (g_edges st) b). specialize (Hc b Hb). lia.
  - apply noself_first; assumption.
Qed.

(* ---------- the optimised executor computes the reference walk ---------- *)
Lemma at_eoi_unfold g p start hops s off c :
  at_eoi g p start hops s off c =
  match gfind g s with
  | None => Stuck
  | Some st =>
      let c := record st off c in
      if partial_mode_test st && p then RetNone true
      else if (Pos.eqb s (g_root g)) && (off =? start) then RetNone false
      else match g_eoi st with
           | None => Acted c off
           | Some t => match hops with O => Diverged | S h => at_eoi g p start h t (off + 1) c end
           end
  end.
Proof. destruct hops; reflexivity. Qed.

Lemma fast_loop_sem U s st rest off rest1 off1 tr1 :
  fast_loop U s st rest off = (rest1, off1, tr1) ->
  exists pre, rest = pre ++ rest1 /\ off1 = off + N.of_nat (length pre) /\
    match self_class s (g_edges st) with
    | Some C => Forall (InC C) pre /\ match rest1 with [] => True | b :: _ => in_ranges b C = false end
    | None => pre = []
    end.
Proof.
  unfold fast_loop. destruct (self_class s (g_edges st)) as [C|] eqn:Es; intros H.
  - destruct (fast_chunk_sem U C _ _ _ _ _ _ H) as [pre [H1 [H2 [H3 H4]]]]. exists pre. auto.
  - injection H as ? ? ?; subst. exists []. cbn. repeat split. lia.
Qed.

Theorem walk_opt_ref U g p start : wf_graph g = true ->
  forall fuel hops rest s off c, bytes_ok rest -> (length rest + hops < fuel)%nat ->
  fst (walk_opt U g p start fuel hops rest s off c) = walk g p start hops rest s off c.
Proof.
  intros Hwf. induction fuel as [|fuel IH]; intros hops rest s off c Hw Hf; [lia|].
  cbn [walk_opt].
  destruct (gfind g s) as [st|] eqn:Est.
  2:{ destruct rest; cbn [walk fst]; [rewrite at_eoi_unfold|]; rewrite Est; reflexivity. }
  pose proof (wf_graph_state g s st Hwf Est) as Hwfs.
  destruct (wf_state_facts st Hwfs) as [Hcnt Hnd].
  destruct (fast_loop U s st rest off) as [[rest1 off1] tr1] eqn:Efl.
  destruct (fast_loop_sem U s st rest off rest1 off1 tr1 Efl) as [pre [Hrest [Hoff Hcls]]].
  assert (Hwpre : bytes_ok pre /\ bytes_ok rest1).
  { unfold bytes_ok in *. rewrite Hrest in Hw. apply Forall_app in Hw. exact Hw. }
  destruct Hwpre as [Hwp Hw1].
  assert (Hself : Forall (fun b => edge_first (g_edges st) b = Some s) pre).
  { destruct (self_class s (g_edges st)) as [C|] eqn:Es.
    - destruct Hcls as [HC _]. unfold bytes_ok in Hwp. rewrite Forall_forall in *. intros b Hb.
      apply (self_class_first s (g_edges st) C b); [apply Hcnt; exact (Hwp b Hb)|exact Es|exact (HC b Hb)].
    - subst pre. constructor. }
  destruct (walk_self_skip g p start hops s st Est pre rest1 off c Hself) as [c' [Hskip Hrec]].
  rewrite Hrest, Hskip, <- Hoff. rewrite <- Hoff in Hrec.
  assert (Hlen : length rest = (length pre + length rest1)%nat) by (rewrite Hrest; apply app_length).
  destruct rest1 as [|b rest'].
  - (* end of input in this state *)
    cbn [walk]. rewrite (at_eoi_record_irrel g p start hops s st off1 c' c Est Hrec).
    rewrite at_eoi_unfold, Est. cbn zeta.
    unfold eoi_block.
    destruct (partial_mode_test st && p); [reflexivity|].
    destruct ((s =? g_root g)%positive && (off1 =? start)); [reflexivity|].
    destruct (g_eoi st) as [t|]; [|reflexivity].
    destruct hops as [|h]; [reflexivity|].
    specialize (IH h [] t (off1 + 1) (record st off1 c)).
    destruct (walk_opt U g p start fuel h [] t (off1 + 1) (record st off1 c)) as [r tr] eqn:Ew.
    cbn [fst] in *. rewrite IH; [reflexivity|constructor|cbn [length] in *; lia].
  - cbn [walk]. rewrite Est, Hrec.
    inversion Hw1 as [|? ? Hb Hw']; subst.
    assert (Hfl : fork_lookup s st b = edge_first (g_edges st) b).
    { apply fork_lookup_ref; [exact Hwfs|exact Hb|].
      destruct (self_class s (g_edges st)); [exact (proj2 Hcls)|exact I]. }
    rewrite Hfl. destruct (edge_first (g_edges st) b) as [t|]; [|reflexivity].
    specialize (IH hops rest' t (off + N.of_nat (length pre) + 1) (record st (off + N.of_nat (length pre)) c)).
    destruct (walk_opt U g p start fuel hops rest' t (off + N.of_nat (length pre) + 1) (record st (off + N.of_nat (length pre)) c)) as [r tr] eqn:Ew.
    cbn [fst] in *. apply IH; [exact Hw'|]. cbn [length] in Hlen. lia.
Qed.

Theorem attempt_opt_ref U g p start rest : wf_graph g = true -> bytes_ok rest ->
  fst (attempt_opt U g p start rest) = attempt_ref g p start rest.
Proof.
  intros Hwf Hw. unfold attempt_opt, attempt_ref. apply walk_opt_ref; [exact Hwf|exact Hw|lia].
Qed.

(* ---------- the read log: monotone and linear ---------- *)
(* non-decreasing, bounded below by lo and above by hi *)
Fixpoint sorted_ge (lo : N) (l : list N) : Prop :=
  match l with [] => True | x :: r => lo <= x /\ sorted_ge x r end.
Definition sorted_in (lo : N) (l : list N) (hi : N) : Prop :=
  sorted_ge lo l /\ Forall (fun x => x <= hi) l.

Lemma sorted_ge_weaken l : forall lo lo', lo' <= lo -> sorted_ge lo l -> sorted_ge lo' l.
Proof. destruct l as [|x r]; intros lo lo' H S; cbn in *; [exact I|]. destruct S; split; [lia|assumption]. Qed.

Lemma sorted_in_app l1 : forall l2 a b c, a <= b -> b <= c ->
  sorted_in a l1 b -> sorted_in b l2 c -> sorted_in a (l1 ++ l2) c.
Proof.
  induction l1 as [|x r IH]; intros l2 a b c Hab Hbc [S1 F1] [S2 F2]; cbn [app].
  - split; [exact (sorted_ge_weaken l2 b a Hab S2)|exact F2].
  - cbn in S1. destruct S1 as [Hax S1]. inversion F1 as [|? ? Hxb F1']; subst.
    destruct (IH l2 x b c Hxb Hbc (conj S1 F1') (conj S2 F2)) as [S F].
    split; [cbn [sorted_ge]; split; assumption|constructor; [lia|exact F]].
Qed.

Lemma sorted_in_weaken l a b a' b' : a' <= a -> b <= b' -> sorted_in a l b -> sorted_in a' l b'.
Proof.
  intros Ha Hb [S F]. split; [exact (sorted_ge_weaken l a a' Ha S)|].
  rewrite Forall_forall in *. intros x Hx. specialize (F x Hx). lia.
Qed.

Definition offs (t : rlog) : list N := map fst t.

Lemma sorted_in_cons lo x l hi : lo <= x -> x <= hi -> sorted_in x l hi -> sorted_in lo (x :: l) hi.
Proof. intros H1 H2 [S F]. split; [cbn [sorted_ge]; split; assumption|constructor; assumption]. Qed.
Lemma sorted_in_nil lo hi : sorted_in lo [] hi.
Proof. split; [exact I|constructor]. Qed.

Lemma fast_single_log C : forall rest off r' o' t,
  fast_single C rest off = (r', o', t) ->
  off <= o' /\ sorted_in off (offs t) o' /\ N.of_nat (length t) <= o' - off + 1.
Proof.
  induction rest as [|b rest IH]; intros off r' o' t H; cbn [fast_single] in H.
  - injection H as ? ? ?; subst. split; [lia|]. split; [|cbn [length]; lia].
    apply sorted_in_cons; [cbn; lia|cbn; lia|apply sorted_in_nil].
  - destruct (in_ranges b C).
    + destruct (fast_single C rest (off + 1)) as [[r1 o1] t1] eqn:E1. injection H as ? ? ?; subst.
      destruct (IH _ _ _ _ E1) as [Hle [S Hl]]. split; [lia|]. split; [|cbn [length]; lia].
      unfold offs. cbn [map fst]. apply sorted_in_cons; [lia|lia|].
      eapply sorted_in_weaken; [| |exact S]; lia.
    + injection H as ? ? ?; subst. split; [lia|]. split; [|cbn [length]; lia].
      apply sorted_in_cons; [cbn; lia|cbn; lia|apply sorted_in_nil].
Qed.

Lemma fast_chunk_log U C : (1 <= U)%nat -> forall fuel rest off r' o' t,
  fast_chunk fuel U C rest off = (r', o', t) ->
  off <= o' /\ sorted_in off (offs t) o' /\ N.of_nat (length t) <= o' - off + 2.
Proof.
  intros HU. induction fuel as [|fuel IH]; intros rest off r' o' t H; cbn [fast_chunk] in H.
  - destruct (fast_single_log C rest off r' o' t H) as [A [B D]]. split; [exact A|]. split; [exact B|lia].
  - destruct (U <=? length rest)%nat.
    + destruct (first_out C rest U) as [i|].
      * injection H as ? ? ?; subst. split; [lia|]. split; [|cbn [length]; lia].
        apply sorted_in_cons; [cbn; lia|cbn; lia|apply sorted_in_nil].
      * destruct (fast_chunk fuel U C (skipn U rest) (off + N.of_nat U)) as [[r1 o1] t1] eqn:E1.
        injection H as ? ? ?; subst. destruct (IH _ _ _ _ _ E1) as [Hle [S Hl]].
        split; [lia|]. split; [|cbn [length]; lia].
        unfold offs. cbn [map fst]. apply sorted_in_cons; [lia|lia|].
        eapply sorted_in_weaken; [| |exact S]; lia.
    + destruct (fast_single C rest off) as [[r1 o1] t1] eqn:E1. injection H as ? ? ?; subst.
      destruct (fast_single_log C rest off _ _ _ E1) as [Hle [S Hl]].
      split; [lia|]. split; [|cbn [length]; lia].
      unfold offs. cbn [map fst]. apply sorted_in_cons; [lia|lia|exact S].
Qed.

Lemma fast_loop_log U s st rest off rest1 off1 tr1 : (1 <= U)%nat ->
  fast_loop U s st rest off = (rest1, off1, tr1) ->
  off <= off1 /\ sorted_in off (offs tr1) off1 /\ N.of_nat (length tr1) <= off1 - off + 2.
Proof.
  intros HU. unfold fast_loop. destruct (self_class s (g_edges st)) as [C|]; intros H.
  - exact (fast_chunk_log U C HU _ _ _ _ _ _ H).
  - injection H as ? ? ?; subst. split; [lia|]. split; [apply sorted_in_nil|cbn; lia].
Qed.

(* one visit's log followed by the log of what comes after it *)
Lemma visit_log off off1 tr1 tr' hi' :
  off <= off1 -> sorted_in off (offs tr1) off1 -> N.of_nat (length tr1) <= off1 - off + 2 ->
  off1 + 1 <= hi' + 1 -> sorted_in (off1 + 1) (offs tr') hi' \/ tr' = [] ->
  N.of_nat (length tr') <= 3 * (hi' - off1) ->
  exists hi, off <= hi /\ sorted_in off (offs (tr1 ++ (off1, 1) :: tr')) hi /\
             N.of_nat (length (tr1 ++ (off1, 1) :: tr')) <= 3 * (hi + 1 - off).
Proof.
  intros Hle S1 L1 Hhi S' L'.
  exists (N.max off1 hi'). split; [lia|]. split.
  - unfold offs. rewrite map_app. cbn [map fst].
    apply (sorted_in_app _ _ off off1 _); [lia|lia|exact S1|].
    apply sorted_in_cons; [lia|lia|].
    destruct S' as [S| ->]; [|apply sorted_in_nil].
    eapply sorted_in_weaken; [| |exact S]; lia.
  - rewrite app_length. cbn [length]. lia.
Qed.

Theorem walk_opt_log U g p start : (1 <= U)%nat ->
  forall fuel hops rest s off c r tr,
  walk_opt U g p start fuel hops rest s off c = (r, tr) ->
  exists hi, off <= hi /\ sorted_in off (offs tr) hi /\ N.of_nat (length tr) <= 3 * (hi + 1 - off).
Proof.
  intros HU. induction fuel as [|fuel IH]; intros hops rest s off c r tr H; cbn [walk_opt] in H.
  - injection H as ? ?; subst. exists off. split; [lia|]. split; [apply sorted_in_nil|cbn; lia].
  - destruct (gfind g s) as [st|].
    2:{ injection H as ? ?; subst. exists off. split; [lia|]. split; [apply sorted_in_nil|cbn; lia]. }
    destruct (fast_loop U s st rest off) as [[rest1 off1] tr1] eqn:Efl.
    destruct (fast_loop_log U s st rest off rest1 off1 tr1 HU Efl) as [Hle [S1 L1]].
    destruct rest1 as [|b rest'].
    + (* end of input *)
      unfold eoi_block in H.
      assert (Hnil : forall r0, (r0, tr1 ++ [(off1, 1)]) = (r, tr) ->
        exists hi, off <= hi /\ sorted_in off (offs tr) hi /\ N.of_nat (length tr) <= 3 * (hi + 1 - off)).
      { intros r0 E. injection E as ? ?; subst.
        apply (visit_log off off1 tr1 [] off1); [lia|exact S1|exact L1|lia|right; reflexivity|cbn; lia]. }
      destruct (partial_mode_test st && p); [exact (Hnil _ H)|].
      destruct ((s =? g_root g)%positive && (off1 =? start)); [exact (Hnil _ H)|].
      destruct (g_eoi st) as [t|]; [|exact (Hnil _ H)].
      destruct hops as [|h]; [exact (Hnil _ H)|].
      destruct (walk_opt U g p start fuel h [] t (off1 + 1) (record st off1 c)) as [r2 tr2] eqn:Ew.
      injection H as ? ?; subst.
      destruct (IH _ _ _ _ _ _ _ Ew) as [hi' [Hh [S' L']]].
      apply (visit_log off off1 tr1 tr2 hi'); [lia|exact S1|exact L1|lia|left; exact S'|lia].
    + destruct (fork_lookup s st b) as [t|].
      * destruct (walk_opt U g p start fuel hops rest' t (off1 + 1) (record st off1 c)) as [r2 tr2] eqn:Ew.
        injection H as ? ?; subst.
        destruct (IH _ _ _ _ _ _ _ Ew) as [hi' [Hh [S' L']]].
        apply (visit_log off off1 tr1 tr2 hi'); [lia|exact S1|exact L1|lia|left; exact S'|lia].
      * injection H as ? ?; subst.
        apply (visit_log off off1 tr1 [] off1); [lia|exact S1|exact L1|lia|right; reflexivity|cbn; lia].
Qed.
