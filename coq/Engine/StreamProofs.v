(* Engine/StreamProofs.v — stream-level statements of partial lexing (C07): the regions a partial lexer
   produces over a prefix before its first None are a leading run of the regions of the one-shot
   lexing of the whole input, and lexing the whole input from the position reported at None gives
   the rest; hence feeding the input in any sequence of growing buffers and finishing with an
   ordinary lexer reproduces the one-shot stream.  Built on Engine/PartialProofs.v (one call of
   next()).  Holds for every graph; only "the one-shot lexing is not Broken" is assumed, which
   C03_tiling provides under the certificate. *)
From Coq Require Import List Arith NArith PArith Bool Lia.
From LogosV Require Import Engine.Model Engine.PartialProofs.
Import ListNotations.
Local Open Scope N_scope.

(* ---------- fuel only matters when it runs out ---------- *)
Section Fuel.
  Variable attempt : bool -> N -> list byte -> stop.
  Variable act : leaf -> N -> N -> action * N.
  Variable fb : N -> N.
  Variable w : list byte.
  Variable p : bool.

  Lemma next_from_mono : forall f f' start sk o, (f <= f')%nat ->
    next_from attempt act fb w p f start = (sk, o) -> o <> Broken ->
    next_from attempt act fb w p f' start = (sk, o).
  Proof.
    induction f as [|f IH]; intros f' start sk o Hle H Hnb.
    - cbn [next_from] in H. injection H as <- <-. congruence.
    - destruct f' as [|f']; [lia|]. cbn [next_from] in *.
      destruct (attempt p start (skipn (N.to_nat start) w)) as [[[l e]|] off|r| |]; try exact H.
      destruct (act l start e) as [[] bump]; try exact H.
      destruct (next_from attempt act fb w p f (e + bump)) as [sk0 o0] eqn:En.
      injection H as <- <-.
      rewrite (IH f' (e + bump) sk0 o0); [reflexivity|lia|exact En|exact Hnb].
  Qed.

  Lemma lex_from_mono : forall f f' start rs o, (f <= f')%nat ->
    lex_from attempt act fb w p f start = (rs, o) -> o <> Broken ->
    lex_from attempt act fb w p f' start = (rs, o).
  Proof.
    induction f as [|f IH]; intros f' start rs o Hle H Hnb.
    - cbn [lex_from] in H. injection H as <- <-. congruence.
    - destruct f' as [|f']; [lia|]. cbn [lex_from] in *.
      destruct (next_from attempt act fb w p (S (length w)) start) as [sk [it e|s e|]]; try exact H.
      destruct (lex_from attempt act fb w p f e) as [rs1 fin] eqn:El.
      injection H as <- <-.
      rewrite (IH f' e rs1 fin); [reflexivity|lia|exact El|exact Hnb].
  Qed.
End Fuel.

Section Stream.
  Variable g : graph.
  Variable act : leaf -> N -> N -> action * N.
  Variable fbw : N -> N.              (* find_boundary of the whole input *)
  Variable w : list byte.            (* the whole input *)

  (* None of the partial lexer, with a bound on the fuel of the continuation *)
  Lemma next_prefix_none_le fbp k : (k <= length w)%nat -> (forall i, i <= N.of_nat k -> fbp i = fbw i) ->
    forall fuel fuel' start sk s,
    (fuel <= fuel')%nat ->
    next_from (attempt_ref g) act fbp (firstn k w) true fuel start = (sk, Finished s s) ->
    exists f'', (0 < f'' <= fuel')%nat /\
      next_from (attempt_ref g) act fbw w false fuel' start =
      (sk ++ fst (next_from (attempt_ref g) act fbw w false f'' s),
       snd (next_from (attempt_ref g) act fbw w false f'' s)).
  Proof.
    intros Hk Hfb.
    induction fuel as [|fuel IH]; intros fuel' start sk s Hf H; [discriminate|].
    destruct fuel' as [|fuel']; [lia|]. cbn [next_from] in H.
    destruct (attempt_ref g true start (skipn (N.to_nat start) (firstn k w))) as [c off|r| |] eqn:Ea; try discriminate.
    - destruct (N.lt_ge_cases (N.of_nat k) start) as [Hgt|Hs].
      { rewrite (skipn_firstn_nil w k Hk start Hgt) in Ea. exfalso. exact (attempt_partial_empty g start c off Ea). }
      destruct c as [[l e0]|]; [|discriminate].
      destruct (act l start e0) as [a bump] eqn:Eact. destruct a; try discriminate.
      destruct (next_from (attempt_ref g) act fbp (firstn k w) true fuel (e0 + bump)) as [sk0 o0] eqn:En.
      injection H as <- ->.
      destruct (IH fuel' (e0 + bump) sk0 s) as [f'' [Hpos Hn]]; [lia|exact En|].
      exists f''. split; [lia|].
      cbn [next_from]. rewrite (attempt_prefix_safe g w k Hk start _ off Hs Ea). rewrite Eact.
      rewrite Hn. reflexivity.
    - injection H as <- <-. exists (S fuel'). split; [lia|]. cbn [app].
      destruct (next_from (attempt_ref g) act fbw w false (S fuel') start); reflexivity.
  Qed.

  (* The stream of a partial lexer over w[..k], from any position, until its first None at s:
     a leading run of the one-shot stream from the same position, and the one-shot lexing from s
     is the rest (with the same ending). *)
  Theorem lex_prefix_stream fbp k : (k <= length w)%nat -> (forall i, i <= N.of_nat k -> fbp i = fbw i) ->
    forall F1 F2 start rs s rs2 fin2,
    (F1 <= F2)%nat ->
    lex_from (attempt_ref g) act fbp (firstn k w) true F1 start = (rs, Finished s s) ->
    lex_from (attempt_ref g) act fbw w false F2 start = (rs2, fin2) -> fin2 <> Broken ->
    exists rs3 F3, (0 < F3 <= F2)%nat /\ rs2 = rs ++ rs3 /\
      lex_from (attempt_ref g) act fbw w false F3 s = (rs3, fin2).
  Proof.
    intros Hk Hfb.
    induction F1 as [|F1 IH]; intros F2 start rs s rs2 fin2 HF H1 H2 Hnb; [discriminate|].
    destruct F2 as [|F2]; [lia|].
    assert (Hlen : (S (length (firstn k w)) <= S (length w))%nat) by (rewrite firstn_length; lia).
    cbn [lex_from] in H1.
    destruct (next_from (attempt_ref g) act fbp (firstn k w) true (S (length (firstn k w))) start) as [sk o] eqn:En.
    destruct o as [it e|a b|]; try discriminate.
    - (* an item: the one-shot lexer yields the same *)
      pose proof (next_prefix_safe g act fbp fbw w k Hk Hfb _ _ start sk it e Hlen En) as Hw.
      cbn [lex_from] in H2. rewrite Hw in H2.
      destruct (lex_from (attempt_ref g) act fbp (firstn k w) true F1 e) as [rs1 fin1] eqn:E1.
      destruct (lex_from (attempt_ref g) act fbw w false F2 e) as [rs2' fin2'] eqn:E2.
      injection H1 as <- ->. injection H2 as <- <-.
      destruct (IH F2 e rs1 s rs2' fin2') as [rs3 [F3 [HF3 [Hrs HL]]]]; [lia|exact E1|exact E2|exact Hnb|].
      exists rs3, F3. split; [lia|]. split; [|exact HL].
      rewrite Hrs. rewrite <- app_assoc. cbn [app]. reflexivity.
    - (* None: the one-shot lexer goes on from s *)
      injection H1 as Hsk Ha Hb. subst rs a b.
      destruct (next_prefix_none_le fbp k Hk Hfb _ _ start sk s Hlen En) as [f'' [Hf'' Hn]].
      (* the continuation with the standard skip fuel *)
      destruct (next_from (attempt_ref g) act fbw w false f'' s) as [skA oA] eqn:EA. cbn [fst snd] in Hn.
      assert (HoA : oA <> Broken).
      { intros ->. cbn [lex_from] in H2. rewrite Hn in H2. injection H2 as _ <-. congruence. }
      pose proof (next_from_mono (attempt_ref g) act fbw w false f'' (S (length w)) s skA oA (proj2 Hf'') EA HoA) as HA.
      exists (skipn (length sk) rs2), (S F2). split; [lia|].
      cbn [lex_from] in H2 |- *. rewrite Hn in H2. rewrite HA.
      destruct oA as [it e|x y|]; [| |congruence].
      + destruct (lex_from (attempt_ref g) act fbw w false F2 e) as [rs' fin'].
        injection H2 as <- <-. rewrite <- app_assoc.
        rewrite skipn_app, skipn_all, Nat.sub_diag. cbn [skipn app]. split; reflexivity.
      + injection H2 as <- <-.
        rewrite skipn_app, skipn_all, Nat.sub_diag. cbn [skipn app]. split; reflexivity.
  Qed.

  (* ---------- chunked feeding ---------- *)
  (* The buffer grows through the prefixes w[..k1], w[..k2], ...; each time the partial lexer is run
     until None and the next one resumes at the reported position; an ordinary lexer over the whole
     input finishes. *)
  Variable fbk : nat -> N -> N.        (* find_boundary of the prefix of length k *)

  Fixpoint chunked (ks : list nat) (start : N) : list region * outcome :=
    match ks with
    | [] => lex_from (attempt_ref g) act fbw w false (S (S (length w))) start
    | k :: ks' =>
        match lex_from (attempt_ref g) act (fbk k) (firstn k w) true (S (S (length (firstn k w)))) start with
        | (rs, Finished s _) => let (rs', fin) := chunked ks' s in (rs ++ rs', fin)
        | (rs, o) => (rs, o)
        end
    end.

  Hypothesis Hfbk : forall k i, i <= N.of_nat k -> fbk k i = fbw i.

  (* a partial lexer reports None with an empty span *)
  Lemma next_finished_empty fb (u : list byte) pfx : forall fuel start sk s e,
    next_from (attempt_ref g) act fb u pfx fuel start = (sk, Finished s e) -> s = e.
  Proof.
    induction fuel as [|fuel IH]; intros start sk s e H; [discriminate|]. cbn [next_from] in H.
    destruct (attempt_ref g pfx start (skipn (N.to_nat start) u)) as [[[l e0]|] off|r| |]; try discriminate.
    - destruct (act l start e0) as [[] bump]; try discriminate.
      destruct (next_from (attempt_ref g) act fb u pfx fuel (e0 + bump)) as [sk0 o0] eqn:En.
      injection H as _ ->. exact (IH _ _ _ _ En).
    - injection H as _ <- <-. reflexivity.
  Qed.

  Lemma lex_finished_empty fb (u : list byte) pfx : forall fuel start rs s e,
    lex_from (attempt_ref g) act fb u pfx fuel start = (rs, Finished s e) -> s = e.
  Proof.
    induction fuel as [|fuel IH]; intros start rs s e H; [discriminate|]. cbn [lex_from] in H.
    destruct (next_from (attempt_ref g) act fb u pfx (S (length u)) start) as [sk [it e1|a b|]] eqn:En; try discriminate.
    - destruct (lex_from (attempt_ref g) act fb u pfx fuel e1) as [rs1 fin] eqn:El.
      injection H as _ ->. exact (IH _ _ _ _ El).
    - injection H as _ <- <-. exact (next_finished_empty _ _ _ _ _ _ _ _ En).
  Qed.

  Theorem chunked_eq_oneshot : forall ks start rsW finW,
    Forall (fun k => (k <= length w)%nat) ks ->
    lex_from (attempt_ref g) act fbw w false (S (S (length w))) start = (rsW, finW) -> finW <> Broken ->
    forall rs fin, chunked ks start = (rs, fin) -> fin <> Broken ->
    (rs, fin) = (rsW, finW).
  Proof.
    induction ks as [|k ks IH]; intros start rsW finW Hks HW HnbW rs fin HC Hnb; cbn [chunked] in HC.
    - rewrite HW in HC. symmetry. exact HC.
    - inversion Hks as [|k0 ks0 Hk Hks']; subst.
      destruct (lex_from (attempt_ref g) act (fbk k) (firstn k w) true (S (S (length (firstn k w)))) start) as [rs1 o1] eqn:E1.
      destruct o1 as [it e|s e|].
      + injection HC as <- <-. (* a lex_from never ends in Yield *) exfalso.
        clear -E1. revert start rs1 E1. generalize (S (S (length (firstn k w)))) as F.
        induction F as [|F IHF]; intros start rs1 E1; cbn [lex_from] in E1; [discriminate|].
        destruct (next_from (attempt_ref g) act (fbk k) (firstn k w) true (S (length (firstn k w))) start) as [sk [it1 e1|a b|]]; try discriminate.
        destruct (lex_from (attempt_ref g) act (fbk k) (firstn k w) true F e1) as [rs' fin'] eqn:El.
        injection E1 as _ ->. exact (IHF _ _ El).
      + pose proof (lex_finished_empty _ _ _ _ _ _ _ _ E1) as <-.
        assert (HF : (S (S (length (firstn k w))) <= S (S (length w)))%nat) by (rewrite firstn_length; lia).
        destruct (lex_prefix_stream (fbk k) k Hk (Hfbk k) _ _ start rs1 s rsW finW HF E1 HW HnbW) as [rs3 [F3 [HF3 [Hrs HL]]]].
        pose proof (lex_from_mono (attempt_ref g) act fbw w false F3 (S (S (length w))) s rs3 finW (proj2 HF3) HL HnbW) as HL'.
        destruct (chunked ks s) as [rs' fin'] eqn:EC.
        injection HC as <- <-.
        pose proof (IH s rs3 finW Hks' HL' HnbW rs' fin' EC Hnb) as Heq.
        injection Heq as -> ->. rewrite Hrs. reflexivity.
      + injection HC as _ <-. congruence.
  Qed.
End Stream.

(* ---------- under the certificate, no run of a partial lexer is Broken ---------- *)
From LogosV Require Import Engine.Cert Engine.CertProofs Engine.LexProofs.

Definition good_stop (r : stop) : Prop := match r with Stuck | Diverged => False | _ => True end.

Section Total.
  Variables (d : dfa) (g : graph) (V : pairing) (R : rankmap) (D : pset).
  Hypothesis Hok : dfa_ok d = true.
  Hypothesis Hsim : sim_ok d g V D = true.
  Hypothesis Hex : exact_ok d g V R D = true.

  Lemma pair_state s q : inV V s q = true -> exists st, gfind g s = Some st.
  Proof.
    intros H. pose proof (sim_pair d g V D Hsim s q H) as Hp. unfold pair_ok in Hp.
    destruct (gfind g s) as [st|]; [exists st; reflexivity|discriminate].
  Qed.

  (* partial mode never follows an end-of-input edge: no hop fuel is used *)
  Lemma at_eoi_partial_good start hops s q off c : inV V s q = true ->
    good_stop (at_eoi g true start hops s off c).
  Proof.
    intros HV. destruct (pair_state s q HV) as [st Hst].
    destruct hops as [|h]; cbn [at_eoi]; rewrite Hst;
      (destruct (partial_mode_test st) eqn:Ep; cbn [andb]; [exact I|]);
      (destruct ((s =? g_root g)%positive && (off =? start)); [exact I|]);
      unfold partial_mode_test in Ep; apply Bool.orb_false_elim in Ep as [_ Ee];
      destruct (g_eoi st); try discriminate; exact I.
  Qed.

  Lemma walk_partial_good start hops : forall rest s q off c, bytes_ok rest -> inV V s q = true ->
    good_stop (walk g true start hops rest s off c).
  Proof.
    induction rest as [|b rest IH]; intros s q off c Hb HV; cbn [walk].
    - exact (at_eoi_partial_good start hops s q off c HV).
    - destruct (pair_state s q HV) as [st Hst]. rewrite Hst.
      inversion Hb as [|b0 r0 Hb1 Hb2]; subst.
      destruct (pair_facts d g V D Hsim s q st HV Hst) as [_ [_ [Hbyte _]]].
      specialize (Hbyte b Hb1). unfold Cert.byte_ok in Hbyte.
      destruct (edge_first (g_edges st) b) as [t|]; [|exact I].
      destruct (gfind g t) as [st'|]; [|discriminate].
      apply andb_prop in Hbyte as [Hin _].
      exact (IH t _ _ _ Hb2 Hin).
  Qed.

  Lemma attempt_partial_good start rest : bytes_ok rest -> good_stop (attempt_ref g true start rest).
  Proof. intros Hb. unfold attempt_ref. apply (walk_partial_good start _ rest _ (d_start d)); [exact Hb|exact (sim_root d g V D Hsim)]. Qed.

  Variable act : leaf -> N -> N -> action * N.
  Variable w : list byte.
  Hypothesis Hw : bytes_ok w.
  Variable k : nat.
  Hypothesis Hk : (k <= length w)%nat.
  Variable fbp : N -> N.
  Hypothesis fbp_ok : forall i, i <= N.of_nat k -> i <= fbp i.

  Lemma bytes_ok_skipn_firstn n : bytes_ok (skipn n (firstn k w)).
  Proof.
    unfold bytes_ok in *. rewrite Forall_forall in *. intros x Hx.
    apply Hw.
    assert (H1 : In x (firstn k w)).
    { rewrite <- (firstn_skipn n (firstn k w)). apply in_or_app. right. exact Hx. }
    rewrite <- (firstn_skipn k w). apply in_or_app. left. exact H1.
  Qed.

  (* one call of next() of the partial lexer: fuel for the skips up to the end of the buffer is enough *)
  Lemma next_partial_not_broken : forall fuel start,
    (N.to_nat (N.of_nat k - start) < fuel)%nat ->
    snd (next_from (attempt_ref g) act fbp (firstn k w) true fuel start) <> Broken.
  Proof.
    induction fuel as [|fuel IH]; intros start Hf; [lia|]. cbn [next_from].
    pose proof (attempt_partial_good start (skipn (N.to_nat start) (firstn k w)) (bytes_ok_skipn_firstn _)) as Hg.
    destruct (attempt_ref g true start (skipn (N.to_nat start) (firstn k w))) as [c off|r| |] eqn:Ea;
      try contradiction; [|cbn; discriminate].
    destruct c as [[l e]|]; [|cbn; discriminate].
    destruct (act l start e) as [[] bump] eqn:Eact; try (cbn; discriminate).
    (* a skip: the next attempt starts further on *)
    destruct (N.lt_ge_cases (N.of_nat k) start) as [Hgt|Hs].
    { rewrite (skipn_firstn_nil w k Hk start Hgt) in Ea. exfalso. exact (attempt_partial_empty g start _ off Ea). }
    assert (Hlt : start < N.of_nat (length w) /\ start < N.of_nat k).
    { destruct (skipn (N.to_nat start) (firstn k w)) as [|b r] eqn:Er.
      - exfalso. exact (attempt_partial_empty g start _ off Ea).
      - assert (Hl : (1 <= length (skipn (N.to_nat start) (firstn k w)))%nat) by (rewrite Er; cbn; lia).
        rewrite skipn_length, firstn_length in Hl. lia. }
    pose proof (attempt_prefix_safe g w k Hk start _ off Hs Ea) as Hfull.
    assert (Hse : start < e).
    { destruct (attempt_shape d g V R D Hok Hsim Hex w Hw start (proj1 Hlt)) as [[l' [e' [off' [Ha [Hlt' _]]]]]|[off' [Ha _]]];
        rewrite Hfull in Ha; [injection Ha as _ <- _; exact Hlt'|discriminate]. }
    specialize (IH (e + bump)).
    destruct (next_from (attempt_ref g) act fbp (firstn k w) true fuel (e + bump)) as [sk o].
    cbn [snd] in *. apply IH. lia.
  Qed.

  (* where a call of next() of the partial lexer leaves the position: strictly further on *)
  Lemma next_partial_advances : forall fuel start sk it e,
    next_from (attempt_ref g) act fbp (firstn k w) true fuel start = (sk, Yield it e) -> start < e /\ start < N.of_nat k.
  Proof.
    induction fuel as [|fuel IH]; intros start sk it e H; [discriminate|]. cbn [next_from] in H.
    destruct (attempt_ref g true start (skipn (N.to_nat start) (firstn k w))) as [c off|r| |] eqn:Ea; try discriminate.
    destruct (N.lt_ge_cases (N.of_nat k) start) as [Hgt|Hs].
    { rewrite (skipn_firstn_nil w k Hk start Hgt) in Ea. exfalso. exact (attempt_partial_empty g start _ off Ea). }
    assert (Hlt : start < N.of_nat (length w) /\ start < N.of_nat k).
    { destruct (skipn (N.to_nat start) (firstn k w)) as [|b r] eqn:Er.
      - exfalso. exact (attempt_partial_empty g start _ off Ea).
      - assert (Hl : (1 <= length (skipn (N.to_nat start) (firstn k w)))%nat) by (rewrite Er; cbn; lia).
        rewrite skipn_length, firstn_length in Hl. lia. }
    pose proof (attempt_prefix_safe g w k Hk start _ off Hs Ea) as Hfull.
    destruct c as [[l e0]|].
    - assert (Hse : start < e0).
      { destruct (attempt_shape d g V R D Hok Hsim Hex w Hw start (proj1 Hlt)) as [[l' [e' [off' [Ha [Hlt' _]]]]]|[off' [Ha _]]];
          rewrite Hfull in Ha; [injection Ha as _ <- _; exact Hlt'|discriminate]. }
      destruct (act l start e0) as [[] bump].
      + injection H as _ _ <-. lia.
      + destruct (next_from (attempt_ref g) act fbp (firstn k w) true fuel (e0 + bump)) as [sk0 o0] eqn:En.
        injection H as _ ->. pose proof (IH _ _ _ _ En). lia.
      + injection H as _ _ <-. lia.
      + injection H as _ _ <-. lia.
    - injection H as _ _ <-.
      assert (Hm : start + 1 <= nmax off (start + 1) /\ nmax off (start + 1) <= N.of_nat k).
      { unfold attempt_ref, hops_of in Ea.
        apply walk_off_le in Ea as [_ Hle]. rewrite skipn_length, firstn_length in Hle.
        unfold nmax. destruct (N.ltb_spec off (start + 1)); lia. }
      pose proof (fbp_ok _ (proj2 Hm)). lia.
  Qed.

  Lemma lex_partial_not_broken : forall fuel start,
    (N.to_nat (N.of_nat k - start) < fuel)%nat ->
    snd (lex_from (attempt_ref g) act fbp (firstn k w) true fuel start) <> Broken.
  Proof.
    induction fuel as [|fuel IH]; intros start Hf; [lia|]. cbn [lex_from].
    assert (Hn : (N.to_nat (N.of_nat k - start) < S (length (firstn k w)))%nat) by (rewrite firstn_length; lia).
    pose proof (next_partial_not_broken _ start Hn) as Hnb.
    destruct (next_from (attempt_ref g) act fbp (firstn k w) true (S (length (firstn k w))) start) as [sk [it e|a b|]] eqn:En;
      cbn [snd] in *; [|discriminate|congruence].
    pose proof (next_partial_advances _ _ _ _ _ En) as Hadv.
    specialize (IH e).
    destruct (lex_from (attempt_ref g) act fbp (firstn k w) true fuel e) as [rs fin]. cbn [snd] in *.
    apply IH. lia.
  Qed.
End Total.

(* ---------- the chunking theorem without side conditions on the runs ---------- *)
Section ChunkedTotal.
  Variables (d : dfa) (g : graph) (V : pairing) (R : rankmap) (D : pset).
  Hypothesis Hok : dfa_ok d = true.
  Hypothesis Hsim : sim_ok d g V D = true.
  Hypothesis Hex : exact_ok d g V R D = true.
  Variable act : leaf -> N -> N -> action * N.
  Variable fbw : N -> N.
  Variable fbk : nat -> N -> N.
  Variable w : list byte.
  Hypothesis Hw : bytes_ok w.
  Hypothesis act_ok : forall l s e, s < e -> e <= N.of_nat (length w) -> e + snd (act l s e) <= N.of_nat (length w).
  Hypothesis fb_ok : forall i, i <= N.of_nat (length w) -> i <= fbw i /\ fbw i <= N.of_nat (length w).
  Hypothesis Hfbk : forall k i, i <= N.of_nat k -> fbk k i = fbw i.

  Lemma chunked_not_broken : forall ks start,
    Forall (fun k => (k <= length w)%nat) ks -> start <= N.of_nat (length w) ->
    snd (chunked g act fbw w fbk ks start) <> Broken.
  Proof.
    induction ks as [|k ks IH]; intros start Hks Hs; cbn [chunked].
    - destruct (lex_progress d g V R D Hok Hsim Hex act fbw w Hw act_ok fb_ok (S (S (length w))) start Hs) as [rs [-> _]]; [lia|].
      cbn. discriminate.
    - inversion Hks as [|k0 ks0 Hk Hks']; subst.
      assert (Hfbp : forall i, i <= N.of_nat k -> i <= fbk k i).
      { intros i Hi. rewrite (Hfbk k i Hi). apply fb_ok. lia. }
      assert (Hf : (N.to_nat (N.of_nat k - start) < S (S (length (firstn k w))))%nat) by (rewrite firstn_length; lia).
      pose proof (lex_partial_not_broken d g V R D Hok Hsim Hex act w Hw k Hk (fbk k) Hfbp _ start Hf) as Hnb.
      destruct (lex_from (attempt_ref g) act (fbk k) (firstn k w) true (S (S (length (firstn k w)))) start) as [rs1 [it e|s e|]] eqn:E1;
        cbn [snd] in *; [discriminate| |congruence].
      (* the position reported at None is inside the whole input: it is where the one-shot lexer continues *)
      assert (Hse : s <= N.of_nat (length w)).
      { pose proof (lex_finished_empty g act _ _ _ _ _ _ _ _ E1) as <-.
        destruct (lex_progress d g V R D Hok Hsim Hex act fbw w Hw act_ok fb_ok (S (S (length w))) start Hs) as [rsW [HW HT]]; [lia|].
        assert (HF : (S (S (length (firstn k w))) <= S (S (length w)))%nat) by (rewrite firstn_length; lia).
        destruct (lex_prefix_stream g act fbw w (fbk k) k Hk (Hfbk k) _ _ start rs1 s rsW _ HF E1 HW) as [rs3 [F3 [HF3 [Hrs HL]]]]; [discriminate|].
        (* tiles rsW start len and rsW = rs1 ++ rs3 with lex_from F3 s = (rs3, Finished len len) *)
        destruct (N.le_gt_cases s (N.of_nat (length w))) as [Hle|Hgt]; [exact Hle|exfalso].
        (* from a position beyond the end the one-shot lexer cannot finish with Finished len len *)
        destruct F3 as [|F3]; [lia|]. cbn [lex_from] in HL.
        assert (Hsk : skipn (N.to_nat s) w = []) by (apply skipn_all2; lia).
        cbn [next_from] in HL. rewrite Hsk in HL. unfold attempt_ref at 1 in HL. cbn [walk] in HL.
        pose proof (sim_root d g V D Hsim) as Hroot.
        destruct (pair_state d g V D Hsim _ _ Hroot) as [st Hst].
        unfold hops_of in HL. cbn [at_eoi] in HL. rewrite Hst in HL. rewrite Bool.andb_false_r in HL.
        rewrite Pos.eqb_refl, N.eqb_refl in HL. cbn [andb] in HL. injection HL as _ HL _. lia. }
      specialize (IH s Hks' Hse).
      destruct (chunked g act fbw w fbk ks s) as [rs' fin]. cbn [snd] in *. exact IH.
  Qed.

  (* Feeding the input through any sequence of growing buffers (each run until None, the next resumed
     at the reported position) and finishing with an ordinary lexer gives exactly the regions of the
     one-shot lexing: same items, same skipped matches, same final None. *)
  Theorem chunked_is_oneshot : forall ks,
    Forall (fun k => (k <= length w)%nat) ks ->
    chunked g act fbw w fbk ks 0 = lex_all (attempt_ref g) act fbw w false.
  Proof.
    intros ks Hks. unfold lex_all.
    destruct (lex_from (attempt_ref g) act fbw w false (S (S (length w))) 0) as [rsW finW] eqn:HW.
    assert (HnbW : finW <> Broken).
    { destruct (lex_progress d g V R D Hok Hsim Hex act fbw w Hw act_ok fb_ok (S (S (length w))) 0) as [rs [E _]]; [lia|lia|].
      rewrite E in HW. injection HW as _ <-. discriminate. }
    pose proof (chunked_not_broken ks 0 Hks ltac:(lia)) as Hnb.
    destruct (chunked g act fbw w fbk ks 0) as [rs fin] eqn:EC. cbn [snd] in Hnb.
    exact (chunked_eq_oneshot g act fbw w fbk Hfbk ks 0 rsW finW Hks HW HnbW rs fin EC Hnb).
  Qed.
End ChunkedTotal.
