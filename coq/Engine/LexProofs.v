(* Engine/LexProofs.v — the lexing loop: error span rule (C02), termination / progress / tiling (C03). *)
From Coq Require Import List Arith NArith PArith Bool FMapPositive Lia.
From LogosV Require Import Engine.Model Engine.Cert Engine.CertProofs Engine.SpecProofs Engine.StopProofs Engine.Run.
Import ListNotations.
Local Open Scope N_scope.

Lemma skipn_length_N (w : list byte) (start : N) :
  start <= N.of_nat (length w) ->
  N.of_nat (length (skipn (N.to_nat start) w)) = N.of_nat (length w) - start.
Proof. intros H. rewrite skipn_length. lia. Qed.

Section Loop.
  Variables (d : dfa) (g : graph) (V : pairing) (R : rankmap) (D : pset).
  Hypothesis Hok : dfa_ok d = true.
  Hypothesis Hsim : sim_ok d g V D = true.
  Hypothesis Hex : exact_ok d g V R D = true.

  (* no match at any length => scan finds nothing *)
  Lemma nomatch_scan rest start :
    (forall j, (j <= length rest)%nat -> NoMatch d rest j) ->
    scan d (d_start d) rest start None = None.
  Proof.
    intros H. apply scan_none. intros j l Hj Hw. unfold win_at in Hw.
    rewrite (win_nomatch d _ (H j Hj)) in Hw. discriminate.
  Qed.

  Lemma attempt_error w start :
    bytes_ok w -> start < N.of_nat (length w) ->
    (forall j, (j <= length (skipn (N.to_nat start) w))%nat -> NoMatch d (skipn (N.to_nat start) w) j) ->
    exists v, FirstDead d (d_start d) (skipn (N.to_nat start) w) v /\
              attempt_ref g false start (skipn (N.to_nat start) w) = Acted None (start + N.of_nat v).
  Proof.
    intros Hw Hlt Hno. set (rest := skipn (N.to_nat start) w) in *.
    assert (Hne : rest <> []).
    { intros E. assert (L : length rest = 0%nat) by (rewrite E; reflexivity).
      unfold rest in L. rewrite skipn_length in L. lia. }
    pose proof (bytes_ok_skipn (N.to_nat start) w Hw) as Hwr. fold rest in Hwr.
    destruct (attempt_ctx_correct d g V D start rest Hok Hsim Hwr Hne) as [off Hoff].
    rewrite (nomatch_scan rest start Hno) in Hoff.
    (* the stop offset *)
    pose proof (sim_root d g V D Hsim) as Hroot.
    pose proof (sim_pair d g V D Hsim _ _ Hroot) as Hp. unfold pair_ok in Hp.
    destruct (gfind g (g_root g)) as [st|] eqn:Est; [|discriminate].
    unfold attempt_ref, hops_of in Hoff.
    pose proof (walk_stops d g V R D Hok Hsim Hex start _ rest _ _ start None st None off Hwr Hroot Est Hoff) as HS.
    pose proof (stops_no_match d R _ _ _ _ HS Hno) as Ho.
    destruct (viable_end_spec d g V R D Hok Hsim Hex rest (d_start d) start) as [v [Hv HF]].
    exists v. split; [exact HF|]. unfold attempt_ref, hops_of. rewrite Hoff. f_equal. rewrite Ho. exact Hv.
  Qed.

  (* ---------- tiling ---------- *)
  Definition region_span (r : region) : N * N :=
    match r with RItem (Item _ _ s e) => (s, e) | RSkip _ s e => (s, e) end.

  (* the regions are non-empty, start at `from`, abut, and end at `to` *)
  Fixpoint tiles (rs : list region) (from to : N) : Prop :=
    match rs with
    | [] => from = to
    | r :: rs' => fst (region_span r) = from /\ from < snd (region_span r) /\ tiles rs' (snd (region_span r)) to
    end.

  Lemma tiles_app rs1 rs2 a b c : tiles rs1 a b -> tiles rs2 b c -> tiles (rs1 ++ rs2) a c.
  Proof.
    revert a. induction rs1 as [|r rs1 IH]; intros a H1 H2; cbn [app tiles] in *.
    - subst. exact H2.
    - destruct H1 as [E [L T]]. repeat split; try assumption. apply IH; assumption.
  Qed.

  Lemma tiles_le rs : forall a b, tiles rs a b -> a <= b.
  Proof.
    induction rs as [|r rs IH]; intros a b H; cbn [tiles] in H; [lia|].
    destruct H as [_ [L T]]. specialize (IH _ _ T). lia.
  Qed.
  Lemma tiles_lt rs a b : rs <> [] -> tiles rs a b -> a < b.
  Proof.
    destruct rs as [|r rs]; [congruence|]. intros _ H. cbn [tiles] in H.
    destruct H as [_ [L T]]. pose proof (tiles_le _ _ _ T). lia.
  Qed.

  Variable act : leaf -> N -> N -> action * N.
  Variable fb : N -> N.
  Variable w : list byte.
  Hypothesis Hw : bytes_ok w.
  Let len := N.of_nat (length w).
  Hypothesis act_ok : forall l s e, s < e -> e <= len -> e + snd (act l s e) <= len.
  Hypothesis fb_ok : forall i, i <= len -> i <= fb i /\ fb i <= len.

  (* one attempt from start < len: a match with start < e <= len, or an error stopping at off <= len *)
  Lemma attempt_shape start : start < len ->
    (exists l e off, attempt_ref g false start (skipn (N.to_nat start) w) = Acted (Some (l, e)) off /\ start < e /\ e <= len)
    \/ (exists off, attempt_ref g false start (skipn (N.to_nat start) w) = Acted None off /\ off <= len).
  Proof.
    intros Hlt. unfold len in *.
    destruct (C01_maximal_munch_proof d g V D Hok Hsim w start Hw Hlt) as [c [off [Ha Hm]]].
    destruct c as [[l e]|].
    - left. exists l, e, off. split; [exact Ha|]. cbn in Hm. destruct Hm as [j [He [Hj _]]].
      rewrite skipn_length in Hj. lia.
    - right. cbn in Hm.
      destruct (attempt_error w start Hw Hlt Hm) as [v [[Hv _] Hav]].
      exists (start + N.of_nat v). split; [exact Hav|]. rewrite skipn_length in Hv. lia.
  Qed.

  Lemma attempt_at_end : attempt_ref g false len (skipn (N.to_nat len) w) = RetNone false.
  Proof.
    unfold len. rewrite Nat2N.id. rewrite skipn_all. unfold attempt_ref, hops_of. cbn [walk at_eoi].
    pose proof (sim_root d g V D Hsim) as Hroot.
    pose proof (sim_pair d g V D Hsim _ _ Hroot) as Hp. unfold pair_ok in Hp.
    destruct (gfind g (g_root g)) as [st|] eqn:Est; [|discriminate].
    rewrite andb_false_r. rewrite Pos.eqb_refl, N.eqb_refl. reflexivity.
  Qed.

  (* one call of next(): skipped regions then an item, or skipped regions up to the end *)
  Lemma next_progress : forall fuel start,
    start <= len -> (N.to_nat (len - start) < fuel)%nat ->
    exists sk o, next_from (attempt_ref g) act fb w false fuel start = (sk, o) /\
      ((exists it e, o = Yield it e /\ tiles (sk ++ [RItem it]) start e /\ e <= len) \/
       (o = Finished len len /\ tiles sk start len)).
  Proof.
    induction fuel as [|fuel IH]; intros start Hle Hf; [lia|].
    cbn [next_from].
    destruct (N.eq_dec start len) as [->|Hne].
    - rewrite attempt_at_end. exists [], (Finished len len). split; [reflexivity|]. right. split; reflexivity.
    - assert (Hlt : start < len) by lia.
      destruct (attempt_shape start Hlt) as [[l [e [off [Ha [Hse Hel]]]]]|[off [Ha Hoff]]]; rewrite Ha.
      + pose proof (act_ok l start e Hse Hel) as Hb.
        destruct (act l start e) as [a bump] eqn:Eact. cbn [snd] in Hb.
        destruct a.
        * exists [], (Yield (Item true (Some l) start (e + bump)) (e + bump)). split; [reflexivity|].
          left. eexists _, _. split; [reflexivity|]. split; [|exact Hb]. cbn. repeat split; lia.
        * destruct (IH (e + bump)) as [sk [o [Hn Hcase]]]; [lia|lia|].
          rewrite Hn. exists (RSkip l start (e + bump) :: sk), o. split; [reflexivity|].
          destruct Hcase as [[it [e' [-> [Ht Hle']]]]|[-> Ht]].
          -- left. exists it, e'. split; [reflexivity|]. split; [|exact Hle'].
             cbn [app tiles region_span fst snd]. repeat split; [lia|exact Ht].
          -- right. split; [reflexivity|]. cbn [tiles region_span fst snd]. repeat split; [lia|exact Ht].
        * exists [], (Yield (Item false (Some l) start (e + bump)) (e + bump)). split; [reflexivity|].
          left. eexists _, _. split; [reflexivity|]. split; [|exact Hb]. cbn. repeat split; lia.
        * exists [], (Yield (Item false (Some l) start (e + bump)) (e + bump)). split; [reflexivity|].
          left. eexists _, _. split; [reflexivity|]. split; [|exact Hb]. cbn. repeat split; lia.
      + set (m := nmax off (start + 1)).
        assert (Hm : start < m /\ m <= len).
        { unfold m, nmax. destruct (N.ltb_spec off (start + 1)); lia. }
        destruct (fb_ok m (proj2 Hm)) as [F1 F2].
        exists [], (Yield (Item false None start (fb m)) (fb m)). split; [reflexivity|].
        left. eexists _, _. split; [reflexivity|]. split; [|exact F2]. cbn. repeat split; lia.
  Qed.

  Lemma lex_progress : forall fuel start,
    start <= len -> (N.to_nat (len - start) < fuel)%nat ->
    exists rs, lex_from (attempt_ref g) act fb w false fuel start = (rs, Finished len len) /\ tiles rs start len.
  Proof.
    induction fuel as [|fuel IH]; intros start Hle Hf; [lia|].
    cbn [lex_from].
    destruct (next_progress (S (length w)) start Hle) as [sk [o [Hn Hcase]]]; [unfold len; lia|].
    rewrite Hn. destruct Hcase as [[it [e [-> [Ht Hle']]]]|[-> Ht]].
    - assert (Hse : start < e).
      { apply (tiles_lt (sk ++ [RItem it])); [destruct sk; discriminate|exact Ht]. }
      destruct (IH e Hle') as [rs [Hl Hts]]; [lia|].
      rewrite Hl. exists (sk ++ RItem it :: rs). split; [reflexivity|].
      replace (sk ++ RItem it :: rs) with ((sk ++ [RItem it]) ++ rs) by (rewrite <- app_assoc; reflexivity).
      exact (tiles_app _ _ _ _ _ Ht Hts).
    - exists sk. split; [reflexivity|exact Ht].
  Qed.

  Theorem lex_tiles :
    exists rs, lex_all (attempt_ref g) act fb w false = (rs, Finished len len) /\ tiles rs 0 len.
  Proof. unfold lex_all. apply lex_progress; unfold len; lia. Qed.

  (* after the end: None, forever *)
  Theorem next_after_end fuel :
    next_from (attempt_ref g) act fb w false (S fuel) len = ([], Finished len len).
  Proof. cbn [next_from]. rewrite attempt_at_end. reflexivity. Qed.
End Loop.

Lemma C02_error_span_proof : forall d g V R D,
  dfa_ok d = true -> sim_ok d g V D = true -> exact_ok d g V R D = true ->
  forall (w : list byte) (start : N), bytes_ok w -> start < N.of_nat (length w) ->
  (forall j, (j <= length (skipn (N.to_nat start) w))%nat -> NoMatch d (skipn (N.to_nat start) w) j) ->
  exists v, FirstDead d (d_start d) (skipn (N.to_nat start) w) v /\
    attempt_ref g false start (skipn (N.to_nat start) w) = Acted None (start + N.of_nat v) /\
    forall act fb fuel,
      next_from (attempt_ref g) act fb w false (S fuel) start =
      ([], Yield (Item false None start (fb (nmax (start + N.of_nat v) (start + 1))))
                 (fb (nmax (start + N.of_nat v) (start + 1)))).
Proof.
  intros d g V R D Hok Hsim Hex w start Hw Hlt Hno.
  destruct (attempt_error d g V R D Hok Hsim Hex w start Hw Hlt Hno) as [v [HF Ha]].
  exists v. split; [exact HF|]. split; [exact Ha|].
  intros act fb fuel. cbn [next_from]. rewrite Ha. reflexivity.
Qed.

Lemma C02_stop_exact_proof : forall d g V R D,
  dfa_ok d = true -> sim_ok d g V D = true -> exact_ok d g V R D = true ->
  forall (rest : list byte) (start : N) c off, bytes_ok rest ->
  attempt_ref g false start rest = Acted c off -> Stops d R (d_start d) rest start off.
Proof.
  intros d g V R D Hok Hsim Hex rest start c off Hw H.
  pose proof (sim_root d g V D Hsim) as Hroot.
  pose proof (sim_pair d g V D Hsim _ _ Hroot) as Hp. unfold pair_ok in Hp.
  destruct (gfind g (g_root g)) as [st|] eqn:Est; [|discriminate].
  unfold attempt_ref, hops_of in H.
  exact (walk_stops d g V R D Hok Hsim Hex start _ rest _ _ start None st c off Hw Hroot Est H).
Qed.

Lemma C03_none_absorbing_proof : forall d g V D,
  sim_ok d g V D = true ->
  forall act fb (w : list byte) fuel,
  next_from (attempt_ref g) act fb w false (S fuel) (N.of_nat (length w))
  = ([], Finished (N.of_nat (length w)) (N.of_nat (length w))).
Proof. intros d g V D Hsim act fb w fuel. exact (next_after_end d g V D Hsim act fb w fuel). Qed.

(* find_boundary of str meets the hypothesis of the tiling theorem *)
Lemma fb_rest_bounds : forall rest i, i <= fb_rest rest i /\ fb_rest rest i <= i + N.of_nat (length rest).
Proof.
  induction rest as [|b r IH]; intros i; cbn [fb_rest length].
  - lia.
  - destruct (is_cont b); [|lia]. specialize (IH (i + 1)). lia.
Qed.

Lemma fb_str_ok : forall (w : list byte) i,
  i <= N.of_nat (length w) -> i <= fb_str w i /\ fb_str w i <= N.of_nat (length w).
Proof.
  intros w i H. unfold fb_str.
  pose proof (fb_rest_bounds (skipn (N.to_nat i) w) i) as [A B].
  rewrite skipn_length in B. lia.
Qed.

(* ---------- the whole token stream: graph executor = DFA-level specification ---------- *)
(* two attempt results that the lexing loop cannot tell apart *)
Definition att_equiv (s1 s2 : stop) : Prop :=
  match s1, s2 with
  | Acted (Some x) _, Acted (Some y) _ => x = y
  | Acted None o1, Acted None o2 => o1 = o2
  | RetNone _, RetNone _ => True
  | Stuck, Stuck => True
  | Diverged, Diverged => True
  | _, _ => False
  end.

Lemma next_from_equiv (A B : bool -> N -> list byte -> stop) act fb (w : list byte) p :
  (forall start, att_equiv (A p start (skipn (N.to_nat start) w)) (B p start (skipn (N.to_nat start) w))) ->
  forall fuel start, next_from A act fb w p fuel start = next_from B act fb w p fuel start.
Proof.
  intros H. induction fuel as [|fuel IH]; intros start; [reflexivity|].
  cbn [next_from]. specialize (H start).
  destruct (A p start (skipn (N.to_nat start) w)) as [[[l e]|] o1|r1| |];
  destruct (B p start (skipn (N.to_nat start) w)) as [[[l2 e2]|] o2|r2| |]; cbn [att_equiv] in H; try contradiction; try reflexivity.
  - injection H as <- <-. destruct (act l start e) as [[] bump]; try reflexivity. rewrite IH. reflexivity.
  - subst o2. reflexivity.
Qed.

Lemma lex_from_equiv (A B : bool -> N -> list byte -> stop) act fb (w : list byte) p :
  (forall start, att_equiv (A p start (skipn (N.to_nat start) w)) (B p start (skipn (N.to_nat start) w))) ->
  forall fuel start, lex_from A act fb w p fuel start = lex_from B act fb w p fuel start.
Proof.
  intros H. induction fuel as [|fuel IH]; intros start; [reflexivity|].
  cbn [lex_from]. rewrite (next_from_equiv A B act fb w p H).
  destruct (next_from B act fb w p (S (length w)) start) as [sk [it e|s e|]]; try reflexivity.
  rewrite IH. reflexivity.
Qed.

Section Stream.
  Variables (d : dfa) (g : graph) (V : pairing) (R : rankmap) (D : pset).
  Hypothesis Hok : dfa_ok d = true.
  Hypothesis Hsim : sim_ok d g V D = true.
  Hypothesis Hex : exact_ok d g V R D = true.

  Lemma attempt_ref_spec_equiv (w : list byte) start : bytes_ok w ->
    att_equiv (attempt_ref g false start (skipn (N.to_nat start) w))
              (attempt_spec d (lv_of R) false start (skipn (N.to_nat start) w)).
  Proof.
    intros Hw. set (rest := skipn (N.to_nat start) w).
    pose proof (bytes_ok_skipn (N.to_nat start) w Hw) as Hwr. fold rest in Hwr.
    destruct rest as [|b rest'] eqn:Er.
    - (* nothing left: both return None *)
      unfold attempt_ref, hops_of, attempt_spec. cbn [walk at_eoi].
      pose proof (sim_root d g V D Hsim) as Hroot.
      pose proof (sim_pair d g V D Hsim _ _ Hroot) as Hp. unfold pair_ok in Hp.
      destruct (gfind g (g_root g)) as [st|] eqn:Est; [|discriminate].
      rewrite andb_false_r, Pos.eqb_refl, N.eqb_refl. exact I.
    - assert (Hne : b :: rest' <> []) by discriminate.
      destruct (attempt_ctx_correct d g V D start (b :: rest') Hok Hsim Hwr Hne) as [off Hoff].
      rewrite Hoff. unfold attempt_spec.
      destruct (scan d (d_start d) (b :: rest') start None) as [[l e]|] eqn:Es; cbn [att_equiv]; [reflexivity|].
      (* no match: the stop offset is viable_end *)
      pose proof (sim_root d g V D Hsim) as Hroot.
      pose proof (sim_pair d g V D Hsim _ _ Hroot) as Hp. unfold pair_ok in Hp.
      destruct (gfind g (g_root g)) as [st|] eqn:Est; [|discriminate].
      unfold attempt_ref, hops_of in Hoff.
      pose proof (walk_stops d g V R D Hok Hsim Hex start _ (b :: rest') _ _ start None st None off Hwr Hroot Est Hoff) as HS.
      apply (stops_no_match d R _ _ _ _ HS).
      (* scan = None means no length has a match *)
      intros j Hj. destruct (dfa_ok_facts d Hok) as [_ [_ [_ Hnt]]].
      destruct (last_winner d (d_start d) (b :: rest')) as [Hnone|[j0 [l0 [Hj0 [Hw0 Hl0]]]]].
      + specialize (Hnone j). pose proof (dfa_ok_nodup d Hok (mstate d (d_start d) (b :: rest') j)) as Hnd.
        pose proof (win_of_spec (prio d) _ Hnd) as S. unfold win_at, win in Hnone.
        destruct (win_of (prio d) (dmatch d (mstate d (d_start d) (b :: rest') j)) WNone 0) as [|l|] eqn:E.
        * exact S.
        * exfalso. exact (Hnone l Hj eq_refl).
        * exfalso. apply (Hnt (mstate d (d_start d) (b :: rest') j)). unfold win. exact E.
      + rewrite (scan_last d (b :: rest') (d_start d) start None j0 l0 Hj0 Hw0 Hl0) in Es. discriminate.
  Qed.

  (* For every input, callback oracle and boundary function: the reference semantics of the
     generated code yields exactly the item stream (tokens, errors with their spans, skipped regions,
     final span) of the DFA-level maximal-munch specification. *)
  Theorem lex_ref_eq_spec act fb (w : list byte) : bytes_ok w ->
    lex_all (attempt_ref g) act fb w false = lex_all (attempt_spec d (lv_of R)) act fb w false.
  Proof.
    intros Hw. unfold lex_all. apply lex_from_equiv. intros start. apply attempt_ref_spec_equiv. exact Hw.
  Qed.
End Stream.
