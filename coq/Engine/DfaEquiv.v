(* Engine/DfaEquiv.v — language equality of one leaf of a DFA and one leaf of another DFA, decided
   from a relation hint (C10, C11, C18). *)
From Coq Require Import List Arith NArith PArith Bool FMapPositive Lia.
From LogosV Require Import Engine.Model Engine.Cert Engine.CertProofs Engine.SpecProofs.
Import ListNotations.
Local Open Scope N_scope.

Definition memN (x : N) (l : list N) : bool := existsb (N.eqb x) l.

Definition bisim_pair (d1 : dfa) (l1 : leaf) (d2 : dfa) (l2 : leaf) (R : pairing) (q1 q2 : qid) : bool :=
  forallb (fun u => let q1' := dstep d1 q1 u in let q2' := dstep d2 q2 u in
             inV R q1' q2' && Bool.eqb (memN l1 (dmatch d1 q1')) (memN l2 (dmatch d2 q2'))) all_units.

Definition bisim_ok (d1 : dfa) (l1 : leaf) (d2 : dfa) (l2 : leaf) (R : pairing) : bool :=
  inV R (d_start d1) (d_start d2)
  && forallb (fun kv => forallb (bisim_pair d1 l1 d2 l2 R (fst kv)) (snd kv)) (PositiveMap.elements R).

Lemma memN_In x l : memN x l = true <-> In x l.
Proof.
  unfold memN. rewrite existsb_exists. split.
  - intros [y [Hy He]]. apply N.eqb_eq in He. subst. exact Hy.
  - intros H. exists x. split; [exact H|apply N.eqb_refl].
Qed.

Section B.
  Variables (d1 : dfa) (l1 : leaf) (d2 : dfa) (l2 : leaf) (R : pairing).
  Hypothesis HB : bisim_ok d1 l1 d2 l2 R = true.

  Lemma bisim_step q1 q2 u : inV R q1 q2 = true -> unit_ok u ->
    inV R (dstep d1 q1 u) (dstep d2 q2 u) = true /\
    (In l1 (dmatch d1 (dstep d1 q1 u)) <-> In l2 (dmatch d2 (dstep d2 q2 u))).
  Proof.
    intros Hin Hu. apply inV_elements in Hin as [qs [H1 H2]].
    unfold bisim_ok in HB. apply andb_prop in HB as [_ H]. rewrite forallb_forall in H.
    specialize (H _ H1). cbn [fst snd] in H. rewrite forallb_forall in H. specialize (H _ H2).
    unfold bisim_pair in H. rewrite forallb_forall in H. specialize (H u (all_units_spec u Hu)). cbn zeta in H.
    apply andb_prop in H as [Ha Hb]. split; [exact Ha|].
    apply Bool.eqb_prop in Hb. rewrite <- !memN_In. rewrite Hb. tauto.
  Qed.

  Lemma bisim_run : forall bs q1 q2, bytes_ok bs -> inV R q1 q2 = true ->
    inV R (drun d1 q1 bs) (drun d2 q2 bs) = true.
  Proof.
    induction bs as [|b bs IH]; intros q1 q2 Hw Hin; cbn [drun]; [exact Hin|].
    inversion Hw as [|? ? Hb Hw']; subst. apply IH; [exact Hw'|].
    exact (proj1 (bisim_step q1 q2 (UB b) Hin Hb)).
  Qed.

  (* the two leaves match exactly the same texts in the same contexts *)
  Theorem bisim_sound : forall (rest : list byte) j, bytes_ok rest ->
    (In l1 (dmatch d1 (mstate d1 (d_start d1) rest j)) <-> In l2 (dmatch d2 (mstate d2 (d_start d2) rest j))).
  Proof.
    intros rest j Hw. unfold mstate.
    assert (Hs : inV R (d_start d1) (d_start d2) = true).
    { unfold bisim_ok in HB. apply andb_prop in HB as [H _]. exact H. }
    assert (Hf : bytes_ok (firstn j rest)).
    { unfold bytes_ok in *. rewrite <- (firstn_skipn j rest) in Hw. apply Forall_app in Hw. exact (proj1 Hw). }
    pose proof (bisim_run (firstn j rest) _ _ Hf Hs) as Hr.
    exact (proj2 (bisim_step _ _ (unit_at rest j) Hr (unit_at_ok rest j Hw))).
  Qed.
End B.
