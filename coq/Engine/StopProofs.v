(* Engine/StopProofs.v — where an attempt stops (C02, C20): liveness hints are exact, an attempt
   consumes a byte only if the text can still be extended to (or confirms) a match, and stops at
   the first byte after which it cannot. *)
From Coq Require Import List Arith NArith PArith Bool FMapPositive Lia.
From LogosV Require Import Engine.Model Engine.Cert Engine.CertProofs Engine.SpecProofs.
Import ListNotations.
Local Open Scope N_scope.

(* ---------- the rank hint decides liveness ---------- *)
Lemma rank_live d R : rank_ok d R = true ->
  forall r q, PositiveMap.find q R = Some r -> Live d q.
Proof.
  intros HR r. pattern r. apply (well_founded_induction N.lt_wf_0). clear r. intros r IH q Hq.
  unfold rank_ok in HR. rewrite forallb_forall in HR.
  specialize (HR (q, r) (PositiveMap.elements_correct _ _ Hq)). cbn [fst snd] in HR.
  apply orb_prop in HR as [H|H].
  - apply existsb_exists in H as [u [Hu Hm]].
    assert (Hok : unit_ok u).
    { unfold all_units in Hu. destruct Hu as [<-|Hu]; [exact I|].
      apply in_map_iff in Hu as [b [<- Hb]]. cbn. unfold byte_ok.
      unfold all_bytes in Hb. clear -Hb. assert (forall n, In b (upto n) -> b < N.of_nat n) as G.
      { induction n as [|n IHn]; cbn [upto]; intros Hin; [destruct Hin|].
        apply in_app_or in Hin as [Hin|[<-|[]]]; [specialize (IHn Hin); lia|lia]. }
      apply (G 256%nat Hb). }
    apply (live_now d q u Hok). apply negb_true_iff in Hm. intros E. apply nomatch_true in E. congruence.
  - apply existsb_exists in H as [b [Hb Hlt]].
    assert (Hok : byte_ok b).
    { unfold byte_ok, all_bytes in *. clear -Hb. assert (forall n, In b (upto n) -> b < N.of_nat n) as G.
      { induction n as [|n IHn]; cbn [upto]; intros Hin; [destruct Hin|].
        apply in_app_or in Hin as [Hin|[<-|[]]]; [specialize (IHn Hin); lia|lia]. }
      apply (G 256%nat Hb). }
    destruct (PositiveMap.find (dstep d q (UB b)) R) as [r'|] eqn:E; [|discriminate].
    apply N.ltb_lt in Hlt. apply (live_step d q b Hok). exact (IH r' Hlt _ E).
Qed.

Lemma not_in_states_not_live d D q :
  dead_ok d D = true -> pmem (d_dead d) D = true ->
  PositiveMap.find (d_dead d) (d_states d) = None ->
  PositiveMap.find q (d_states d) = None -> ~ Live d q.
Proof.
  intros HD Hdd Hdn Hq HL.
  assert (Hstep : forall u, dstep d q u = d_dead d) by (intros u; unfold dstep; rewrite Hq; reflexivity).
  inversion HL as [q0 u Hu Hm|q0 b Hb HL']; subst.
  - rewrite Hstep in Hm. apply Hm. unfold dmatch. rewrite Hdn. reflexivity.
  - rewrite Hstep in HL'. exact (dead_ok_sound d D HD _ HL' Hdd).
Qed.

Section Exact.
  Variables (d : dfa) (g : graph) (V : pairing) (R : rankmap) (D : pset).
  Hypothesis Hok : dfa_ok d = true.
  Hypothesis Hsim : sim_ok d g V D = true.
  Hypothesis Hex : exact_ok d g V R D = true.

  Let lv := lv_of R.

  Lemma ex_rank : rank_ok d R = true.
  Proof. unfold exact_ok in Hex. apply andb_prop in Hex as [H _]. apply andb_prop in H as [H _]. exact H. Qed.
  Lemma ex_classify : classify_ok d R D = true.
  Proof. unfold exact_ok in Hex. apply andb_prop in Hex as [H _]. apply andb_prop in H as [_ H]. exact H. Qed.

  Lemma lv_iff_live q : lv q = true <-> Live d q.
  Proof.
    split.
    - unfold lv, lv_of. destruct (PositiveMap.find q R) as [r|] eqn:E; [|discriminate].
      intros _. exact (rank_live d R ex_rank r q E).
    - intros HL. destruct (lv q) eqn:E; [reflexivity|]. exfalso.
      pose proof ex_classify as HC. unfold classify_ok in HC. apply andb_prop in HC as [HC Hdd].
      destruct (dfa_ok_facts d Hok) as [Hdn _].
      destruct (PositiveMap.find q (d_states d)) as [st|] eqn:Eq.
      + rewrite forallb_forall in HC. specialize (HC (q, st) (PositiveMap.elements_correct _ _ Eq)).
        cbn [fst] in HC. fold lv in HC. rewrite E in HC. cbn in HC.
        exact (dead_ok_sound d D (sim_dead d g V D Hsim) q HL HC).
      + exact (not_in_states_not_live d D q (sim_dead d g V D Hsim) Hdd Hdn Eq HL).
  Qed.

  Lemma exact_facts s q st : inV V s q = true -> gfind g s = Some st ->
    (forall b t, byte_ok b -> edge_first (g_edges st) b = Some t ->
        lv (dstep d q (UB b)) = true \/ dmatch d (dstep d q (UB b)) <> []) /\
    (forall t, g_eoi st = Some t -> dmatch d (dstep d q UEoi) <> []).
  Proof.
    intros HV Hst. apply inV_elements in HV as [qs [H1 H2]].
    unfold exact_ok in Hex. apply andb_prop in Hex as [_ H].
    rewrite forallb_forall in H. specialize (H _ H1). cbn [fst snd] in H.
    rewrite forallb_forall in H. specialize (H _ H2). unfold exact_pair in H. rewrite Hst in H.
    apply andb_prop in H as [Hb He]. split.
    - intros b t Hbk Ed. rewrite forallb_forall in Hb. specialize (Hb b (all_bytes_spec b Hbk)).
      rewrite Ed in Hb. apply orb_prop in Hb as [Hb|Hb]; [left; exact Hb|right].
      apply negb_true_iff in Hb. intros E. apply nomatch_true in E. congruence.
    - intros t Et. rewrite Et in He. apply negb_true_iff in He. intros E. apply nomatch_true in E. congruence.
  Qed.

  (* how far an attempt reads: Stops q rest k k' — from DFA state q at offset k the attempt stops
     with offset k' *)
  Inductive Stops : qid -> list byte -> N -> N -> Prop :=
  | stop_eoi q k : Stops q [] k k
  | stop_eoi_hop q k : dmatch d (dstep d q UEoi) <> [] -> Stops q [] k (k + 1)
  | stop_dead q b rest k : lv (dstep d q (UB b)) = false -> Stops q (b :: rest) k k
  | stop_step q b rest k k' :
      lv (dstep d q (UB b)) = true \/ dmatch d (dstep d q (UB b)) <> [] ->
      Stops (dstep d q (UB b)) rest (k + 1) k' -> Stops q (b :: rest) k k'.

  Lemma at_eoi_stops start hops s q off c st c' off' :
    inV V s q = true -> gfind g s = Some st ->
    at_eoi g false start (S (S hops)) s off c = Acted c' off' -> Stops q [] off off'.
  Proof.
    intros HV Hst H. cbn [at_eoi] in H. rewrite Hst in H. rewrite andb_false_r in H.
    destruct ((s =? g_root g)%positive && (off =? start)); [discriminate|].
    destruct (opt_cases (g_eoi st)) as [[t Et]|Et]; rewrite Et in H.
    - destruct (pair_facts d g V D Hsim s q st HV Hst) as [_ [_ [_ Heoi]]].
      unfold eoi_ok in Heoi. rewrite Et in Heoi.
      destruct (gfind g t) as [st'|] eqn:Est'; [|discriminate].
      apply andb_prop in Heoi as [Heoi _]. apply andb_prop in Heoi as [_ Hterm].
      destruct (terminal_facts g t Hterm) as [st2 [Est2 [Eed [Eeoi Eearly]]]].
      rewrite Est' in Est2. injection Est2 as <-.
      unfold partial_mode_test, no_edges in H. rewrite Eed, Eeoi in H. cbn [negb orb andb] in H.
      destruct ((t =? g_root g)%positive && (off + 1 =? start)); [discriminate|].
      injection H as _ <-. apply stop_eoi_hop.
      destruct (exact_facts s q st HV Hst) as [_ He]. exact (He t Et).
    - injection H as _ <-. apply stop_eoi.
  Qed.

  Lemma walk_stops start hops : forall rest s q off c st c' off',
    bytes_ok rest -> inV V s q = true -> gfind g s = Some st ->
    walk g false start (S (S hops)) rest s off c = Acted c' off' -> Stops q rest off off'.
  Proof.
    induction rest as [|b rest IH]; intros s q off c st c' off' Hw HV Hst H.
    - cbn [walk] in H. exact (at_eoi_stops start hops s q off c st c' off' HV Hst H).
    - inversion Hw as [|? ? Hb Hw']; subst.
      cbn [walk] in H. rewrite Hst in H.
      destruct (pair_facts d g V D Hsim s q st HV Hst) as [_ [_ [Hbytes _]]].
      specialize (Hbytes b Hb). unfold Cert.byte_ok in Hbytes.
      destruct (edge_first (g_edges st) b) as [t|] eqn:Ed.
      + destruct (gfind g t) as [st'|] eqn:Est'; [|discriminate].
        apply andb_prop in Hbytes as [HVt _].
        apply stop_step.
        * destruct (exact_facts s q st HV Hst) as [Hx _]. exact (Hx b t Hb Ed).
        * exact (IH t _ (off + 1) _ st' c' off' Hw' HVt Est' H).
      + injection H as _ <-. apply andb_prop in Hbytes as [HD _].
        apply stop_dead. destruct (lv (dstep d q (UB b))) eqn:E; [|reflexivity].
        exfalso. apply lv_iff_live in E. exact (not_live_D d g V D Hsim _ HD E).
  Qed.

  (* In an attempt without any match the stop offset is viable_end *)
  Lemma stops_no_match : forall q rest k k',
    Stops q rest k k' ->
    (forall j, (j <= length rest)%nat -> dmatch d (mstate d q rest j) = []) ->
    k' = viable_end d lv q rest k.
  Proof.
    intros q rest k k' HS. induction HS as [q k|q k Hm|q b rest k Hl|q b rest k k' Hor HS IH]; intros Hno.
    - reflexivity.
    - exfalso. apply Hm. specialize (Hno 0%nat (Nat.le_0_l _)). rewrite mstate_0 in Hno. exact Hno.
    - cbn [viable_end]. rewrite Hl. reflexivity.
    - cbn [viable_end]. destruct Hor as [Hl|Hm].
      + rewrite Hl. apply IH. intros j Hj. specialize (Hno (S j)). rewrite mstate_S in Hno.
        apply Hno. cbn [length]. lia.
      + exfalso. apply Hm. specialize (Hno 0%nat (Nat.le_0_l _)). rewrite mstate_0 in Hno. exact Hno.
  Qed.

  (* Prop reading of viable_end: the number of bytes read before the first byte (end of input
     counting as one) after which no pattern can match any extension of the text read *)
  Definition FirstDead (q : qid) (rest : list byte) (v : nat) : Prop :=
    (v <= length rest)%nat /\
    (forall i b, (i < v)%nat -> nth_error rest i = Some b ->
        Live d (dstep d (drun d q (firstn i rest)) (UB b))) /\
    (forall b, nth_error rest v = Some b -> ~ Live d (dstep d (drun d q (firstn v rest)) (UB b))).

  Lemma viable_end_spec : forall rest q k,
    exists v, viable_end d lv q rest k = k + N.of_nat v /\ FirstDead q rest v.
  Proof.
    induction rest as [|b rest IH]; intros q k; cbn [viable_end].
    - exists 0%nat. split; [lia|]. repeat split; [cbn; lia| |]; intros; [lia|destruct b; discriminate].
    - destruct (lv (dstep d q (UB b))) eqn:E.
      + destruct (IH (dstep d q (UB b)) (k + 1)) as [v [Hv [H1 [H2 H3]]]].
        exists (S v). split; [lia|]. repeat split.
        * cbn [length]. lia.
        * intros i b0 Hi Hn. destruct i as [|i].
          -- cbn in Hn. injection Hn as <-. cbn. apply lv_iff_live. exact E.
          -- cbn [nth_error] in Hn. cbn [firstn drun]. apply (H2 i b0); [lia|exact Hn].
        * intros b0 Hn. cbn [nth_error] in Hn. cbn [firstn drun]. exact (H3 b0 Hn).
      + exists 0%nat. split; [lia|]. repeat split.
        * cbn [length]. lia.
        * intros; lia.
        * intros b0 Hn. cbn in Hn. injection Hn as <-. cbn. intros HL. apply lv_iff_live in HL. congruence.
  Qed.
End Exact.
