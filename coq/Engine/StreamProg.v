(* Engine/StreamProg.v — the chunking theorem for the program that the code generator EMITS (Engine/Prog.v,
   parsed from the generated code by the translator K12): feeding the input through any schedule of growing
   buffers, each lexed by the emitted program in partial mode, and finishing with the emitted program in
   ordinary mode gives the one-shot stream of the emitted program.  From Engine/StreamProofs.v
   (chunked_is_oneshot, reference semantics) and Engine/ProgProofs.v (attempt_prog_is_ref). *)
From Coq Require Import List Arith NArith PArith Bool FMapPositive Lia.
From LogosV Require Import Engine.Model Engine.Cert Engine.CertProofs Engine.Prog Engine.LexProofs
  Engine.ProgProofs Engine.StreamProofs Engine.Run Engine.Utf8Lex Engine.Utf8Stream Engine.SpecProofs Engine.StopProofs.
From LogosV Require Import Base.Utf8.
Import ListNotations.
Local Open Scope N_scope.

Section With.
  Variable attempt : bool -> N -> list byte -> stop.
  Variable act : leaf -> N -> N -> action * N.
  Variable fbw : N -> N.
  Variable w : list byte.
  Variable fbk : nat -> N -> N.

  (* the schedule of Engine/StreamProofs.v [chunked], run with any attempt function *)
  Fixpoint chunked_with (ks : list nat) (start : N) : list region * outcome :=
    match ks with
    | [] => lex_from attempt act fbw w false (S (S (length w))) start
    | k :: ks' =>
        match lex_from attempt act (fbk k) (firstn k w) true (S (S (length (firstn k w)))) start with
        | (rs, Finished s _) => let (rs', fin) := chunked_with ks' s in (rs ++ rs', fin)
        | (rs, o) => (rs, o)
        end
    end.
End With.

Lemma chunked_with_ref g act fbw w fbk : forall ks start,
  chunked_with (attempt_ref g) act fbw w fbk ks start = chunked g act fbw w fbk ks start.
Proof.
  induction ks as [|k ks IH]; intros start; cbn [chunked_with chunked]; [reflexivity|].
  destruct (lex_from (attempt_ref g) act (fbk k) (firstn k w) true (S (S (length (firstn k w)))) start) as [rs [it e|s e|]]; try reflexivity.
Qed.

Lemma bytes_ok_firstn k (w : list byte) : bytes_ok w -> bytes_ok (firstn k w).
Proof.
  unfold bytes_ok. rewrite !Forall_forall. intros H x Hx. apply H.
  rewrite <- (firstn_skipn k w). apply in_or_app. left. exact Hx.
Qed.

Section Emitted.
  Variables (U : nat) (g : graph) (p : prog).
  Hypothesis Hprog : prog_ok g p = true.
  Hypothesis Hwf : wf_graph g = true.
  Let emitted := fun ip s r => fst (attempt_prog U p (PositiveMap.cardinal (g_states g)) ip s r).

  Lemma lex_from_emitted act fb (u : list byte) ip : bytes_ok u -> forall fuel start,
    lex_from emitted act fb u ip fuel start = lex_from (attempt_ref g) act fb u ip fuel start.
  Proof.
    intros Hu. apply lex_from_equiv. intros start. unfold emitted.
    rewrite (attempt_prog_is_ref U g p ip start _ Hprog Hwf (bytes_ok_skipn' _ u Hu)).
    apply att_equiv_refl.
  Qed.

  Lemma chunked_emitted act fbw (w : list byte) fbk : bytes_ok w -> forall ks start,
    chunked_with emitted act fbw w fbk ks start = chunked_with (attempt_ref g) act fbw w fbk ks start.
  Proof.
    intros Hw. induction ks as [|k ks IH]; intros start; cbn [chunked_with].
    - apply lex_from_emitted. exact Hw.
    - rewrite (lex_from_emitted act (fbk k) (firstn k w) true (bytes_ok_firstn k w Hw)).
      destruct (lex_from (attempt_ref g) act (fbk k) (firstn k w) true (S (S (length (firstn k w)))) start) as [rs [it e|s e|]]; try reflexivity.
      rewrite IH. reflexivity.
  Qed.

  Variables (d : dfa) (V : pairing) (R : rankmap) (D : pset).
  Hypothesis Hok : dfa_ok d = true.
  Hypothesis Hsim : sim_ok d g V D = true.
  Hypothesis Hex : exact_ok d g V R D = true.

  Theorem emitted_chunked_is_oneshot act fbw fbk (w : list byte) : bytes_ok w ->
    (forall l s e, s < e -> e <= N.of_nat (length w) -> e + snd (act l s e) <= N.of_nat (length w)) ->
    (forall i, i <= N.of_nat (length w) -> i <= fbw i /\ fbw i <= N.of_nat (length w)) ->
    (forall k i, i <= N.of_nat k -> fbk k i = fbw i) ->
    forall ks, Forall (fun k => (k <= length w)%nat) ks ->
    chunked_with emitted act fbw w fbk ks 0 = lex_all emitted act fbw w false.
  Proof.
    intros Hw Hact Hfb Hfbk ks Hks.
    rewrite (chunked_emitted act fbw w fbk Hw ks 0), chunked_with_ref.
    rewrite (chunked_is_oneshot d g V R D Hok Hsim Hex act fbw fbk w Hw Hact Hfb Hfbk ks Hks).
    symmetry. unfold emitted. exact (emitted_stream U g p act fbw w false Hprog Hwf Hw).
  Qed.

  (* str mode and byte mode of the emitted program agree on the whole stream (Engine/Utf8Stream.v) *)
  Theorem emitted_streams_agree P act (w : list byte) :
    utf8_ok d P = true -> utf8_strict_ok d P D = true -> bytes_ok w ->
    (forall l s e, s < e -> e <= N.of_nat (length w) -> e + snd (act l s e) <= N.of_nat (length w)) ->
    split_errs (fst (lex_all emitted act (fb_str w) w false)) = split_errs (fst (lex_all emitted act (fun i => i) w false)).
  Proof.
    intros HU HS Hw Hact. unfold emitted.
    rewrite (emitted_stream U g p act (fb_str w) w false Hprog Hwf Hw).
    rewrite (emitted_stream U g p act (fun i => i) w false Hprog Hwf Hw).
    exact (str_bytes_streams_agree d g V R D P Hok Hsim Hex HU HS act w Hw Hact).
  Qed.

  (* an attempt of the emitted program stops consuming input exactly when no pattern can match any extension (C02) *)
  Theorem emitted_stop_exact (rest : list byte) start c off : bytes_ok rest ->
    emitted false start rest = Acted c off -> Stops d R (d_start d) rest start off.
  Proof.
    intros Hb H. unfold emitted in H. rewrite (attempt_prog_is_ref U g p false start rest Hprog Hwf Hb) in H.
    exact (C02_stop_exact_proof d g V R D Hok Hsim Hex rest start c off Hb H).
  Qed.

  (* termination, progress and tiling for the emitted program (C03) *)
  Theorem emitted_tiles act fb (w : list byte) : bytes_ok w ->
    (forall l s e, s < e -> e <= N.of_nat (length w) -> e + snd (act l s e) <= N.of_nat (length w)) ->
    (forall i, i <= N.of_nat (length w) -> i <= fb i /\ fb i <= N.of_nat (length w)) ->
    exists rs, lex_all emitted act fb w false = (rs, Finished (N.of_nat (length w)) (N.of_nat (length w)))
               /\ tiles rs 0 (N.of_nat (length w)).
  Proof.
    intros Hw Hact Hfb. unfold emitted.
    rewrite (emitted_stream U g p act fb w false Hprog Hwf Hw).
    exact (lex_tiles d g V R D Hok Hsim Hex act fb w Hw Hact Hfb).
  Qed.

  (* every span boundary produced by the emitted program on valid UTF-8 is a char boundary (C04) *)
  Theorem emitted_spans_on_boundaries P act fb (w : list byte) : utf8_ok d P = true ->
    bytes_ok w -> utf8_valid w = true ->
    (forall l s e, s < e -> e <= N.of_nat (length w) -> BndN w e ->
        e + snd (act l s e) <= N.of_nat (length w) /\ BndN w (e + snd (act l s e))) ->
    (forall i, i <= N.of_nat (length w) -> i <= fb i /\ fb i <= N.of_nat (length w) /\ BndN w (fb i)) ->
    forall fuel start rs o, start <= N.of_nat (length w) -> BndN w start ->
    lex_from emitted act fb w false fuel start = (rs, o) ->
    ends_bnd w rs /\ match o with Finished s e => BndN w s /\ BndN w e | _ => True end.
  Proof.
    intros HU Hw Hv Hact Hfb fuel start rs o Hs Hb H.
    rewrite (lex_from_emitted act fb w false Hw) in H.
    exact (lex_bnd d g V R D P Hok Hsim Hex HU act fb w Hw Hv Hact Hfb fuel start rs o Hs Hb H).
  Qed.
End Emitted.
