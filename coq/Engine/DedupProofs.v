(* Engine/DedupProofs.v — one round of state de-duplication, and the loop, preserve every walk of the
   generated code (both modes), on graphs whose edge classes are pairwise disjoint (wf_graph) and
   whose targets exist (closed_graph). *)
From Coq Require Import List Arith NArith PArith Bool FMapPositive Lia.
From LogosV Require Import Engine.Model Engine.Cert Engine.ExecOpt Engine.ByteClass Engine.Prog Engine.Dedup
                           Engine.CertProofs Engine.OptProofs Engine.ByteClassProofs Engine.ProgProofs
                           Engine.GraphBuild Engine.SimAbs Engine.BuildProofs Engine.GsimProofs.
Import ListNotations.
Local Open Scope N_scope.

Definition b2n (b : bool) : nat := if b then 1%nat else 0%nat.

Lemma count_cons rs t es x : count_edges ((rs, t) :: es) x = (b2n (in_ranges x rs) + count_edges es x)%nat.
Proof. cbn [count_edges]. destruct (in_ranges x rs); reflexivity. Qed.

(* ---------- insert_edge ---------- *)
Lemma insert_first x : byte_ok x -> forall acc bc t,
  (count_edges acc x + b2n (in_ranges x bc) <= 1)%nat ->
  edge_first (insert_edge acc bc t) x
  = match edge_first acc x with Some u => Some u | None => if in_ranges x bc then Some t else None end.
Proof.
  intros Hx. induction acc as [|[c u] r IH]; intros bc t Hc.
  - cbn [insert_edge edge_first]. reflexivity.
  - rewrite count_cons in Hc. cbn [insert_edge].
    destruct (Pos.eqb_spec u t) as [->|Hne].
    + cbn [edge_first]. rewrite (merge_sem c bc x Hx).
      destruct (in_ranges x c) eqn:Ec; cbn [orb]; [reflexivity|].
      destruct (in_ranges x bc) eqn:Eb; [|destruct (edge_first r x); reflexivity].
      cbn [b2n] in Hc. rewrite (count_zero_first r x) by lia. reflexivity.
    + cbn [edge_first]. destruct (in_ranges x c) eqn:Ec; [reflexivity|].
      apply IH. cbn [b2n] in Hc. lia.
Qed.

Lemma insert_count x : byte_ok x -> forall acc bc t,
  (count_edges acc x + b2n (in_ranges x bc) <= 1)%nat ->
  count_edges (insert_edge acc bc t) x = (count_edges acc x + b2n (in_ranges x bc))%nat.
Proof.
  intros Hx. induction acc as [|[c u] r IH]; intros bc t Hc.
  - cbn [insert_edge]. rewrite count_cons. cbn [count_edges]. lia.
  - rewrite count_cons in Hc. cbn [insert_edge].
    destruct (Pos.eqb_spec u t) as [->|Hne]; rewrite !count_cons.
    + rewrite (merge_sem c bc x Hx).
      destruct (in_ranges x c), (in_ranges x bc); cbn [orb b2n] in *; lia.
    + rewrite IH by lia. lia.
Qed.

Lemma insert_targets acc bc t :
  map snd (insert_edge acc bc t) = if existsb (Pos.eqb t) (map snd acc) then map snd acc else map snd acc ++ [t].
Proof.
  induction acc as [|[c u] r IH]; cbn [insert_edge map snd existsb app]; [reflexivity|].
  rewrite (Pos.eqb_sym t u). destruct (Pos.eqb u t) eqn:E; cbn [orb map snd]; [reflexivity|].
  rewrite IH. destruct (existsb (Pos.eqb t) (map snd r)); reflexivity.
Qed.

Lemma insert_nonempty acc bc t : insert_edge acc bc t <> [].
Proof. destruct acc as [|[c u] r]; cbn [insert_edge]; [discriminate|]. destruct (Pos.eqb u t); discriminate. Qed.

(* ---------- rewrite_edges ---------- *)
Lemma rewrite_fold x rw : byte_ok x -> forall es acc,
  (count_edges acc x + count_edges es x <= 1)%nat ->
  edge_first (fold_left (fun acc e => insert_edge acc (fst e) (rw (snd e))) es acc) x
  = match edge_first acc x with Some u => Some u | None => option_map rw (edge_first es x) end
  /\ count_edges (fold_left (fun acc e => insert_edge acc (fst e) (rw (snd e))) es acc) x
     = (count_edges acc x + count_edges es x)%nat.
Proof.
  intros Hx. induction es as [|[bc t] es IH]; intros acc Hc; cbn [fold_left fst snd].
  - cbn [edge_first option_map count_edges]. split; [destruct (edge_first acc x); reflexivity|lia].
  - rewrite count_cons in Hc.
    assert (Hc1 : (count_edges acc x + b2n (in_ranges x bc) <= 1)%nat) by lia.
    destruct (IH (insert_edge acc bc (rw t))) as [H1 H2]; [rewrite (insert_count x Hx acc bc (rw t) Hc1); lia|].
    rewrite H1, H2, (insert_first x Hx acc bc (rw t) Hc1), (insert_count x Hx acc bc (rw t) Hc1), count_cons.
    split; [|lia]. cbn [edge_first].
    destruct (edge_first acc x) as [u|]; [reflexivity|].
    destruct (in_ranges x bc); reflexivity.
Qed.

Lemma rewrite_first rw es x : byte_ok x -> (count_edges es x <= 1)%nat ->
  edge_first (rewrite_edges rw es) x = option_map rw (edge_first es x).
Proof.
  intros Hx Hc. unfold rewrite_edges. destruct (rewrite_fold x rw Hx es [] ltac:(cbn [count_edges]; lia)) as [H _].
  rewrite H. reflexivity.
Qed.

Lemma rewrite_count rw es x : byte_ok x -> (count_edges es x <= 1)%nat ->
  count_edges (rewrite_edges rw es) x = count_edges es x.
Proof.
  intros Hx Hc. unfold rewrite_edges. destruct (rewrite_fold x rw Hx es [] ltac:(cbn [count_edges]; lia)) as [_ H].
  rewrite H. reflexivity.
Qed.

Lemma rewrite_nil rw es : rewrite_edges rw es = [] <-> es = [].
Proof.
  unfold rewrite_edges. split; [|intros ->; reflexivity].
  destruct es as [|[bc t] es]; [reflexivity|]. cbn [fold_left fst snd]. intros H. exfalso.
  assert (G : forall l acc, acc <> [] -> fold_left (fun acc e => insert_edge acc (fst e) (rw (snd e))) l acc <> []).
  { induction l as [|e l IH]; intros acc Ha; cbn [fold_left]; [exact Ha|]. apply IH. apply insert_nonempty. }
  exact (G es _ (insert_nonempty [] bc (rw t)) H).
Qed.

Lemma nodup_pos_snoc l t : nodup_pos l = true -> existsb (Pos.eqb t) l = false -> nodup_pos (l ++ [t]) = true.
Proof.
  induction l as [|x l IH]; intros Hn Ht; cbn [app nodup_pos existsb] in *; [reflexivity|].
  apply andb_prop in Hn as [H1 H2]. apply orb_false_iff in Ht as [Hx Ht].
  rewrite (IH H2 Ht), andb_true_r. apply negb_true_iff. rewrite existsb_app. cbn [existsb].
  apply negb_true_iff in H1. rewrite H1. cbn [orb]. rewrite orb_false_r. rewrite Pos.eqb_sym. exact Hx.
Qed.

Lemma rewrite_nodup rw es : nodup_pos (map snd (rewrite_edges rw es)) = true.
Proof.
  unfold rewrite_edges.
  assert (G : forall l acc, nodup_pos (map snd acc) = true ->
              nodup_pos (map snd (fold_left (fun acc e => insert_edge acc (fst e) (rw (snd e))) l acc)) = true).
  { induction l as [|e l IH]; intros acc Ha; cbn [fold_left]; [exact Ha|]. apply IH.
    rewrite insert_targets.
    match goal with |- context [existsb ?f ?l] => destruct (existsb f l) eqn:E end; [exact Ha|].
    apply nodup_pos_snoc; [exact Ha|exact E]. }
  apply G. reflexivity.
Qed.

(* targets of the rewritten edges are images of old targets *)
Lemma rewrite_targets rw es t : In t (map snd (rewrite_edges rw es)) -> exists u, In u (map snd es) /\ t = rw u.
Proof.
  unfold rewrite_edges.
  assert (G : forall l acc, In t (map snd (fold_left (fun acc e => insert_edge acc (fst e) (rw (snd e))) l acc)) ->
              In t (map snd acc) \/ exists u, In u (map snd l) /\ t = rw u).
  { induction l as [|e l IH]; intros acc H; cbn [fold_left] in H; [left; exact H|].
    destruct (IH _ H) as [H1|[u [Hu E]]].
    - rewrite insert_targets in H1.
      match type of H1 with context [existsb ?f ?l] => destruct (existsb f l) end; [left; exact H1|].
      apply in_app_or in H1 as [H1|[<-|[]]]; [left; exact H1|]. right. exists (snd e). split; [left; reflexivity|reflexivity].
    - right. exists u. split; [right; exact Hu|exact E]. }
  intros H. destruct (G es [] H) as [[]|H']. exact H'.
Qed.

(* ---------- equality of state data ---------- *)
Lemma leaf_eqb_eq a b : leaf_eqb a b = true -> a = b.
Proof. unfold leaf_eqb. destruct a, b; intros H; try discriminate; [apply N.eqb_eq in H; subst|]; reflexivity. Qed.
Lemma leaf_eqb_refl a : leaf_eqb a a = true.
Proof. destruct a; cbn; [apply N.eqb_refl|reflexivity]. Qed.
Lemma opt_sid_eqb_refl a : opt_sid_eqb a a = true.
Proof. destruct a; cbn; [apply Pos.eqb_refl|reflexivity]. Qed.

Definition SameData (a b : gstate) : Prop :=
  g_early a = g_early b /\ g_accept a = g_accept b /\ g_eoi a = g_eoi b /\ no_edges a = no_edges b /\
  forall x, byte_ok x -> edge_first (g_edges a) x = edge_first (g_edges b) x.

Lemma st_eqb_spec a b : st_eqb a b = true <-> SameData a b.
Proof.
  unfold st_eqb, SameData. split.
  - intros H.
    destruct (leaf_eqb (g_early a) (g_early b)) eqn:E1; cbn [negb] in H; [|discriminate].
    destruct (leaf_eqb (g_accept a) (g_accept b)) eqn:E2; cbn [negb] in H; [|discriminate].
    destruct (opt_sid_eqb (g_eoi a) (g_eoi b)) eqn:E3; cbn [negb] in H; [|discriminate].
    destruct (Bool.eqb (no_edges a) (no_edges b)) eqn:E4; cbn [negb] in H; [|discriminate].
    split; [apply leaf_eqb_eq; exact E1|]. split; [apply leaf_eqb_eq; exact E2|].
    split; [apply opt_sid_eqb_eq; exact E3|]. split; [apply eqb_prop; exact E4|].
    intros x Hx. rewrite forallb_forall in H. apply opt_sid_eqb_eq. apply H. apply all_bytes_spec. exact Hx.
  - intros [H1 [H2 [H3 [H4 H5]]]]. rewrite H1, H2, H3, H4, leaf_eqb_refl, leaf_eqb_refl, opt_sid_eqb_refl, eqb_reflx. cbn [negb].
    apply forallb_forall. intros x Hx. rewrite H5; [apply opt_sid_eqb_refl|].
    unfold all_bytes in Hx. unfold byte_ok.
    assert (G2 : forall n y, In y (upto n) -> y < N.of_nat n).
    { induction n as [|n IHn]; intros y Hin; [destruct Hin|]. cbn [upto] in Hin.
      apply in_app_or in Hin as [Hin|[<-|[]]]; [specialize (IHn y Hin); lia|lia]. }
    apply (G2 256%nat x Hx).
Qed.

Lemma SameData_refl a : SameData a a.
Proof. repeat split. Qed.
Lemma SameData_sym a b : SameData a b -> SameData b a.
Proof. intros [H1 [H2 [H3 [H4 H5]]]]. repeat split; try congruence. intros x Hx. symmetry. exact (H5 x Hx). Qed.
Lemma SameData_trans a b c : SameData a b -> SameData b c -> SameData a c.
Proof.
  intros [H1 [H2 [H3 [H4 H5]]]] [K1 [K2 [K3 [K4 K5]]]]. repeat split; try congruence.
  intros x Hx. rewrite (H5 x Hx). exact (K5 x Hx).
Qed.

Lemma fold_add_find {A} (f : positive -> A) (l : list positive) : forall m0 q,
  PositiveMap.find q (fold_left (fun m x => PositiveMap.add x (f x) m) l m0)
  = if existsb (Pos.eqb q) l then Some (f q) else PositiveMap.find q m0.
Proof.
  induction l as [|x l IH]; intros m0 q; cbn [fold_left existsb]; [reflexivity|].
  rewrite IH. destruct (Pos.eqb_spec q x) as [->|Hne]; cbn [orb].
  - rewrite PositiveMap.gss. destruct (existsb (Pos.eqb x) l); reflexivity.
  - rewrite PositiveMap.gso by exact Hne. reflexivity.
Qed.

(* ---------- the representative map ---------- *)
Section Round.
  Variable g : graph.
  Hypothesis Hwf : wf_graph g = true.
  Hypothesis Hcl : closed_graph g = true.

  Let els := PositiveMap.elements (g_states g).
  Let rw := rw_of (canon_map g).

  Lemma in_keys s : In s (keys g) <-> exists st, gfind g s = Some st.
  Proof.
    unfold keys, gfind. split.
    - intros H. apply in_map_iff in H as [[s' st] [E Hin]]. cbn [fst] in E. subst s'.
      exists st. apply PositiveMap.elements_complete. exact Hin.
    - intros [st H]. apply in_map_iff. exists (s, st). split; [reflexivity|].
      apply PositiveMap.elements_correct. exact H.
  Qed.

  Lemma keys_mem s : existsb (Pos.eqb s) (keys g) = match gfind g s with Some _ => true | None => false end.
  Proof.
    apply eq_iff_eq_true. rewrite existsb_eqb_in, in_keys. destruct (gfind g s) as [st|].
    - split; [reflexivity|intros _; exists st; reflexivity].
    - split; [intros [st H]; discriminate|discriminate].
  Qed.

  Lemma find_ext {A} (f h : A -> bool) l : (forall x, In x l -> f x = h x) -> find f l = find h l.
  Proof.
    induction l as [|x l IH]; intros H; [reflexivity|]. cbn [find].
    rewrite (H x (or_introl eq_refl)). rewrite IH; [reflexivity|]. intros y Hy. apply H. right. exact Hy.
  Qed.

  Lemma rows_eqb_map (f h : N -> option sid) : forall l,
    rows_eqb (map f l) (map h l) = forallb (fun x => opt_sid_eqb (f x) (h x)) l.
  Proof. induction l as [|x l IH]; cbn [map rows_eqb forallb]; [reflexivity|]. rewrite IH. destruct (opt_sid_eqb (f x) (h x)); reflexivity. Qed.

  Lemma st_eqb_r_row a b : st_eqb_r a (row a) b (row b) = st_eqb a b.
  Proof. unfold st_eqb_r, st_eqb, row. rewrite rows_eqb_map. reflexivity. Qed.

  Lemma find_map_pair {A B} (P : A * B -> bool) (h : A -> B) : forall l,
    find P (map (fun a => (a, h a)) l) = option_map (fun a => (a, h a)) (find (fun a => P (a, h a)) l).
  Proof. induction l as [|a l IH]; cbn [map find option_map]; [reflexivity|]. destruct (P (a, h a)); [reflexivity|exact IH]. Qed.

  Lemma canon_of_r_eq s st :
    canon_of_r (map (fun kv => (kv, row (snd kv))) els) s st (row st) = canon_of els s st.
  Proof.
    unfold canon_of_r, canon_of. unfold els, PositiveMap.key, sid in *.
    set (L := PositiveMap.elements (g_states g)).
    match goal with |- context [find ?P (map ?f L)] =>
      rewrite (find_map_pair P (fun kv => row (snd kv)) L) end.
    cbn [fst snd].
    match goal with |- context [find ?P L] =>
      rewrite (find_ext P (fun kv => st_eqb (snd kv) st) L) by (intros x _; apply st_eqb_r_row) end.
    match goal with |- context [find ?P L] => destruct (find P L) as [[k v]|] end; reflexivity.
  Qed.

  Lemma canon_map_find s : PositiveMap.find s (canon_map g)
    = match gfind g s with Some st => Some (canon_of els s st) | None => None end.
  Proof.
    unfold canon_map. fold els. cbn zeta.
    refine (eq_trans (fold_add_find (fun x => canon_of_r (map (fun kv => (kv, row (snd kv))) els) x (state_of g x) (row (state_of g x))) (keys g) (PositiveMap.empty sid) s) _).
    rewrite keys_mem, PositiveMap.gempty. rewrite canon_of_r_eq. unfold state_of. destruct (gfind g s); reflexivity.
  Qed.

  Lemma rw_state s st : gfind g s = Some st ->
    exists st', gfind g (rw s) = Some st' /\ SameData st' st /\ rw (rw s) = rw s.
  Proof.
    intros Hs. unfold rw, rw_of. rewrite (canon_map_find s), Hs. unfold canon_of.
    match goal with |- context [find ?f els] => destruct (find f els) as [[k v]|] eqn:Ef end.
    - pose proof (find_some _ _ Ef) as [Hin Hk]. cbn [snd fst] in *.
      pose proof (PositiveMap.elements_complete _ _ _ Hin) as Hkv. fold (gfind g k) in Hkv.
      exists v. split; [exact Hkv|]. split; [apply st_eqb_spec; exact Hk|].
      rewrite (canon_map_find k), Hkv. unfold canon_of.
      match goal with |- context [find ?f els] =>
        rewrite (find_ext f (fun kv : sid * gstate => st_eqb (snd kv) st) els) end; [rewrite Ef; reflexivity|].
      intros [k' v'] _. cbn [snd]. apply eq_iff_eq_true. rewrite !st_eqb_spec. apply st_eqb_spec in Hk.
      split; intros H; [exact (SameData_trans _ _ _ H Hk)|exact (SameData_trans _ _ _ H (SameData_sym _ _ Hk))].
    - exfalso. pose proof (find_none _ _ Ef (s, st) (PositiveMap.elements_correct _ _ Hs)) as Hn.
      cbn [snd] in Hn. assert (Ht : st_eqb st st = true) by (apply st_eqb_spec; apply SameData_refl). congruence.
  Qed.

  Lemma rw_absent s : gfind g s = None -> rw s = s.
  Proof. intros Hs. unfold rw, rw_of. rewrite (canon_map_find s), Hs. reflexivity. Qed.

  Let g' := dedup_round g.

  Lemma round_find s : gfind g' s
    = match gfind g s with
      | Some st => if Pos.eqb (rw s) s then Some (rewrite_state rw st) else None
      | None => None end.
  Proof.
    unfold g', dedup_round, gfind. cbn [g_states]. fold rw.
    pose proof (fold_states_find (fun s => Pos.eqb (rw s) s) (fun s => rewrite_state rw (state_of g s)) (keys g) (PositiveMap.empty gstate) s) as H.
    refine (eq_trans H _). clear H. cbn beta.
    rewrite keys_mem, PositiveMap.gempty. unfold state_of, gfind. destruct (PositiveMap.find s (g_states g)); cbn [andb]; [|reflexivity].
    destruct (Pos.eqb (rw s) s); reflexivity.
  Qed.

  Lemma round_root : g_root g' = rw (g_root g).
  Proof. reflexivity. Qed.

  Lemma wf_of s st : gfind g s = Some st -> wf_state st = true.
  Proof. intros H. exact (wf_graph_state g s st Hwf H). Qed.

  Lemma closed_of s st : gfind g s = Some st -> closed_state g st = true.
  Proof.
    intros H. unfold closed_graph in Hcl. apply andb_prop in Hcl as [H1 _]. rewrite forallb_forall in H1.
    exact (H1 (s, st) (PositiveMap.elements_correct _ _ H)).
  Qed.

  Lemma edge_first_target es x t : edge_first es x = Some t -> In t (map snd es).
  Proof.
    induction es as [|[c u] r IH]; cbn [edge_first map snd]; [discriminate|].
    destruct (in_ranges x c); [intros E; injection E as ->; left; reflexivity|intros E; right; exact (IH E)].
  Qed.

  Lemma closed_target s st x t : gfind g s = Some st -> edge_first (g_edges st) x = Some t -> exists st', gfind g t = Some st'.
  Proof.
    intros Hs He. pose proof (closed_of s st Hs) as Hc. unfold closed_state in Hc. apply andb_prop in Hc as [Hc _].
    rewrite forallb_forall in Hc. apply edge_first_target in He. apply in_map_iff in He as [e [<- Hin]].
    specialize (Hc e Hin). destruct (gfind g (snd e)) as [st'|]; [exists st'; reflexivity|discriminate].
  Qed.

  Lemma closed_eoi s st t : gfind g s = Some st -> g_eoi st = Some t -> exists st', gfind g t = Some st'.
  Proof.
    intros Hs He. pose proof (closed_of s st Hs) as Hc. unfold closed_state in Hc. apply andb_prop in Hc as [_ Hc].
    rewrite He in Hc. destruct (gfind g t) as [st'|]; [exists st'; reflexivity|discriminate].
  Qed.

  Definition RoundRel (s1 s2 : sid) : Prop := (exists st, gfind g s1 = Some st) /\ s2 = rw s1.

  Lemma count_le s st x : gfind g s = Some st -> byte_ok x -> (count_edges (g_edges st) x <= 1)%nat.
  Proof.
    intros Hs Hx. pose proof (wf_of s st Hs) as H. unfold wf_state in H. apply andb_prop in H as [H _].
    rewrite forallb_forall in H. specialize (H x (all_bytes_spec x Hx)). apply Nat.leb_le in H. exact H.
  Qed.

  Lemma round_rel s1 s2 : RoundRel s1 s2 -> StatesRel g g' RoundRel s1 s2.
  Proof.
    intros [[st Hs] ->]. destruct (rw_state s1 st Hs) as [st' [Hs' [HD Hidem]]].
    exists st, (rewrite_state rw st'). split; [exact Hs|]. split.
    { rewrite round_find, Hs', Hidem, Pos.eqb_refl. reflexivity. }
    destruct HD as [D1 [D2 [D3 [D4 D5]]]].
    split; [intros off c; unfold record, rewrite_state; cbn [g_early g_accept]; rewrite D1, D2; reflexivity|].
    split.
    { unfold partial_mode_test, no_edges in *. unfold rewrite_state. cbn [g_edges g_eoi]. rewrite D3.
      assert (E : match rewrite_edges rw (g_edges st') with [] => true | _ => false end
                  = match g_edges st' with [] => true | _ => false end).
      { destruct (g_edges st') as [|e r] eqn:Ee; [reflexivity|].
        destruct (rewrite_edges rw (e :: r)) eqn:Er; [apply rewrite_nil in Er; discriminate|reflexivity]. }
      rewrite E, D4. destruct (g_eoi st); reflexivity. }
    split.
    - intros x Hx. unfold rewrite_state. cbn [g_edges].
      rewrite (rewrite_first rw (g_edges st') x Hx (count_le _ _ x Hs' Hx)), (D5 x Hx).
      destruct (edge_first (g_edges st) x) as [t|] eqn:Et; cbn [option_map]; [|exact I].
      split; [exact (closed_target s1 st x t Hs Et)|reflexivity].
    - unfold rewrite_state. cbn [g_eoi]. rewrite D3. destruct (g_eoi st) as [t|] eqn:Et; cbn [option_map]; [|exact I].
      split; [exact (closed_eoi s1 st t Hs Et)|reflexivity].
  Qed.

  Lemma root_present : exists st, gfind g (g_root g) = Some st.
  Proof.
    unfold closed_graph in Hcl. apply andb_prop in Hcl as [_ H].
    destruct (gfind g (g_root g)) as [st|]; [exists st; reflexivity|discriminate].
  Qed.

  (* one round changes no walk *)
  Theorem round_attempt isprefix start hops rest : bytes_ok rest ->
    walk g isprefix start hops rest (g_root g) start None = walk g' isprefix start hops rest (g_root g') start None.
  Proof.
    intros Hw. apply (rel_attempt g g' RoundRel round_rel isprefix start hops rest); [|exact Hw].
    split; [exact root_present|reflexivity].
  Qed.

  (* ... and keeps the graph well formed and closed *)
  Lemma round_wf : wf_graph g' = true.
  Proof.
    unfold wf_graph. apply forallb_forall. intros [s st2] Hin. cbn [snd].
    apply PositiveMap.elements_complete in Hin. fold (gfind g' s) in Hin. rewrite round_find in Hin.
    destruct (gfind g s) as [st|] eqn:Hs; [|discriminate]. destruct (Pos.eqb (rw s) s); [|discriminate].
    injection Hin as <-. unfold wf_state, rewrite_state. cbn [g_edges]. rewrite rewrite_nodup, andb_true_r.
    apply forallb_forall. intros x Hx.
    assert (Hb : byte_ok x).
    { unfold all_bytes in Hx. unfold byte_ok.
      assert (G2 : forall n y, In y (upto n) -> y < N.of_nat n).
      { induction n as [|n IHn]; intros y Hy; [destruct Hy|]. cbn [upto] in Hy.
        apply in_app_or in Hy as [Hy|[<-|[]]]; [specialize (IHn y Hy); lia|lia]. }
      apply (G2 256%nat x Hx). }
    apply Nat.leb_le. rewrite (rewrite_count rw (g_edges st) x Hb (count_le s st x Hs Hb)). exact (count_le s st x Hs Hb).
  Qed.

  Lemma rw_kept t : (exists st, gfind g t = Some st) -> exists st2, gfind g' (rw t) = Some st2.
  Proof.
    intros [st Ht]. destruct (rw_state t st Ht) as [st' [Hs' [_ Hidem]]].
    exists (rewrite_state rw st'). rewrite round_find, Hs', Hidem, Pos.eqb_refl. reflexivity.
  Qed.

  Lemma round_closed : closed_graph g' = true.
  Proof.
    unfold closed_graph. apply andb_true_intro. split.
    - apply forallb_forall. intros [s st2] Hin. cbn [snd].
      apply PositiveMap.elements_complete in Hin. fold (gfind g' s) in Hin. rewrite round_find in Hin.
      destruct (gfind g s) as [st|] eqn:Hs; [|discriminate]. destruct (Pos.eqb (rw s) s); [|discriminate].
      injection Hin as <-. unfold closed_state, rewrite_state. cbn [g_edges g_eoi]. apply andb_true_intro. split.
      + apply forallb_forall. intros e He.
        destruct (rewrite_targets rw (g_edges st) (snd e) (in_map snd _ _ He)) as [u [Hu ->]].
        assert (Hex : exists st', gfind g u = Some st').
        { pose proof (closed_of s st Hs) as Hc. unfold closed_state in Hc. apply andb_prop in Hc as [Hc _].
          rewrite forallb_forall in Hc. apply in_map_iff in Hu as [e0 [<- Hin0]]. specialize (Hc e0 Hin0).
          destruct (gfind g (snd e0)) as [st'|]; [exists st'; reflexivity|discriminate]. }
        destruct (rw_kept u Hex) as [st2 E]. rewrite E. reflexivity.
      + destruct (g_eoi st) as [t|] eqn:Et; cbn [option_map]; [|reflexivity].
        destruct (rw_kept t (closed_eoi s st t Hs Et)) as [st2 E]. rewrite E. reflexivity.
    - rewrite round_root. destruct (rw_kept (g_root g) root_present) as [st2 E]. rewrite E. reflexivity.
  Qed.
End Round.

(* ---------- the loop ---------- *)
Theorem dedup_loop_attempt : forall fuel g, wf_graph g = true -> closed_graph g = true ->
  forall isprefix start hops rest, bytes_ok rest ->
  walk g isprefix start hops rest (g_root g) start None
  = walk (dedup_loop fuel g) isprefix start hops rest (g_root (dedup_loop fuel g)) start None.
Proof.
  induction fuel as [|fuel IH]; intros g Hwf Hcl isprefix start hops rest Hw; cbn [dedup_loop]; [reflexivity|].
  destruct (Nat.eqb _ _).
  - apply round_attempt; assumption.
  - rewrite (round_attempt g Hwf Hcl isprefix start hops rest Hw).
    apply IH; [apply round_wf; assumption|apply round_closed; assumption|exact Hw].
Qed.

Theorem dedup_attempt g : wf_graph g = true -> closed_graph g = true ->
  forall isprefix start hops rest, bytes_ok rest ->
  walk g isprefix start hops rest (g_root g) start None
  = walk (dedup g) isprefix start hops rest (g_root (dedup g)) start None.
Proof. intros Hwf Hcl. unfold dedup. apply dedup_loop_attempt; assumption. Qed.
