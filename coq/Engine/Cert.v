(* Engine/Cert.v — boolean certificate checkers.  No proofs in this file (see CertProofs.v).

   A certificate relates the captured state graph g to the captured raw DFA d through a pairing
   V (graph state |-> DFA states it stands for).  V and the liveness hints are untrusted: every
   condition is local and is re-checked here. *)
From Coq Require Import List NArith PArith Bool FMapPositive.
From LogosV Require Import Engine.Model.
Import ListNotations.
Local Open Scope N_scope.

Definition pairing := PositiveMap.t (list qid).
Definition inV (V : pairing) (s : sid) (q : qid) : bool :=
  match PositiveMap.find s V with Some l => existsb (Pos.eqb q) l | None => false end.

Definition leaf_eqb (a b : option leaf) : bool :=
  match a, b with Some x, Some y => x =? y | None, None => true | _, _ => false end.
Definition is_none {A} (o : option A) : bool := match o with None => true | Some _ => false end.
Definition win_is (wn : winner) (l : leaf) : bool := match wn with WOne l' => l' =? l | _ => false end.
Definition win_none (wn : winner) : bool := match wn with WNone => true | _ => false end.
Definition win_tie (wn : winner) : bool := match wn with WTie => true | _ => false end.

Definition pset := PositiveMap.t unit.
Definition pmem (q : qid) (s : pset) : bool := match PositiveMap.find q s with Some _ => true | None => false end.

(* ---------- DFA sanity ---------- *)
Definition nomatch (d : dfa) (q : qid) : bool := match dmatch d q with [] => true | _ => false end.

Fixpoint nodupb (l : list N) : bool :=
  match l with [] => true | x :: r => negb (existsb (N.eqb x) r) && nodupb r end.

Definition dfa_ok (d : dfa) : bool :=
  forallb (fun kv => nodupb (d_match (snd kv))) (PositiveMap.elements (d_states d))
  && is_none (PositiveMap.find (d_dead d) (d_states d))
  && nomatch d (d_start d)
  && forallb (fun u => nomatch d (dstep d (d_start d) u)) all_units
  && forallb (fun kv => negb (win_tie (win d (fst kv)))) (PositiveMap.elements (d_states d)).

(* ---------- non-liveness hint: a set closed under successors with no matching successor ---------- *)
Definition dead_ok (d : dfa) (D : pset) : bool :=
  forallb (fun kv => let q := fst kv in
             forallb (fun u => nomatch d (dstep d q u)) all_units
             && forallb (fun b => pmem (dstep d q (UB b)) D) all_bytes)
          (PositiveMap.elements D).

(* ---------- liveness hint: ranks strictly decreasing towards a match ---------- *)
Definition rankmap := PositiveMap.t N.
Definition rank_ok (d : dfa) (R : rankmap) : bool :=
  forallb (fun kv => let q := fst kv in let r := snd kv in
             existsb (fun u => negb (nomatch d (dstep d q u))) all_units
             || existsb (fun b => match PositiveMap.find (dstep d q (UB b)) R with
                                  | Some r' => r' <? r | None => false end) all_bytes)
          (PositiveMap.elements R).
Definition lv_of (R : rankmap) (q : qid) : bool :=
  match PositiveMap.find q R with Some _ => true | None => false end.
(* every DFA state is classified: ranked (live) or in D (not live) *)
Definition classify_ok (d : dfa) (R : rankmap) (D : pset) : bool :=
  forallb (fun kv => lv_of R (fst kv) || pmem (fst kv) D) (PositiveMap.elements (d_states d))
  && pmem (d_dead d) D.

(* ---------- terminal target of an end-of-input edge ---------- *)
Definition terminal (g : graph) (t : sid) : bool :=
  match gfind g t with
  | Some st => no_edges st && is_none (g_eoi st) && is_none (g_early st)
  | None => false
  end.

(* ---------- the simulation conditions, for one pair (s, q) ---------- *)
Section Pair.
  Variables (d : dfa) (g : graph) (V : pairing) (D : pset).

  (* late accept of the child must not lose the pending match *)
  Definition pending_ok (st st' : gstate) (q' : qid) : bool :=
    match g_early st with
    | Some _ => true
    | None => match g_early st', g_accept st' with
              | None, None => win_none (win d q')
              | _, _ => true
              end
    end.

  Definition byte_ok (st : gstate) (q : qid) (b : byte) : bool :=
    let q' := dstep d q (UB b) in
    match edge_first (g_edges st) b with
    | Some t => match gfind g t with
                | Some st' => inV V t q' && pending_ok st st' q'
                | None => false
                end
    | None => pmem q' D && (win_none (win d q') || negb (is_none (g_early st)))
    end.

  Definition eoi_ok (st : gstate) (q : qid) : bool :=
    let q' := dstep d q UEoi in
    match g_eoi st with
    | Some t => match gfind g t with
                | Some st' => inV V t q' && terminal g t && pending_ok st st' q'
                | None => false
                end
    | None => win_none (win d q') || negb (is_none (g_early st))
    end.

  Definition pair_ok (s : sid) (q : qid) : bool :=
    match gfind g s with
    | None => false
    | Some st =>
        (* early soundness: every unit successor has the same winner *)
        match g_early st with
        | Some l => forallb (fun u => win_is (win d (dstep d q u)) l) all_units
        | None => (* accept honesty, only where the generated code looks at it *)
                  match g_accept st with Some l => win_is (win d q) l | None => true end
        end
        && forallb (byte_ok st q) all_bytes
        && eoi_ok st q
    end.
End Pair.

Definition sim_ok (d : dfa) (g : graph) (V : pairing) (D : pset) : bool :=
  inV V (g_root g) (d_start d)
  && dead_ok d D
  && forallb (fun kv => forallb (pair_ok d g V D (fst kv)) (snd kv)) (PositiveMap.elements V).

(* ---------- exactness: an edge is taken only if it can still lead to (or confirms) a match ---------- *)
Definition exact_pair (d : dfa) (g : graph) (R : rankmap) (s : sid) (q : qid) : bool :=
  match gfind g s with
  | None => false
  | Some st =>
      forallb (fun b => match edge_first (g_edges st) b with
                        | Some _ => let q' := dstep d q (UB b) in lv_of R q' || negb (nomatch d q')
                        | None => true end) all_bytes
      && match g_eoi st with Some _ => negb (nomatch d (dstep d q UEoi)) | None => true end
  end.
Definition exact_ok (d : dfa) (g : graph) (V : pairing) (R : rankmap) (D : pset) : bool :=
  rank_ok d R && classify_ok d R D
  && forallb (fun kv => forallb (exact_pair d g R (fst kv)) (snd kv)) (PositiveMap.elements V).

(* ---------- graph well-formedness (what the two code generators rely on) ---------- *)
Fixpoint count_edges (es : list (ranges * sid)) (b : byte) : nat :=
  match es with [] => O | (rs, _) :: es' => (if in_ranges b rs then 1 else 0) + count_edges es' b end.
Fixpoint nodup_pos (l : list positive) : bool :=
  match l with [] => true | x :: r => negb (existsb (Pos.eqb x) r) && nodup_pos r end.
(* byte classes pairwise disjoint; at most one edge per target (the generator asserts it) *)
Definition wf_state (st : gstate) : bool :=
  forallb (fun b => Nat.leb (count_edges (g_edges st) b) 1) all_bytes
  && nodup_pos (map snd (g_edges st)).
Definition wf_graph (g : graph) : bool :=
  forallb (fun kv => wf_state (snd kv)) (PositiveMap.elements (g_states g)).

(* ---------- promptness of partial lexing (C07) ----------
   A pair is *determined* when every unit successor of the DFA state is non-live and all agree on
   the winner: then every extension of the text read yields the same item.  A determined pair must
   not be a state that returns None at the end of the buffer (prompt_ok), except that definitions
   with look-around may need one more byte: then every byte edge of the state must lead to a state
   that does not return None (prompt1). *)
Definition winner_eqb (a b : winner) : bool :=
  match a, b with
  | WNone, WNone => true | WTie, WTie => true | WOne x, WOne y => x =? y | _, _ => false end.

Definition determined (d : dfa) (R : rankmap) (q : qid) : bool :=
  let w0 := win d (dstep d q UEoi) in
  negb (lv_of R (dstep d q UEoi)) &&
  forallb (fun b => let q' := dstep d q (UB b) in negb (lv_of R q') && winner_eqb (win d q') w0) all_bytes.

Definition prompt_pair (d : dfa) (g : graph) (R : rankmap) (s : sid) (q : qid) : bool :=
  match gfind g s with
  | None => false
  | Some st =>
      if determined d R q then
        negb (partial_mode_test st)
        || forallb (fun e => match gfind g (snd e) with
                             | Some st' => negb (partial_mode_test st')
                             | None => false end) (g_edges st)
      else true
  end.

Definition prompt_ok (d : dfa) (g : graph) (V : pairing) (R : rankmap) : bool :=
  forallb (fun kv => forallb (prompt_pair d g R (fst kv)) (snd kv)) (PositiveMap.elements V).

(* the strict form, required of definitions without look-around assertions: a determined pair never waits *)
Definition prompt_strict_pair (d : dfa) (g : graph) (R : rankmap) (s : sid) (q : qid) : bool :=
  match gfind g s with
  | None => false
  | Some st => if determined d R q then negb (partial_mode_test st) else true
  end.
Definition prompt_strict_ok (d : dfa) (g : graph) (V : pairing) (R : rankmap) : bool :=
  forallb (fun kv => forallb (prompt_strict_pair d g R (fst kv)) (snd kv)) (PositiveMap.elements V).

(* ---------- UTF-8 (C04, C12): matches end on char boundaries ----------
   PU: a set of (DFA state, UTF-8 automaton state) pairs containing (start, U0) and closed under
   every byte the UTF-8 automaton accepts; whenever a unit successor is a match state the UTF-8
   component must be U0 (the text matched so far ends on a char boundary). *)
From LogosV Require Import Base.Utf8.
Definition upairs := PositiveMap.t (list ustate).
Definition inPU (P : upairs) (q : qid) (u : ustate) : bool :=
  match PositiveMap.find q P with Some l => existsb (ustate_eqb u) l | None => false end.

Definition utf8_pair (d : dfa) (P : upairs) (q : qid) (u : ustate) : bool :=
  forallb (fun b => let u' := ustep u b in
             if ustate_eqb u' URej then true
             else inPU P (dstep d q (UB b)) u'
                  && (nomatch d (dstep d q (UB b)) || ustate_eqb u U0)) all_bytes.

Definition utf8_ok (d : dfa) (P : upairs) : bool :=
  inPU P (d_start d) U0
  && forallb (fun kv => forallb (utf8_pair d P (fst kv)) (snd kv)) (PositiveMap.elements P).

(* strictness: a byte the UTF-8 automaton rejects leads the DFA to a non-live state (it may still
   confirm a match of the text before it): the definition only matches valid UTF-8 *)
Definition utf8_strict_pair (d : dfa) (D : pset) (q : qid) (u : ustate) : bool :=
  forallb (fun b => if ustate_eqb (ustep u b) URej
                    then pmem (dstep d q (UB b)) D else true) all_bytes.
Definition utf8_strict_ok (d : dfa) (P : upairs) (D : pset) : bool :=
  forallb (fun kv => forallb (utf8_strict_pair d D (fst kv)) (snd kv)) (PositiveMap.elements P).

(* ---------- ties (C08) ---------- *)
Definition max_prio (d : dfa) (ms : list leaf) : N := fold_right (fun l acc => N.max (prio d l) acc) 0 ms.
(* the leaves of q's match list that carry the greatest priority *)
Definition tie_leaves (d : dfa) (q : qid) : list leaf :=
  filter (fun l => prio d l =? max_prio d (dmatch d q)) (dmatch d q).
(* the conflicts the derive must report: one leaf set per DFA state whose winner is a tie *)
Definition ties (d : dfa) : list (list leaf) :=
  flat_map (fun kv => if win_tie (win d (fst kv)) then [tie_leaves d (fst kv)] else [])
           (PositiveMap.elements (d_states d)).

(* reachability hint: q |-> (predecessor, unit (0..255 byte, 256 end of input), depth) *)
Definition unit_of_N (u : N) : unit_ := if u <? 256 then UB u else UEoi.
Definition reachmap := PositiveMap.t (qid * N * N).
Definition reach_entry (d : dfa) (H : reachmap) (q : qid) (e : qid * N * N) : bool :=
  match e with
  | (p, u, n) =>
      Pos.eqb (dstep d p (unit_of_N u)) q && (u <=? 256) &&
      (Pos.eqb p (d_start d)
       || match PositiveMap.find p H with
          | Some (_, u', n') => (u' <? 256) && (n' <? n)
          | None => false end)
  end.
Definition reach_ok (d : dfa) (H : reachmap) : bool :=
  forallb (fun kv => reach_entry d H (fst kv) (snd kv)) (PositiveMap.elements H).
