(* Engine/Prog.v — the program that logos_codegen::generate EMITS, as parsed from the generated token
   text by the translator lib/genparse.py (strict template match of generator/{mod,fork,fast_loop,
   leaf}.rs; only the holes are data), its execution, and the checker [prog_ok] that relates it to
   the captured state graph.  No proofs in this file (Engine/ProgProofs.v).

   Per state the emitted code is
       [ fn loop_test(byte) { _TABLE_k[byte] & m == 0 }  _fast_loop!(lex, loop_test, offset); ]
       [ lex.end(offset); context = Some(Leaf_l);  |  lex.end(offset - 1); context = Some(Leaf_l); ]
       let other = lex.read::<u8>(offset);
       if let Some(byte) = other { <if-chain of conditions> | <256-entry jump table> }
       else { [if lex.is_prefix() { lex.end(lex.offset()); return None }]
              [if lex.offset() == offset { return None }]
              [offset += 1; goto eoi state] }
       _take_action!(lex, offset, context, state)                                               *)
From Coq Require Import List Arith NArith PArith Bool FMapPositive.
From LogosV Require Import Engine.Model Engine.ExecOpt Engine.ByteClass.
Import ListNotations.
Local Open Scope N_scope.

Inductive pcond :=
| PLut (k : N) (mask : N)                (* _TABLE_k[byte] & mask != 0 *)
| PCmp (cs : list cmp).                  (* (byte == x) || (matches!(byte, lo..=hi) && byte != e ..) || .. *)
Inductive pfork :=
| PChain (l : list (pcond * sid))        (* if c1 { offset += 1; goto t1 } if c2 { .. } *)
| PTable (t : list (option sid)).        (* TABLE[byte] *)
Inductive psetup := PNoSetup | PEarly (l : leaf) | PAccept (l : leaf).

Record pstate := { p_loop : option (N * N);        (* loop_test: _TABLE_k[byte] & mask == 0 *)
                   p_setup : psetup;
                   p_fork : pfork;
                   p_prefix : bool;                (* the is_prefix test is present *)
                   p_roottest : bool;              (* the `lex.offset() == offset` test is present *)
                   p_eoi : option sid }.
Record prog := { p_luts : list (list N); p_states : PositiveMap.t pstate; p_root : sid; p_restart : sid }.

Definition lut_bit (p : prog) (k : N) (mask b : N) : bool :=
  negb (N.land (nth (N.to_nat b) (nth (N.to_nat k) (p_luts p) []) 0) mask =? 0).

Definition pcond_eval (p : prog) (c : pcond) (b : byte) : bool :=
  match c with
  | PLut k m => lut_bit p k m b
  | PCmp cs => existsb (fun c => cmp_eval c b) cs
  end.

Fixpoint chain_eval (p : prog) (l : list (pcond * sid)) (b : byte) : option sid :=
  match l with
  | [] => None
  | (c, t) :: l' => if pcond_eval p c b then Some t else chain_eval p l' b
  end.

Definition pfork_eval (p : prog) (f : pfork) (b : byte) : option sid :=
  match f with
  | PChain l => chain_eval p l b
  | PTable t => nth (N.to_nat b) t None
  end.

(* the bytes on which loop_test is false, i.e. on which the fast loop goes on *)
Definition loop_class (p : prog) (k : N) (mask : N) : ranges :=
  map (fun b => (b, b)) (filter (fun b => lut_bit p k mask b) all_bytes).

Definition psetup_apply (su : psetup) (off : N) (c : ctx) : ctx :=
  match su with
  | PNoSetup => c
  | PEarly l => Some (l, off)
  | PAccept l => Some (l, off - 1)
  end.

Definition pfast (U : nat) (p : prog) (ps : pstate) (rest : list byte) (off : N) : list byte * N * rlog :=
  match p_loop ps with
  | Some (k, m) => fast_chunk (S (length rest)) U (loop_class p k m) rest off
  | None => (rest, off, [])
  end.

(* execution of the emitted program, with the log of every Lexer::read; same fuel conventions as
   ExecOpt.walk_opt *)
Fixpoint walk_prog (U : nat) (p : prog) (isprefix : bool) (start : N) (fuel : nat) (hops : nat)
                   (rest : list byte) (s : sid) (off : N) (c : ctx) : stop * rlog :=
  match fuel with
  | O => (Diverged, [])
  | S f =>
      match PositiveMap.find s (p_states p) with
      | None => (Stuck, [])
      | Some ps =>
          match pfast U p ps rest off with
          | (rest1, off1, tr1) =>
              let c1 := psetup_apply (p_setup ps) off1 c in
              match rest1 with
              | [] =>
                  let k := match p_eoi ps, hops with
                           | Some t, S h => walk_prog U p isprefix start f h [] t (off1 + 1) c1
                           | _, _ => (Diverged, [])
                           end in
                  match (if p_prefix ps && isprefix then (RetNone true, [])
                         else if p_roottest ps && (off1 =? start) then (RetNone false, [])
                         else match p_eoi ps with
                              | None => (Acted c1 off1, [])
                              | Some _ => k
                              end) with
                  | (r, tr) => (r, tr1 ++ (off1, 1) :: tr) end
              | b :: rest' =>
                  match pfork_eval p (p_fork ps) b with
                  | Some t => match walk_prog U p isprefix start f hops rest' t (off1 + 1) c1 with
                              | (r, tr) => (r, tr1 ++ (off1, 1) :: tr) end
                  | None => (Acted c1 off1, tr1 ++ [(off1, 1)])
                  end
              end
          end
      end
  end.

Definition attempt_prog (U : nat) (p : prog) (nstates : nat) (isprefix : bool) (start : N) (rest : list byte) : stop * rlog :=
  walk_prog U p isprefix start (S (length rest) + S (S nstates)) (S (S nstates)) rest (p_root p) start None.

(* ---------- the checker: the emitted program is the program of the graph ---------- *)
Definition opt_sid_eqb (a b : option sid) : bool :=
  match a, b with Some x, Some y => Pos.eqb x y | None, None => true | _, _ => false end.

Definition setup_ok (su : psetup) (early accept : option leaf) : bool :=
  match early, su with
  | Some l, PEarly l' => l =? l'
  | Some _, _ => false
  | None, _ => match accept, su with
               | Some l, PAccept l' => l =? l'
               | None, PNoSetup => true
               | _, _ => false
               end
  end.

Definition pstate_ok (g : graph) (p : prog) (s : sid) (st : gstate) (ps : pstate) : bool :=
  match self_class s (g_edges st), p_loop ps with
  | Some C, Some (k, m) => forallb (fun b => Bool.eqb (lut_bit p k m b) (in_ranges b C)) all_bytes
  | None, None => true
  | _, _ => false
  end
  && setup_ok (p_setup ps) (g_early st) (g_accept st)
  && forallb (fun b => opt_sid_eqb (pfork_eval p (p_fork ps) b) (fork_lookup s st b)) all_bytes
  && Bool.eqb (p_prefix ps) (partial_mode_test st)
  && Bool.eqb (p_roottest ps) (Pos.eqb s (g_root g))
  && opt_sid_eqb (p_eoi ps) (g_eoi st).

Definition prog_ok (g : graph) (p : prog) : bool :=
  Pos.eqb (p_root p) (g_root g) && Pos.eqb (p_restart p) (g_root g)
  && forallb (fun kv => match PositiveMap.find (fst kv) (p_states p) with
                        | Some ps => pstate_ok g p (fst kv) (snd kv) ps
                        | None => false end) (PositiveMap.elements (g_states g))
  && forallb (fun kv => match gfind g (fst kv) with Some _ => true | None => false end)
             (PositiveMap.elements (p_states p)).

(* constructor for the extracted checker *)
Definition mk_prog (luts : list (list N)) (sts : list (sid * pstate)) (root restart : sid) : prog :=
  {| p_luts := luts;
     p_states := fold_right (fun kv m => PositiveMap.add (fst kv) (snd kv) m) (PositiveMap.empty pstate) sts;
     p_root := root; p_restart := restart |}.
