(* Engine/Utf8Proofs.v — matches of a certified DFA end on char boundaries (C04, C12). *)
From Coq Require Import List Arith NArith PArith Bool FMapPositive Lia.
From LogosV Require Import Base.Utf8 Engine.Model Engine.Cert Engine.CertProofs Engine.SpecProofs Runtime.Source.
Import ListNotations.
Local Open Scope N_scope.

Lemma ustate_eqb_eq a b : ustate_eqb a b = true <-> a = b.
Proof. destruct a, b; cbn; split; congruence. Qed.

Lemma urun_app u a b : urun u (a ++ b) = urun (urun u a) b.
Proof. revert u. induction a as [|x a IH]; intros u; cbn; [reflexivity|apply IH]. Qed.

Lemma urun_rej w : urun URej w = URej.
Proof. induction w; cbn; auto. Qed.

(* a byte accepted by the automaton is a continuation byte exactly when the state is not U0 *)
Definition cont_table_ok : bool :=
  forallb (fun u => forallb (fun b =>
     if ustate_eqb (ustep u b) URej then true
     else Bool.eqb (ustate_eqb u U0) (negb (is_cont8 b))) all_bytes) all_ustates.
Lemma cont_table : cont_table_ok = true.
Proof. vm_compute. reflexivity. Qed.

Lemma all_ustates_spec u : In u all_ustates.
Proof. destruct u; cbn; tauto. Qed.

Lemma ustep_cont u b : byte_ok b -> ustep u b <> URej -> (u = U0 <-> is_cont8 b = false).
Proof.
  intros Hb Hn. pose proof cont_table as T. unfold cont_table_ok in T.
  rewrite forallb_forall in T. specialize (T u (all_ustates_spec u)).
  rewrite forallb_forall in T. specialize (T b (all_bytes_spec b Hb)).
  destruct (ustate_eqb (ustep u b) URej) eqn:E; [apply ustate_eqb_eq in E; contradiction|].
  apply Bool.eqb_prop in T. split.
  - intros ->. cbn in T. destruct (is_cont8 b); [discriminate|reflexivity].
  - intros Hc. rewrite Hc in T. cbn in T. apply ustate_eqb_eq. exact T.
Qed.

(* ---------- the product certificate ---------- *)
Lemma inPU_elements P q u : inPU P q u = true -> exists us, In (q, us) (PositiveMap.elements P) /\ In u us.
Proof.
  unfold inPU. destruct (PositiveMap.find q P) as [us|] eqn:E; [|discriminate].
  intros H. exists us. split; [apply PositiveMap.elements_correct; exact E|].
  apply existsb_exists in H as [x [Hx He]]. apply ustate_eqb_eq in He. subst. exact Hx.
Qed.

Section U.
  Variables (d : dfa) (P : upairs).
  Hypothesis HU : utf8_ok d P = true.

  Lemma pu_start : inPU P (d_start d) U0 = true.
  Proof. unfold utf8_ok in HU. apply andb_prop in HU as [H _]. exact H. Qed.

  Lemma pu_step q u b : inPU P q u = true -> byte_ok b -> ustep u b <> URej ->
    inPU P (dstep d q (UB b)) (ustep u b) = true /\ (dmatch d (dstep d q (UB b)) <> [] -> u = U0).
  Proof.
    intros Hin Hb Hn. apply inPU_elements in Hin as [us [H1 H2]].
    unfold utf8_ok in HU. apply andb_prop in HU as [_ H]. rewrite forallb_forall in H.
    specialize (H _ H1). cbn [fst snd] in H. rewrite forallb_forall in H. specialize (H _ H2).
    unfold utf8_pair in H. rewrite forallb_forall in H. specialize (H b (all_bytes_spec b Hb)). cbn zeta in H.
    destruct (ustate_eqb (ustep u b) URej) eqn:E; [apply ustate_eqb_eq in E; contradiction|].
    apply andb_prop in H as [Ha Hm]. split; [exact Ha|].
    intros Hne. apply orb_prop in Hm as [Hm|Hm].
    - apply nomatch_true in Hm. contradiction.
    - apply ustate_eqb_eq. exact Hm.
  Qed.

  (* a match of the first j bytes of rest, shown by the byte that follows, ends at U0 *)
  Lemma match_at_boundary : forall rest q u j,
    bytes_ok rest -> inPU P q u = true -> (j < length rest)%nat ->
    urun u (firstn (S j) rest) <> URej ->
    dmatch d (mstate d q rest j) <> [] -> urun u (firstn j rest) = U0.
  Proof.
    induction rest as [|b rest IH]; intros q u j Hw Hin Hj Hn Hm; [cbn in Hj; lia|].
    inversion Hw as [|? ? Hb Hw']; subst.
    assert (Hs : ustep u b <> URej).
    { intros E. apply Hn. cbn [firstn urun]. rewrite E. apply urun_rej. }
    destruct (pu_step q u b Hin Hb Hs) as [Hin' Hmb].
    destruct j as [|j].
    - cbn [firstn urun]. apply Hmb. rewrite mstate_0 in Hm. exact Hm.
    - cbn [firstn urun]. rewrite mstate_S in Hm.
      apply (IH (dstep d q (UB b)) (ustep u b) j Hw' Hin'); [cbn [length] in Hj; lia| |exact Hm].
      cbn [firstn urun] in Hn. exact Hn.
  Qed.
End U.

(* ---------- boundaries of a valid string ---------- *)
Definition Bnd (w : list N) (i : nat) : Prop := urun U0 (firstn i w) = U0.

Lemma valid_prefix_not_rej w i : utf8_valid w = true -> urun U0 (firstn i w) <> URej.
Proof.
  unfold utf8_valid. intros H E. apply ustate_eqb_eq in H.
  rewrite <- (firstn_skipn i w) in H. rewrite urun_app, E, urun_rej in H. discriminate.
Qed.

Theorem match_ends_on_boundary d P w p j :
  utf8_ok d P = true -> bytes_ok w -> utf8_valid w = true ->
  Bnd w p -> (p + j <= length w)%nat ->
  dmatch d (mstate d (d_start d) (skipn p w) j) <> [] -> Bnd w (p + j).
Proof.
  intros HU Hw Hv Hp Hlen Hm. unfold Bnd in *.
  assert (Hsplit : forall n, (p + n <= length w)%nat -> urun U0 (firstn (p + n) w) = urun U0 (firstn n (skipn p w))).
  { intros n Hn. rewrite <- (firstn_skipn p w) at 1.
    rewrite firstn_app, firstn_length. replace (Nat.min p (length w)) with p by lia.
    replace (p + n - p)%nat with n by lia.
    rewrite firstn_firstn. replace (Nat.min (p + n) p) with p by lia.
    rewrite urun_app, Hp. reflexivity. }
  rewrite (Hsplit j Hlen).
  destruct (Nat.eq_dec (p + j) (length w)) as [Hend|Hne].
  - (* the match reaches the end of the input: the whole string is valid *)
    rewrite <- (Hsplit j Hlen). rewrite Hend, firstn_all. apply ustate_eqb_eq. exact Hv.
  - apply (match_at_boundary d P HU (skipn p w) (d_start d) U0 j).
    + apply bytes_ok_skipn. exact Hw.
    + apply pu_start. exact HU.
    + rewrite skipn_length. lia.
    + rewrite <- (Hsplit (S j)); [|lia]. apply valid_prefix_not_rej. exact Hv.
    + exact Hm.
Qed.

Lemma firstn_S_nth (w : list N) : forall n b, nth_error w n = Some b -> firstn (S n) w = firstn n w ++ [b].
Proof.
  induction w as [|x w IH]; intros n b E; [destruct n; discriminate|].
  destruct n as [|n].
  - cbn in E. injection E as ->. reflexivity.
  - cbn [nth_error] in E. change (firstn (S (S n)) (x :: w)) with (x :: firstn (S n) w).
    rewrite (IH n b E). reflexivity.
Qed.

(* the automaton reading agrees with str::is_char_boundary on valid strings *)
Theorem bnd_iff_is_boundary w i : bytes_ok w -> utf8_valid w = true -> (i <= length w)%nat ->
  (Bnd w i <-> is_boundary true w (N.of_nat i) = true).
Proof.
  intros Hw Hv Hi. unfold Bnd, is_boundary.
  destruct i as [|i]; [cbn; tauto|].
  replace (N.of_nat (S i) =? 0) with false by (symmetry; apply N.eqb_neq; lia).
  replace (N.of_nat (length w) <? N.of_nat (S i)) with false by (symmetry; apply N.ltb_ge; lia).
  rewrite Nat2N.id.
  destruct (nth_error w (S i)) as [b|] eqn:E.
  - (* inside: decided by the byte at i+1 *)
    assert (Hlt : (S i < length w)%nat) by (apply nth_error_Some; congruence).
    assert (Hb : byte_ok b) by (unfold bytes_ok in Hw; rewrite Forall_forall in Hw; exact (Hw b (nth_error_In _ _ E))).
    assert (Hstep : urun U0 (firstn (S (S i)) w) = ustep (urun U0 (firstn (S i) w)) b).
    { rewrite (firstn_S_nth _ _ _ E). rewrite urun_app. reflexivity. }
    pose proof (valid_prefix_not_rej w (S (S i)) Hv) as Hn. rewrite Hstep in Hn.
    pose proof (ustep_cont _ b Hb Hn) as Hc.
    unfold Source.is_cont. unfold is_cont8 in Hc.
    split; intros H.
    + apply Hc in H. rewrite H. reflexivity.
    + apply Hc. apply negb_true_iff in H. exact H.
  - assert (S i = length w) by (apply nth_error_None in E; lia).
    rewrite H, firstn_all. split; intros _; [apply N.eqb_refl|apply ustate_eqb_eq; exact Hv].
Qed.
