(* Engine/ProgProofs.v — an emitted program accepted by [prog_ok] runs exactly like the emitted-program
   model of the graph (ExecOpt.walk_opt: same result, same read log), hence like the reference
   semantics (OptProofs.walk_opt_ref). *)
From Coq Require Import List Arith NArith PArith Bool FMapPositive Lia.
From LogosV Require Import Engine.Model Engine.Cert Engine.ExecOpt Engine.ByteClass Engine.Prog
                           Engine.CertProofs Engine.OptProofs.
Import ListNotations.
Local Open Scope N_scope.

(* ---------- the fast loop depends on the class only through membership of bytes ---------- *)
Definition same_class (C1 C2 : ranges) : Prop := forall b, byte_ok b -> in_ranges b C1 = in_ranges b C2.

Lemma fast_single_ext C1 C2 : same_class C1 C2 -> forall rest off, bytes_ok rest ->
  fast_single C1 rest off = fast_single C2 rest off.
Proof.
  intros H. induction rest as [|b rest IH]; intros off Hw; [reflexivity|].
  inversion Hw as [|? ? Hb Hw']; subst. cbn [fast_single]. rewrite (H b Hb), (IH (off + 1) Hw'). reflexivity.
Qed.

Lemma first_out_ext C1 C2 : same_class C1 C2 -> forall n l, bytes_ok l -> first_out C1 l n = first_out C2 l n.
Proof.
  intros H. induction n as [|n IH]; intros l Hw; [reflexivity|].
  destruct l as [|b l]; [reflexivity|]. inversion Hw as [|? ? Hb Hw']; subst.
  cbn [first_out]. rewrite (H b Hb), (IH l Hw'). reflexivity.
Qed.

Lemma bytes_ok_skipn' n w : bytes_ok w -> bytes_ok (skipn n w).
Proof.
  unfold bytes_ok. revert w. induction n as [|n IH]; intros w H; [exact H|].
  destruct w as [|b w]; [constructor|]. cbn [skipn]. apply IH. inversion H; assumption.
Qed.

Lemma fast_chunk_ext U C1 C2 : same_class C1 C2 -> forall fuel rest off, bytes_ok rest ->
  fast_chunk fuel U C1 rest off = fast_chunk fuel U C2 rest off.
Proof.
  intros H. induction fuel as [|fuel IH]; intros rest off Hw; cbn [fast_chunk].
  - apply fast_single_ext; assumption.
  - rewrite (first_out_ext C1 C2 H U rest Hw), (fast_single_ext C1 C2 H rest off Hw).
    rewrite (IH (skipn U rest) (off + N.of_nat U) (bytes_ok_skipn' U rest Hw)). reflexivity.
Qed.

Lemma loop_class_in p k m b : byte_ok b -> in_ranges b (loop_class p k m) = lut_bit p k m b.
Proof.
  intros Hb. unfold in_ranges, loop_class. apply eq_iff_eq_true. rewrite existsb_exists. split.
  - intros [r [Hin Hr]]. apply in_map_iff in Hin as [x [<- Hx]]. apply filter_In in Hx as [_ Hx].
    unfold in_range in Hr. cbn [fst snd] in Hr. apply andb_prop in Hr as [H1 H2].
    apply N.leb_le in H1. apply N.leb_le in H2. assert (x = b) by lia. subst. exact Hx.
  - intros H. exists (b, b). split.
    + apply in_map_iff. exists b. split; [reflexivity|]. apply filter_In. split; [apply all_bytes_spec; exact Hb|exact H].
    + unfold in_range. cbn [fst snd]. rewrite N.leb_refl. reflexivity.
Qed.

(* ---------- what the checker establishes ---------- *)
Lemma opt_sid_eqb_eq a b : opt_sid_eqb a b = true -> a = b.
Proof.
  unfold opt_sid_eqb. destruct a, b; intros H; try discriminate; [|reflexivity].
  apply Pos.eqb_eq in H. subst. reflexivity.
Qed.

Lemma setup_ok_record su st off c :
  setup_ok su (g_early st) (g_accept st) = true -> psetup_apply su off c = record st off c.
Proof.
  unfold setup_ok, record, psetup_apply. destruct (g_early st) as [l|].
  - destruct su; intros H; try discriminate. apply N.eqb_eq in H. subst. reflexivity.
  - destruct (g_accept st) as [l|]; destruct su; intros H; try discriminate; [|reflexivity].
    apply N.eqb_eq in H. subst. reflexivity.
Qed.

Section Ok.
  Variables (g : graph) (p : prog).
  Hypothesis Hok : prog_ok g p = true.

  Lemma ok_root : p_root p = g_root g.
  Proof.
    unfold prog_ok in Hok. apply andb_prop in Hok as [H _]. apply andb_prop in H as [H _]. apply andb_prop in H as [H _].
    apply Pos.eqb_eq. exact H.
  Qed.
  Lemma ok_restart : p_restart p = g_root g.
  Proof.
    unfold prog_ok in Hok. apply andb_prop in Hok as [H _]. apply andb_prop in H as [H _]. apply andb_prop in H as [_ H].
    apply Pos.eqb_eq. exact H.
  Qed.

  Lemma ok_state s st : gfind g s = Some st ->
    exists ps, PositiveMap.find s (p_states p) = Some ps /\ pstate_ok g p s st ps = true.
  Proof.
    intros Hs. unfold prog_ok in Hok. apply andb_prop in Hok as [H _]. apply andb_prop in H as [_ H].
    rewrite forallb_forall in H. specialize (H (s, st) (PositiveMap.elements_correct _ _ Hs)). cbn [fst snd] in H.
    destruct (PositiveMap.find s (p_states p)) as [ps|]; [|discriminate]. exists ps. split; [reflexivity|exact H].
  Qed.

  Lemma ok_absent s : gfind g s = None -> PositiveMap.find s (p_states p) = None.
  Proof.
    intros Hs. destruct (PositiveMap.find s (p_states p)) as [ps|] eqn:E; [|reflexivity].
    unfold prog_ok in Hok. apply andb_prop in Hok as [_ H]. rewrite forallb_forall in H.
    specialize (H (s, ps) (PositiveMap.elements_correct _ _ E)). cbn [fst] in H. rewrite Hs in H. discriminate.
  Qed.

  Lemma ok_fast U s st ps rest off : pstate_ok g p s st ps = true -> bytes_ok rest ->
    pfast U p ps rest off = fast_loop U s st rest off.
  Proof.
    intros H Hw. unfold pstate_ok in H. repeat (apply andb_prop in H as [H _]).
    unfold pfast, fast_loop. destruct (self_class s (g_edges st)) as [C|], (p_loop ps) as [[k m]|]; try discriminate; [|reflexivity].
    apply fast_chunk_ext; [|exact Hw]. intros b Hb. rewrite loop_class_in by exact Hb.
    rewrite forallb_forall in H. specialize (H b (all_bytes_spec b Hb)). apply eqb_prop in H. exact H.
  Qed.

  Lemma ok_parts s st ps : pstate_ok g p s st ps = true ->
    setup_ok (p_setup ps) (g_early st) (g_accept st) = true /\
    (forall b, byte_ok b -> pfork_eval p (p_fork ps) b = fork_lookup s st b) /\
    p_prefix ps = partial_mode_test st /\ p_roottest ps = Pos.eqb s (g_root g) /\ p_eoi ps = g_eoi st.
  Proof.
    intros H. unfold pstate_ok in H.
    apply andb_prop in H as [H H6]. apply andb_prop in H as [H H5]. apply andb_prop in H as [H H4].
    apply andb_prop in H as [H H3]. apply andb_prop in H as [_ H2].
    split; [exact H2|]. split.
    - intros b Hb. rewrite forallb_forall in H3. apply opt_sid_eqb_eq. apply H3. apply all_bytes_spec. exact Hb.
    - split; [apply eqb_prop; exact H4|]. split; [apply eqb_prop; exact H5|apply opt_sid_eqb_eq; exact H6].
  Qed.

  (* the emitted program and the emitted-program model of the graph: same result, same reads *)
  Theorem walk_prog_opt U isprefix start : forall fuel hops rest s off c, bytes_ok rest ->
    walk_prog U p isprefix start fuel hops rest s off c = walk_opt U g isprefix start fuel hops rest s off c.
  Proof.
    induction fuel as [|fuel IH]; intros hops rest s off c Hw; [reflexivity|].
    cbn [walk_prog walk_opt].
    destruct (gfind g s) as [st|] eqn:Hs.
    - destruct (ok_state s st Hs) as [ps [Eps Hps]]. rewrite Eps.
      rewrite (ok_fast U s st ps rest off Hps Hw).
      destruct (ok_parts s st ps Hps) as [Hsu [Hfork [Hpre [Hroot Heoi]]]].
      destruct (fast_loop U s st rest off) as [[rest1 off1] tr1] eqn:Ef.
      assert (Hw1 : bytes_ok rest1).
      { destruct (fast_loop_sem U s st rest off rest1 off1 tr1 Ef) as [pre [E _]]. subst rest.
        unfold bytes_ok in *. apply Forall_app in Hw. tauto. }
      rewrite (setup_ok_record _ st off1 c Hsu).
      destruct rest1 as [|b rest'].
      + unfold eoi_block. rewrite Hpre, Hroot, Heoi.
        destruct (g_eoi st) as [t|]; [|reflexivity].
        destruct hops as [|h]; [reflexivity|].
        rewrite (IH h [] t (off1 + 1) (record st off1 c) (Forall_nil _)). reflexivity.
      + inversion Hw1 as [|? ? Hb Hw']; subst. rewrite (Hfork b Hb).
        destruct (fork_lookup s st b) as [t|]; [|reflexivity].
        rewrite (IH hops rest' t (off1 + 1) (record st off1 c) Hw'). reflexivity.
    - rewrite (ok_absent s Hs). reflexivity.
  Qed.
End Ok.

(* ... and therefore like the reference semantics of the graph *)
Theorem prog_is_ref U g p isprefix start : prog_ok g p = true -> wf_graph g = true ->
  forall fuel hops rest s off c, bytes_ok rest -> (length rest + hops < fuel)%nat ->
  fst (walk_prog U p isprefix start fuel hops rest s off c) = walk g isprefix start hops rest s off c.
Proof.
  intros Hok Hwf fuel hops rest s off c Hw Hf.
  rewrite (walk_prog_opt g p Hok U isprefix start fuel hops rest s off c Hw).
  apply walk_opt_ref; assumption.
Qed.

Theorem attempt_prog_is_ref U g p isprefix start rest : prog_ok g p = true -> wf_graph g = true -> bytes_ok rest ->
  fst (attempt_prog U p (PositiveMap.cardinal (g_states g)) isprefix start rest) = attempt_ref g isprefix start rest.
Proof.
  intros Hok Hwf Hw. unfold attempt_prog, attempt_ref, hops_of. rewrite (ok_root g p Hok).
  apply prog_is_ref; [exact Hok|exact Hwf|exact Hw|lia].
Qed.

(* ---------- reads of ANY program of the parsed shape (no checker involved) ---------- *)
Lemma pfast_log U p ps rest off rest1 off1 tr1 : (1 <= U)%nat ->
  pfast U p ps rest off = (rest1, off1, tr1) ->
  off <= off1 /\ sorted_in off (offs tr1) off1 /\ N.of_nat (length tr1) <= off1 - off + 2.
Proof.
  intros HU. unfold pfast. destruct (p_loop ps) as [[k m]|]; intros H.
  - exact (fast_chunk_log U _ HU _ _ _ _ _ _ H).
  - injection H as ? ? ?; subst. split; [lia|]. split; [apply sorted_in_nil|cbn; lia].
Qed.

Theorem walk_prog_log U p isprefix start : (1 <= U)%nat ->
  forall fuel hops rest s off c r tr,
  walk_prog U p isprefix start fuel hops rest s off c = (r, tr) ->
  exists hi, off <= hi /\ sorted_in off (offs tr) hi /\ N.of_nat (length tr) <= 3 * (hi + 1 - off).
Proof.
  intros HU. induction fuel as [|fuel IH]; intros hops rest s off c r tr H; cbn [walk_prog] in H.
  - injection H as ? ?; subst. exists off. split; [lia|]. split; [apply sorted_in_nil|cbn; lia].
  - destruct (PositiveMap.find s (p_states p)) as [ps|].
    2:{ injection H as ? ?; subst. exists off. split; [lia|]. split; [apply sorted_in_nil|cbn; lia]. }
    destruct (pfast U p ps rest off) as [[rest1 off1] tr1] eqn:Efl.
    destruct (pfast_log U p ps rest off rest1 off1 tr1 HU Efl) as [Hle [S1 L1]].
    destruct rest1 as [|b rest'].
    + assert (Hnil : forall r0, (r0, tr1 ++ [(off1, 1)]) = (r, tr) ->
        exists hi, off <= hi /\ sorted_in off (offs tr) hi /\ N.of_nat (length tr) <= 3 * (hi + 1 - off)).
      { intros r0 E. injection E as ? ?; subst.
        apply (visit_log off off1 tr1 [] off1); [lia|exact S1|exact L1|lia|right; reflexivity|cbn; lia]. }
      destruct (p_prefix ps && isprefix); [exact (Hnil _ H)|].
      destruct (p_roottest ps && (off1 =? start)); [exact (Hnil _ H)|].
      destruct (p_eoi ps) as [t|]; [|exact (Hnil _ H)].
      destruct hops as [|h]; [exact (Hnil _ H)|].
      destruct (walk_prog U p isprefix start fuel h [] t (off1 + 1) (psetup_apply (p_setup ps) off1 c)) as [r2 tr2] eqn:Ew.
      injection H as ? ?; subst.
      destruct (IH _ _ _ _ _ _ _ Ew) as [hi' [Hh [S' L']]].
      apply (visit_log off off1 tr1 tr2 hi'); [lia|exact S1|exact L1|lia|left; exact S'|lia].
    + destruct (pfork_eval p (p_fork ps) b) as [t|].
      * destruct (walk_prog U p isprefix start fuel hops rest' t (off1 + 1) (psetup_apply (p_setup ps) off1 c)) as [r2 tr2] eqn:Ew.
        injection H as ? ?; subst.
        destruct (IH _ _ _ _ _ _ _ Ew) as [hi' [Hh [S' L']]].
        apply (visit_log off off1 tr1 tr2 hi'); [lia|exact S1|exact L1|lia|left; exact S'|lia].
      * injection H as ? ?; subst.
        apply (visit_log off off1 tr1 [] off1); [lia|exact S1|exact L1|lia|right; reflexivity|cbn; lia].
Qed.

(* ---------- the whole stream ---------- *)
From LogosV Require Import Engine.SpecProofs Engine.StopProofs Engine.LexProofs.

Lemma att_equiv_refl x : att_equiv x x.
Proof. destruct x as [[[l e]|] o|r| |]; cbn [att_equiv]; auto. Qed.

(* lexing with the emitted program, under the runtime loop of Lexer::next, yields the regions and the
   final outcome of the reference semantics of its graph: every input, callback oracle and mode *)
Theorem emitted_stream U g p act fb (w : list byte) isprefix :
  prog_ok g p = true -> wf_graph g = true -> bytes_ok w ->
  lex_all (fun ip s r => fst (attempt_prog U p (PositiveMap.cardinal (g_states g)) ip s r)) act fb w isprefix
  = lex_all (attempt_ref g) act fb w isprefix.
Proof.
  intros Hok Hwf Hw. unfold lex_all. apply lex_from_equiv. intros start.
  rewrite (attempt_prog_is_ref U g p isprefix start _ Hok Hwf (bytes_ok_skipn' _ w Hw)).
  apply att_equiv_refl.
Qed.
