(* Engine/CertProofs.v — soundness of the certificate checkers and the attempt theorem. *)
From Coq Require Import List Arith NArith PArith Bool FMapPositive Lia.
From LogosV Require Import Engine.Model Engine.Cert.
Import ListNotations.
Local Open Scope N_scope.

(* ---------- bytes ---------- *)
Definition byte_ok (b : N) : Prop := b < 256.
Definition bytes_ok (w : list N) : Prop := Forall byte_ok w.
Definition unit_ok (u : unit_) : Prop := match u with UB b => byte_ok b | UEoi => True end.

Lemma upto_spec n b : (N.to_nat b < n)%nat -> In b (upto n).
Proof.
  induction n as [|n IH]; intros H; [lia|].
  cbn [upto]. apply in_or_app.
  destruct (Nat.eq_dec (N.to_nat b) n) as [E|E].
  - right. left. rewrite <- E. apply N2Nat.id.
  - left. apply IH. lia.
Qed.

Lemma all_bytes_spec b : byte_ok b -> In b all_bytes.
Proof. unfold byte_ok, all_bytes. intros H. apply upto_spec. lia. Qed.

Lemma all_units_spec u : unit_ok u -> In u all_units.
Proof.
  unfold all_units. destruct u as [b|]; cbn [unit_ok]; intros H.
  - right. apply in_map. apply all_bytes_spec. exact H.
  - left. reflexivity.
Qed.

(* ---------- liveness ---------- *)
Inductive Live (d : dfa) : qid -> Prop :=
| live_now q u : unit_ok u -> dmatch d (dstep d q u) <> [] -> Live d q
| live_step q b : byte_ok b -> Live d (dstep d q (UB b)) -> Live d q.

Lemma nomatch_true d q : nomatch d q = true <-> dmatch d q = [].
Proof. unfold nomatch. destruct (dmatch d q); split; congruence. Qed.

Lemma pmem_elements (q : qid) (D : pset) :
  pmem q D = true -> In (q, tt) (PositiveMap.elements D).
Proof.
  unfold pmem. destruct (PositiveMap.find q D) as [[]|] eqn:E; [|discriminate].
  intros _. apply PositiveMap.elements_correct. exact E.
Qed.

Lemma dead_ok_sound d D :
  dead_ok d D = true -> forall q, Live d q -> pmem q D = true -> False.
Proof.
  intros HD q HL. induction HL as [q u Hu Hm | q b Hb HL IH]; intros Hq.
  - apply pmem_elements in Hq.
    unfold dead_ok in HD. rewrite forallb_forall in HD. specialize (HD _ Hq).
    cbn [fst] in HD. apply andb_prop in HD as [H1 _].
    rewrite forallb_forall in H1. specialize (H1 u (all_units_spec u Hu)).
    apply nomatch_true in H1. contradiction.
  - apply IH. apply pmem_elements in Hq.
    unfold dead_ok in HD. rewrite forallb_forall in HD. specialize (HD _ Hq).
    cbn [fst] in HD. apply andb_prop in HD as [_ H2].
    rewrite forallb_forall in H2. exact (H2 b (all_bytes_spec b Hb)).
Qed.

Lemma win_nomatch d q : dmatch d q = [] -> win d q = WNone.
Proof. unfold win. intros ->. reflexivity. Qed.

Lemma scan_not_live d : forall rest q k best,
  bytes_ok rest -> ~ Live d q -> scan d q rest k best = best.
Proof.
  induction rest as [|b rest IH]; intros q k best Hw HL; cbn [scan].
  - rewrite win_nomatch; [reflexivity|].
    destruct (dmatch d (dstep d q UEoi)) eqn:E; [reflexivity|].
    exfalso. apply HL. apply (live_now d q UEoi); [exact I|]. rewrite E. discriminate.
  - inversion Hw as [|? ? Hb Hw']; subst.
    rewrite win_nomatch.
    + cbn [upd]. apply IH; [exact Hw'|]. intros HL'. apply HL. exact (live_step d q b Hb HL').
    + destruct (dmatch d (dstep d q (UB b))) eqn:E; [reflexivity|].
      exfalso. apply HL. apply (live_now d q (UB b)); [exact Hb|]. rewrite E. discriminate.
Qed.

(* ---------- helper facts about winners ---------- *)
Lemma win_is_true wn l : win_is wn l = true -> wn = WOne l.
Proof. destruct wn; cbn; try discriminate. intros H. apply N.eqb_eq in H. congruence. Qed.
Lemma win_none_true wn : win_none wn = true -> wn = WNone.
Proof. destruct wn; cbn; congruence. Qed.
Lemma is_none_true {A} (o : option A) : is_none o = true -> o = None.
Proof. destruct o; cbn; congruence. Qed.
Lemma is_none_false {A} (o : option A) : negb (is_none o) = true -> o <> None.
Proof. destruct o; cbn; congruence. Qed.

Lemma opt_cases {A} (o : option A) : (exists x, o = Some x) \/ o = None.
Proof. destruct o; eauto. Qed.

Lemma upd_one best k l : upd best k (WOne l) = Some (l, k).
Proof. reflexivity. Qed.

(* ---------- membership in the pairing ---------- *)
Lemma inV_elements V s q :
  inV V s q = true -> exists qs, In (s, qs) (PositiveMap.elements V) /\ In q qs.
Proof.
  unfold inV. destruct (PositiveMap.find s V) as [qs|] eqn:E; [|discriminate].
  intros H. exists qs. split.
  - apply PositiveMap.elements_correct. exact E.
  - apply existsb_exists in H as [x [Hx Hq]]. apply Pos.eqb_eq in Hq. subst. exact Hx.
Qed.

Section Sim.
  Variables (d : dfa) (g : graph) (V : pairing) (D : pset).
  Hypothesis Hsim : sim_ok d g V D = true.

  Lemma sim_root : inV V (g_root g) (d_start d) = true.
  Proof. unfold sim_ok in Hsim. apply andb_prop in Hsim as [H _]. apply andb_prop in H as [H _]. exact H. Qed.

  Lemma sim_dead : dead_ok d D = true.
  Proof. unfold sim_ok in Hsim. apply andb_prop in Hsim as [H _]. apply andb_prop in H as [_ H]. exact H. Qed.

  Lemma sim_pair s q : inV V s q = true -> pair_ok d g V D s q = true.
  Proof.
    intros H. apply inV_elements in H as [qs [H1 H2]].
    unfold sim_ok in Hsim. apply andb_prop in Hsim as [_ H].
    rewrite forallb_forall in H. specialize (H _ H1). cbn [fst snd] in H.
    rewrite forallb_forall in H. exact (H _ H2).
  Qed.

  Lemma not_live_D q : pmem q D = true -> ~ Live d q.
  Proof. intros H HL. exact (dead_ok_sound d D sim_dead q HL H). Qed.

  (* What is known about a pair, in Prop form *)
  Lemma pair_facts s q st :
    inV V s q = true -> gfind g s = Some st ->
    (forall l, g_early st = Some l -> forall u, unit_ok u -> win d (dstep d q u) = WOne l) /\
    (forall l, g_early st = None -> g_accept st = Some l -> win d q = WOne l) /\
    (forall b, byte_ok b -> Cert.byte_ok d g V D st q b = true) /\
    eoi_ok d g V st q = true.
  Proof.
    intros HV Hst. pose proof (sim_pair s q HV) as H. unfold pair_ok in H. rewrite Hst in H.
    apply andb_prop in H as [H He]. apply andb_prop in H as [Hr Hb].
    repeat split.
    - intros l El u Hu. rewrite El in Hr. rewrite forallb_forall in Hr.
      apply win_is_true. apply Hr. apply all_units_spec. exact Hu.
    - intros l En Ea. rewrite En, Ea in Hr. apply win_is_true. exact Hr.
    - intros b Hbk. rewrite forallb_forall in Hb. apply Hb. apply all_bytes_spec. exact Hbk.
    - exact He.
  Qed.

  (* The attempt invariant.  On arrival in graph state s paired with DFA state q at offset off,
     with recorded context c: the match of the text ending at off-1 (shown by win d q) is either
     supplied by this state's late accept, overridden by its early accept, or already in c. *)
  Definition pend_inv (st : gstate) (q : qid) (off : N) (c : ctx) : Prop :=
    g_early st = None -> g_accept st = None -> upd c (off - 1) (win d q) = c.

  Lemma record_eff st q off c :
    (forall l, g_early st = None -> g_accept st = Some l -> win d q = WOne l) ->
    pend_inv st q off c -> g_early st = None ->
    record st off c = upd c (off - 1) (win d q).
  Proof.
    intros Hacc Hp En. unfold record. rewrite En.
    destruct (opt_cases (g_accept st)) as [[l Ea]|Ea]; rewrite Ea.
    - rewrite (Hacc l En Ea). reflexivity.
    - symmetry. apply Hp; [exact En|exact Ea].
  Qed.

  Lemma terminal_facts t : terminal g t = true ->
    exists st, gfind g t = Some st /\ g_edges st = [] /\ g_eoi st = None /\ g_early st = None.
  Proof.
    unfold terminal. destruct (gfind g t) as [st|]; [|discriminate].
    intros H. apply andb_prop in H as [H H3]. apply andb_prop in H as [H1 H2].
    exists st. repeat split.
    - unfold no_edges in H1. destruct (g_edges st); [reflexivity|discriminate].
    - apply is_none_true. exact H2.
    - apply is_none_true. exact H3.
  Qed.

  (* end of input reached in state s *)
  Lemma at_eoi_scan start hops s q off c st :
    inV V s q = true -> gfind g s = Some st -> pend_inv st q off c ->
    (s = g_root g -> off <> start) -> start <= off ->
    exists off', at_eoi g false start (S (S hops)) s off c
                 = Acted (upd (upd c (off - 1) (win d q)) off (win d (dstep d q UEoi))) off'.
  Proof.
    intros HV Hst Hp Hroot Hle.
    destruct (pair_facts s q st HV Hst) as [Hearly [Hacc [_ Heoi]]].
    cbn [at_eoi]. rewrite Hst. rewrite andb_false_r.
    assert (Hr : (s =? g_root g)%positive && (off =? start) = false).
    { destruct (Pos.eqb_spec s (g_root g)) as [E|E]; [|reflexivity].
      cbn. apply N.eqb_neq. apply Hroot. exact E. }
    rewrite Hr. unfold eoi_ok in Heoi.
    destruct (g_eoi st) as [t|] eqn:Et.
    - (* EOI edge to a terminal state *)
      destruct (gfind g t) as [st'|] eqn:Est'; [|discriminate].
      apply andb_prop in Heoi as [Heoi Hpend]. apply andb_prop in Heoi as [HVt Hterm].
      destruct (terminal_facts t Hterm) as [st2 [Est2 [Eed [Eeoi Eearly]]]].
      rewrite Est' in Est2. injection Est2 as <-.
      unfold partial_mode_test, no_edges. rewrite Eed, Eeoi. cbn [negb orb andb].
      assert (Hr2 : (t =? g_root g)%positive && (off + 1 =? start) = false).
      { apply andb_false_iff. right. apply N.eqb_neq. lia. }
      rewrite Hr2. eexists. f_equal.
      destruct (pair_facts t (dstep d q UEoi) st' HVt Est') as [_ [Hacc' _]].
      unfold record at 1. rewrite Eearly.
      replace (off + 1 - 1) with off by lia.
      destruct (opt_cases (g_early st)) as [[l Ee]|Ee].
      + (* parent early *)
        rewrite (Hearly l Ee UEoi I). cbn [upd].
        unfold record. rewrite Ee.
        destruct (opt_cases (g_accept st')) as [[l' Ea']|Ea']; [|rewrite Ea'; reflexivity].
        specialize (Hacc' l' Eearly Ea'). rewrite (Hearly l Ee UEoi I) in Hacc'.
        injection Hacc' as ->. rewrite Ea'. reflexivity.
      + rewrite (record_eff st q off c Hacc Hp Ee).
        destruct (opt_cases (g_accept st')) as [[l' Ea']|Ea'].
        * rewrite (Hacc' l' Eearly Ea'). rewrite Ea'. reflexivity.
        * rewrite Ea'. unfold pending_ok in Hpend. rewrite Ee, Eearly, Ea' in Hpend.
          apply win_none_true in Hpend. rewrite Hpend. reflexivity.
    - (* no EOI edge *)
      eexists. f_equal.
      destruct (opt_cases (g_early st)) as [[l Ee]|Ee].
      + rewrite (Hearly l Ee UEoi I). unfold record. rewrite Ee. reflexivity.
      + rewrite (record_eff st q off c Hacc Hp Ee).
        apply orb_prop in Heoi as [H|H].
        * apply win_none_true in H. rewrite H. reflexivity.
        * apply is_none_false in H. congruence.
  Qed.

  Lemma walk_scan start hops : forall rest s q off c st,
    bytes_ok rest ->
    inV V s q = true -> gfind g s = Some st -> pend_inv st q off c ->
    (rest = [] -> s = g_root g -> off <> start) -> start <= off ->
    exists off', walk g false start (S (S hops)) rest s off c
                 = Acted (scan d q rest off (upd c (off - 1) (win d q))) off'.
  Proof.
    induction rest as [|b rest IH]; intros s q off c st Hw HV Hst Hp Hroot Hle.
    - cbn [walk scan]. apply (at_eoi_scan start hops s q off c st); auto.
    - inversion Hw as [|? ? Hb Hw']; subst.
      destruct (pair_facts s q st HV Hst) as [Hearly [Hacc [Hbytes _]]].
      specialize (Hbytes b Hb). unfold Cert.byte_ok in Hbytes.
      cbn [walk scan]. rewrite Hst.
      set (q' := dstep d q (UB b)) in *.
      destruct (edge_first (g_edges st) b) as [t|] eqn:Ed.
      + (* edge taken *)
        destruct (gfind g t) as [st'|] eqn:Est'; [|discriminate].
        apply andb_prop in Hbytes as [HVt Hpend].
        assert (Hle' : start <= off + 1) by lia.
        assert (Hroot' : rest = [] -> t = g_root g -> off + 1 <> start) by (intros; lia).
        destruct (opt_cases (g_early st)) as [[l Ee]|Ee].
        * (* this state is early: records (l, off) and the scan does the same *)
          pose proof (Hearly l Ee (UB b) Hb) as Hw1. fold q' in Hw1.
          rewrite Hw1. cbn [upd].
          assert (Hrec : record st off c = Some (l, off)) by (unfold record; rewrite Ee; reflexivity).
          assert (Hp' : pend_inv st' q' (off + 1) (record st off c)).
          { unfold pend_inv. rewrite Hrec. intros _ _.
            replace (off + 1 - 1) with off by lia. rewrite Hw1. reflexivity. }
          destruct (IH t q' (off + 1) (record st off c) st' Hw' HVt Est' Hp' Hroot' Hle') as [o Ho].
          exists o. rewrite Ho. f_equal. f_equal.
          rewrite Hrec. replace (off + 1 - 1) with off by lia. rewrite Hw1. reflexivity.
        * rewrite <- (record_eff st q off c Hacc Hp Ee).
          assert (Hp' : pend_inv st' q' (off + 1) (record st off c)).
          { unfold pend_inv. intros Ee' Ea'. unfold pending_ok in Hpend.
            rewrite Ee, Ee', Ea' in Hpend. apply win_none_true in Hpend.
            rewrite Hpend. reflexivity. }
          destruct (IH t q' (off + 1) (record st off c) st' Hw' HVt Est' Hp' Hroot' Hle') as [o Ho].
          exists o. rewrite Ho. f_equal. f_equal.
          replace (off + 1 - 1) with off by lia. reflexivity.
      + (* no edge: the attempt stops; nothing is lost *)
        apply andb_prop in Hbytes as [HD Hw0].
        exists off. f_equal.
        rewrite (scan_not_live d rest q' (off + 1) _ Hw' (not_live_D q' HD)).
        destruct (opt_cases (g_early st)) as [[l Ee]|Ee].
        * pose proof (Hearly l Ee (UB b) Hb) as Hw1. fold q' in Hw1.
          rewrite Hw1. unfold record. rewrite Ee. reflexivity.
        * rewrite (record_eff st q off c Hacc Hp Ee).
          apply orb_prop in Hw0 as [H|H].
          -- apply win_none_true in H. rewrite H. reflexivity.
          -- apply is_none_false in H. congruence.
  Qed.
End Sim.
