(* Engine/Run.v — top-level executable entry points used by the correspondence check
   (evaluated with vm_compute or after extraction).  No proofs. *)
From Coq Require Import List NArith PArith Bool FMapPositive.
From LogosV Require Import Engine.Model Engine.Cert Engine.Build Engine.ExecOpt.
Import ListNotations.
Local Open Scope N_scope.

(* find_boundary of str: first char boundary at or after i (i <= length assumed) *)
Definition is_cont (b : byte) : bool := (128 <=? b) && (b <? 192).
Fixpoint fb_rest (rest : list byte) (i : N) : N :=
  match rest with [] => i | b :: r => if is_cont b then fb_rest r (i + 1) else i end.
Definition fb_str (w : list byte) (i : N) : N := fb_rest (skipn (N.to_nat i) w) i.
Definition fb_of (utf8 : bool) (w : list byte) : N -> N := if utf8 then fb_str w else (fun i => i).

(* Callback oracle used by the harness definitions.  Behaviour code per leaf:
   0 = emit; 1 = skip; >= 10 = a callback of the harness corpus (corpus/engine/callbacks_plain.rs)
   that decides by the checksum k = (sum of the matched bytes + their number) mod 4 through the
   table of its return type; 25 bumps and emits, 26 bumps and skips. *)
Fixpoint sum_bytes (l : list byte) : N := match l with [] => 0 | b :: r => b + sum_bytes r end.
Definition slice (w : list byte) (s e : N) : list byte :=
  firstn (N.to_nat (e - s)) (skipn (N.to_nat s) w).
Definition cksum (w : list byte) (s e : N) : N := (sum_bytes (slice w s e) + (e - s)) mod 4.

(* documented outcome per return type (book/src/callbacks.md), indexed by the checksum *)
Definition table (code k : N) : action :=
  match code with
  | 10 | 11 => match k with 0 | 2 => AEmit | _ => ADefaultErr end       (* bool, Option<T> *)
  | 12 | 20 => match k with 0 | 2 => AEmit | _ => AErr end              (* Result<T,E>, Result<L,E> *)
  | 13 | 21 => match k with 0 | 2 => AEmit | _ => ASkip end             (* Filter<T>, Filter<L> *)
  | 14 | 22 => match k with 0 | 3 => AEmit | 1 => ASkip | _ => AErr end (* FilterResult *)
  | 15 | 23 => ASkip                                                    (* Skip, () on a skip *)
  | 16 | 24 => match k with 0 | 2 => ASkip | _ => AErr end              (* Result<Skip,E>, Result<(),E> on a skip *)
  | _ => AEmit                                                          (* (), T, L, bumping value *)
  end.

Definition is_cont_b (b : byte) : bool := (128 <=? b) && (b <? 192).
Definition boundary_at (utf8 : bool) (w : list byte) (i : N) : bool :=
  if N.of_nat (length w) <? i then false
  else if utf8 then match nth_error w (N.to_nat i) with Some b => negb (is_cont_b b) | None => true end
  else true.

Definition act_of (utf8 : bool) (codes : list N) (w : list byte) (l : leaf) (s e : N) : action * N :=
  match nth (N.to_nat l) codes 0 with
  | 0 => (AEmit, 0)
  | 1 => (ASkip, 0)
  | 25 => let want := sum_bytes (slice w s e) mod 3 in
          (AEmit, if boundary_at utf8 w (e + want) then want else 0)
  | 26 => let want := sum_bytes (slice w s e) mod 3 in          (* bumps, then asks for the match to be skipped *)
          (ASkip, if boundary_at utf8 w (e + want) then want else 0)
  | code => (table code (cksum w s e), 0)
  end.

(* encoding of regions: six numbers each.
   items [ok; leaf+1; s; e; custom-error?; k], skipped regions [5; leaf+1; s; e; 0; k] *)
Definition leaf_k (codes : list N) (w : list byte) (l : option leaf) (s e : N) : N :=
  match l with Some _ => cksum w s e | None => 0 end.
Definition enc_region (utf8 : bool) (codes : list N) (w : list byte) (r : region) : list N :=
  match r with
  | RItem (Item ok l s e) =>
      [if ok then 1 else 0; match l with Some l => l + 1 | None => 0 end; s; e;
       match l with
       | Some l' => if ok then 0 else
                    (* the match end is not known here; the harness callbacks never bump on errors *)
                    match fst (act_of utf8 codes w l' s e) with AErr => 1 | _ => 0 end
       | None => 0 end;
       leaf_k codes w l s e]
  | RSkip l s e => [5; l + 1; s; e; 0; cksum w s e]
  end.
Definition enc_result (utf8 : bool) (codes : list N) (w : list byte) (r : list region * outcome) : list N :=
  flat_map (enc_region utf8 codes w) (fst r) ++
  match snd r with Finished s e => [2; s; e] | Broken => [3] | Yield _ _ => [4] end.

Definition run_ref (g : graph) (utf8 : bool) (codes : list N) (isprefix : bool) (w : list byte) : list N :=
  enc_result utf8 codes w (lex_all (attempt_ref g) (act_of utf8 codes w) (fb_of utf8 w) w isprefix).

Definition run_spec (d : dfa) (R : rankmap) (utf8 : bool) (codes : list N) (w : list byte) : list N :=
  enc_result utf8 codes w (lex_all (attempt_spec d (lv_of R)) (act_of utf8 codes w) (fb_of utf8 w) w false).

(* one call of next() from a given token_end (used to judge single items) *)
Definition enc_outcome (utf8 : bool) (codes : list N) (w : list byte) (o : outcome) : list N :=
  match o with
  | Yield it _ => enc_region utf8 codes w (RItem it)
  | Finished s e => [2; s; e]
  | Broken => [3]
  end.
Definition run_next_ref (g : graph) (utf8 : bool) (codes : list N) (isprefix : bool) (w : list byte) (start : N) : list N :=
  enc_outcome utf8 codes w (snd (next_from (attempt_ref g) (act_of utf8 codes w) (fb_of utf8 w) w isprefix (S (length w)) start)).
Definition run_next_spec (d : dfa) (R : rankmap) (utf8 : bool) (codes : list N) (w : list byte) (start : N) : list N :=
  enc_outcome utf8 codes w (snd (next_from (attempt_spec d (lv_of R)) (act_of utf8 codes w) (fb_of utf8 w) w false (S (length w)) start)).

(* the optimised executor with its read log: results as run_ref, then per attempt the reads *)
Fixpoint enc_log (l : rlog) : list N := match l with [] => [] | (o, sz) :: r => o :: sz :: enc_log r end.
Definition run_opt (U : nat) (g : graph) (utf8 : bool) (codes : list N) (isprefix : bool) (w : list byte) : list N :=
  enc_result utf8 codes w (lex_all (fun p s r => fst (attempt_opt U g p s r)) (act_of utf8 codes w) (fb_of utf8 w) w isprefix).
(* read log of the single attempt starting at `start` *)
Definition run_opt_trace (U : nat) (g : graph) (isprefix : bool) (w : list byte) (start : N) : list N :=
  enc_log (snd (attempt_opt U g isprefix start (skipn (N.to_nat start) w))).

(* start offsets of all attempts of a lexing run: one per region, plus the final attempt that
   returned None *)
Definition region_start (r : region) : N :=
  match r with RItem (Item _ _ s _) => s | RSkip _ s _ => s end.
Definition region_starts (g : graph) (utf8 : bool) (codes : list N) (isprefix : bool) (w : list byte) : list N :=
  match lex_all (attempt_ref g) (act_of utf8 codes w) (fb_of utf8 w) w isprefix with
  | (rs, Finished s _) => map region_start rs ++ [s]
  | (rs, _) => map region_start rs
  end.

(* the emitted program parsed from the generated code (Engine/Prog.v), run through the same lexing loop *)
From LogosV Require Import Engine.Prog.
Definition run_prog (U : nat) (p : prog) (nstates : nat) (utf8 : bool) (codes : list N) (isprefix : bool) (w : list byte) : list N :=
  enc_result utf8 codes w (lex_all (fun ip s r => fst (attempt_prog U p nstates ip s r)) (act_of utf8 codes w) (fb_of utf8 w) w isprefix).
