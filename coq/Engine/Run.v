(* Engine/Run.v — top-level executable entry points used by the correspondence check
   (evaluated with vm_compute or after extraction).  No proofs. *)
From Coq Require Import List NArith PArith Bool FMapPositive.
From LogosV Require Import Engine.Model Engine.Cert Engine.Build Engine.ExecOpt.
Import ListNotations.
Local Open Scope N_scope.

(* find_boundary of str: first char boundary at or after i (i <= length assumed) *)
Definition is_cont (b : byte) : bool := (128 <=? b) && (b <? 192).
Fixpoint fb_rest (rest : list byte) (i : N) : N :=
  match rest with [] => i | b :: r => if is_cont b then fb_rest r (i + 1) else i end.
Definition fb_str (w : list byte) (i : N) : N := fb_rest (skipn (N.to_nat i) w) i.
Definition fb_of (utf8 : bool) (w : list byte) : N -> N := if utf8 then fb_str w else (fun i => i).

(* Callback oracle used by the harness definitions.  Behaviour code per leaf:
   0 = emit; 1 = skip; 2 = decided by a checksum of the matched bytes (see harness `decide`). *)
Fixpoint sum_bytes (l : list byte) : N := match l with [] => 0 | b :: r => b + sum_bytes r end.
Definition slice (w : list byte) (s e : N) : list byte :=
  firstn (N.to_nat (e - s)) (skipn (N.to_nat s) w).
Definition act_of (codes : list N) (w : list byte) (l : leaf) (s e : N) : action * N :=
  match nth (N.to_nat l) codes 0 with
  | 0 => (AEmit, 0)
  | 1 => (ASkip, 0)
  | _ => let k := (sum_bytes (slice w s e) + (e - s)) mod 4 in
         (match k with 0 => AEmit | 1 => ASkip | 2 => AErr | _ => ADefaultErr end, 0)
  end.

Definition enc_item (it : item) : list N :=
  match it with
  | Item ok l s e => [if ok then 1 else 0; match l with Some l => l + 1 | None => 0 end; s; e]
  end.
Definition enc_result (r : list region * outcome) : list N :=
  flat_map enc_item (items_of (fst r)) ++
  match snd r with Finished s e => [2; s; e] | Broken => [3] | Yield _ _ => [4] end.

Definition run_ref (g : graph) (utf8 : bool) (codes : list N) (isprefix : bool) (w : list byte) : list N :=
  enc_result (lex_all (attempt_ref g) (act_of codes w) (fb_of utf8 w) w isprefix).

Definition run_spec (d : dfa) (R : rankmap) (utf8 : bool) (codes : list N) (w : list byte) : list N :=
  enc_result (lex_all (attempt_spec d (lv_of R)) (act_of codes w) (fb_of utf8 w) w false).

(* one call of next() from a given token_end (used to judge single items) *)
Definition enc_outcome (o : outcome) : list N :=
  match o with
  | Yield it _ => enc_item it
  | Finished s e => [2; s; e]
  | Broken => [3]
  end.
Definition run_next_ref (g : graph) (utf8 : bool) (codes : list N) (isprefix : bool) (w : list byte) (start : N) : list N :=
  enc_outcome (snd (next_from (attempt_ref g) (act_of codes w) (fb_of utf8 w) w isprefix (S (length w)) start)).
Definition run_next_spec (d : dfa) (R : rankmap) (utf8 : bool) (codes : list N) (w : list byte) (start : N) : list N :=
  enc_outcome (snd (next_from (attempt_spec d (lv_of R)) (act_of codes w) (fb_of utf8 w) w false (S (length w)) start)).

(* the optimised executor with its read log: results as run_ref, then per attempt the reads *)
Fixpoint enc_log (l : rlog) : list N := match l with [] => [] | (o, sz) :: r => o :: sz :: enc_log r end.
Definition run_opt (U : nat) (g : graph) (utf8 : bool) (codes : list N) (isprefix : bool) (w : list byte) : list N :=
  enc_result (lex_all (fun p s r => fst (attempt_opt U g p s r)) (act_of codes w) (fb_of utf8 w) w isprefix).
(* read log of the single attempt starting at `start` *)
Definition run_opt_trace (U : nat) (g : graph) (isprefix : bool) (w : list byte) (start : N) : list N :=
  enc_log (snd (attempt_opt U g isprefix start (skipn (N.to_nat start) w))).

(* start offsets of all attempts of a lexing run: one per region, plus the final attempt that
   returned None *)
Definition region_start (r : region) : N :=
  match r with RItem (Item _ _ s _) => s | RSkip _ s _ => s end.
Definition region_starts (g : graph) (utf8 : bool) (codes : list N) (isprefix : bool) (w : list byte) : list N :=
  match lex_all (attempt_ref g) (act_of codes w) (fb_of utf8 w) w isprefix with
  | (rs, Finished s _) => map region_start rs ++ [s]
  | (rs, _) => map region_start rs
  end.
