(* Engine/PromptProofs.v — promptness of partial lexing (C07): what the certificate prompt_ok means.
   A DFA state is *determined* when every unit successor is non-live and all agree on the winner;
   then every extension of the text read so far gives the same recorded match (determined_scan), and
   under prompt_ok the generated code does not keep waiting: the state acts at the end of the buffer,
   or every state reachable by one more byte does (prompt_one_byte). *)
From Coq Require Import List Arith NArith PArith Bool FMapPositive Lia.
From LogosV Require Import Engine.Model Engine.Cert Engine.CertProofs Engine.SpecProofs Engine.StopProofs.
Import ListNotations.
Local Open Scope N_scope.

Lemma winner_eqb_eq a b : winner_eqb a b = true -> a = b.
Proof. destruct a, b; cbn; try discriminate; try reflexivity. intros H. apply N.eqb_eq in H. congruence. Qed.

Lemma winner_eqb_refl a : winner_eqb a a = true.
Proof. destruct a; cbn; try reflexivity. apply N.eqb_refl. Qed.

Lemma forallb_false_witness {A} (f : A -> bool) l : forallb f l = false -> exists x, In x l /\ f x = false.
Proof.
  induction l as [|x l IH]; cbn [forallb]; [discriminate|]. intros H.
  destruct (f x) eqn:E; cbn [andb] in H.
  - destruct (IH H) as [y [Hy Hf]]. exists y. split; [right; exact Hy|exact Hf].
  - exists x. split; [left; reflexivity|exact E].
Qed.

Lemma upto_inv n b : In b (upto n) -> (N.to_nat b < n)%nat.
Proof.
  induction n as [|n IH]; cbn [upto]; intros H; [destruct H|].
  apply in_app_or in H as [H|[<-|[]]]; [specialize (IH H); lia|lia].
Qed.
Lemma all_bytes_inv b : In b all_bytes -> byte_ok b.
Proof. intros H. apply upto_inv in H. unfold byte_ok. lia. Qed.

Section Prompt.
  Variables (d : dfa) (g : graph) (V : pairing) (R : rankmap) (D : pset).
  Hypothesis Hok : dfa_ok d = true.
  Hypothesis Hsim : sim_ok d g V D = true.
  Hypothesis Hex : exact_ok d g V R D = true.

  Lemma determined_facts q : determined d R q = true ->
    ~ Live d (dstep d q UEoi) /\
    forall b, byte_ok b -> ~ Live d (dstep d q (UB b)) /\ win d (dstep d q (UB b)) = win d (dstep d q UEoi).
  Proof.
    unfold determined. intros H. apply andb_prop in H as [He Hb]. split.
    - intros HL. apply (lv_iff_live d g V R D Hok Hsim Hex) in HL. rewrite HL in He. discriminate.
    - intros b Hbk. rewrite forallb_forall in Hb. specialize (Hb b (all_bytes_spec b Hbk)). cbn zeta in Hb.
      apply andb_prop in Hb as [Hl Hw]. split.
      + intros HL. apply (lv_iff_live d g V R D Hok Hsim Hex) in HL. rewrite HL in Hl. discriminate.
      + apply winner_eqb_eq. exact Hw.
  Qed.

  (* the converse reading: a state that is NOT determined has a unit successor from which a match can still be
     reached, or two unit successors that disagree on the winner - the item is not yet fixed by the text read *)
  Lemma undetermined_witness q : determined d R q = false ->
    Live d (dstep d q UEoi) \/
    exists b, byte_ok b /\ (Live d (dstep d q (UB b)) \/ win d (dstep d q (UB b)) <> win d (dstep d q UEoi)).
  Proof.
    unfold determined. intros H. apply andb_false_iff in H as [He|Hb].
    - left. apply (lv_iff_live d g V R D Hok Hsim Hex). apply negb_false_iff. exact He.
    - right. destruct (forallb_false_witness _ _ Hb) as [b [Hin Hf]]. cbn zeta in Hf.
      exists b. split; [exact (all_bytes_inv b Hin)|].
      apply andb_false_iff in Hf as [Hl|Hw].
      + left. apply (lv_iff_live d g V R D Hok Hsim Hex). apply negb_false_iff. exact Hl.
      + right. intros E. rewrite E, winner_eqb_refl in Hw. discriminate.
  Qed.

  (* in a determined state the recorded match does not depend on how the input continues *)
  Theorem determined_scan q : determined d R q = true ->
    forall (rest : list byte) k best, bytes_ok rest ->
    scan d q rest k best = upd best k (win d (dstep d q UEoi)).
  Proof.
    intros Hd rest k best Hw. destruct (determined_facts q Hd) as [_ Hb].
    destruct rest as [|b rest]; cbn [scan]; [reflexivity|].
    inversion Hw as [|? ? Hbk Hw']; subst. destruct (Hb b Hbk) as [Hnl Hwin].
    rewrite (scan_not_live d rest _ _ _ Hw' Hnl). rewrite Hwin. reflexivity.
  Qed.

  Lemma prompt_pair_of s q : prompt_ok d g V R = true -> inV V s q = true -> prompt_pair d g R s q = true.
  Proof.
    intros HP H. apply inV_elements in H as [qs [H1 H2]].
    unfold prompt_ok in HP. rewrite forallb_forall in HP. specialize (HP _ H1). cbn [fst snd] in HP.
    rewrite forallb_forall in HP. exact (HP _ H2).
  Qed.

  Lemma edge_first_in es b t : edge_first es b = Some t -> exists rs, In (rs, t) es.
  Proof.
    induction es as [|[rs t'] es IH]; cbn [edge_first]; [discriminate|].
    destruct (in_ranges b rs).
    - intros H. injection H as ->. exists rs. left. reflexivity.
    - intros H. destruct (IH H) as [rs' Hin]. exists rs'. right. exact Hin.
  Qed.

  (* a determined state acts at the end of the buffer, or does so after any one more byte *)
  Theorem prompt_one_byte s q st : prompt_ok d g V R = true ->
    inV V s q = true -> gfind g s = Some st -> determined d R q = true ->
    partial_mode_test st = false \/
    forall b t, edge_first (g_edges st) b = Some t ->
      exists st', gfind g t = Some st' /\ partial_mode_test st' = false.
  Proof.
    intros HP HV Hst Hd. pose proof (prompt_pair_of s q HP HV) as H. unfold prompt_pair in H.
    rewrite Hst, Hd in H. apply orb_prop in H as [H|H].
    - left. apply negb_true_iff. exact H.
    - right. intros b t He. destruct (edge_first_in _ _ _ He) as [rs Hin].
      rewrite forallb_forall in H. specialize (H (rs, t) Hin). cbn [snd] in H.
      destruct (gfind g t) as [st'|]; [|discriminate]. exists st'. split; [reflexivity|].
      apply negb_true_iff. exact H.
  Qed.

  (* the strict certificate (definitions without look-around): a determined state itself does not wait *)
  Theorem prompt_strict s q st : prompt_strict_ok d g V R = true ->
    inV V s q = true -> gfind g s = Some st -> determined d R q = true ->
    partial_mode_test st = false.
  Proof.
    intros HP HV Hst Hd. apply inV_elements in HV as [qs [H1 H2]].
    unfold prompt_strict_ok in HP. rewrite forallb_forall in HP. specialize (HP _ H1). cbn [fst snd] in HP.
    rewrite forallb_forall in HP. specialize (HP _ H2). unfold prompt_strict_pair in HP.
    rewrite Hst, Hd in HP. apply negb_true_iff. exact HP.
  Qed.

  (* a state that does not carry the partial-mode test acts (or is the untouched root) at the end of
     the buffer: it never answers "need more input" *)
  (* hence, under the strict certificate, a state in which the partial lexer waits for more input is one whose item
     is genuinely open: some continuation can still extend the match, or two continuations decide differently *)
  Theorem waits_only_if_open s q st : prompt_strict_ok d g V R = true ->
    inV V s q = true -> gfind g s = Some st -> partial_mode_test st = true ->
    Live d (dstep d q UEoi) \/
    exists b, byte_ok b /\ (Live d (dstep d q (UB b)) \/ win d (dstep d q (UB b)) <> win d (dstep d q UEoi)).
  Proof.
    intros HP HV Hst Ht. apply undetermined_witness.
    destruct (determined d R q) eqn:Ed; [|reflexivity].
    rewrite (prompt_strict s q st HP HV Hst Ed) in Ht. discriminate.
  Qed.

  Theorem no_test_acts start hops s st off c : gfind g s = Some st -> partial_mode_test st = false ->
    at_eoi g true start (S hops) s off c = Acted (record st off c) off \/
    at_eoi g true start (S hops) s off c = RetNone false.
  Proof.
    intros Hst Hp. cbn [at_eoi]. rewrite Hst, Hp. cbn [andb].
    destruct ((s =? g_root g)%positive && (off =? start)); [right; reflexivity|].
    unfold partial_mode_test in Hp. apply orb_false_iff in Hp as [_ He].
    destruct (g_eoi st); [discriminate|]. left. reflexivity.
  Qed.
End Prompt.
