(* Engine/Dedup.v — model of the state de-duplication loop at the end of Graph::new
   (logos-codegen/src/graph/mod.rs:577-608) with Graph::rewrite_states (676-705):
   states whose data are equal are folded into the first of them, every edge is redirected to the
   representative of its target, edges of one state that now share a target are merged
   (ByteClass::merge), and the round is repeated until the number of states no longer changes.
   State ids are kept (the renumbering of retain_states is a bijection on the kept states).
   No proofs in this file (Engine/DedupProofs.v). *)
From Coq Require Import List Arith NArith PArith Bool FMapPositive.
From LogosV Require Import Engine.Model Engine.Cert Engine.ByteClass Engine.Prog.
Import ListNotations.
Local Open Scope N_scope.

(* HashMap<State, ByteClass>::entry(next_state): merge into the entry of the target, or add one *)
Fixpoint insert_edge (acc : list (ranges * sid)) (bc : ranges) (t : sid) : list (ranges * sid) :=
  match acc with
  | [] => [(bc, t)]
  | (c, u) :: r => if Pos.eqb u t then (merge c bc, u) :: r else (c, u) :: insert_edge r bc t
  end.

Definition rewrite_edges (rw : sid -> sid) (es : list (ranges * sid)) : list (ranges * sid) :=
  fold_left (fun acc e => insert_edge acc (fst e) (rw (snd e))) es [].

Definition rewrite_state (rw : sid -> sid) (st : gstate) : gstate :=
  {| g_early := g_early st; g_accept := g_accept st;
     g_edges := rewrite_edges rw (g_edges st); g_eoi := option_map rw (g_eoi st) |}.

(* equality of state data (StateData: Eq, Hash): marks, EOI edge, and the byte -> target function *)
Definition st_eqb (a b : gstate) : bool :=
  if negb (leaf_eqb (g_early a) (g_early b)) then false
  else if negb (leaf_eqb (g_accept a) (g_accept b)) then false
  else if negb (opt_sid_eqb (g_eoi a) (g_eoi b)) then false
  else if negb (Bool.eqb (no_edges a) (no_edges b)) then false
  else forallb (fun x => opt_sid_eqb (edge_first (g_edges a) x) (edge_first (g_edges b) x)) all_bytes.

(* the first state (in iteration order) with the same data *)
Definition canon_of (els : list (sid * gstate)) (s : sid) (st : gstate) : sid :=
  match find (fun kv => st_eqb (snd kv) st) els with
  | Some kv => fst kv
  | None => s
  end.

Definition no_state : gstate := {| g_early := None; g_accept := None; g_edges := []; g_eoi := None |}.
Definition state_of (g : graph) (s : sid) : gstate := match gfind g s with Some st => st | None => no_state end.
Definition keys (g : graph) : list sid := map fst (PositiveMap.elements (g_states g)).

(* the same with the byte -> target rows computed once per state (what the extracted checker runs) *)
Definition row (st : gstate) : list (option sid) := map (edge_first (g_edges st)) all_bytes.
Fixpoint rows_eqb (a b : list (option sid)) : bool :=
  match a, b with
  | [], [] => true
  | x :: a', y :: b' => if opt_sid_eqb x y then rows_eqb a' b' else false
  | _, _ => false
  end.
Definition st_eqb_r (a : gstate) (ra : list (option sid)) (b : gstate) (rb : list (option sid)) : bool :=
  if negb (leaf_eqb (g_early a) (g_early b)) then false
  else if negb (leaf_eqb (g_accept a) (g_accept b)) then false
  else if negb (opt_sid_eqb (g_eoi a) (g_eoi b)) then false
  else if negb (Bool.eqb (no_edges a) (no_edges b)) then false
  else rows_eqb ra rb.
Definition canon_of_r (elsr : list (sid * gstate * list (option sid))) (s : sid) (st : gstate) (r : list (option sid)) : sid :=
  match find (fun x => st_eqb_r (snd (fst x)) (snd x) st r) elsr with
  | Some x => fst (fst x)
  | None => s
  end.

Definition canon_map (g : graph) : PositiveMap.t sid :=
  let elsr := map (fun kv => (kv, row (snd kv))) (PositiveMap.elements (g_states g)) in
  fold_left (fun m s => let st := state_of g s in PositiveMap.add s (canon_of_r elsr s st (row st)) m)
            (keys g) (PositiveMap.empty sid).

Definition rw_of (cm : PositiveMap.t sid) (s : sid) : sid :=
  match PositiveMap.find s cm with Some t => t | None => s end.

Definition dedup_round (g : graph) : graph :=
  let cm := canon_map g in
  let rw := rw_of cm in
  {| g_states := fold_left (fun m s => if Pos.eqb (rw s) s
                                       then PositiveMap.add s (rewrite_state rw (state_of g s)) m else m)
                           (keys g) (PositiveMap.empty gstate);
     g_root := rw (g_root g) |}.

Fixpoint dedup_loop (fuel : nat) (g : graph) : graph :=
  match fuel with
  | O => g
  | S f => let g' := dedup_round g in
           if Nat.eqb (PositiveMap.cardinal (g_states g')) (PositiveMap.cardinal (g_states g)) then g'
           else dedup_loop f g'
  end.
Definition dedup (g : graph) : graph := dedup_loop (S (PositiveMap.cardinal (g_states g))) g.

(* every edge target and EOI target is a state of the graph *)
Definition closed_state (g : graph) (st : gstate) : bool :=
  forallb (fun e => match gfind g (snd e) with Some _ => true | None => false end) (g_edges st)
  && match g_eoi st with Some t => (match gfind g t with Some _ => true | None => false end) | None => true end.
Definition closed_graph (g : graph) : bool :=
  forallb (fun kv => closed_state g (snd kv)) (PositiveMap.elements (g_states g))
  && match gfind g (g_root g) with Some _ => true | None => false end.
