(* Engine/SpecProofs.v — what [win] and [scan] mean, in Prop form. *)
From Coq Require Import List Arith NArith PArith Bool FMapPositive Lia.
From LogosV Require Import Engine.Model Engine.Cert Engine.CertProofs.
Import ListNotations.
Local Open Scope N_scope.

(* ---------- winner of a match list ---------- *)
(* l is the unique leaf of ms with the greatest priority *)
Definition StrictMax (pr : leaf -> N) (ms : list leaf) (l : leaf) : Prop :=
  In l ms /\ forall l', In l' ms -> l' <> l -> pr l' < pr l.
(* the greatest priority is shared by two different leaves *)
Definition SharedMax (pr : leaf -> N) (ms : list leaf) : Prop :=
  exists l1 l2, In l1 ms /\ In l2 ms /\ l1 <> l2 /\ pr l1 = pr l2 /\ forall l', In l' ms -> pr l' <= pr l1.

(* invariant of the accumulator of win_of over the leaves seen so far *)
Definition acc_inv (pr : leaf -> N) (seen : list leaf) (acc : winner) (best : N) : Prop :=
  match acc with
  | WNone => seen = []
  | WOne l => StrictMax pr seen l /\ best = pr l
  | WTie => SharedMax pr seen /\ (forall l', In l' seen -> pr l' <= best) /\ exists l, In l seen /\ pr l = best
  end.

Lemma win_of_inv pr : forall ms seen acc best,
  NoDup (seen ++ ms) -> acc_inv pr seen acc best ->
  acc_inv pr (seen ++ ms) (win_of pr ms acc best) (match win_of pr ms acc best with WOne l => pr l | _ => best end)
  \/ exists b', acc_inv pr (seen ++ ms) (win_of pr ms acc best) b'.
Proof.
  induction ms as [|l ms IH]; intros seen acc best Hnd Hinv.
  - right. exists best. rewrite app_nil_r. exact Hinv.
  - right.
    assert (Hnd' : NoDup ((seen ++ [l]) ++ ms)) by (rewrite <- app_assoc; exact Hnd).
    assert (Hl : ~ In l seen).
    { apply NoDup_remove_2 in Hnd. intros H. apply Hnd. apply in_or_app. left. exact H. }
    replace (seen ++ l :: ms) with ((seen ++ [l]) ++ ms) by (rewrite <- app_assoc; reflexivity).
    cbn [win_of]. destruct acc as [|l0|].
    + (* first leaf *)
      cbn [acc_inv] in Hinv. subst seen.
      destruct (IH [l] (WOne l) (pr l) Hnd') as [H|[b' H]]; [|eauto|eauto].
      cbn [acc_inv]. split; [|reflexivity]. split; [left; reflexivity|].
      intros l' [->|[]] Hne. congruence.
    + destruct Hinv as [[Hin Hmax] Hb]. subst best.
      destruct (N.ltb_spec (pr l0) (pr l)) as [Hlt|Hge].
      * (* new strict maximum *)
        destruct (IH (seen ++ [l]) (WOne l) (pr l) Hnd') as [H|[b' H]]; [|eauto|eauto].
        cbn [acc_inv]. split; [|reflexivity]. split; [apply in_or_app; right; left; reflexivity|].
        intros l' Hin' Hne. apply in_app_or in Hin' as [Hin'|[->|[]]]; [|congruence].
        destruct (N.eq_dec l' l0) as [->|Hne0]; [exact Hlt|].
        specialize (Hmax l' Hin' Hne0). lia.
      * destruct (N.eqb_spec (pr l) (pr l0)) as [Heq|Hneq].
        -- (* tie *)
           destruct (IH (seen ++ [l]) WTie (pr l0) Hnd') as [H|[b' H]]; [|eauto|eauto].
           cbn [acc_inv]. split; [|split].
           ++ exists l0, l. repeat split.
              ** apply in_or_app; left; exact Hin.
              ** apply in_or_app; right; left; reflexivity.
              ** intros ->. contradiction.
              ** symmetry; exact Heq.
              ** intros l' Hin'. apply in_app_or in Hin' as [Hin'|[->|[]]]; [|lia].
                 destruct (N.eq_dec l' l0) as [->|Hne0]; [lia|]. specialize (Hmax l' Hin' Hne0). lia.
           ++ intros l' Hin'. apply in_app_or in Hin' as [Hin'|[->|[]]]; [|lia].
              destruct (N.eq_dec l' l0) as [->|Hne0]; [lia|]. specialize (Hmax l' Hin' Hne0). lia.
           ++ exists l0. split; [apply in_or_app; left; exact Hin|reflexivity].
        -- (* smaller: unchanged *)
           destruct (IH (seen ++ [l]) (WOne l0) (pr l0) Hnd') as [H|[b' H]]; [|eauto|eauto].
           cbn [acc_inv]. split; [|reflexivity]. split; [apply in_or_app; left; exact Hin|].
           intros l' Hin' Hne. apply in_app_or in Hin' as [Hin'|[->|[]]]; [exact (Hmax l' Hin' Hne)|lia].
    + destruct Hinv as [[l1 [l2 [H1 [H2 [Hne [Heq Hle]]]]]] [Hb [lb [Hlb Hlbb]]]].
      destruct (N.ltb_spec best (pr l)) as [Hlt|Hge].
      * destruct (IH (seen ++ [l]) (WOne l) (pr l) Hnd') as [H|[b' H]]; [|eauto|eauto].
        cbn [acc_inv]. split; [|reflexivity]. split; [apply in_or_app; right; left; reflexivity|].
        intros l' Hin' Hne'. apply in_app_or in Hin' as [Hin'|[->|[]]]; [|congruence].
        specialize (Hb l' Hin'). lia.
      * destruct (N.eqb_spec (pr l) best) as [Heq'|Hneq].
        -- destruct (IH (seen ++ [l]) WTie best Hnd') as [H|[b' H]]; [|eauto|eauto].
           cbn [acc_inv]. split; [|split].
           ++ exists lb, l. repeat split.
              ** apply in_or_app; left; exact Hlb.
              ** apply in_or_app; right; left; reflexivity.
              ** intros ->. contradiction.
              ** lia.
              ** intros l' Hin'. apply in_app_or in Hin' as [Hin'|[->|[]]]; [specialize (Hb l' Hin'); lia|lia].
           ++ intros l' Hin'. apply in_app_or in Hin' as [Hin'|[->|[]]]; [exact (Hb l' Hin')|lia].
           ++ exists lb. split; [apply in_or_app; left; exact Hlb|exact Hlbb].
        -- destruct (IH (seen ++ [l]) WTie best Hnd') as [H|[b' H]]; [|eauto|eauto].
           cbn [acc_inv]. split; [|split].
           ++ exists l1, l2. repeat split; try (apply in_or_app; left; assumption); try assumption.
              intros l' Hin'. apply in_app_or in Hin' as [Hin'|[->|[]]]; [exact (Hle l' Hin')|].
              specialize (Hb l1 H1). specialize (Hle lb Hlb). lia.
           ++ intros l' Hin'. apply in_app_or in Hin' as [Hin'|[->|[]]]; [exact (Hb l' Hin')|lia].
           ++ exists lb. split; [apply in_or_app; left; exact Hlb|exact Hlbb].
Qed.

Lemma win_of_spec pr ms : NoDup ms ->
  match win_of pr ms WNone 0 with
  | WNone => ms = []
  | WOne l => StrictMax pr ms l
  | WTie => SharedMax pr ms
  end.
Proof.
  intros Hnd.
  destruct (win_of_inv pr ms [] WNone 0 Hnd eq_refl) as [H|[b' H]]; cbn [app] in H;
    destruct (win_of pr ms WNone 0); cbn [acc_inv] in H; tauto.
Qed.

Definition dfa_nodup (d : dfa) : Prop := forall q, NoDup (dmatch d q).

(* ---------- meaning of scan ---------- *)
Definition unit_at (rest : list byte) (j : nat) : unit_ :=
  match nth_error rest j with Some b => UB b | None => UEoi end.

(* the DFA state that shows the matches of the first j bytes of rest (read from state q) *)
Definition mstate (d : dfa) (q : qid) (rest : list byte) (j : nat) : qid :=
  dstep d (drun d q (firstn j rest)) (unit_at rest j).

Definition win_at (d : dfa) (q : qid) (rest : list byte) (j : nat) : winner := win d (mstate d q rest j).

Lemma mstate_S d q b rest j : mstate d q (b :: rest) (S j) = mstate d (dstep d q (UB b)) rest j.
Proof. reflexivity. Qed.
Lemma mstate_0 d q rest : mstate d q rest 0 = dstep d q (unit_at rest 0).
Proof. reflexivity. Qed.

Lemma scan_none d : forall rest q k best,
  (forall j l, (j <= length rest)%nat -> win_at d q rest j <> WOne l) ->
  scan d q rest k best = best.
Proof.
  induction rest as [|b rest IH]; intros q k best H; cbn [scan].
  - specialize (H 0%nat). unfold win_at in H. rewrite mstate_0 in H. cbn in H.
    destruct (win d (dstep d q UEoi)) as [|l|]; try reflexivity. exfalso. apply (H l); [lia|reflexivity].
  - assert (H0 : upd best k (win d (dstep d q (UB b))) = best).
    { specialize (H 0%nat). unfold win_at in H. rewrite mstate_0 in H. cbn in H.
      destruct (win d (dstep d q (UB b))) as [|l|]; try reflexivity.
      exfalso. apply (H l); [lia|reflexivity]. }
    rewrite H0. apply IH. intros j l Hj. specialize (H (S j) l).
    unfold win_at in *. rewrite mstate_S in H. apply H. cbn [length]. lia.
Qed.

Lemma scan_last d : forall rest q k best j l,
  (j <= length rest)%nat -> win_at d q rest j = WOne l ->
  (forall j' l', (j < j')%nat -> (j' <= length rest)%nat -> win_at d q rest j' <> WOne l') ->
  scan d q rest k best = Some (l, k + N.of_nat j).
Proof.
  induction rest as [|b rest IH]; intros q k best j l Hj Hw Hlast; cbn [scan].
  - cbn [length] in Hj. assert (j = 0%nat) by lia. subst j.
    unfold win_at in Hw. rewrite mstate_0 in Hw. cbn in Hw. rewrite Hw. cbn. f_equal. f_equal. lia.
  - destruct j as [|j].
    + unfold win_at in Hw. rewrite mstate_0 in Hw. cbn in Hw. rewrite Hw. cbn [upd].
      rewrite scan_none; [f_equal; f_equal; lia|].
      intros j' l' Hj'. specialize (Hlast (S j') l'). unfold win_at in *. rewrite mstate_S in Hlast.
      apply Hlast; cbn [length]; lia.
    + unfold win_at in Hw. rewrite mstate_S in Hw.
      rewrite (IH (dstep d q (UB b)) (k + 1) _ j l); [f_equal; f_equal; lia| cbn [length] in Hj; lia | exact Hw |].
      intros j' l' Hlt Hle. specialize (Hlast (S j') l'). unfold win_at in *. rewrite mstate_S in Hlast.
      apply Hlast; cbn [length]; lia.
Qed.

(* Either no length has a winner, or there is a last one. *)
Lemma last_winner d q rest :
  (forall j l, (j <= length rest)%nat -> win_at d q rest j <> WOne l) \/
  exists j l, (j <= length rest)%nat /\ win_at d q rest j = WOne l /\
    forall j' l', (j < j')%nat -> (j' <= length rest)%nat -> win_at d q rest j' <> WOne l'.
Proof.
  assert (H : forall n, (n <= S (length rest))%nat ->
    (forall j l, (S (length rest) - n <= j)%nat -> (j <= length rest)%nat -> win_at d q rest j <> WOne l) \/
    exists j l, (j <= length rest)%nat /\ win_at d q rest j = WOne l /\
      forall j' l', (j < j')%nat -> (j' <= length rest)%nat -> win_at d q rest j' <> WOne l').
  { induction n as [|n IH]; intros Hn.
    - left. intros j l H1 H2. lia.
    - destruct IH as [IH|IH]; [lia| |right; exact IH].
      destruct (win_at d q rest (S (length rest) - S n)) as [|l|] eqn:E.
      + left. intros j l H1 H2. destruct (Nat.eq_dec j (S (length rest) - S n)) as [->|Hne]; [congruence|].
        apply IH; lia.
      + right. exists (S (length rest) - S n)%nat, l. split; [lia|]. split; [exact E|].
        intros j' l' H1 H2. apply IH; lia.
      + left. intros j l H1 H2. destruct (Nat.eq_dec j (S (length rest) - S n)) as [->|Hne]; [congruence|].
        apply IH; lia. }
  destruct (H (S (length rest)) (le_n _)) as [H1|H1]; [left|right; exact H1].
  intros j l Hj. apply H1; lia.
Qed.

(* ---------- the statement of maximal munch for one attempt ---------- *)
(* l is the unique highest-priority leaf among those matching the first j bytes of rest *)
Definition Wins (d : dfa) (rest : list byte) (j : nat) (l : leaf) : Prop :=
  StrictMax (prio d) (dmatch d (mstate d (d_start d) rest j)) l.
Definition NoMatch (d : dfa) (rest : list byte) (j : nat) : Prop :=
  dmatch d (mstate d (d_start d) rest j) = [].

(* What the context recorded by an attempt must be *)
Definition MaximalMunch (d : dfa) (rest : list byte) (start : N) (c : ctx) : Prop :=
  match c with
  | Some (l, e) => exists j, e = start + N.of_nat j /\ (1 <= j <= length rest)%nat /\ Wins d rest j l /\
                             forall j', (j < j')%nat -> (j' <= length rest)%nat -> NoMatch d rest j'
  | None => forall j, (j <= length rest)%nat -> NoMatch d rest j
  end.

Lemma nodupb_sound l : nodupb l = true -> NoDup l.
Proof.
  induction l as [|x r IH]; cbn [nodupb]; intros H; [constructor|].
  apply andb_prop in H as [H1 H2]. constructor; [|exact (IH H2)].
  intros Hin. apply negb_true_iff in H1. assert (existsb (N.eqb x) r = true); [|congruence].
  apply existsb_exists. exists x. split; [exact Hin|apply N.eqb_refl].
Qed.

Lemma dfa_ok_nodup d : dfa_ok d = true -> dfa_nodup d.
Proof.
  unfold dfa_ok. intros H. repeat (apply andb_prop in H as [H _]).
  intros q. unfold dmatch. destruct (PositiveMap.find q (d_states d)) as [st|] eqn:E; [|constructor].
  rewrite forallb_forall in H. specialize (H (q, st) (PositiveMap.elements_correct _ _ E)).
  apply nodupb_sound. exact H.
Qed.

Lemma dfa_ok_facts d : dfa_ok d = true ->
  PositiveMap.find (d_dead d) (d_states d) = None /\ dmatch d (d_start d) = [] /\
  (forall u, unit_ok u -> dmatch d (dstep d (d_start d) u) = []) /\
  (forall q, win d q <> WTie).
Proof.
  unfold dfa_ok. intros H. apply andb_prop in H as [H H4]. apply andb_prop in H as [H H3].
  apply andb_prop in H as [H H2]. apply andb_prop in H as [_ H1]. repeat split.
  - apply is_none_true. exact H1.
  - apply nomatch_true. exact H2.
  - intros u Hu. apply nomatch_true. rewrite forallb_forall in H3. apply H3. apply all_units_spec. exact Hu.
  - intros q Hq. rewrite forallb_forall in H4.
    destruct (PositiveMap.find q (d_states d)) as [st|] eqn:E.
    + specialize (H4 (q, st) (PositiveMap.elements_correct _ _ E)). cbn [fst] in H4. rewrite Hq in H4. discriminate.
    + unfold win, dmatch in Hq. rewrite E in Hq. discriminate.
Qed.

Lemma unit_at_ok rest j : bytes_ok rest -> unit_ok (unit_at rest j).
Proof.
  intros H. unfold unit_at. destruct (nth_error _ _) as [b|] eqn:E; [|exact I].
  apply nth_error_In in E. unfold bytes_ok in H. rewrite Forall_forall in H. exact (H b E).
Qed.

Theorem scan_maximal_munch d rest start :
  dfa_ok d = true -> bytes_ok rest ->
  MaximalMunch d rest start (scan d (d_start d) rest start None).
Proof.
  intros Hok Hw. pose proof (dfa_ok_nodup d Hok) as Hnd. destruct (dfa_ok_facts d Hok) as [_ [_ [Hempty Hnotie]]].
  assert (Hwn : forall j, win_at d (d_start d) rest j = WNone -> NoMatch d rest j).
  { intros j H. unfold win_at, win in H. unfold NoMatch.
    pose proof (win_of_spec (prio d) _ (Hnd (mstate d (d_start d) rest j))) as S. rewrite H in S. exact S. }
  assert (Hnone : forall j, (forall l, win_at d (d_start d) rest j <> WOne l) -> NoMatch d rest j).
  { intros j H. apply Hwn. destruct (win_at d (d_start d) rest j) as [|l|] eqn:E; [reflexivity| |].
    - exfalso. exact (H l eq_refl).
    - exfalso. exact (Hnotie _ E). }
  destruct (last_winner d (d_start d) rest) as [H|[j [l [Hj [Hwin Hlast]]]]].
  - rewrite scan_none by exact H. cbn. intros j Hj. apply Hnone. intros l. apply H. exact Hj.
  - rewrite (scan_last d rest (d_start d) start None j l Hj Hwin Hlast). cbn.
    exists j. split; [reflexivity|]. split; [|split].
    + split; [|exact Hj]. destruct j as [|j]; [|lia]. exfalso.
      unfold win_at in Hwin. rewrite mstate_0 in Hwin.
      rewrite win_nomatch in Hwin; [discriminate|]. apply Hempty. apply unit_at_ok. exact Hw.
    + unfold Wins. pose proof (win_of_spec (prio d) _ (Hnd (mstate d (d_start d) rest j))) as S.
      unfold win_at, win in Hwin. rewrite Hwin in S. exact S.
    + intros j' Hlt Hle. apply Hnone. intros l'. apply Hlast; assumption.
Qed.

(* ---------- the attempt theorem: the graph walk computes the specification ---------- *)
Theorem attempt_ctx_correct d g V D start rest :
  dfa_ok d = true -> sim_ok d g V D = true -> bytes_ok rest -> rest <> [] ->
  exists off, attempt_ref g false start rest = Acted (scan d (d_start d) rest start None) off.
Proof.
  intros Hok Hsim Hw Hne. destruct (dfa_ok_facts d Hok) as [_ [Hs0 _]].
  pose proof (sim_root d g V D Hsim) as Hroot.
  pose proof (sim_pair d g V D Hsim _ _ Hroot) as Hp. unfold pair_ok in Hp.
  destruct (gfind g (g_root g)) as [st|] eqn:Est; [|discriminate].
  unfold attempt_ref, hops_of.
  destruct (walk_scan d g V D Hsim start (PositiveMap.cardinal (g_states g)) rest (g_root g) (d_start d) start None st
              Hw Hroot Est) as [off Hoff].
  - unfold pend_inv. intros _ _. rewrite (win_nomatch d _ Hs0). reflexivity.
  - intros E. contradiction.
  - lia.
  - exists off. rewrite Hoff. rewrite (win_nomatch d _ Hs0). reflexivity.
Qed.

Lemma bytes_ok_skipn n w : bytes_ok w -> bytes_ok (skipn n w).
Proof.
  unfold bytes_ok. revert w. induction n as [|n IH]; intros w H; [exact H|].
  destruct w as [|b w]; [constructor|]. cbn [skipn]. apply IH. inversion H; assumption.
Qed.

Lemma C01_maximal_munch_proof : forall d g V D,
  dfa_ok d = true -> sim_ok d g V D = true ->
  forall (w : list byte) (start : N), bytes_ok w -> start < N.of_nat (length w) ->
  exists c off, attempt_ref g false start (skipn (N.to_nat start) w) = Acted c off /\
                MaximalMunch d (skipn (N.to_nat start) w) start c.
Proof.
  intros d g V D Hok Hsim w start Hw Hlt.
  assert (Hne : skipn (N.to_nat start) w <> []).
  { intros E. assert (L : length (skipn (N.to_nat start) w) = 0%nat) by (rewrite E; reflexivity).
    rewrite skipn_length in L. lia. }
  destruct (attempt_ctx_correct d g V D start _ Hok Hsim (bytes_ok_skipn _ w Hw) Hne) as [off Hoff].
  exists (scan d (d_start d) (skipn (N.to_nat start) w) start None), off. split; [exact Hoff|].
  apply scan_maximal_munch; [exact Hok|apply bytes_ok_skipn; exact Hw].
Qed.
