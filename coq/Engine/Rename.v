(* Engine/Rename.v — two definitions that list the same leaves in a different order: the graph of one
   with its leaf numbers translated is compared with the graph of the other by the bisimulation
   checker gsim_ok; every walk of the generated code then ends the same way up to that translation.
   Used where attribute items that number the leaves (skips) are permuted (C18). *)
From Coq Require Import List NArith PArith Bool FMapPositive.
From LogosV Require Import Engine.Model Engine.GraphBuild Engine.CertProofs Engine.GsimProofs.
Import ListNotations.
Local Open Scope N_scope.

Definition rename_state (f : leaf -> leaf) (st : gstate) : gstate :=
  {| g_early := option_map f (g_early st); g_accept := option_map f (g_accept st);
     g_edges := g_edges st; g_eoi := g_eoi st |}.
Definition rename_graph (f : leaf -> leaf) (g : graph) : graph :=
  {| g_states := PositiveMap.map (rename_state f) (g_states g); g_root := g_root g |}.
Definition rename_ctx (f : leaf -> leaf) (c : ctx) : ctx := option_map (fun p => (f (fst p), snd p)) c.
Definition rename_stop (f : leaf -> leaf) (r : stop) : stop :=
  match r with Acted c o => Acted (rename_ctx f c) o | x => x end.

(* the translation as the checker receives it: leaf i becomes the i-th entry of the list *)
Definition leaf_map (m : list leaf) (l : leaf) : leaf := nth (N.to_nat l) m l.

Lemma gfind_rename : forall f g s, gfind (rename_graph f g) s = option_map (rename_state f) (gfind g s).
Proof. intros f g s. unfold gfind, rename_graph; cbn [g_states]. unfold PositiveMap.map. apply PositiveMap.gmapi. Qed.

Lemma record_rename : forall f st off c,
  record (rename_state f st) off (rename_ctx f c) = rename_ctx f (record st off c).
Proof.
  intros f st off c. unfold record, rename_state; cbn [g_early g_accept].
  destruct (g_early st); [reflexivity|]. destruct (g_accept st); reflexivity.
Qed.

Lemma partial_mode_test_rename : forall f st, partial_mode_test (rename_state f st) = partial_mode_test st.
Proof. reflexivity. Qed.

Lemma at_eoi_rename : forall f g isprefix start hops s off c,
  at_eoi (rename_graph f g) isprefix start hops s off (rename_ctx f c) = rename_stop f (at_eoi g isprefix start hops s off c).
Proof.
  intros f g isprefix start hops; induction hops as [|h IH]; intros s off c; cbn [at_eoi];
    rewrite gfind_rename; destruct (gfind g s) as [st|]; cbn [option_map]; try reflexivity;
    rewrite partial_mode_test_rename, record_rename; cbn [rename_graph g_root];
    destruct (partial_mode_test st && isprefix); try reflexivity;
    destruct ((s =? g_root g)%positive && (off =? start)); try reflexivity;
    cbn [rename_state g_eoi]; destruct (g_eoi st); try reflexivity.
  apply IH.
Qed.

Lemma walk_rename : forall f g isprefix start hops rest s off c,
  walk (rename_graph f g) isprefix start hops rest s off (rename_ctx f c) = rename_stop f (walk g isprefix start hops rest s off c).
Proof.
  intros f g isprefix start hops rest; induction rest as [|b rest IH]; intros s off c; cbn [walk].
  - apply at_eoi_rename.
  - rewrite gfind_rename; destruct (gfind g s) as [st|]; cbn [option_map]; [|reflexivity].
    rewrite record_rename. cbn [rename_state g_edges].
    destruct (edge_first (g_edges st) b); [apply IH | reflexivity].
Qed.

Theorem reordered_leaves_agree : forall g1 g2 m R,
  gsim_ok g1 (rename_graph (leaf_map m) g2) R = true ->
  forall isprefix start hops rest, bytes_ok rest ->
  walk g1 isprefix start hops rest (g_root g1) start None
  = rename_stop (leaf_map m) (walk g2 isprefix start hops rest (g_root g2) start None).
Proof.
  intros g1 g2 m R H isprefix start hops rest Hb.
  rewrite (gsim_attempt g1 _ R H isprefix start hops rest Hb).
  cbn [rename_graph g_root]. exact (walk_rename (leaf_map m) g2 isprefix start hops rest (g_root g2) start None).
Qed.
