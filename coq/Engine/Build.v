(* Engine/Build.v — constructors used by the generated instance files: captured ids are natural
   numbers (N); state n becomes the positive n+1.  No proofs. *)
From Coq Require Import List NArith PArith Bool FMapPositive.
From LogosV Require Import Engine.Model Engine.Cert.
Import ListNotations.
Local Open Scope N_scope.

Definition pid (n : N) : positive := N.succ_pos n.

Definition mk_map {A B} (key : A -> positive) (l : list (A * B)) : PositiveMap.t B :=
  fold_right (fun kv m => PositiveMap.add (key (fst kv)) (snd kv) m) (PositiveMap.empty B) l.

Definition mk_dstate (x : N * list (N * N * N) * N * list N) : N * dstate :=
  match x with
  | (q, tr, e, ms) =>
      (q, {| d_trans := map (fun r => match r with (lo, hi, t) => (lo, hi, pid t) end) tr;
             d_eoi := pid e; d_match := ms |})
  end.

Definition mk_dfa (sts : list (N * list (N * N * N) * N * list N)) (start : N) (prios : list N) : dfa :=
  {| d_states := mk_map pid (map mk_dstate sts); d_start := pid start; d_dead := pid 0; d_prio := prios |}.

Definition mk_gstate (x : N * option N * option N * list (ranges * N) * option N) : N * gstate :=
  match x with
  | (s, ea, ac, es, eo) =>
      (s, {| g_early := ea; g_accept := ac;
             g_edges := map (fun e => (fst e, pid (snd e))) es;
             g_eoi := option_map pid eo |})
  end.

Definition mk_graph (sts : list (N * option N * option N * list (ranges * N) * option N)) (root : N) : graph :=
  {| g_states := mk_map pid (map mk_gstate sts); g_root := pid root |}.

Definition mk_pairing (l : list (N * list N)) : pairing :=
  mk_map pid (map (fun kv => (fst kv, map pid (snd kv))) l).
Definition mk_pset (l : list N) : pset := mk_map pid (map (fun q => (q, tt)) l).
Definition mk_rank (l : list (N * N)) : rankmap := mk_map pid l.

From LogosV Require Import Base.Utf8.
Definition ustate_of_N (n : N) : ustate :=
  match n with 0 => U0 | 1 => U1 | 2 => U2 | 3 => U2a | 4 => U2b | 5 => U3 | 6 => U3a | 7 => U3b | _ => URej end.
Definition mk_upairs (l : list (N * list N)) : upairs :=
  mk_map pid (map (fun kv => (fst kv, map ustate_of_N (snd kv))) l).

Definition mk_reach (l : list (N * (N * N * N))) : reachmap :=
  mk_map pid (map (fun kv => match snd kv with (p, u, n) => (fst kv, (pid p, u, n)) end) l).
