(* Engine/DedupBuild.v — the whole modelled Graph::new: passes 1-4 (GraphBuild.build) followed by the
   de-duplication loop (Dedup.dedup).  The constructed graph is well formed and closed, so the loop
   preserves its walks, and the attempt on the final graph computes the DFA-level scan. *)
From Coq Require Import List Arith NArith PArith Bool FMapPositive Lia.
From LogosV Require Import Engine.Model Engine.Cert Engine.ExecOpt Engine.ByteClass Engine.Prog Engine.Dedup
                           Engine.CertProofs Engine.OptProofs Engine.ByteClassProofs Engine.ProgProofs
                           Engine.GraphBuild Engine.SimAbs Engine.BuildProofs Engine.GsimProofs Engine.DedupProofs.
Import ListNotations.
Local Open Scope N_scope.

Lemma nodup_acc_nodup : forall l seen, nodup_pos (rev seen) = true -> nodup_pos (nodup_acc l seen) = true.
Proof.
  induction l as [|x l IH]; intros seen Hs; cbn [nodup_acc]; [exact Hs|].
  destruct (existsb (Pos.eqb x) seen) eqn:E; [exact (IH seen Hs)|].
  apply IH. cbn [rev]. apply nodup_pos_snoc; [exact Hs|].
  rewrite <- E. apply eq_iff_eq_true. rewrite !existsb_eqb_in. symmetry. apply in_rev.
Qed.

Section BuildWf.
  Variable d : dfa.
  Hypothesis Hside : build_side d = true.
  Let B := bad_set d.
  Let R := reach_set d B.

  Lemma class_count q x : byte_ok x -> forall ts, nodup_pos ts = true ->
    (count_edges (map (fun t => (class_of d q t, t)) ts) x <= 1)%nat /\
    (existsb (Pos.eqb (target d q x)) ts = false -> count_edges (map (fun t => (class_of d q t, t)) ts) x = 0%nat).
  Proof.
    intros Hx. induction ts as [|t r IH]; intros Hn; cbn [map count_edges existsb].
    - split; [lia|reflexivity].
    - cbn [nodup_pos] in Hn. apply andb_prop in Hn as [Ht Hr]. apply negb_true_iff in Ht.
      destruct (IH Hr) as [I1 I2]. rewrite (in_class d q t x Hx).
      destruct (Pos.eqb_spec (target d q x) t) as [E|E]; cbn [orb].
      + subst t. rewrite (I2 Ht). split; [lia|discriminate].
      + split; [exact I1|exact I2].
  Qed.

  Lemma bstate_wf q : wf_state (bstate d B R q) = true.
  Proof.
    unfold wf_state, bstate. cbn [g_edges]. unfold edges.
    assert (Hn : nodup_pos (targets d R q) = true) by (unfold targets; apply nodup_acc_nodup; reflexivity).
    apply andb_true_intro. split.
    - apply forallb_forall. intros x Hx. apply Nat.leb_le.
      assert (Hb : byte_ok x).
      { unfold all_bytes in Hx. unfold byte_ok.
        assert (G2 : forall n y, In y (upto n) -> y < N.of_nat n).
        { induction n as [|n IHn]; intros y Hy; [destruct Hy|]. cbn [upto] in Hy.
          apply in_app_or in Hy as [Hy|[<-|[]]]; [specialize (IHn y Hy); lia|lia]. }
        apply (G2 256%nat x Hx). }
      exact (proj1 (class_count q x Hb (targets d R q) Hn)).
    - rewrite map_map. cbn [snd]. rewrite map_id. exact Hn.
  Qed.

  Lemma build_find s st : gfind (build d) s = Some st -> In s (qs d) /\ pmem s R = true /\ st = bstate d B R s.
  Proof.
    unfold build, gfind, build_with. cbn [g_states]. fold B. fold R.
    rewrite (fold_states_find (fun q => pmem q R) (bstate d B R)). rewrite PositiveMap.gempty.
    destruct (existsb (Pos.eqb s) (qs d)) eqn:E; cbn [andb]; [|discriminate].
    destruct (pmem s R) eqn:Er; [|discriminate]. intros H. injection H as <-.
    split; [apply existsb_eqb_in; exact E|]. split; reflexivity.
  Qed.

  Lemma build_wf : wf_graph (build d) = true.
  Proof.
    unfold wf_graph. apply forallb_forall. intros [s st] Hin. cbn [snd].
    apply PositiveMap.elements_complete in Hin. fold (gfind (build d) s) in Hin.
    destruct (build_find s st Hin) as [_ [_ ->]]. apply bstate_wf.
  Qed.

  Lemma targets_kept q t : In t (targets d R q) -> exists b, byte_ok b /\ t = dstep d q (UB b) /\ keep_target d R t = true.
  Proof.
    unfold targets. intros H. apply existsb_eqb_in in H. rewrite nodup_acc_mem in H. cbn [existsb] in H. rewrite orb_false_r in H.
    apply existsb_eqb_in in H. apply filter_In in H as [Hm Hk]. apply in_map_iff in Hm as [b [<- Hb]].
    exists b. split; [|split; [reflexivity|exact Hk]].
    unfold all_bytes in Hb. unfold byte_ok.
    assert (G2 : forall n y, In y (upto n) -> y < N.of_nat n).
    { induction n as [|n IHn]; intros y Hy; [destruct Hy|]. cbn [upto] in Hy.
      apply in_app_or in Hy as [Hy|[<-|[]]]; [specialize (IHn y Hy); lia|lia]. }
    apply (G2 256%nat b Hb).
  Qed.

  Lemma present_kept s u : In s (qs d) -> unit_ok u -> keep_target d R (dstep d s u) = true ->
    match gfind (build d) (dstep d s u) with Some _ => true | None => false end = true.
  Proof.
    intros Hq Hu Hk. destruct (kept_InB d Hside s u Hq Hu Hk) as [_ [Hin' Hr']].
    pose proof (gfind_build d (dstep d s u) Hin' Hr') as E. rewrite E. reflexivity.
  Qed.

  Lemma forallb_class_map (P : sid -> bool) q : forall ts, (forall t, In t ts -> P t = true) ->
    forallb (fun e : ranges * sid => P (snd e)) (map (fun t => (class_of d q t, t)) ts) = true.
  Proof.
    induction ts as [|t r IH]; intros H; [reflexivity|]. cbn [map forallb snd].
    rewrite (H t (or_introl eq_refl)). apply IH. intros u Hu. apply H. right. exact Hu.
  Qed.

  Lemma bstate_closed_edges s : In s (qs d) ->
    forallb (fun e => match gfind (build d) (snd e) with Some _ => true | None => false end) (edges d R s) = true.
  Proof.
    intros Hq. unfold edges.
    apply (forallb_class_map (fun t => match gfind (build d) t with Some _ => true | None => false end) s (targets d R s)).
    intros t Ht. destruct (targets_kept s t Ht) as [b [Hb [E Hk]]]. rewrite E. rewrite E in Hk.
    exact (present_kept s (UB b) Hq Hb Hk).
  Qed.

  Lemma bstate_closed_eoi s : In s (qs d) ->
    match eoi_edge d R s with Some t => (match gfind (build d) t with Some _ => true | None => false end) | None => true end = true.
  Proof.
    intros Hq. unfold eoi_edge. destruct (keep_target d R (etarget d s)) eqn:Hk; [|reflexivity].
    exact (present_kept s UEoi Hq I Hk).
  Qed.

  Lemma bstate_closed s : In s (qs d) -> closed_state (build d) (bstate d B R s) = true.
  Proof.
    intros Hq. unfold closed_state. apply andb_true_intro. split; [exact (bstate_closed_edges s Hq)|exact (bstate_closed_eoi s Hq)].
  Qed.

  Lemma root_closed : match gfind (build d) (g_root (build d)) with Some _ => true | None => false end = true.
  Proof.
    destruct (root_InB d Hside) as [_ [Hin' Hr']].
    pose proof (gfind_build d (d_start d) Hin' Hr') as E.
    change (g_root (build d)) with (d_start d). rewrite E. reflexivity.
  Qed.

  Lemma build_closed : closed_graph (build d) = true.
  Proof.
    unfold closed_graph. apply andb_true_intro. split; [|exact root_closed].
    apply forallb_forall. intros [s st] Hin. cbn [snd].
    apply PositiveMap.elements_complete in Hin. fold (gfind (build d) s) in Hin.
    destruct (build_find s st Hin) as [Hq [_ ->]]. exact (bstate_closed s Hq).
  Qed.

  (* the attempt on the complete construction *)
  Theorem dedup_build_walk start hops rest : bytes_ok rest -> rest <> [] ->
    exists off, walk (dedup (build d)) false start (S (S hops)) rest (g_root (dedup (build d))) start None
                = Acted (scan d (d_start d) rest start None) off.
  Proof.
    intros Hw Hne. rewrite <- (dedup_attempt (build d) build_wf build_closed false start (S (S hops)) rest Hw).
    destruct (pair_build d Hside _ _ (root_InB d Hside)) as [st [Est _]].
    destruct (walk_scan_a d (build d) (InB d) (pair_build d Hside) start hops rest
                (g_root (build d)) (d_start d) start None st Hw (root_InB d Hside) Est) as [off Hoff].
    - unfold pend_inv_a. intros _ _. rewrite (win_nomatch d _ (start_nomatch d Hside)). reflexivity.
    - intros E. contradiction.
    - lia.
    - exists off. rewrite Hoff. rewrite (win_nomatch d _ (start_nomatch d Hside)). reflexivity.
  Qed.

  Theorem dedup_build_attempt start rest : bytes_ok rest -> rest <> [] ->
    exists off, attempt_ref (dedup (build d)) false start rest = Acted (scan d (d_start d) rest start None) off.
  Proof. intros Hw Hne. unfold attempt_ref, hops_of. apply dedup_build_walk; assumption. Qed.
End BuildWf.

(* the graph of the real Graph::new against the complete modelled construction *)
Theorem full_construction_correct d g R :
  build_side d = true -> gsim_ok (dedup (build d)) g R = true ->
  forall start rest, bytes_ok rest -> rest <> [] ->
  exists off, attempt_ref g false start rest = Acted (scan d (d_start d) rest start None) off.
Proof.
  intros Hside Hsim start rest Hw Hne.
  unfold attempt_ref. rewrite <- (gsim_attempt (dedup (build d)) g R Hsim false start (hops_of g) rest Hw).
  unfold hops_of. apply dedup_build_walk; assumption.
Qed.

(* end to end: raw DFA -> modelled construction ~ captured graph -> program parsed from the emitted code *)
Theorem emitted_code_maximal_munch U d g R p :
  build_side d = true -> gsim_ok (dedup (build d)) g R = true ->
  wf_graph g = true -> prog_ok g p = true ->
  forall start rest, bytes_ok rest -> rest <> [] ->
  exists off, fst (attempt_prog U p (PositiveMap.cardinal (g_states g)) false start rest)
              = Acted (scan d (d_start d) rest start None) off.
Proof.
  intros Hside Hsim Hwf Hp start rest Hw Hne.
  rewrite (attempt_prog_is_ref U g p false start rest Hp Hwf Hw).
  exact (full_construction_correct d g R Hside Hsim start rest Hw Hne).
Qed.
