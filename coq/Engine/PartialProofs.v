(* Engine/PartialProofs.v — partial lexing (C07): what a partial lexer commits on a prefix is what
   the ordinary lexer yields on every extension of that prefix.  Purely structural: it holds for
   every graph, because a state returns None at the end of the buffer whenever it has any outgoing
   transition (byte or end-of-input) — [partial_mode_test]. *)
From Coq Require Import List Arith NArith PArith Bool FMapPositive Lia.
From LogosV Require Import Engine.Model.
Import ListNotations.
Local Open Scope N_scope.

Lemma edge_first_nil_none es b : es = [] -> edge_first es b = None.
Proof. intros ->. reflexivity. Qed.

(* A partial walk over a prefix [pre] that falls through to _take_action does exactly what the
   ordinary walk does over any extension [pre ++ ext]. *)
Lemma walk_prefix_safe g start hops : forall pre ext s off c c' off',
  walk g true start (S hops) pre s off c = Acted c' off' ->
  walk g false start (S hops) (pre ++ ext) s off c = Acted c' off'.
Proof.
  induction pre as [|b pre IH]; intros ext s off c c' off' H.
  - (* end of the buffer: the state has no transition at all *)
    cbn [walk at_eoi] in H. cbn [app].
    destruct (gfind g s) as [st|] eqn:Est; [|discriminate].
    destruct (partial_mode_test st) eqn:Ep; [discriminate|]. cbn [andb] in H.
    unfold partial_mode_test in Ep. apply orb_false_iff in Ep as [Ee Eo].
    apply negb_false_iff in Ee. unfold no_edges in Ee.
    destruct (g_edges st) as [|e0 es] eqn:Eed; [|discriminate].
    destruct (g_eoi st) as [t|] eqn:Eeoi; [discriminate|].
    destruct ((s =? g_root g)%positive && (off =? start)) eqn:Er; [discriminate|].
    destruct ext as [|x ext]; cbn [walk at_eoi]; rewrite Est.
    + unfold partial_mode_test, no_edges. rewrite Eed, Eeoi. cbn [negb orb andb]. rewrite Er. exact H.
    + rewrite Eed. cbn [edge_first]. exact H.
  - cbn [app walk] in *. destruct (gfind g s) as [st|]; [|discriminate].
    destruct (edge_first (g_edges st) b) as [t|]; [|exact H].
    apply IH. exact H.
Qed.

Lemma skipn_firstn_app (k n : nat) (w : list N) :
  (n <= k)%nat -> (k <= length w)%nat ->
  skipn n w = skipn n (firstn k w) ++ skipn k w.
Proof.
  intros H1 H2. rewrite <- (firstn_skipn k w) at 1.
  rewrite skipn_app. rewrite firstn_length. replace (n - Nat.min k (length w))%nat with 0%nat by lia.
  reflexivity.
Qed.

(* offsets reported by a partial walk lie within the buffer (the end-of-input edge is never taken) *)
Lemma walk_off_le g start hops : forall pre s off c c' off',
  walk g true start (S hops) pre s off c = Acted c' off' -> off <= off' /\ off' <= off + N.of_nat (length pre).
Proof.
  induction pre as [|b pre IH]; intros s off c c' off' H.
  - cbn [walk at_eoi] in H. destruct (gfind g s) as [st|]; [|discriminate].
    destruct (partial_mode_test st) eqn:Ep; [discriminate|]. cbn [andb] in H.
    destruct ((s =? g_root g)%positive && (off =? start)); [discriminate|].
    unfold partial_mode_test in Ep. apply orb_false_iff in Ep as [_ Eo].
    destruct (g_eoi st) as [t|]; [discriminate|].
    injection H as _ <-. cbn. lia.
  - cbn [walk] in H. destruct (gfind g s) as [st|]; [|discriminate].
    destruct (edge_first (g_edges st) b) as [t|].
    + specialize (IH _ _ _ _ _ H). cbn [length]. lia.
    + injection H as _ <-. cbn [length]. lia.
Qed.

(* a partial attempt on an empty buffer never falls through to _take_action *)
Lemma attempt_partial_empty g start : forall c off, attempt_ref g true start [] <> Acted c off.
Proof.
  intros c off. unfold attempt_ref, hops_of. cbn [walk at_eoi].
  destruct (gfind g (g_root g)) as [st|]; [|discriminate].
  destruct (partial_mode_test st); cbn [andb]; [discriminate|].
  rewrite Pos.eqb_refl, N.eqb_refl. discriminate.
Qed.

Section Safe.
  Variable g : graph.
  Variable act : leaf -> N -> N -> action * N.
  Variables fbp fbw : N -> N.          (* find_boundary of the prefix and of the whole input *)
  Variable w : list byte.             (* the whole input (any extension of the prefix) *)
  Variable k : nat.                    (* split point *)
  Hypothesis Hk : (k <= length w)%nat.
  (* the two sources agree on boundaries inside the prefix (identity for bytes; for str both are
     valid UTF-8, so the split point is a boundary of the whole input) *)
  Hypothesis Hfb : forall i, i <= N.of_nat k -> fbp i = fbw i.

  Lemma attempt_prefix_safe start c off :
    start <= N.of_nat k ->
    attempt_ref g true start (skipn (N.to_nat start) (firstn k w)) = Acted c off ->
    attempt_ref g false start (skipn (N.to_nat start) w) = Acted c off.
  Proof.
    intros Hs H. unfold attempt_ref in *. unfold hops_of in *.
    rewrite (skipn_firstn_app k (N.to_nat start) w); [|lia|exact Hk].
    apply walk_prefix_safe. exact H.
  Qed.


  Lemma skipn_firstn_nil start : N.of_nat k < start -> skipn (N.to_nat start) (firstn k w) = [].
  Proof. intros H. apply skipn_all2. rewrite firstn_length. lia. Qed.

  (* One call of next(): an item yielded by the partial lexer over the prefix is the item the
     ordinary lexer yields over the whole input, after the same skipped regions. *)
  Theorem next_prefix_safe : forall fuel fuel' start sk it e,
    (fuel <= fuel')%nat ->
    next_from (attempt_ref g) act fbp (firstn k w) true fuel start = (sk, Yield it e) ->
    next_from (attempt_ref g) act fbw w false fuel' start = (sk, Yield it e).
  Proof.
    induction fuel as [|fuel IH]; intros fuel' start sk it e Hf H; [discriminate|].
    destruct fuel' as [|fuel']; [lia|]. cbn [next_from] in *.
    destruct (N.lt_ge_cases (N.of_nat k) start) as [Hgt|Hs].
    { rewrite (skipn_firstn_nil start Hgt) in H.
      destruct (attempt_ref g true start []) as [c off| | |] eqn:E; try discriminate.
      exfalso. exact (attempt_partial_empty g start c off E). }
    destruct (attempt_ref g true start (skipn (N.to_nat start) (firstn k w))) as [c off|r| |] eqn:Ea; try discriminate.
    rewrite (attempt_prefix_safe start c off Hs Ea).
    destruct c as [[l e0]|].
    - destruct (act l start e0) as [[] bump]; try exact H.
      destruct (next_from (attempt_ref g) act fbp (firstn k w) true fuel (e0 + bump)) as [sk0 o0] eqn:En.
      injection H as <- ->.
      rewrite (IH fuel' (e0 + bump) sk0 it e); [reflexivity|lia|exact En].
    - (* error item: the boundary search stays inside the prefix *)
      assert (Hm : nmax off (start + 1) <= N.of_nat k).
      { unfold attempt_ref, hops_of in Ea.
        destruct (skipn (N.to_nat start) (firstn k w)) as [|b r] eqn:Er.
        - exfalso. exact (attempt_partial_empty g start None off Ea).
        - rewrite <- Er in Ea. apply walk_off_le in Ea as [_ Hle].
          rewrite skipn_length, firstn_length in Hle.
          assert (Hlen : (1 <= length (skipn (N.to_nat start) (firstn k w)))%nat) by (rewrite Er; cbn; lia).
          rewrite skipn_length, firstn_length in Hlen.
          unfold nmax. destruct (N.ltb_spec off (start + 1)); lia. }
      rewrite <- (Hfb _ Hm). exact H.
  Qed.

  (* When the partial lexer returns None, it reports the empty span s..s; the regions it skipped
     are a leading run of what the ordinary lexer skips, and the ordinary lexer continues as if
     started at s. *)
  Theorem next_prefix_none : forall fuel fuel' start sk s,
    (fuel <= fuel')%nat ->
    next_from (attempt_ref g) act fbp (firstn k w) true fuel start = (sk, Finished s s) ->
    exists f'', (0 < f'')%nat /\
      next_from (attempt_ref g) act fbw w false fuel' start =
      (sk ++ fst (next_from (attempt_ref g) act fbw w false f'' s),
       snd (next_from (attempt_ref g) act fbw w false f'' s)).
  Proof.
    induction fuel as [|fuel IH]; intros fuel' start sk s Hf H; [discriminate|].
    destruct fuel' as [|fuel']; [lia|]. cbn [next_from] in H.
    destruct (attempt_ref g true start (skipn (N.to_nat start) (firstn k w))) as [c off|r| |] eqn:Ea; try discriminate.
    - destruct (N.lt_ge_cases (N.of_nat k) start) as [Hgt|Hs].
      { rewrite (skipn_firstn_nil start Hgt) in Ea. exfalso. exact (attempt_partial_empty g start c off Ea). }
      destruct c as [[l e0]|]; [|discriminate].
      destruct (act l start e0) as [a bump] eqn:Eact. destruct a; try discriminate.
      destruct (next_from (attempt_ref g) act fbp (firstn k w) true fuel (e0 + bump)) as [sk0 o0] eqn:En.
      injection H as <- ->.
      destruct (IH fuel' (e0 + bump) sk0 s) as [f'' [Hpos Hn]]; [lia|exact En|].
      exists f''. split; [exact Hpos|].
      cbn [next_from]. rewrite (attempt_prefix_safe start _ off Hs Ea). rewrite Eact.
      rewrite Hn. reflexivity.
    - (* None at this very attempt: s = start, nothing skipped *)
      injection H as <- <-. exists (S fuel'). split; [lia|]. cbn [app].
      destruct (next_from (attempt_ref g) act fbw w false (S fuel') start); reflexivity.
  Qed.
End Safe.
