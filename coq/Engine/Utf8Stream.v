(* Engine/Utf8Stream.v — stream-level agreement of str mode and byte mode (C12).
   The two modes run the same graph and differ only in find_boundary.  With every default error item
   cut into one-byte pieces, the whole streams (skipped matches, Ok items, callback errors, errors)
   of the two lexers are EQUAL: the same Ok tokens with the same spans and the same bytes covered by
   errors.  Built on the per-call theorems of Engine/Utf8Lex.v (next_fb_independent,
   inside_char_error). *)
From Coq Require Import List Arith NArith PArith Bool Lia.
From LogosV Require Import Base.Utf8 Engine.Model Engine.Cert Engine.CertProofs Engine.LexProofs Engine.Run
  Engine.Utf8Lex.
Import ListNotations.
Local Open Scope N_scope.

(* n one-byte default errors from offset s on *)
Fixpoint units (s : N) (n : nat) : list region :=
  match n with O => [] | S k => RItem (Item false None s (s + 1)) :: units (s + 1) k end.
(* a default error item s..e as its bytes; everything else unchanged *)
Definition split_err (r : region) : list region :=
  match r with RItem (Item false None s e) => units s (N.to_nat (e - s)) | _ => [r] end.
Definition split_errs (rs : list region) : list region := flat_map split_err rs.

Lemma units_app s a b : units s (a + b) = units s a ++ units (s + N.of_nat a) b.
Proof.
  revert s. induction a as [|a IH]; intros s; cbn [units Nat.add app].
  - replace (s + N.of_nat 0) with s by lia. reflexivity.
  - rewrite IH. replace (s + 1 + N.of_nat a) with (s + N.of_nat (S a)) by lia. reflexivity.
Qed.

Lemma split_errs_app a b : split_errs (a ++ b) = split_errs a ++ split_errs b.
Proof. unfold split_errs. apply flat_map_app. Qed.

Lemma split_errs_units i n : split_errs (units i n) = units i n.
Proof.
  revert i. induction n as [|n IH]; intros i; [reflexivity|].
  cbn [units]. unfold split_errs in *. cbn [flat_map split_err].
  replace (N.to_nat (i + 1 - i)) with 1%nat by lia. cbn [units app]. rewrite IH. reflexivity.
Qed.

Lemma is_cont_rej b : is_cont b = true -> ustep U0 b = URej.
Proof.
  unfold is_cont. intros H. apply andb_prop in H as [H1 H2]. apply N.leb_le in H1. apply N.ltb_lt in H2.
  cbn [ustep]. unfold inr.
  replace (b <=? 127) with false by (symmetry; apply N.leb_gt; lia). rewrite andb_false_r.
  replace (194 <=? b) with false by (symmetry; apply N.leb_gt; lia). cbn [andb].
  replace (b =? 224) with false by (symmetry; apply N.eqb_neq; lia).
  replace (225 <=? b) with false by (symmetry; apply N.leb_gt; lia).
  replace (238 <=? b) with false by (symmetry; apply N.leb_gt; lia). cbn [andb orb].
  replace (b =? 237) with false by (symmetry; apply N.eqb_neq; lia).
  replace (b =? 240) with false by (symmetry; apply N.eqb_neq; lia).
  replace (241 <=? b) with false by (symmetry; apply N.leb_gt; lia). cbn [andb].
  replace (b =? 244) with false by (symmetry; apply N.eqb_neq; lia).
  reflexivity.
Qed.

(* the bytes that find_boundary of str steps over are continuation bytes *)
Lemma fb_rest_gap : forall rest k j, k <= j -> j < fb_rest rest k ->
  exists b, nth_error rest (N.to_nat (j - k)) = Some b /\ is_cont b = true.
Proof.
  induction rest as [|b r IH]; intros k j Hk Hj; cbn [fb_rest] in Hj; [lia|].
  destruct (is_cont b) eqn:E; [|lia].
  destruct (N.eq_dec j k) as [->|Hne].
  - exists b. rewrite N.sub_diag. cbn. split; [reflexivity|exact E].
  - destruct (IH (k + 1) j) as [b' [H1 H2]]; [lia|exact Hj|]. exists b'. split; [|exact H2].
    replace (N.to_nat (j - k)) with (S (N.to_nat (j - (k + 1)))) by lia. exact H1.
Qed.

Lemma nth_error_skipn_add : forall (a n : nat) (l : list N), nth_error (skipn a l) n = nth_error l (a + n).
Proof.
  induction a as [|a IH]; intros n l; [reflexivity|]. destruct l as [|x l]; cbn [skipn Nat.add nth_error].
  - destruct n; reflexivity.
  - apply IH.
Qed.

Lemma fb_str_gap w m j : m <= j -> j < fb_str w m ->
  exists b, nth_error w (N.to_nat j) = Some b /\ is_cont b = true.
Proof.
  intros Hm Hj. unfold fb_str in Hj. destruct (fb_rest_gap _ m j Hm Hj) as [b [H1 H2]].
  exists b. split; [|exact H2]. rewrite nth_error_skipn_add in H1.
  replace (N.to_nat m + N.to_nat (j - m))%nat with (N.to_nat j) in H1 by lia. exact H1.
Qed.

Lemma tiles_last : forall sk r a b, tiles (sk ++ [r]) a b -> fst (region_span r) < snd (region_span r) /\ snd (region_span r) = b /\ a <= fst (region_span r).
Proof.
  induction sk as [|x sk IH]; intros r a b H; cbn [app tiles] in H.
  - destruct H as [H1 [H2 H3]]. cbn [tiles] in H3. repeat split; lia.
  - destruct H as [H1 [H2 H3]]. destruct (IH r _ b H3) as [A [B C]]. repeat split; lia.
Qed.

Section S.
  Variables (d : dfa) (g : graph) (V : pairing) (R : rankmap) (D : pset) (P : upairs).
  Hypothesis Hok : dfa_ok d = true.
  Hypothesis Hsim : sim_ok d g V D = true.
  Hypothesis Hex : exact_ok d g V R D = true.
  Hypothesis HU : utf8_ok d P = true.
  Hypothesis HS : utf8_strict_ok d P D = true.
  Variable act : leaf -> N -> N -> action * N.
  Variable w : list byte.
  Hypothesis Hw : bytes_ok w.
  Local Notation len := (N.of_nat (length w)).
  Hypothesis act_ok : forall l s e, s < e -> e <= len -> e + snd (act l s e) <= len.
  Let fbS := fb_str w.
  Let fbB := fun i : N => i.

  Lemma fbB_ok : forall i, i <= len -> i <= fbB i /\ fbB i <= len.
  Proof. intros i Hi. unfold fbB. lia. Qed.

  (* byte mode inside a character: one-byte errors up to the next boundary *)
  Lemma bytes_gap m : forall n i f,
    m <= i -> i + N.of_nat n = fb_str w m -> (n <= f)%nat ->
    lex_from (attempt_ref g) act fbB w false f i
    = (units i n ++ fst (lex_from (attempt_ref g) act fbB w false (f - n) (fb_str w m)),
       snd (lex_from (attempt_ref g) act fbB w false (f - n) (fb_str w m))).
  Proof.
    induction n as [|n IH]; intros i f Hi Hgap Hf.
    - replace i with (fb_str w m) by lia. rewrite Nat.sub_0_r. cbn [units app].
      destruct (lex_from (attempt_ref g) act fbB w false f (fb_str w m)); reflexivity.
    - destruct f as [|f]; [lia|]. cbn [lex_from Nat.sub].
      destruct (fb_str_gap w m i Hi) as [b [Hn Hc]]; [lia|].
      assert (Hb : byte_ok b).
      { unfold bytes_ok in Hw. rewrite Forall_forall in Hw. apply Hw. exact (nth_error_In _ _ Hn). }
      unfold fbB at 1.
      rewrite (inside_char_error d g V R D P Hok Hsim Hex HU HS act w i b Hn Hb (is_cont_rej b Hc) (length w)).
      fold fbB. rewrite (IH (i + 1) f); [|lia|lia|lia].
      cbn [units app fst snd]. reflexivity.
  Qed.

  Lemma agree_from : forall n p fS fB,
    (N.to_nat (len - p) <= n)%nat -> p <= len ->
    (N.to_nat (len - p) < fS)%nat -> (N.to_nat (len - p) < fB)%nat ->
    split_errs (fst (lex_from (attempt_ref g) act fbS w false fS p))
    = split_errs (fst (lex_from (attempt_ref g) act fbB w false fB p)).
  Proof.
    induction n as [|n IH]; intros p fS fB Hn Hp HfS HfB.
    - (* p = len: both report None at once *)
      assert (p = len) by lia. subst p.
      destruct fS as [|fS]; [lia|]. destruct fB as [|fB]; [lia|]. cbn [lex_from].
      rewrite !(C03_none_absorbing_proof d g V D Hsim act _ w (length w)). reflexivity.
    - destruct fS as [|fS]; [lia|]. destruct fB as [|fB]; [lia|]. cbn [lex_from].
      destruct (next_fb_independent (attempt_ref g) act fbS fbB w false (S (length w)) p) as [Hsk Hrel].
      destruct (next_progress d g V R D Hok Hsim Hex act fbB w Hw act_ok fbB_ok (S (length w)) p Hp) as [skB' [oB' [HnB Hprog]]];
        [lia|].
      destruct (next_from (attempt_ref g) act fbS w false (S (length w)) p) as [skS oS].
      destruct (next_from (attempt_ref g) act fbB w false (S (length w)) p) as [skB oB].
      cbn [fst snd] in Hsk, Hrel. subst skB. injection HnB as <- <-.
      inversion Hrel as [l s e E1 E2|l s e E1 E2|s m E1 E2|s e E1 E2|E1 E2]; subst oS oB.
      + (* the same Ok item *)
        destruct Hprog as [[it [e' [Hy [Ht Hle]]]]|[Hy _]]; [|discriminate]. injection Hy as <- <-.
        assert (Hpe : p < e) by (apply (tiles_lt (skS ++ [RItem (Item true l s e)])); [destruct skS; discriminate|exact Ht]).
        destruct (lex_from (attempt_ref g) act fbS w false fS e) as [rsS finS] eqn:ES.
        destruct (lex_from (attempt_ref g) act fbB w false fB e) as [rsB finB] eqn:EB.
        cbn [fst]. rewrite !split_errs_app. f_equal. unfold split_errs. cbn [flat_map]. f_equal.
        pose proof (IH e fS fB) as H. rewrite ES, EB in H. cbn [fst] in H. unfold split_errs in H. apply H; lia.
      + destruct Hprog as [[it [e' [Hy [Ht Hle]]]]|[Hy _]]; [|discriminate]. injection Hy as <- <-.
        assert (Hpe : p < e) by (apply (tiles_lt (skS ++ [RItem (Item false (Some l) s e)])); [destruct skS; discriminate|exact Ht]).
        destruct (lex_from (attempt_ref g) act fbS w false fS e) as [rsS finS] eqn:ES.
        destruct (lex_from (attempt_ref g) act fbB w false fB e) as [rsB finB] eqn:EB.
        cbn [fst]. rewrite !split_errs_app. f_equal. unfold split_errs. cbn [flat_map]. f_equal.
        pose proof (IH e fS fB) as H. rewrite ES, EB in H. cbn [fst] in H. unfold split_errs in H. apply H; lia.
      + (* a default error: str mode rounds its end up to the next boundary, byte mode covers the gap byte by byte *)
        destruct Hprog as [[it [e' [Hy [Ht Hle]]]]|[Hy _]]; [|discriminate]. unfold fbB in Hy at 1 2. injection Hy as <- <-.
        destruct (tiles_last _ _ _ _ Ht) as [Hsm [_ Hps]]. cbn [region_span fst snd] in Hsm, Hps.
        change (fbB m) with m.
        destruct (fb_str_ok w m Hle) as [G1 G2]. fold fbS in G1, G2.
        remember (fbS m) as gap eqn:Eg in *.
        remember (N.to_nat (gap - m)) as k eqn:Ek.
        rewrite (bytes_gap m k m fB); [|lia|fold fbS; lia|lia].
        fold fbS. rewrite <- Eg.
        destruct (lex_from (attempt_ref g) act fbS w false fS gap) as [rsS finS] eqn:ES.
        destruct (lex_from (attempt_ref g) act fbB w false (fB - k) gap) as [rsB finB] eqn:EB.
        cbn [fst snd]. rewrite !split_errs_app. f_equal.
        change (split_errs (RItem (Item false None s gap) :: rsS)) with (units s (N.to_nat (gap - s)) ++ split_errs rsS).
        change (split_errs (RItem (Item false None s m) :: units m k ++ rsB)) with (units s (N.to_nat (m - s)) ++ split_errs (units m k ++ rsB)).
        rewrite split_errs_app, split_errs_units.
        replace (N.to_nat (gap - s)) with (N.to_nat (m - s) + k)%nat by lia.
        rewrite units_app. replace (s + N.of_nat (N.to_nat (m - s))) with m by lia.
        rewrite <- !app_assoc. do 2 f_equal.
        pose proof (IH gap fS (fB - k)%nat) as H. rewrite ES, EB in H. cbn [fst] in H. apply H; lia.
      + reflexivity.
      + reflexivity.
  Qed.

  (* the whole streams agree *)
  Theorem str_bytes_streams_agree :
    split_errs (fst (lex_all (attempt_ref g) act (fb_str w) w false))
    = split_errs (fst (lex_all (attempt_ref g) act (fun i => i) w false)).
  Proof. unfold lex_all. apply (agree_from (length w) 0); lia. Qed.
End S.
