(* Engine/TieProofs.v — equal-priority overlaps (C08): a tie state is exactly a shared maximum, an
   accepted DFA has none on any input, and a reachable tie state yields a concrete ambiguous string. *)
From Coq Require Import List Arith NArith PArith Bool FMapPositive Lia.
From LogosV Require Import Engine.Model Engine.Cert Engine.CertProofs Engine.SpecProofs.
Import ListNotations.
Local Open Scope N_scope.

Theorem tie_iff_shared d q : NoDup (dmatch d q) ->
  (win d q = WTie <-> SharedMax (prio d) (dmatch d q)).
Proof.
  intros Hnd. pose proof (win_of_spec (prio d) (dmatch d q) Hnd) as S. unfold win. split.
  - intros H. rewrite H in S. exact S.
  - intros [l1 [l2 [H1 [H2 [Hne [Heq Hmax]]]]]].
    destruct (win_of (prio d) (dmatch d q) WNone 0) as [|l|]; [|exfalso|reflexivity].
    + rewrite S in H1. destruct H1.
    + destruct S as [Hin Hstrict].
      destruct (N.eq_dec l1 l) as [->|Hn1].
      * specialize (Hstrict l2 H2 (not_eq_sym Hne)). lia.
      * specialize (Hstrict l1 H1 Hn1). specialize (Hmax l Hin). lia.
Qed.

(* an accepted definition never has to choose between equal-priority patterns, on any input *)
Theorem no_tie_on_any_input d : dfa_ok d = true ->
  forall (rest : list byte) j, ~ SharedMax (prio d) (dmatch d (mstate d (d_start d) rest j)).
Proof.
  intros Hok rest j HS. destruct (dfa_ok_facts d Hok) as [_ [_ [_ Hnt]]].
  apply (Hnt (mstate d (d_start d) rest j)). apply tie_iff_shared; [apply dfa_ok_nodup; exact Hok|exact HS].
Qed.

(* ---------- reachability ---------- *)
Lemma drun_app d q a b : drun d q (a ++ b) = drun d (drun d q a) b.
Proof. revert q. induction a as [|x a IH]; intros q; cbn; [reflexivity|apply IH]. Qed.

Section Reach.
  Variables (d : dfa) (H : reachmap).
  Hypothesis HR : reach_ok d H = true.

  Lemma reach_entry_of q e : PositiveMap.find q H = Some e -> reach_entry d H q e = true.
  Proof.
    intros Hf. unfold reach_ok in HR. rewrite forallb_forall in HR.
    exact (HR (q, e) (PositiveMap.elements_correct _ _ Hf)).
  Qed.

  (* states entered by a byte are reached by running the DFA over some byte string *)
  Lemma byte_reached : forall n q p u, PositiveMap.find q H = Some (p, u, n) -> u < 256 ->
    exists bs, bytes_ok bs /\ drun d (d_start d) bs = q.
  Proof.
    intros n. pattern n. apply (well_founded_induction N.lt_wf_0). clear n.
    intros n IH q p u Hf Hu. pose proof (reach_entry_of q _ Hf) as He. unfold reach_entry in He.
    apply andb_prop in He as [He Hp]. apply andb_prop in He as [Hstep _].
    apply Pos.eqb_eq in Hstep. unfold unit_of_N in Hstep.
    replace (u <? 256) with true in Hstep by (symmetry; apply N.ltb_lt; exact Hu).
    assert (Hpre : exists bs, bytes_ok bs /\ drun d (d_start d) bs = p).
    { apply orb_prop in Hp as [Hp|Hp].
      - apply Pos.eqb_eq in Hp. exists []. split; [constructor|symmetry; exact Hp].
      - destruct (PositiveMap.find p H) as [[[p' u'] n']|] eqn:Ep; [|discriminate].
        apply andb_prop in Hp as [Hu' Hn']. apply N.ltb_lt in Hu', Hn'.
        exact (IH n' Hn' p p' u' Ep Hu'). }
    destruct Hpre as [bs [Hbs Hrun]]. exists (bs ++ [u]). split.
    - apply Forall_app. split; [exact Hbs|constructor; [exact Hu|constructor]].
    - rewrite drun_app, Hrun. cbn. exact Hstep.
  Qed.

  (* every hinted state shows the matches of a concrete string *)
  Theorem reached_has_string q e : PositiveMap.find q H = Some e ->
    exists rest j, bytes_ok rest /\ (j <= length rest)%nat /\ mstate d (d_start d) rest j = q.
  Proof.
    destruct e as [[p u] n]. intros Hf. pose proof (reach_entry_of q _ Hf) as He. unfold reach_entry in He.
    apply andb_prop in He as [He Hp]. apply andb_prop in He as [Hstep Hu256].
    apply Pos.eqb_eq in Hstep. apply N.leb_le in Hu256.
    assert (Hpre : exists bs, bytes_ok bs /\ drun d (d_start d) bs = p).
    { apply orb_prop in Hp as [Hp|Hp].
      - apply Pos.eqb_eq in Hp. exists []. split; [constructor|symmetry; exact Hp].
      - destruct (PositiveMap.find p H) as [[[p' u'] n']|] eqn:Ep; [|discriminate].
        apply andb_prop in Hp as [Hu' _]. apply N.ltb_lt in Hu'.
        exact (byte_reached n' p p' u' Ep Hu'). }
    destruct Hpre as [bs [Hbs Hrun]]. unfold unit_of_N in Hstep.
    destruct (N.ltb_spec u 256) as [Hlt|Hge].
    - exists (bs ++ [u]), (length bs). split; [|split].
      + apply Forall_app. split; [exact Hbs|constructor; [exact Hlt|constructor]].
      + rewrite app_length. cbn. lia.
      + unfold mstate, unit_at. rewrite firstn_app, Nat.sub_diag, firstn_all. cbn [firstn]. rewrite app_nil_r.
        rewrite nth_error_app2 by lia. rewrite Nat.sub_diag. cbn [nth_error]. rewrite Hrun. exact Hstep.
    - exists bs, (length bs). split; [exact Hbs|]. split; [lia|].
      unfold mstate, unit_at. rewrite firstn_all.
      replace (nth_error bs (length bs)) with (@None N) by (symmetry; apply nth_error_None; lia).
      rewrite Hrun. exact Hstep.
  Qed.

  (* a reachable tie state is a string matched by two different leaves sharing the top priority *)
  Theorem tie_has_ambiguous_string q e : NoDup (dmatch d q) ->
    PositiveMap.find q H = Some e -> win d q = WTie ->
    exists rest j, bytes_ok rest /\ (j <= length rest)%nat /\
                   SharedMax (prio d) (dmatch d (mstate d (d_start d) rest j)).
  Proof.
    intros Hnd Hf Ht. destruct (reached_has_string q e Hf) as [rest [j [Hb [Hj Hm]]]].
    exists rest, j. split; [exact Hb|]. split; [exact Hj|]. rewrite Hm.
    apply tie_iff_shared; assumption.
  Qed.
End Reach.
