(* Base/Utf8.v — the UTF-8 validity automaton (Unicode standard, table 3-7) and char boundaries.
   No proofs in this file. *)
From Coq Require Import List NArith Bool.
Import ListNotations.
Local Open Scope N_scope.

Inductive ustate :=
| U0            (* at a char boundary *)
| U1            (* one continuation byte 80..BF to go *)
| U2            (* two continuation bytes to go *)
| U2a           (* after E0: A0..BF, then one *)
| U2b           (* after ED: 80..9F, then one *)
| U3            (* three continuation bytes to go *)
| U3a           (* after F0: 90..BF, then two *)
| U3b           (* after F4: 80..8F, then two *)
| URej.

Definition inr (b lo hi : N) : bool := (lo <=? b) && (b <=? hi).

Definition ustep (u : ustate) (b : N) : ustate :=
  match u with
  | U0 => if inr b 0 127 then U0
          else if inr b 194 223 then U1
          else if b =? 224 then U2a
          else if inr b 225 236 || inr b 238 239 then U2
          else if b =? 237 then U2b
          else if b =? 240 then U3a
          else if inr b 241 243 then U3
          else if b =? 244 then U3b
          else URej
  | U1 => if inr b 128 191 then U0 else URej
  | U2 => if inr b 128 191 then U1 else URej
  | U2a => if inr b 160 191 then U1 else URej
  | U2b => if inr b 128 159 then U1 else URej
  | U3 => if inr b 128 191 then U2 else URej
  | U3a => if inr b 144 191 then U2 else URej
  | U3b => if inr b 128 143 then U2 else URej
  | URej => URej
  end.

Fixpoint urun (u : ustate) (w : list N) : ustate :=
  match w with [] => u | b :: r => urun (ustep u b) r end.

Definition ustate_eqb (a b : ustate) : bool :=
  match a, b with
  | U0, U0 | U1, U1 | U2, U2 | U2a, U2a | U2b, U2b | U3, U3 | U3a, U3a | U3b, U3b | URej, URej => true
  | _, _ => false
  end.

Definition utf8_valid (w : list N) : bool := ustate_eqb (urun U0 w) U0.

Definition all_ustates : list ustate := [U0; U1; U2; U2a; U2b; U3; U3a; U3b; URej].

(* continuation byte *)
Definition is_cont8 (b : N) : bool := (128 <=? b) && (b <? 192).
