(* Base/Sorted.v — "sorted + permutation => unique": the algorithm-independent reason why sorting
   what was collected from a hash container gives an output that does not depend on the iteration
   order (C16). *)
From Coq Require Import List NArith Lia Permutation Sorting.Sorted.
Import ListNotations.
Local Open Scope N_scope.

Section Keyed.
  Variable A : Type.
  Variable key : A -> N.
  Definition klt (a b : A) : Prop := key a < key b.

  Lemma ssorted_head_min l a : StronglySorted klt (a :: l) -> forall x, In x l -> key a < key x.
  Proof. intros H x Hx. inversion H as [|? ? _ HF]; subst. rewrite Forall_forall in HF. exact (HF x Hx). Qed.

  (* two strictly key-sorted lists with the same elements are equal *)
  Theorem sorted_perm_unique : forall l1 l2,
    StronglySorted klt l1 -> StronglySorted klt l2 -> Permutation l1 l2 -> l1 = l2.
  Proof.
    induction l1 as [|a l1 IH]; intros l2 S1 S2 P.
    - apply Permutation_nil in P. subst. reflexivity.
    - destruct l2 as [|b l2]; [apply Permutation_sym, Permutation_nil in P; discriminate|].
      assert (Hab : a = b).
      { assert (Ia : In a (b :: l2)) by (apply (Permutation_in _ P); left; reflexivity).
        assert (Ib : In b (a :: l1)) by (apply (Permutation_in _ (Permutation_sym P)); left; reflexivity).
        destruct Ia as [E|Ia]; [symmetry; exact E|]. destruct Ib as [E|Ib]; [exact E|].
        pose proof (ssorted_head_min _ _ S1 b Ib). pose proof (ssorted_head_min _ _ S2 a Ia). lia. }
      subst b. f_equal. apply IH.
      + inversion S1; assumption.
      + inversion S2; assumption.
      + exact (Permutation_cons_inv P).
  Qed.

  (* the shape of every "collect from a hash container, then sort by a distinct key" site:
     whatever order the container was iterated in, the sorted result is the same *)
  Theorem collect_then_sort_deterministic : forall m1 m2 r1 r2,
    Permutation m1 m2 ->                       (* two iteration orders of the same container *)
    Permutation r1 m1 -> StronglySorted klt r1 ->   (* what sort_unstable_by_key guarantees *)
    Permutation r2 m2 -> StronglySorted klt r2 ->
    r1 = r2.
  Proof.
    intros m1 m2 r1 r2 Pm P1 S1 P2 S2. apply sorted_perm_unique; try assumption.
    eapply Permutation_trans; [exact P1|]. eapply Permutation_trans; [exact Pm|]. apply Permutation_sym. exact P2.
  Qed.
End Keyed.

(* the same for sorts of the elements themselves with possible duplicates (graph.errors.sort_unstable()) *)
Theorem sorted_le_perm_unique : forall l1 l2 : list N,
  StronglySorted N.le l1 -> StronglySorted N.le l2 -> Permutation l1 l2 -> l1 = l2.
Proof.
  induction l1 as [|a l1 IH]; intros l2 S1 S2 P.
  - apply Permutation_nil in P. subst. reflexivity.
  - destruct l2 as [|b l2]; [apply Permutation_sym, Permutation_nil in P; discriminate|].
    assert (Hab : a = b).
    { assert (Ia : In a (b :: l2)) by (apply (Permutation_in _ P); left; reflexivity).
      assert (Ib : In b (a :: l1)) by (apply (Permutation_in _ (Permutation_sym P)); left; reflexivity).
      destruct Ia as [E|Ia]; [symmetry; exact E|]. destruct Ib as [E|Ib]; [exact E|].
      inversion S1 as [|? ? _ F1]; subst. inversion S2 as [|? ? _ F2]; subst.
      rewrite Forall_forall in F1, F2. pose proof (F1 b Ib). pose proof (F2 a Ia). lia. }
    subst b. f_equal. apply IH.
    + inversion S1; assumption.
    + inversion S2; assumption.
    + exact (Permutation_cons_inv P).
Qed.

(* ids handed out in first-use order over a deterministic traversal are deterministic: modelled as a
   function of the traversal list only (Generator::add_test_to_lut) *)
Fixpoint first_use_ids (seen : list N) (uses : list N) : list (N * N) :=
  match uses with
  | [] => []
  | u :: r => if existsb (N.eqb u) seen then first_use_ids seen r
              else (u, N.of_nat (length seen)) :: first_use_ids (seen ++ [u]) r
  end.
