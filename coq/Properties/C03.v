(* Property C03 — lexing terminates, makes progress and tiles the input.
   Only final statements; proofs in Engine/LexProofs.v. *)
From Coq Require Import List NArith FMapPositive.
From LogosV Require Import Engine.Model Engine.Cert Engine.CertProofs Engine.SpecProofs Engine.StopProofs Engine.LexProofs Engine.Run Engine.Prog Engine.StreamProg.
Import ListNotations.
Local Open Scope N_scope.

(* Iterating an ordinary lexer never runs out of fuel / gets stuck (finitely many items, then None
   with span len..len), and the yielded items together with the skipped regions are non-empty, abut,
   start at 0 and end at the input length. *)
Theorem C03_tiling : forall d g V R D,
  dfa_ok d = true -> sim_ok d g V D = true -> exact_ok d g V R D = true ->
  forall act fb (w : list byte), bytes_ok w ->
  (forall l s e, s < e -> e <= N.of_nat (length w) -> e + snd (act l s e) <= N.of_nat (length w)) ->
  (forall i, i <= N.of_nat (length w) -> i <= fb i /\ fb i <= N.of_nat (length w)) ->
  exists rs, lex_all (attempt_ref g) act fb w false = (rs, Finished (N.of_nat (length w)) (N.of_nat (length w)))
             /\ tiles rs 0 (N.of_nat (length w)).
Proof. exact lex_tiles. Qed.

(* None on every further call *)
Theorem C03_none_absorbing : forall d g V D,
  sim_ok d g V D = true ->
  forall act fb (w : list byte) fuel,
  next_from (attempt_ref g) act fb w false (S fuel) (N.of_nat (length w))
  = ([], Finished (N.of_nat (length w)) (N.of_nat (length w))).
Proof. exact C03_none_absorbing_proof. Qed.

(* the hypotheses on the callback oracle and on find_boundary are satisfiable: the oracles used by
   the correspondence harness meet them *)
Theorem C03_fb_str_ok : forall (w : list byte) i,
  i <= N.of_nat (length w) -> i <= fb_str w i /\ fb_str w i <= N.of_nat (length w).
Proof. exact fb_str_ok. Qed.

(* the same for the program the code generator emits (translator K12, checker prog_ok): lexing with the emitted
   program terminates, makes progress and tiles the input *)
Theorem C03_emitted_tiling : forall U g p,
  prog_ok g p = true -> wf_graph g = true ->
  forall d V R D, dfa_ok d = true -> sim_ok d g V D = true -> exact_ok d g V R D = true ->
  forall act fb (w : list byte), bytes_ok w ->
  (forall l s e, s < e -> e <= N.of_nat (length w) -> e + snd (act l s e) <= N.of_nat (length w)) ->
  (forall i, i <= N.of_nat (length w) -> i <= fb i /\ fb i <= N.of_nat (length w)) ->
  exists rs, lex_all (fun ip s r => fst (attempt_prog U p (PositiveMap.cardinal (g_states g)) ip s r)) act fb w false
             = (rs, Finished (N.of_nat (length w)) (N.of_nat (length w)))
             /\ tiles rs 0 (N.of_nat (length w)).
Proof. exact emitted_tiles. Qed.
