(* Property C15 — bump advances to a valid position or panics without corrupting the lexer.
   Only final statements; proofs in Runtime/SourceProofs.v. *)
From Coq Require Import List NArith.
From LogosV Require Import Runtime.Source Runtime.SourceProofs.
Local Open Scope N_scope.

Theorem C15_bump_spec : forall utf8 w p n, valid_pos utf8 w p ->
  match bump utf8 w p n with
  | BumpOk p' => p_end p' = p_end p + n /\ p_end p + n <= usize_max /\ p_start p' = p_start p /\ valid_pos utf8 w p'
  | BumpPanic p' => p' = p /\ (usize_max < p_end p + n \/ is_boundary utf8 w (p_end p + n) = false)
  end.
Proof. exact bump_spec. Qed.

Theorem C15_never_invalid : forall utf8 w p n, valid_pos utf8 w p ->
  forall p', bump utf8 w p n = BumpOk p' \/ bump utf8 w p n = BumpPanic p' -> valid_pos utf8 w p'.
Proof. exact bump_never_invalid. Qed.

(* regression lemmas: the pre-fix code is refuted (finding F3) *)
Theorem C15_old_release_refuted :
  exists w p n p', valid_pos false w p /\ bump_old true false w p n = BumpOk p' /\ p_end p' < p_start p'.
Proof. exact bump_old_release_refuted. Qed.
Theorem C15_old_panic_corrupts :
  exists w p n p', valid_pos false w p /\ bump_old false false w p n = BumpPanic p' /\ N.of_nat (length w) < p_end p'.
Proof. exact bump_old_panic_corrupts. Qed.
