(* Property C16 — code generation is deterministic.
   Only final statements; proofs in Base/Sorted.v.  Hash-container iteration is modelled as an
   arbitrary permutation; every place where the generator iterates one sorts the collected items
   before anything order-dependent happens (graph/mod.rs:127-130, 494-496; generator/mod.rs:92-109,
   354-357; fork.rs:172-175) — that these are all the places is checked by running the real code
   under fresh hash seeds (correspondence K9). *)
From Coq Require Import List NArith Permutation Sorting.Sorted.
From LogosV Require Import Base.Sorted.
Local Open Scope N_scope.

Theorem C16_collect_then_sort_deterministic : forall (A : Type) (key : A -> N) m1 m2 r1 r2,
  Permutation m1 m2 ->
  Permutation r1 m1 -> StronglySorted (klt A key) r1 ->
  Permutation r2 m2 -> StronglySorted (klt A key) r2 ->
  r1 = r2.
Proof. exact collect_then_sort_deterministic. Qed.

Theorem C16_sorted_with_duplicates_unique : forall l1 l2 : list N,
  StronglySorted N.le l1 -> StronglySorted N.le l2 -> Permutation l1 l2 -> l1 = l2.
Proof. exact sorted_le_perm_unique. Qed.
