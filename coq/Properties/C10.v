(* Property C10 — literal tokens match verbatim; ignore(case) is regex (?i).
   Only final statements; proofs in Front/Escape.v and Engine/DfaEquiv.v. *)
From Coq Require Import List NArith.
From LogosV Require Import Front.Escape Engine.Model Engine.Cert Engine.CertProofs Engine.SpecProofs Engine.DfaEquiv.
Local Open Scope N_scope.

(* the escaped form of a literal (what is handed to the regex parser when ignore(case) is set)
   denotes exactly the literal's bytes, for str literals and for byte-string literals *)
Theorem C10_escape_str_roundtrip : forall bs fuel,
  (length (escape_str bs) <= fuel)%nat -> parse_lit fuel (escape_str bs) = Some bs.
Proof. exact escape_str_roundtrip. Qed.
Theorem C10_escape_bytes_roundtrip : forall bs, Forall (fun b => b < 256) bs ->
  forall fuel, (length (escape_bytes bs) <= fuel)%nat -> parse_lit fuel (escape_bytes bs) = Some bs.
Proof. exact escape_bytes_roundtrip. Qed.

(* language equality certificate: a leaf of the captured DFA and a leaf of a reference DFA (the
   literal's chain automaton, or what regex-automata builds for the (?i) pattern) match exactly the
   same texts in the same contexts *)
Theorem C10_bisim_sound : forall d1 l1 d2 l2 R, bisim_ok d1 l1 d2 l2 R = true ->
  forall (rest : list byte) j, bytes_ok rest ->
  (In l1 (dmatch d1 (mstate d1 (d_start d1) rest j)) <-> In l2 (dmatch d2 (mstate d2 (d_start d2) rest j))).
Proof. exact bisim_sound. Qed.
