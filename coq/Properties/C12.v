(* Property C12 — str mode and byte mode agree on valid UTF-8 input.
   Only final statements; proofs in Engine/Utf8Lex.v.

   The two modes run the same graph (checked per definition: the captured graphs are equal) and
   differ only in find_boundary. *)
From Coq Require Import List NArith FMapPositive.
From LogosV Require Import Base.Utf8 Engine.Model Engine.Cert Engine.CertProofs Engine.Run Engine.Utf8Lex Engine.Utf8Stream Engine.Prog Engine.StreamProg.
Import ListNotations.
Local Open Scope N_scope.

(* one call of next() from the same position in the two modes: same skipped regions, same Ok item,
   or an error with the same start whose end is each mode's rounding of the same raw end *)
Theorem C12_next_fb_independent : forall attempt act fb1 fb2 (w : list byte) p fuel start,
  fst (next_from attempt act fb1 w p fuel start) = fst (next_from attempt act fb2 w p fuel start) /\
  out_rel fb1 fb2 (snd (next_from attempt act fb1 w p fuel start)) (snd (next_from attempt act fb2 w p fuel start)).
Proof. exact next_fb_independent. Qed.

(* in byte mode, an attempt starting inside a character dies on its first byte: the bytes between
   the raw error end and the next char boundary are covered by one-byte errors, i.e. the same bytes
   the str-mode error covers *)
Theorem C12_inside_char_error : forall d g V R D P,
  dfa_ok d = true -> sim_ok d g V D = true -> exact_ok d g V R D = true ->
  utf8_ok d P = true -> utf8_strict_ok d P D = true ->
  forall act (w : list byte) start b,
  nth_error w (N.to_nat start) = Some b -> byte_ok b -> ustep U0 b = URej ->
  forall fuel, next_from (attempt_ref g) act (fun i => i) w false (S fuel) start
               = ([], Yield (Item false None start (start + 1)) (start + 1)).
Proof. exact inside_char_error. Qed.

(* Stream level: the whole lexing of the same text in the two modes.  With every default error item cut
   into its bytes (split_errs), the two streams - skipped matches, Ok items, callback errors, error
   bytes, in order - are equal: the same Ok tokens with the same spans and the same bytes covered by
   errors.  (No assumption on w beyond being bytes: on text that is not valid UTF-8 the statement
   compares the byte lexer with a lexer that rounds error ends past continuation bytes.) *)
Theorem C12_streams_agree : forall d g V R D P,
  dfa_ok d = true -> sim_ok d g V D = true -> exact_ok d g V R D = true ->
  utf8_ok d P = true -> utf8_strict_ok d P D = true ->
  forall act (w : list byte), bytes_ok w ->
  (forall l s e, s < e -> e <= N.of_nat (length w) -> e + snd (act l s e) <= N.of_nat (length w)) ->
  split_errs (fst (lex_all (attempt_ref g) act (fb_str w) w false))
  = split_errs (fst (lex_all (attempt_ref g) act (fun i => i) w false)).
Proof. exact str_bytes_streams_agree. Qed.

(* ... and so do the streams of the program the code generator emits *)
Theorem C12_emitted_streams_agree : forall U g p,
  prog_ok g p = true -> wf_graph g = true ->
  forall d V R D, dfa_ok d = true -> sim_ok d g V D = true -> exact_ok d g V R D = true ->
  forall P act (w : list byte), utf8_ok d P = true -> utf8_strict_ok d P D = true -> bytes_ok w ->
  (forall l s e, s < e -> e <= N.of_nat (length w) -> e + snd (act l s e) <= N.of_nat (length w)) ->
  split_errs (fst (lex_all (fun ip s r => fst (attempt_prog U p (PositiveMap.cardinal (g_states g)) ip s r)) act (fb_str w) w false))
  = split_errs (fst (lex_all (fun ip s r => fst (attempt_prog U p (PositiveMap.cardinal (g_states g)) ip s r)) act (fun i => i) w false)).
Proof. exact emitted_streams_agree. Qed.
