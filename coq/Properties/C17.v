(* Property C17 — logos-cli emits the stripped enum plus the derive's implementation.
   Only final statements; proofs in Front/StripProofs.v and Cli/CliProofs.v. *)
From Coq Require Import List NArith.
From LogosV Require Import Front.AttrParser Front.Strip Front.StripProofs Cli.Cli Cli.CliProofs.
Import ListNotations.
Local Open Scope N_scope.

(* the derive list keeps exactly the paths that do not end in `Logos`, path-qualified ones included *)
Theorem C17_strip_derive_keeps_others : forall ps q, Forall path_ok (ps ++ [q]) -> last_is_logos q = false ->
  strip_derive (render_paths (ps ++ [q])) = render_paths (kept ps ++ [q]).
Proof. exact strip_derive_keeps_others. Qed.
Theorem C17_strip_derive_spec : forall ps, Forall path_ok ps -> ps <> [] ->
  strip_derive (render_paths ps) =
  render_pairs (filter (fun pr => negb (last_is_logos (fst pr)))
                       (map (fun p => (p, true)) (removelast ps) ++ [(last ps [], false)])).
Proof. exact strip_derive_spec. Qed.
(* regression lemma: the token loop as it was (finding F4) *)
Theorem C17_old_refuted :
  exists ps, Forall path_ok ps /\
    strip_derive_old 20 (render_paths ps) <> strip_derive (render_paths ps) /\
    strip_derive_old 20 (render_paths ps) = [TIdent [115;101;114;100;101]; TPunct 58 true].
Proof. exact strip_derive_old_refuted. Qed.

(* --check never modifies the file system *)
Theorem C17_check_never_writes : forall output p f o so f', run output (Some p) true f = (o, so, f') -> f' = f.
Proof. exact check_never_writes. Qed.
(* --check succeeds iff the file holds the output up to line endings *)
Theorem C17_check_ok_iff : forall output p f,
  fst (fst (run output (Some p) true f)) = Ok <-> exists ex, f p = Some ex /\ lines ex = lines output.
Proof. exact check_ok_iff. Qed.
Theorem C17_write_then_check_ok : forall output p f,
  let f' := snd (run output (Some p) false f) in
  fst (fst (run output (Some p) true f')) = Ok /\ snd (run output (Some p) false f') = f'.
Proof. exact write_then_check_ok. Qed.
