(* Property C18 — attribute arguments may be given in any order.
   Only final statements; proofs in Front/AttrProofs.v. *)
From Coq Require Import List NArith Permutation.
From LogosV Require Import Front.AttrParser Front.AttrProofs.
Import ListNotations.
Local Open Scope N_scope.

(* the tokenizer returns exactly the comma-separated items, whatever their order and kind
   (name = value, name(...), name "lit", name ident = value, positional) *)
Theorem C18_parse_join_items : forall its fuel, Forall item_ok its -> (length its < fuel)%nat ->
  parse_all true fuel (join its) = map sem its.
Proof. exact parse_join_items. Qed.

(* named arguments set independent fields: any order gives the same definition and no error *)
Theorem C18_named_args_commute : forall l1 l2, Permutation l1 l2 ->
  NoDup (map field_of l1) -> Forall (fun n => field_of n <> None) l1 ->
  forall d, fold_left named_attr l1 d = fold_left named_attr l2 d.
Proof. exact named_args_commute. Qed.

(* regression lemma: the tokenizer as it was is refuted (finding F5) *)
Theorem C18_old_refuted :
  exists its, Forall item_ok its /\ parse_all false 5 (join its) <> map sem its.
Proof. exact parse_join_items_old_refuted. Qed.
