(* Property C18 — attribute arguments may be given in any order.
   Only final statements; proofs in Front/AttrProofs.v. *)
From Coq Require Import List NArith Permutation.
From LogosV Require Import Front.AttrParser Front.AttrProofs Front.TypeParams.
From LogosV Require Import Engine.Model Engine.GraphBuild Engine.CertProofs Engine.Rename.
Import ListNotations.
Local Open Scope N_scope.

(* the tokenizer returns exactly the comma-separated items, whatever their order and kind
   (name = value, name(...), name "lit", name ident = value, positional) *)
Theorem C18_parse_join_items : forall its fuel, Forall item_ok its -> (length its < fuel)%nat ->
  parse_all true fuel (join its) = map sem its.
Proof. exact parse_join_items. Qed.

(* named arguments set independent fields: any order gives the same definition and no error *)
Theorem C18_named_args_commute : forall l1 l2, Permutation l1 l2 ->
  NoDup (map field_of l1) -> Forall (fun n => field_of n <> None) l1 ->
  forall d, fold_left named_attr l1 d = fold_left named_attr l2 d.
Proof. exact named_args_commute. Qed.

(* regression lemma: the tokenizer as it was is refuted (finding F5) *)
Theorem C18_old_refuted :
  exists its, Forall item_ok its /\ parse_all false 5 (join its) <> map sem its.
Proof. exact parse_join_items_old_refuted. Qed.

(* #[logos(type T = Type)] and #[logos(lifetime = 'a)] items (Front/TypeParams.v): what the derive puts
   into the generics depends on the items only through "is there a lifetime item" and the type items
   in their order — so the two kinds of items may be listed in either order. *)
Theorem C18_generic_items_commute : forall l1 l2,
  has_lifetime l1 = has_lifetime l2 -> type_items l1 = type_items l2 ->
  TypeParams.generics (run l1) = TypeParams.generics (run l2).
Proof. exact items_commute. Qed.

Theorem C18_type_lifetime_swap : forall n t a pre post,
  TypeParams.generics (run (pre ++ ISetType n t :: ISetLifetime a :: post))
  = TypeParams.generics (run (pre ++ ISetLifetime a :: ISetType n t :: post)).
Proof. exact type_lifetime_swap. Qed.

(* regression lemma: with the eager rewrite of set_type as it was, the two orders differ (finding F10) *)
Theorem C18_old_generic_items_refuted : exists n t a,
  generics_old (run_old [ISetType n t; ISetLifetime a]) <> generics_old (run_old [ISetLifetime a; ISetType n t]).
Proof. exact old_order_matters. Qed.

(* items that number the leaves (skips) listed in another order: when the graph of one definition, its leaf
   numbers translated by [m], is accepted by the bisimulation checker against the graph of the other, every
   walk of the generated code ends in the same place with the same (translated) leaf, in both modes *)
Theorem C18_reordered_leaves_agree : forall g1 g2 m R,
  gsim_ok g1 (rename_graph (leaf_map m) g2) R = true ->
  forall isprefix start hops rest, bytes_ok rest ->
  walk g1 isprefix start hops rest (g_root g1) start None
  = rename_stop (leaf_map m) (walk g2 isprefix start hops rest (g_root g2) start None).
Proof. exact reordered_leaves_agree. Qed.
