(* Property C20 — no backtracking: a match attempt reads the source left to right.
   Only final statements; proofs in Engine/OptProofs.v. *)
From Coq Require Import List NArith.
From LogosV Require Import Engine.Model Engine.ExecOpt Engine.OptProofs.
Local Open Scope N_scope.

(* For every graph, unroll factor U >= 1, mode and input: the offsets at which one attempt reads
   the source never decrease, none lies before the attempt's start, and the number of reads is at
   most 3 * (number of offsets examined), where the offsets examined are start .. hi with hi the
   greatest offset read — independent of the graph (hence of the patterns). *)
Theorem C20_reads_monotone_linear : forall U g p start (rest : list byte) r tr,
  (1 <= U)%nat ->
  attempt_opt U g p start rest = (r, tr) ->
  exists hi, start <= hi /\ sorted_in start (offs tr) hi /\
             N.of_nat (length tr) <= 3 * (hi + 1 - start).
Proof.
  intros U g p start rest r tr HU H. unfold attempt_opt in H.
  exact (walk_opt_log U g p start HU _ _ _ _ _ _ _ _ H).
Qed.

(* The same for the code actually emitted: ANY program that the translator can read off the generated
   text (Engine/Prog.v — whatever its tables, conditions and targets are, accepted by the checker or
   not) reads left to right, at most three times per offset. *)
From LogosV Require Import Engine.Prog Engine.ProgProofs.
Theorem C20_emitted_reads_monotone_linear : forall U p n isprefix start (rest : list byte) r tr,
  (1 <= U)%nat ->
  attempt_prog U p n isprefix start rest = (r, tr) ->
  exists hi, start <= hi /\ sorted_in start (offs tr) hi /\
             N.of_nat (length tr) <= 3 * (hi + 1 - start).
Proof.
  intros U p n isprefix start rest r tr HU H. unfold attempt_prog in H.
  exact (walk_prog_log U p isprefix start HU _ _ _ _ _ _ _ _ H).
Qed.
