From LogosV Require Export Properties.C01.
