From LogosV Require Export Properties.C01 Properties.C02 Properties.C03.
