From LogosV Require Export Properties.C01 Properties.C02 Properties.C03 Properties.C04 Properties.C05 Properties.C06 Properties.C07 Properties.C12 Properties.C13 Properties.C15 Properties.C20.
