From LogosV Require Export Properties.C01 Properties.C02 Properties.C03 Properties.C06 Properties.C07 Properties.C20.
