(* Property C01 — longest match wins; ties broken by priority (maximal munch).
   This file contains only the final statement; the proof is in Engine/SpecProofs.v. *)
From Coq Require Import List NArith.
From LogosV Require Import Engine.Model Engine.Cert Engine.CertProofs Engine.SpecProofs Engine.StopProofs Engine.LexProofs.
Local Open Scope N_scope.

(* For every DFA d and graph g related by a valid certificate, every input w and every attempt
   start: the reference semantics of the generated code records exactly the longest non-empty
   match and the unique highest-priority leaf among the leaves matching that longest prefix
   (or nothing when no non-empty prefix matches). *)
Theorem C01_maximal_munch : forall d g V D,
  dfa_ok d = true -> sim_ok d g V D = true ->
  forall (w : list byte) (start : N), bytes_ok w -> start < N.of_nat (length w) ->
  exists c off, attempt_ref g false start (skipn (N.to_nat start) w) = Acted c off /\
                MaximalMunch d (skipn (N.to_nat start) w) start c.
Proof. exact C01_maximal_munch_proof. Qed.

(* The whole stream: for every input, callback oracle and boundary function, iterating the reference
   semantics of the generated code yields exactly the regions (tokens with variant and span, errors
   with their spans, skipped regions) and the final span of the DFA-level maximal-munch specification
   [attempt_spec] (longest match by [scan], error end by [viable_end]). *)
Theorem C01_stream_eq_spec : forall d g V R D,
  dfa_ok d = true -> sim_ok d g V D = true -> exact_ok d g V R D = true ->
  forall act fb (w : list byte), bytes_ok w ->
  lex_all (attempt_ref g) act fb w false = lex_all (attempt_spec d (lv_of R)) act fb w false.
Proof. exact lex_ref_eq_spec. Qed.
