(* Property C01 — longest match wins; ties broken by priority (maximal munch).
   This file contains only the final statement; the proof is in Engine/SpecProofs.v. *)
From Coq Require Import List NArith.
From LogosV Require Import Engine.Model Engine.Cert Engine.CertProofs Engine.SpecProofs.
Local Open Scope N_scope.

(* For every DFA d and graph g related by a valid certificate, every input w and every attempt
   start: the reference semantics of the generated code records exactly the longest non-empty
   match and the unique highest-priority leaf among the leaves matching that longest prefix
   (or nothing when no non-empty prefix matches). *)
Theorem C01_maximal_munch : forall d g V D,
  dfa_ok d = true -> sim_ok d g V D = true ->
  forall (w : list byte) (start : N), bytes_ok w -> start < N.of_nat (length w) ->
  exists c off, attempt_ref g false start (skipn (N.to_nat start) w) = Acted c off /\
                MaximalMunch d (skipn (N.to_nat start) w) start c.
Proof. exact C01_maximal_munch_proof. Qed.
