(* Property C01 — longest match wins; ties broken by priority (maximal munch).
   This file contains only the final statement; the proof is in Engine/SpecProofs.v. *)
From Coq Require Import List NArith.
From LogosV Require Import Engine.Model Engine.Cert Engine.GraphBuild Engine.CertProofs Engine.SpecProofs Engine.StopProofs Engine.LexProofs Engine.BuildProofs Engine.GsimProofs Engine.ByteClass Engine.ByteClassProofs Engine.Dedup Engine.DedupProofs Engine.DedupBuild Engine.Prog Engine.ProgProofs.
From Coq Require Import FMapPositive.
Local Open Scope N_scope.

(* For every DFA d and graph g related by a valid certificate, every input w and every attempt
   start: the reference semantics of the generated code records exactly the longest non-empty
   match and the unique highest-priority leaf among the leaves matching that longest prefix
   (or nothing when no non-empty prefix matches). *)
Theorem C01_maximal_munch : forall d g V D,
  dfa_ok d = true -> sim_ok d g V D = true ->
  forall (w : list byte) (start : N), bytes_ok w -> start < N.of_nat (length w) ->
  exists c off, attempt_ref g false start (skipn (N.to_nat start) w) = Acted c off /\
                MaximalMunch d (skipn (N.to_nat start) w) start c.
Proof. exact C01_maximal_munch_proof. Qed.

(* The whole stream: for every input, callback oracle and boundary function, iterating the reference
   semantics of the generated code yields exactly the regions (tokens with variant and span, errors
   with their spans, skipped regions) and the final span of the DFA-level maximal-munch specification
   [attempt_spec] (longest match by [scan], error end by [viable_end]). *)
Theorem C01_stream_eq_spec : forall d g V R D,
  dfa_ok d = true -> sim_ok d g V D = true -> exact_ok d g V R D = true ->
  forall act fb (w : list byte), bytes_ok w ->
  lex_all (attempt_ref g) act fb w false = lex_all (attempt_spec d (lv_of R)) act fb w false.
Proof. exact lex_ref_eq_spec. Qed.

(* The graph construction itself (Graph::new up to de-duplication, modelled by [build] in
   Engine/GraphBuild.v: winner per state, early accepts, removal of late accepts, pruning): for EVERY
   raw DFA meeting the decidable side conditions [build_side], the generated code's attempt on the
   constructed graph records the DFA-level maximal munch — no per-definition certificate involved. *)
Theorem C01_construction_correct : forall d,
  build_side d = true ->
  forall start rest, bytes_ok rest -> rest <> nil ->
  exists off, attempt_ref (build d) false start rest = Acted (scan d (d_start d) rest start None) off.
Proof. exact build_attempt_correct. Qed.

(* ... and for the graph g that the real Graph::new produced (de-duplicated, renumbered), whenever the
   bisimulation checker relates it to the modelled construction on the captured raw DFA. *)
Theorem C01_maximal_munch_built : forall d g R,
  build_side d = true -> gsim_ok (build d) g R = true ->
  forall (w : list byte) (start : N), bytes_ok w -> start < N.of_nat (length w) ->
  exists c off, attempt_ref g false start (skipn (N.to_nat start) w) = Acted c off /\
                MaximalMunch d (skipn (N.to_nat start) w) start c.
Proof. exact maximal_munch_built. Qed.

(* either graph may stand for the other in every walk of the generated code, both modes *)
Theorem C01_bisimilar_graphs_agree : forall g1 g2 R,
  gsim_ok g1 g2 R = true ->
  forall isprefix start hops rest, bytes_ok rest ->
  walk g1 isprefix start hops rest (g_root g1) start None = walk g2 isprefix start hops rest (g_root g2) start None.
Proof. exact gsim_attempt. Qed.

(* The byte classes on the edges (ByteClass in graph/mod.rs): merging two edges that de-duplication
   folds gives exactly the union, in canonical form, and the condition fork.rs renders for a class
   (range comparisons with isolated exceptions, or the look-up table above two comparisons) holds on
   exactly the bytes of the class. *)
Theorem C01_merged_class_is_union : forall a b x, byte_ok x ->
  in_ranges x (merge a b) = orb (in_ranges x a) (in_ranges x b).
Proof. exact merge_sem. Qed.

Theorem C01_merged_class_canonical : forall a b, canonical (merge a b) = true.
Proof. exact merge_canonical. Qed.

Theorem C01_edge_condition_exact : forall rs b, ranges_ok rs -> byte_ok b -> cond_eval rs b = in_ranges b rs.
Proof. exact cond_eval_sem. Qed.

(* The de-duplication loop at the end of Graph::new (modelled by [dedup] in Engine/Dedup.v: states with
   equal data folded into the first of them, edges redirected and merged, repeated until the size is
   stable): on a graph whose edge classes are disjoint and whose targets exist it changes no walk of the
   generated code, in either mode. *)
Theorem C01_dedup_preserves_walks : forall g, wf_graph g = true -> closed_graph g = true ->
  forall isprefix start hops rest, bytes_ok rest ->
  walk g isprefix start hops rest (g_root g) start None
  = walk (dedup g) isprefix start hops rest (g_root (dedup g)) start None.
Proof. exact dedup_attempt. Qed.

(* The complete modelled Graph::new — passes 1-4, then the loop — is correct for every raw DFA meeting
   [build_side]; and so is the graph of the real Graph::new whenever the checker relates the two. *)
Theorem C01_full_construction_correct : forall d g R,
  build_side d = true -> gsim_ok (dedup (build d)) g R = true ->
  forall start rest, bytes_ok rest -> rest <> nil ->
  exists off, attempt_ref g false start rest = Acted (scan d (d_start d) rest start None) off.
Proof. exact full_construction_correct. Qed.

(* End to end, from the raw DFA to the emitted code: when the modelled construction is related to the
   captured graph and the program parsed from the emitted code is the program of that graph, running
   the emitted program records the DFA-level maximal munch. *)
Theorem C01_emitted_code_maximal_munch : forall U d g R p,
  build_side d = true -> gsim_ok (dedup (build d)) g R = true ->
  wf_graph g = true -> prog_ok g p = true ->
  forall start rest, bytes_ok rest -> rest <> nil ->
  exists off, fst (attempt_prog U p (PositiveMap.cardinal (g_states g)) false start rest)
              = Acted (scan d (d_start d) rest start None) off.
Proof. exact emitted_code_maximal_munch. Qed.
