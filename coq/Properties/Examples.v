(* Properties/Examples.v — non-vacuity: the hypotheses of the engine theorems are satisfiable.
   The terms below are the DFA and the state graph captured from the real Graph::new for the curated
   definition LookEnd  (#[regex("a$")] AEnd, #[token("b")] B, #[regex("a+c")] Ac)  — a definition
   with a look-ahead, a late accept and an end-of-input edge — together with the untrusted hints; each
   certificate is evaluated by the kernel and every generic engine theorem is instantiated.
   (Generated once by lib/cap.py from the capture; the per-run instances are regenerated from /repo
   on every check.) *)
From Coq Require Import List NArith.
From LogosV Require Import Engine.Model Engine.Cert Engine.Build Engine.Run Engine.GraphBuild Engine.ByteClass Engine.Prog Engine.Dedup Engine.Rename Engine.StreamProofs Engine.Utf8Stream Properties.All.
Import ListNotations.
Open Scope N_scope.

Definition ex_d := mk_dfa [(16, [], 0, [1]); (24, [], 0, [0]); (32, [], 0, [2]); (40, [(97,97,64); (98,98,72)], 0, []); (48, [(97,97,48); (99,99,56)], 0, []); (56, [(0,255,32)], 32, []); (64, [(97,97,48); (99,99,56)], 24, []); (72, [(0,255,16)], 16, [])] 40 [2; 2; 4].
Definition ex_g := mk_graph [(0, None, (Some 0), [], None); (1, None, None, [([(97,97)], 4); ([(98,98)], 5)], None); (2, None, None, [([(97,97)], 2); ([(99,99)], 3)], None); (3, (Some 2), None, [], None); (4, None, None, [([(97,97)], 2); ([(99,99)], 3)], (Some 0)); (5, (Some 1), None, [], None)] 1.
Definition ex_V := mk_pairing [(0, [24]); (1, [40]); (2, [48]); (3, [56]); (4, [64]); (5, [72])].
Definition ex_D := mk_pset [0; 16; 24; 32].
Definition ex_R := mk_rank [(40,1); (48,1); (56,0); (64,0); (72,0)].
Definition ex_PU := mk_upairs [(0, [0;1;2;3;4;5;6;7]); (16, [0;1;2;3;4;5;6;7]); (32, [0;1;2;3;4;5;6;7]); (40, [0]); (48, [0]); (56, [0]); (64, [0]); (72, [0])].
Definition ex_RH := mk_reach [(16, (72, 0, 2)); (24, (64, 256, 2)); (32, (56, 0, 3)); (48, (64, 97, 2)); (56, (64, 99, 2)); (64, (40, 97, 1)); (72, (40, 98, 1))].

Example ex_dfa_ok : dfa_ok ex_d = true. Proof. vm_compute. reflexivity. Qed.
Example ex_sim_ok : sim_ok ex_d ex_g ex_V ex_D = true. Proof. vm_compute. reflexivity. Qed.
Example ex_exact_ok : exact_ok ex_d ex_g ex_V ex_R ex_D = true. Proof. vm_compute. reflexivity. Qed.
Example ex_wf_graph : wf_graph ex_g = true. Proof. vm_compute. reflexivity. Qed.
Example ex_prompt_ok : prompt_ok ex_d ex_g ex_V ex_R = true. Proof. vm_compute. reflexivity. Qed.
Example ex_utf8_ok : utf8_ok ex_d ex_PU = true. Proof. vm_compute. reflexivity. Qed.
Example ex_utf8_strict_ok : utf8_strict_ok ex_d ex_PU ex_D = true. Proof. vm_compute. reflexivity. Qed.
Example ex_reach_ok : reach_ok ex_d ex_RH = true. Proof. vm_compute. reflexivity. Qed.

(* every generic engine theorem applies to this definition, for all inputs *)
Definition ex_C01 := C01_maximal_munch ex_d ex_g ex_V ex_D ex_dfa_ok ex_sim_ok.
Definition ex_C02 := C02_error_span ex_d ex_g ex_V ex_R ex_D ex_dfa_ok ex_sim_ok ex_exact_ok.
Definition ex_C02b := C02_stop_exact ex_d ex_g ex_V ex_R ex_D ex_dfa_ok ex_sim_ok ex_exact_ok.
Definition ex_C03 := C03_tiling ex_d ex_g ex_V ex_R ex_D ex_dfa_ok ex_sim_ok ex_exact_ok.
Definition ex_C04 := C04_spans_on_boundaries ex_d ex_g ex_V ex_R ex_D ex_PU ex_dfa_ok ex_sim_ok ex_exact_ok ex_utf8_ok.
Definition ex_C06 := fun U => C06_opt_is_ref U ex_g.
Definition ex_C08 := C08_no_silent_choice ex_d ex_dfa_ok.
Definition ex_C12 := C12_inside_char_error ex_d ex_g ex_V ex_R ex_D ex_PU ex_dfa_ok ex_sim_ok ex_exact_ok ex_utf8_ok ex_utf8_strict_ok.

(* and the model computes what one expects on concrete inputs: "aab" -> Err 0..2 (a+c stays viable until the b), B 2..3;
   "aac" -> Ac 0..3; "a" -> AEnd 0..1 *)
Example ex_run_aab : run_ref ex_g true [0;0;0] false [97;97;98] = [0;0;0;2;0;0; 1;2;2;3;0;3; 2;3;3].
Proof. vm_compute. reflexivity. Qed.
Example ex_run_aac : run_ref ex_g true [0;0;0] false [97;97;99] = [1;3;0;3;0;0; 2;3;3].
Proof. vm_compute. reflexivity. Qed.
Example ex_run_a : run_ref ex_g true [0;0;0] false [97] = [1;1;0;1;0;2; 2;1;1].
Proof. vm_compute. reflexivity. Qed.
(* partial mode: on the prefix "a" nothing is committed (more input may follow) *)
Example ex_partial_a : run_ref ex_g true [0;0;0] true [97] = [2;0;0].
Proof. vm_compute. reflexivity. Qed.
(* partial mode on "ab": the error and the token are determined by the prefix and are committed *)
Example ex_partial_ab : run_ref ex_g true [0;0;0] true [97;98] = [0;0;0;1;0;0; 1;2;1;2;0;3; 2;2;2].
Proof. vm_compute. reflexivity. Qed.

(* ---------- the certificate-free routes on the same definition ---------- *)
(* the modelled Graph::new (passes 1-4, then the de-duplication loop) against the captured graph;
   the relation is the pairing read backwards *)
Definition ex_Vs := mk_pairing [(24, [0]); (40, [1]); (48, [2]); (56, [3]); (64, [4]); (72, [5])].
Example ex_build_side : build_side ex_d = true. Proof. vm_compute. reflexivity. Qed.
Example ex_gsim : gsim_ok (build ex_d) ex_g ex_Vs = true. Proof. vm_compute. reflexivity. Qed.
Example ex_gsim_dedup : gsim_ok (dedup (build ex_d)) ex_g ex_Vs = true. Proof. vm_compute. reflexivity. Qed.
Definition ex_C01_built := C01_maximal_munch_built ex_d ex_g ex_Vs ex_build_side ex_gsim.
Definition ex_C01_full := C01_full_construction_correct ex_d ex_g ex_Vs ex_build_side ex_gsim_dedup.

(* the program parsed by lib/genparse.py from the code the tail-call generator emits for LookEnd *)
Definition ex_p := mk_prog [[0; 0; 0; 0; 0; 0; 0; 0; 0; 0; 0; 0; 0; 0; 0; 0; 0; 0; 0; 0; 0; 0; 0; 0; 0; 0; 0; 0; 0; 0; 0; 0; 0; 0; 0; 0; 0; 0; 0; 0; 0; 0; 0; 0; 0; 0; 0; 0; 0; 0; 0; 0; 0; 0; 0; 0; 0; 0; 0; 0; 0; 0; 0; 0; 0; 0; 0; 0; 0; 0; 0; 0; 0; 0; 0; 0; 0; 0; 0; 0; 0; 0; 0; 0; 0; 0; 0; 0; 0; 0; 0; 0; 0; 0; 0; 0; 0; 1; 0; 0; 0; 0; 0; 0; 0; 0; 0; 0; 0; 0; 0; 0; 0; 0; 0; 0; 0; 0; 0; 0; 0; 0; 0; 0; 0; 0; 0; 0; 0; 0; 0; 0; 0; 0; 0; 0; 0; 0; 0; 0; 0; 0; 0; 0; 0; 0; 0; 0; 0; 0; 0; 0; 0; 0; 0; 0; 0; 0; 0; 0; 0; 0; 0; 0; 0; 0; 0; 0; 0; 0; 0; 0; 0; 0; 0; 0; 0; 0; 0; 0; 0; 0; 0; 0; 0; 0; 0; 0; 0; 0; 0; 0; 0; 0; 0; 0; 0; 0; 0; 0; 0; 0; 0; 0; 0; 0; 0; 0; 0; 0; 0; 0; 0; 0; 0; 0; 0; 0; 0; 0; 0; 0; 0; 0; 0; 0; 0; 0; 0; 0; 0; 0; 0; 0; 0; 0; 0; 0; 0; 0; 0; 0; 0; 0; 0; 0; 0; 0; 0; 0; 0; 0; 0; 0; 0; 0]] [(1%positive, {| p_loop := None; p_setup := PAccept 0; p_fork := PChain []; p_prefix := false; p_roottest := false; p_eoi := None |}); (2%positive, {| p_loop := None; p_setup := PNoSetup; p_fork := PChain [(PCmp [{| c_lo := 97; c_hi := 97; c_ex := [] |}], 5%positive); (PCmp [{| c_lo := 98; c_hi := 98; c_ex := [] |}], 6%positive)]; p_prefix := true; p_roottest := true; p_eoi := None |}); (3%positive, {| p_loop := Some (0, 1); p_setup := PNoSetup; p_fork := PChain [(PCmp [{| c_lo := 99; c_hi := 99; c_ex := [] |}], 4%positive)]; p_prefix := true; p_roottest := false; p_eoi := None |}); (4%positive, {| p_loop := None; p_setup := PEarly 2; p_fork := PChain []; p_prefix := false; p_roottest := false; p_eoi := None |}); (5%positive, {| p_loop := None; p_setup := PNoSetup; p_fork := PChain [(PCmp [{| c_lo := 97; c_hi := 97; c_ex := [] |}], 3%positive); (PCmp [{| c_lo := 99; c_hi := 99; c_ex := [] |}], 4%positive)]; p_prefix := true; p_roottest := false; p_eoi := Some 1%positive |}); (6%positive, {| p_loop := None; p_setup := PEarly 1; p_fork := PChain []; p_prefix := false; p_roottest := false; p_eoi := None |})] 2%positive 2%positive.
Example ex_prog_ok : prog_ok ex_g ex_p = true. Proof. vm_compute. reflexivity. Qed.
Definition ex_C06_emitted := fun U isprefix start rest => C06_emitted_is_ref U ex_g ex_p isprefix start rest ex_prog_ok ex_wf_graph.
Definition ex_C01_emitted := fun U => C01_emitted_code_maximal_munch U ex_d ex_g ex_Vs ex_p ex_build_side ex_gsim_dedup ex_wf_graph ex_prog_ok.
(* the parsed program run on "aac": the same regions as the reference semantics above *)
Example ex_run_prog_aac : run_prog 8 ex_p 6 true [0;0;0] false [97;97;99] = [1;3;0;3;0;0; 2;3;3].
Proof. vm_compute. reflexivity. Qed.

(* leaves listed in another order (C18): LookEnd with its first two leaves exchanged, translated back *)
Definition ex_swap : list leaf := [1; 0; 2].
Definition ex_g_swapped := rename_graph (leaf_map ex_swap) ex_g.
Definition ex_Id := mk_pairing [(0, [0]); (1, [1]); (2, [2]); (3, [3]); (4, [4]); (5, [5])].
Example ex_reordered : gsim_ok ex_g (rename_graph (leaf_map ex_swap) ex_g_swapped) ex_Id = true. Proof. vm_compute. reflexivity. Qed.
Example ex_reordered_differs : gsim_ok ex_g ex_g_swapped ex_Id = false. Proof. vm_compute. reflexivity. Qed.
Definition ex_C18_reordered := C18_reordered_leaves_agree ex_g ex_g_swapped ex_swap ex_Id ex_reordered.

(* chunked feeding (C07): "aacab" fed as "a", "aac", "aaca", then whole: the skips and items of the one-shot lexing *)
Definition ex_act : leaf -> N -> N -> action * N := fun _ _ _ => (AEmit, 0).
Definition ex_id : N -> N := fun i => i.
Example ex_chunked : chunked ex_g ex_act ex_id [97;97;99;97;98] (fun _ => ex_id) [1%nat; 3%nat; 4%nat] 0
                     = lex_all (attempt_ref ex_g) ex_act ex_id [97;97;99;97;98] false.
Proof. vm_compute. reflexivity. Qed.
Example ex_chunked_value : fst (lex_all (attempt_ref ex_g) ex_act ex_id [97;97;99;97;98] false)
                           = [RItem (Item true (Some 2) 0 3); RItem (Item false None 3 4); RItem (Item true (Some 1) 4 5)].
Proof. vm_compute. reflexivity. Qed.
Definition ex_C07_chunked := C07_chunked_is_oneshot ex_d ex_g ex_V ex_R ex_D ex_dfa_ok ex_sim_ok ex_exact_ok.

(* str mode vs byte mode on the whole stream (C12): "a" then U+00E9 (C3 A9) then "b": str mode gives the errors 0..1 and 1..3,
   byte mode 0..1, 1..2 and 2..3; cut into bytes they are the same stream *)
Example ex_streams : split_errs (fst (lex_all (attempt_ref ex_g) ex_act (fb_str [97;195;169;98]) [97;195;169;98] false))
                     = [RItem (Item false None 0 1); RItem (Item false None 1 2); RItem (Item false None 2 3); RItem (Item true (Some 1) 3 4)].
Proof. vm_compute. reflexivity. Qed.
Example ex_streams_str : fst (lex_all (attempt_ref ex_g) ex_act (fb_str [97;195;169;98]) [97;195;169;98] false)
                     = [RItem (Item false None 0 1); RItem (Item false None 1 3); RItem (Item true (Some 1) 3 4)].
Proof. vm_compute. reflexivity. Qed.
Definition ex_C12_streams := C12_streams_agree ex_d ex_g ex_V ex_R ex_D ex_PU ex_dfa_ok ex_sim_ok ex_exact_ok ex_utf8_ok ex_utf8_strict_ok.

Definition ex_C07_emitted_chunked := fun U => C07_emitted_chunked_is_oneshot U ex_g ex_p ex_prog_ok ex_wf_graph ex_d ex_V ex_R ex_D ex_dfa_ok ex_sim_ok ex_exact_ok.

(* ---------- a look-around-free definition (corpus/front/conflicts.rs LowerTieBelowTopSplit: [ab] | b (priority 9) | [bc]) ----------
   the strict promptness certificate holds, the root waits in partial mode, and C07_waits_only_if_open says why:
   a match is still reachable from a successor of its DFA state *)
Definition ex2_d := mk_dfa [(16, [], 0, [2]); (24, [], 0, [0; 1; 2]); (32, [], 0, [0]); (40, [(97,97,56); (98,98,64); (99,99,48)], 0, []); (48, [(0,255,16)], 16, []); (56, [(0,255,32)], 32, []); (64, [(0,255,24)], 24, [])] 40 [2; 9; 2].
Definition ex2_g := mk_graph [(0, None, None, [([(99,99)], 1); ([(97,97)], 2); ([(98,98)], 3)], None); (1, (Some 2), None, [], None); (2, (Some 0), None, [], None); (3, (Some 1), None, [], None)] 0.
Definition ex2_V := mk_pairing [(0, [40]); (1, [48]); (2, [56]); (3, [64])].
Definition ex2_D := mk_pset [0; 16; 24; 32].
Definition ex2_R := mk_rank [(40,1); (48,0); (56,0); (64,0)].
Example ex2_dfa_ok : dfa_ok ex2_d = true. Proof. vm_compute. reflexivity. Qed.
Example ex2_sim_ok : sim_ok ex2_d ex2_g ex2_V ex2_D = true. Proof. vm_compute. reflexivity. Qed.
Example ex2_exact_ok : exact_ok ex2_d ex2_g ex2_V ex2_R ex2_D = true. Proof. vm_compute. reflexivity. Qed.
Example ex2_prompt_strict_ok : prompt_strict_ok ex2_d ex2_g ex2_V ex2_R = true. Proof. vm_compute. reflexivity. Qed.
Example ex2_root_paired : inV ex2_V 1%positive 41%positive = true. Proof. vm_compute. reflexivity. Qed.
Example ex2_root_waits : option_map partial_mode_test (gfind ex2_g 1%positive) = Some true. Proof. vm_compute. reflexivity. Qed.
Definition ex2_C07_strict := C07_prompt_strict ex2_d ex2_g ex2_V ex2_R 1%positive 41%positive.
Definition ex2_C07_open := C07_waits_only_if_open ex2_d ex2_g ex2_V ex2_R ex2_D ex2_dfa_ok ex2_sim_ok ex2_exact_ok 1%positive 41%positive.
