(* Property C19 — the derive never panics and rejects what it cannot implement.
   Only final statements; proofs in Front/Accept.v and Regex/GreedyProofs.v.
   The empty-match and UTF-8 rejections are decided on the captured DFA (C03, C04); undefined
   subpatterns by C11; here: the panic-relevant decision skeleton and the greedy-dot test. *)
From Coq Require Import List NArith.
From LogosV Require Import Regex.Re Regex.ReProofs Regex.Greedy Regex.GreedyProofs Front.Accept.
Import ListNotations.

Theorem C19_never_panics : forall es errs, run true es errs <> Panicked.
Proof. exact never_panics. Qed.
Theorem C19_bad_variant_rejected : forall s es1 es2, (s = Named \/ s = Tuple 0 \/ exists n, s = Tuple (S (S n))) ->
  run true (es1 ++ EVariant s :: es2) false = Rejected.
Proof. exact bad_variant_rejected. Qed.
(* the greedy-dot test finds an unbounded greedy dot repetition at any depth, and only those *)
Theorem C19_greedy_complete : forall r, HasGreedyDot r -> greedy r = true.
Proof. exact greedy_complete. Qed.
Theorem C19_greedy_sound : forall r, greedy r = true -> HasGreedyDot r.
Proof. exact greedy_sound. Qed.
(* regression lemmas: the code as it was (findings F6, F7, F8, F9) *)
Theorem C19_old_panics_on_empty_tuple : run false [EVariant (Tuple 0)] false = Panicked.
Proof. exact old_panics_on_empty_tuple. Qed.
Theorem C19_old_panics_on_duplicate_callback : run false [EDupCallback false] false = Panicked.
Proof. exact old_panics_on_duplicate_callback. Qed.
Theorem C19_greedy_old_refuted : exists r, HasGreedyDot r /\ greedy_old r = false.
Proof. exact greedy_old_refuted. Qed.
Theorem C19_greedy_nocap_refuted : exists r, HasGreedyDot r /\ greedy_nocap r = false.
Proof. exact greedy_nocap_refuted. Qed.

(* the default-priority arithmetic is total now; regression lemma (finding F11): as it was, the product overflowed
   on (a{4294967295}){4294967295} - "attempt to multiply with overflow" in a build with overflow checks *)
Theorem C19_complexity_fits : forall r, lits_small r = true -> (complexity_sat r <= usize_max)%N.
Proof. exact complexity_sat_fits. Qed.
Theorem C19_old_complexity_overflows : complexity_checked f11_witness = None /\ complexity_sat f11_witness = usize_max.
Proof. exact old_complexity_overflows. Qed.
