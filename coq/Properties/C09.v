(* Property C09 — default priorities follow the documented specificity rule.
   Only final statements; proofs in Regex/ReProofs.v.  `complexity` (Regex/Re.v) mirrors
   Pattern::complexity; its tie to the code is the per-leaf comparison with the captured priority. *)
From Coq Require Import List NArith.
From LogosV Require Import Regex.Re Regex.ReProofs.
Import ListNotations.
Local Open Scope N_scope.

(* any string matched by r has at least complexity(r)/2 bytes *)
Theorem C09_complexity_le_len : forall r w, Matches r w -> complexity r <= 2 * N.of_nat (length w).
Proof. exact complexity_le_len. Qed.

(* hence a regex with default priority that matches a literal token's text has priority <= the
   token's default priority 2 * byte length: the token wins or the tie is reported (C08) *)
Theorem C09_literal_never_beaten : forall r bs, Matches r bs -> complexity r <= token_priority bs.
Proof. exact literal_never_beaten. Qed.

(* the documented structural rule *)
Theorem C09_rule_concat : forall a b, complexity (RCat [a; b]) = complexity a + complexity b.
Proof. exact complexity_cat. Qed.
Theorem C09_rule_alternation : forall a b, complexity (RAlt [a; b]) = N.min (complexity a) (complexity b).
Proof. exact complexity_alt. Qed.
Theorem C09_rule_repetition : forall mn mx g r, complexity (RRep mn mx g r) = mn * complexity r.
Proof. exact complexity_rep. Qed.
Theorem C09_rule_assertion : complexity RLook = 0.
Proof. exact complexity_look. Qed.

(* what the code computes (usize arithmetic, saturating since finding F11 was repaired) is the documented value
   cut off at usize::MAX, and the documented value itself whenever that fits *)
Theorem C09_code_value_is_rule_saturated : forall r, lits_small r = true -> complexity_sat r = N.min (complexity r) usize_max.
Proof. exact complexity_sat_spec. Qed.
Theorem C09_code_value_exact : forall r, lits_small r = true -> complexity r <= usize_max -> complexity_sat r = complexity r.
Proof. exact complexity_sat_exact. Qed.
