(* Property C04 — spans never split a UTF-8 code point on str input.
   Only final statements; proofs in Engine/Utf8Proofs.v and Engine/Utf8Lex.v. *)
From Coq Require Import List NArith FMapPositive.
From LogosV Require Import Base.Utf8 Engine.Model Engine.Cert Engine.CertProofs Engine.SpecProofs
  Engine.LexProofs Engine.Utf8Proofs Engine.Utf8Lex Engine.Run Runtime.Source Engine.Prog Engine.StreamProg.
Local Open Scope N_scope.

(* every match of a certified DFA that starts on a char boundary of valid UTF-8 text ends on one *)
Theorem C04_match_ends_on_boundary : forall d P (w : list byte) p j,
  utf8_ok d P = true -> bytes_ok w -> utf8_valid w = true ->
  Bnd w p -> (p + j <= length w)%nat ->
  dmatch d (mstate d (d_start d) (skipn p w) j) <> nil -> Bnd w (p + j).
Proof. exact match_ends_on_boundary. Qed.

(* Bnd (the automaton reading) is str::is_char_boundary on valid text *)
Theorem C04_bnd_is_char_boundary : forall (w : list byte) i,
  bytes_ok w -> utf8_valid w = true -> (i <= length w)%nat ->
  (Bnd w i <-> is_boundary true w (N.of_nat i) = true).
Proof. exact bnd_iff_is_boundary. Qed.

(* every span boundary of the lexing loop (tokens, errors, skipped regions, the final span) on
   valid UTF-8 input is a char boundary *)
Theorem C04_spans_on_boundaries : forall d g V R D P,
  dfa_ok d = true -> sim_ok d g V D = true -> exact_ok d g V R D = true -> utf8_ok d P = true ->
  forall act fb (w : list byte), bytes_ok w -> utf8_valid w = true ->
  (forall l s e, s < e -> e <= N.of_nat (length w) -> BndN w e ->
      e + snd (act l s e) <= N.of_nat (length w) /\ BndN w (e + snd (act l s e))) ->
  (forall i, i <= N.of_nat (length w) -> i <= fb i /\ fb i <= N.of_nat (length w) /\ BndN w (fb i)) ->
  forall fuel start rs o, start <= N.of_nat (length w) -> BndN w start ->
  lex_from (attempt_ref g) act fb w false fuel start = (rs, o) ->
  ends_bnd w rs /\ match o with Finished s e => BndN w s /\ BndN w e | _ => True end.
Proof. exact lex_bnd. Qed.

(* find_boundary of str meets the hypothesis *)
Theorem C04_fb_str_boundary : forall (w : list byte) i,
  bytes_ok w -> utf8_valid w = true -> i <= N.of_nat (length w) -> BndN w (fb_str w i).
Proof. exact fb_str_boundary. Qed.

(* the same for the program the code generator emits (translator K12, checker prog_ok) *)
Theorem C04_emitted_spans_on_boundaries : forall U g p,
  prog_ok g p = true -> wf_graph g = true ->
  forall d V R D, dfa_ok d = true -> sim_ok d g V D = true -> exact_ok d g V R D = true ->
  forall P act fb (w : list byte), utf8_ok d P = true -> bytes_ok w -> utf8_valid w = true ->
  (forall l s e, s < e -> e <= N.of_nat (length w) -> BndN w e ->
      e + snd (act l s e) <= N.of_nat (length w) /\ BndN w (e + snd (act l s e))) ->
  (forall i, i <= N.of_nat (length w) -> i <= fb i /\ fb i <= N.of_nat (length w) /\ BndN w (fb i)) ->
  forall fuel start rs o, start <= N.of_nat (length w) -> BndN w start ->
  lex_from (fun ip s r => fst (attempt_prog U p (PositiveMap.cardinal (g_states g)) ip s r)) act fb w false fuel start = (rs, o) ->
  ends_bnd w rs /\ match o with Finished s e => BndN w s /\ BndN w e | _ => True end.
Proof. exact emitted_spans_on_boundaries. Qed.
