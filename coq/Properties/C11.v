(* Property C11 — subpattern references behave as scoped textual inclusion.
   Only final statements; proofs in Front/Subpat.v and Engine/DfaEquiv.v. *)
From Coq Require Import List NArith.
From LogosV Require Import Front.Subpat Engine.Model Engine.Cert Engine.CertProofs Engine.SpecProofs Engine.DfaEquiv.
Import ListNotations.
Local Open Scope N_scope.

(* text without any (?&name) is unchanged *)
Theorem C11_subst_group_free : forall env s fuel, (length s <= fuel)%nat -> group_free s -> subst fuel env s = Some s.
Proof. exact subst_group_free. Qed.
(* text before a reference is copied byte by byte *)
Theorem C11_subst_prefix_copied : forall env c r fuel, match_group (c :: r) = None ->
  subst (S fuel) env (c :: r) = option_map (cons c) (subst fuel env r).
Proof. exact subst_prefix_copied. Qed.
(* a reference to a defined name is replaced by the stored text, nothing else *)
Theorem C11_subst_at_group : forall env name rest t fuel,
  match_group (40 :: 63 :: 38 :: name ++ 41 :: rest) = Some (name, rest) -> lookup env name = Some t ->
  subst (S fuel) env (40 :: 63 :: 38 :: name ++ 41 :: rest) =
  match subst fuel env rest with Some out => Some (t ++ out) | None => None end.
Proof. exact subst_at_group. Qed.
(* a reference to an undefined name fails *)
Theorem C11_subst_undefined : forall env name rest fuel,
  match_group (40 :: 63 :: 38 :: name ++ 41 :: rest) = Some (name, rest) -> lookup env name = None ->
  subst (S fuel) env (40 :: 63 :: 38 :: name ++ 41 :: rest) = None.
Proof. exact subst_undefined. Qed.
(* equivalence with the independently inlined pattern is decided by the language-equality certificate *)
Theorem C11_bisim_sound : forall d1 l1 d2 l2 R, bisim_ok d1 l1 d2 l2 R = true ->
  forall (rest : list byte) j, bytes_ok rest ->
  (In l1 (dmatch d1 (mstate d1 (d_start d1) rest j)) <-> In l2 (dmatch d2 (mstate d2 (d_start d2) rest j))).
Proof. exact bisim_sound. Qed.
