(* Property C07 — partial lexing commits only items that more input cannot change.
   Only final statements; proofs in Engine/PartialProofs.v. *)
From Coq Require Import List NArith FMapPositive.
From LogosV Require Import Engine.Model Engine.Cert Engine.CertProofs Engine.PartialProofs Engine.PromptProofs Engine.StreamProofs Engine.Prog Engine.StreamProg.
Import ListNotations.
Local Open Scope N_scope.

(* Safety, one call of next(): for every graph g, whole input w, split point k, and boundary
   functions that agree inside the prefix: an item yielded by the partial lexer over w[..k] (after
   skipping the regions sk) is exactly what the ordinary lexer yields over w from the same
   position.  Holds for every graph — no certificate needed. *)
Theorem C07_next_prefix_safe : forall g act fbp fbw (w : list byte) (k : nat),
  (k <= length w)%nat -> (forall i, i <= N.of_nat k -> fbp i = fbw i) ->
  forall fuel fuel' start sk it e, (fuel <= fuel')%nat ->
  next_from (attempt_ref g) act fbp (firstn k w) true fuel start = (sk, Yield it e) ->
  next_from (attempt_ref g) act fbw w false fuel' start = (sk, Yield it e).
Proof. exact next_prefix_safe. Qed.

(* At None the partial lexer reports the empty span s..s, has skipped a leading run of what the
   ordinary lexer skips, and the ordinary lexer continues exactly as if started at s. *)
Theorem C07_next_prefix_none : forall g act fbp fbw (w : list byte) (k : nat),
  (k <= length w)%nat -> (forall i, i <= N.of_nat k -> fbp i = fbw i) ->
  forall fuel fuel' start sk s, (fuel <= fuel')%nat ->
  next_from (attempt_ref g) act fbp (firstn k w) true fuel start = (sk, Finished s s) ->
  exists f'', (0 < f'')%nat /\
    next_from (attempt_ref g) act fbw w false fuel' start =
    (sk ++ fst (next_from (attempt_ref g) act fbw w false f'' s),
     snd (next_from (attempt_ref g) act fbw w false f'' s)).
Proof. intros g act fbp fbw w k Hk _. exact (next_prefix_none g act fbp fbw w k Hk). Qed.

(* Promptness.  A DFA state is determined when every unit successor is non-live and all agree on the
   winner; then the recorded match is the same for every continuation of the input: *)
Theorem C07_determined_scan : forall d g V R D,
  dfa_ok d = true -> sim_ok d g V D = true -> exact_ok d g V R D = true ->
  forall q, determined d R q = true ->
  forall (rest : list byte) k best, bytes_ok rest ->
  scan d q rest k best = upd best k (win d (dstep d q UEoi)).
Proof. exact determined_scan. Qed.

(* ... and under the certificate prompt_ok the partial lexer does not keep waiting in such a state:
   it acts at the end of the buffer, or every state one byte further does (the look-around case) *)
Theorem C07_prompt_one_byte : forall d g V R s q st, prompt_ok d g V R = true ->
  inV V s q = true -> gfind g s = Some st -> determined d R q = true ->
  partial_mode_test st = false \/
  forall b t, edge_first (g_edges st) b = Some t ->
    exists st', gfind g t = Some st' /\ partial_mode_test st' = false.
Proof. exact prompt_one_byte. Qed.

Theorem C07_no_test_acts : forall g start hops s st off c, gfind g s = Some st -> partial_mode_test st = false ->
  at_eoi g true start (S hops) s off c = Acted (record st off c) off \/
  at_eoi g true start (S hops) s off c = RetNone false.
Proof. exact no_test_acts. Qed.

(* For definitions without look-around assertions the strict certificate is required: a determined state
   does not carry the partial-mode test at all, so (C07_no_test_acts) it acts at the end of the buffer —
   the item is yielded as soon as it is determined, not one byte later. *)
Theorem C07_prompt_strict : forall d g V R s q st, prompt_strict_ok d g V R = true ->
  inV V s q = true -> gfind g s = Some st -> determined d R q = true ->
  partial_mode_test st = false.
Proof. exact prompt_strict. Qed.

(* Stream level.  The regions (items and skipped matches) that a partial lexer over w[..k] produces from
   a position until its first None at s are a leading run of the one-shot lexing of w from the same
   position, and lexing w from s gives exactly the rest, with the same ending.  Every graph. *)
Theorem C07_stream_prefix : forall g act fbp fbw (w : list byte) (k : nat),
  (k <= length w)%nat -> (forall i, i <= N.of_nat k -> fbp i = fbw i) ->
  forall F1 F2 start rs s rs2 fin2, (F1 <= F2)%nat ->
  lex_from (attempt_ref g) act fbp (firstn k w) true F1 start = (rs, Finished s s) ->
  lex_from (attempt_ref g) act fbw w false F2 start = (rs2, fin2) -> fin2 <> Broken ->
  exists rs3 F3, (0 < F3 <= F2)%nat /\ rs2 = rs ++ rs3 /\
    lex_from (attempt_ref g) act fbw w false F3 s = (rs3, fin2).
Proof. intros g act fbp fbw w k. exact (lex_prefix_stream g act fbw w fbp k). Qed.

(* Under the certificate no run of a partial lexer is out of fuel or stuck ... *)
Theorem C07_partial_runs_end : forall d g V R D,
  dfa_ok d = true -> sim_ok d g V D = true -> exact_ok d g V R D = true ->
  forall act (w : list byte), bytes_ok w -> forall k, (k <= length w)%nat ->
  forall fbp, (forall i, i <= N.of_nat k -> i <= fbp i) ->
  forall fuel start, (N.to_nat (N.of_nat k - start) < fuel)%nat ->
  snd (lex_from (attempt_ref g) act fbp (firstn k w) true fuel start) <> Broken.
Proof. exact lex_partial_not_broken. Qed.

(* ... and feeding the input through ANY sequence of buffers w[..k1], w[..k2], ... (each partial lexer run
   until None, the next one resumed at the reported position), finishing with an ordinary lexer over w,
   reproduces the one-shot lexing of w exactly: the same items, the same skipped matches, the same end. *)
Theorem C07_chunked_is_oneshot : forall d g V R D,
  dfa_ok d = true -> sim_ok d g V D = true -> exact_ok d g V R D = true ->
  forall act fbw fbk (w : list byte), bytes_ok w ->
  (forall l s e, s < e -> e <= N.of_nat (length w) -> e + snd (act l s e) <= N.of_nat (length w)) ->
  (forall i, i <= N.of_nat (length w) -> i <= fbw i /\ fbw i <= N.of_nat (length w)) ->
  (forall k i, i <= N.of_nat k -> fbk k i = fbw i) ->
  forall ks, Forall (fun k => (k <= length w)%nat) ks ->
  chunked g act fbw w fbk ks 0 = lex_all (attempt_ref g) act fbw w false.
Proof. exact chunked_is_oneshot. Qed.

(* The same for the program the code generator emits (parsed from the generated code, checked against the graph by
   prog_ok): any schedule of growing buffers lexed by the emitted program in partial mode, finished by the emitted
   program in ordinary mode, gives the one-shot stream of the emitted program. *)
Theorem C07_emitted_chunked_is_oneshot : forall U g p,
  prog_ok g p = true -> wf_graph g = true ->
  forall d V R D, dfa_ok d = true -> sim_ok d g V D = true -> exact_ok d g V R D = true ->
  forall act fbw fbk (w : list byte), bytes_ok w ->
  (forall l s e, s < e -> e <= N.of_nat (length w) -> e + snd (act l s e) <= N.of_nat (length w)) ->
  (forall i, i <= N.of_nat (length w) -> i <= fbw i /\ fbw i <= N.of_nat (length w)) ->
  (forall k i, i <= N.of_nat k -> fbk k i = fbw i) ->
  forall ks, Forall (fun k => (k <= length w)%nat) ks ->
  chunked_with (fun ip s r => fst (attempt_prog U p (PositiveMap.cardinal (g_states g)) ip s r)) act fbw w fbk ks 0
  = lex_all (fun ip s r => fst (attempt_prog U p (PositiveMap.cardinal (g_states g)) ip s r)) act fbw w false.
Proof. exact emitted_chunked_is_oneshot. Qed.

(* The converse of promptness: under the strict certificate, a state in which the partial lexer WAITS (it carries the
   is_prefix test) is one whose item is genuinely open - from some unit successor of the DFA state a match can still be
   reached (Live), or two successors disagree on the winner.  So the lexer waits only while the item can still change. *)
Theorem C07_waits_only_if_open : forall d g V R D,
  dfa_ok d = true -> sim_ok d g V D = true -> exact_ok d g V R D = true ->
  forall s q st, prompt_strict_ok d g V R = true ->
  inV V s q = true -> gfind g s = Some st -> partial_mode_test st = true ->
  Live d (dstep d q UEoi) \/
  exists b, byte_ok b /\ (Live d (dstep d q (UB b)) \/ win d (dstep d q (UB b)) <> win d (dstep d q UEoi)).
Proof. exact waits_only_if_open. Qed.
