(* Property C07 — partial lexing commits only items that more input cannot change.
   Only final statements; proofs in Engine/PartialProofs.v. *)
From Coq Require Import List NArith.
From LogosV Require Import Engine.Model Engine.PartialProofs.
Import ListNotations.
Local Open Scope N_scope.

(* Safety, one call of next(): for every graph g, whole input w, split point k, and boundary
   functions that agree inside the prefix: an item yielded by the partial lexer over w[..k] (after
   skipping the regions sk) is exactly what the ordinary lexer yields over w from the same
   position.  Holds for every graph — no certificate needed. *)
Theorem C07_next_prefix_safe : forall g act fbp fbw (w : list byte) (k : nat),
  (k <= length w)%nat -> (forall i, i <= N.of_nat k -> fbp i = fbw i) ->
  forall fuel fuel' start sk it e, (fuel <= fuel')%nat ->
  next_from (attempt_ref g) act fbp (firstn k w) true fuel start = (sk, Yield it e) ->
  next_from (attempt_ref g) act fbw w false fuel' start = (sk, Yield it e).
Proof. exact next_prefix_safe. Qed.

(* At None the partial lexer reports the empty span s..s, has skipped a leading run of what the
   ordinary lexer skips, and the ordinary lexer continues exactly as if started at s. *)
Theorem C07_next_prefix_none : forall g act fbp fbw (w : list byte) (k : nat),
  (k <= length w)%nat -> (forall i, i <= N.of_nat k -> fbp i = fbw i) ->
  forall fuel fuel' start sk s, (fuel <= fuel')%nat ->
  next_from (attempt_ref g) act fbp (firstn k w) true fuel start = (sk, Finished s s) ->
  exists f'', (0 < f'')%nat /\
    next_from (attempt_ref g) act fbw w false fuel' start =
    (sk ++ fst (next_from (attempt_ref g) act fbw w false f'' s),
     snd (next_from (attempt_ref g) act fbw w false f'' s)).
Proof. intros g act fbp fbw w k Hk _. exact (next_prefix_none g act fbp fbw w k Hk). Qed.
