(* Property C06 — tail-call and state-machine code generators behave identically.
   Only final statements; proofs in Engine/OptProofs.v.

   Both generators render the same per-state program (ExecOpt.walk_opt: unrolled self-loop, record,
   one-byte fork as if-chain or table, end-of-input block); they differ only in how a transition
   is rendered.  The theorem: for every unroll factor and either fork rendering, on every
   well-formed graph, that program computes the reference semantics — hence any two renderings
   agree on every input, in ordinary and in partial mode. *)
From Coq Require Import List NArith.
From LogosV Require Import Engine.Model Engine.Cert Engine.ExecOpt Engine.Prog Engine.CertProofs Engine.OptProofs Engine.ProgProofs.
From Coq Require Import FMapPositive.
Local Open Scope N_scope.

Theorem C06_opt_is_ref : forall U g p start (rest : list byte),
  wf_graph g = true -> bytes_ok rest ->
  fst (attempt_opt U g p start rest) = attempt_ref g p start rest.
Proof. exact attempt_opt_ref. Qed.

Theorem C06_generators_agree : forall U1 U2 g p start (rest : list byte),
  wf_graph g = true -> bytes_ok rest ->
  fst (attempt_opt U1 g p start rest) = fst (attempt_opt U2 g p start rest).
Proof.
  intros U1 U2 g p start rest Hwf Hw.
  rewrite (attempt_opt_ref U1 g p start rest Hwf Hw). symmetry. exact (attempt_opt_ref U2 g p start rest Hwf Hw).
Qed.

(* The programs actually emitted.  [p] is the program parsed by the translator from the token text that
   either generator emitted for a definition, [g] the graph it was generated from.  When the checker
   accepts the pair, running the emitted program — fast loop over the look-up table bits, the setup
   statements, the parsed if-chain conditions or jump table, the end-of-input block — gives the result
   and the reads of the emitted-program model, and the result of the reference semantics. *)
Theorem C06_emitted_is_model : forall g p, prog_ok g p = true ->
  forall U isprefix start fuel hops (rest : list byte) s off c, bytes_ok rest ->
  walk_prog U p isprefix start fuel hops rest s off c = walk_opt U g isprefix start fuel hops rest s off c.
Proof. exact walk_prog_opt. Qed.

Theorem C06_emitted_is_ref : forall U g p isprefix start (rest : list byte),
  prog_ok g p = true -> wf_graph g = true -> bytes_ok rest ->
  fst (attempt_prog U p (PositiveMap.cardinal (g_states g)) isprefix start rest) = attempt_ref g isprefix start rest.
Proof. exact attempt_prog_is_ref. Qed.

(* two emitted programs (one per generator) accepted against the same graph agree on every input *)
Theorem C06_emitted_programs_agree : forall U g p1 p2 isprefix start (rest : list byte),
  prog_ok g p1 = true -> prog_ok g p2 = true -> wf_graph g = true -> bytes_ok rest ->
  fst (attempt_prog U p1 (PositiveMap.cardinal (g_states g)) isprefix start rest)
  = fst (attempt_prog U p2 (PositiveMap.cardinal (g_states g)) isprefix start rest).
Proof.
  intros U g p1 p2 isprefix start rest H1 H2 Hwf Hw.
  rewrite (attempt_prog_is_ref U g p1 isprefix start rest H1 Hwf Hw).
  symmetry. exact (attempt_prog_is_ref U g p2 isprefix start rest H2 Hwf Hw).
Qed.

(* ... and so do the whole token streams: lexing with the emitted program under the runtime loop of
   Lexer::next equals lexing with the reference semantics, for every input, callback oracle,
   boundary function and mode. *)
Theorem C06_emitted_stream : forall U g p act fb (w : list byte) isprefix,
  prog_ok g p = true -> wf_graph g = true -> bytes_ok w ->
  lex_all (fun ip s r => fst (attempt_prog U p (PositiveMap.cardinal (g_states g)) ip s r)) act fb w isprefix
  = lex_all (attempt_ref g) act fb w isprefix.
Proof. exact emitted_stream. Qed.
