(* Property C06 — tail-call and state-machine code generators behave identically.
   Only final statements; proofs in Engine/OptProofs.v.

   Both generators render the same per-state program (ExecOpt.walk_opt: unrolled self-loop, record,
   one-byte fork as if-chain or table, end-of-input block); they differ only in how a transition
   is rendered.  The theorem: for every unroll factor and either fork rendering, on every
   well-formed graph, that program computes the reference semantics — hence any two renderings
   agree on every input, in ordinary and in partial mode. *)
From Coq Require Import List NArith.
From LogosV Require Import Engine.Model Engine.Cert Engine.ExecOpt Engine.CertProofs Engine.OptProofs.
Local Open Scope N_scope.

Theorem C06_opt_is_ref : forall U g p start (rest : list byte),
  wf_graph g = true -> bytes_ok rest ->
  fst (attempt_opt U g p start rest) = attempt_ref g p start rest.
Proof. exact attempt_opt_ref. Qed.

Theorem C06_generators_agree : forall U1 U2 g p start (rest : list byte),
  wf_graph g = true -> bytes_ok rest ->
  fst (attempt_opt U1 g p start rest) = fst (attempt_opt U2 g p start rest).
Proof.
  intros U1 U2 g p start rest Hwf Hw.
  rewrite (attempt_opt_ref U1 g p start rest Hwf Hw). symmetry. exact (attempt_opt_ref U2 g p start rest Hwf Hw).
Qed.
