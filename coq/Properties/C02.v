(* Property C02 — error items follow the documented span rule and lexing recovers.
   Only final statements; proofs in Engine/StopProofs.v and Engine/LexProofs.v. *)
From Coq Require Import List NArith FMapPositive.
From LogosV Require Import Engine.Model Engine.Cert Engine.CertProofs Engine.SpecProofs Engine.StopProofs Engine.LexProofs Engine.Prog Engine.StreamProg.
Import ListNotations.
Local Open Scope N_scope.

(* When no pattern matches any prefix at position start, the attempt stops at start + v where v is
   the number of bytes before the first byte (end of input counting as one) after which the text read
   can no longer be extended to a match (FirstDead), records nothing, and next() yields one Err whose
   span is start .. fb (max (start+v) (start+1)); the following call of next() starts there. *)
Theorem C02_error_span : forall d g V R D,
  dfa_ok d = true -> sim_ok d g V D = true -> exact_ok d g V R D = true ->
  forall (w : list byte) (start : N), bytes_ok w -> start < N.of_nat (length w) ->
  (forall j, (j <= length (skipn (N.to_nat start) w))%nat -> NoMatch d (skipn (N.to_nat start) w) j) ->
  exists v, FirstDead d (d_start d) (skipn (N.to_nat start) w) v /\
    attempt_ref g false start (skipn (N.to_nat start) w) = Acted None (start + N.of_nat v) /\
    forall act fb fuel,
      next_from (attempt_ref g) act fb w false (S fuel) start =
      ([], Yield (Item false None start (fb (nmax (start + N.of_nat v) (start + 1))))
                 (fb (nmax (start + N.of_nat v) (start + 1)))).
Proof. exact C02_error_span_proof. Qed.

(* More generally: every attempt consumes a byte only if the state reached is live or confirms a
   match, and stops at a byte only if the state it would reach is not live (Stops). *)
Theorem C02_stop_exact : forall d g V R D,
  dfa_ok d = true -> sim_ok d g V D = true -> exact_ok d g V R D = true ->
  forall (rest : list byte) (start : N) c off, bytes_ok rest ->
  attempt_ref g false start rest = Acted c off -> Stops d R (d_start d) rest start off.
Proof. exact C02_stop_exact_proof. Qed.

(* the liveness hint used by Stops is exactly the inductive notion *)
Theorem C02_lv_is_live : forall d g V R D,
  dfa_ok d = true -> sim_ok d g V D = true -> exact_ok d g V R D = true ->
  forall q, lv_of R q = true <-> Live d q.
Proof. exact lv_iff_live. Qed.

(* the same for the program the code generator emits (translator K12, checker prog_ok) *)
Theorem C02_emitted_stop_exact : forall U g p,
  prog_ok g p = true -> wf_graph g = true ->
  forall d V R D, dfa_ok d = true -> sim_ok d g V D = true -> exact_ok d g V R D = true ->
  forall (rest : list byte) (start : N) c off, bytes_ok rest ->
  fst (attempt_prog U p (PositiveMap.cardinal (g_states g)) false start rest) = Acted c off ->
  Stops d R (d_start d) rest start off.
Proof. exact emitted_stop_exact. Qed.
