(* Property C14 — Lexer accessors, clone, morph and spanned agree in every call order.
   Only final statements; proofs in Runtime/LexerApiProofs.v.  In the model slice() is
   source[span()] and remainder() is source[span().end..] by definition; that the implementation
   agrees is the correspondence K5 (random histories against run_history). *)
From Coq Require Import List NArith.
From LogosV Require Import Engine.Model Engine.Run Runtime.LexerApi Runtime.LexerApiProofs.
Local Open Scope N_scope.

Theorem C14_step_only_current : forall defs utf8 (w : list byte) wd o j d,
  (snd wd < length (fst wd))%nat -> j <> snd wd -> (j < length (fst wd))%nat ->
  nth j (fst (snd (step defs utf8 w wd o))) d = nth j (fst wd) d.
Proof. exact step_only_current. Qed.
Theorem C14_clone_is_copy : forall defs utf8 (w : list byte) wd d, (snd wd < length (fst wd))%nat ->
  let wd' := snd (step defs utf8 w wd OClone) in
  nth (snd wd') (fst wd') d = nth (snd wd) (fst wd) d /\ length (fst wd') = S (length (fst wd)).
Proof. exact clone_is_copy. Qed.
Theorem C14_morph_preserves : forall l,
  lx_start (do_morph l) = lx_start l /\ lx_end (do_morph l) = lx_end l /\ lx_prefix (do_morph l) = lx_prefix l.
Proof. exact morph_preserves. Qed.
Theorem C14_morph_back : forall l, (lx_def l <= 1)%nat -> do_morph (do_morph l) = l.
Proof. exact morph_back. Qed.
Theorem C14_spanned_eq_next : forall defs utf8 (w : list byte) wd, step defs utf8 w wd OSpanned = step defs utf8 w wd ONext.
Proof. exact spanned_eq_next. Qed.
Theorem C14_bump_in_range : forall utf8 (w : list byte) l k, lx_start l <= lx_end l -> lx_end l <= N.of_nat (length w) ->
  lx_start (do_bump utf8 w l k) <= lx_end (do_bump utf8 w l k) /\ lx_end (do_bump utf8 w l k) <= N.of_nat (length w).
Proof. exact bump_in_range. Qed.
