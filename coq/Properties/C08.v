(* Property C08 — equal-priority overlaps are compile errors, never silent choices.
   Only final statements; proofs in Engine/TieProofs.v. *)
From Coq Require Import List NArith FMapPositive.
From LogosV Require Import Engine.Model Engine.Cert Engine.CertProofs Engine.SpecProofs Engine.TieProofs.
Local Open Scope N_scope.

(* a DFA state's winner is a tie exactly when two different leaves share the greatest priority
   among the leaves matching there *)
Theorem C08_tie_iff_shared : forall d q, NoDup (dmatch d q) ->
  (win d q = WTie <-> SharedMax (prio d) (dmatch d q)).
Proof. exact tie_iff_shared. Qed.

(* accepted (dfa_ok: no tie state) => on no input does the lexer have to choose between
   equal-priority patterns *)
Theorem C08_no_silent_choice : forall d, dfa_ok d = true ->
  forall (rest : list byte) j, ~ SharedMax (prio d) (dmatch d (mstate d (d_start d) rest j)).
Proof. exact no_tie_on_any_input. Qed.

(* a tie state with a validated reachability hint yields a concrete string that is matched by two
   patterns sharing the top priority: the derive's error is never spurious *)
Theorem C08_tie_has_ambiguous_string : forall d H, reach_ok d H = true ->
  forall q e, NoDup (dmatch d q) -> PositiveMap.find q H = Some e -> win d q = WTie ->
  exists rest j, bytes_ok rest /\ (j <= length rest)%nat /\
                 SharedMax (prio d) (dmatch d (mstate d (d_start d) rest j)).
Proof. exact tie_has_ambiguous_string. Qed.
