(* Property C13 — callback results map to lexer output as documented; Skip is transparent.
   Only final statements; proofs in Runtime/CallbacksProofs.v. *)
From Coq Require Import List NArith.
From LogosV Require Import Engine.Model Runtime.Callbacks Runtime.CallbacksProofs Front.Closure.
Import ListNotations.
Local Open Scope N_scope.

(* every CallbackRetVal / SkipRetVal impl and value shape maps to the documented outcome *)
Theorem C13_construct_matches_table : forall v, construct v = documented (shape_of v).
Proof. exact construct_matches_table. Qed.

(* the decision is taken once per winning match, on the match's leaf and span, and determines the item *)
Theorem C13_decision_determines_item : forall attempt act fb (w : list byte) p fuel start l e off,
  attempt p start (skipn (N.to_nat start) w) = Acted (Some (l, e)) off ->
  next_from attempt act fb w p (S fuel) start =
  match act l start e with
  | (AEmit, bump) => ([], Yield (Item true (Some l) start (e + bump)) (e + bump))
  | (ASkip, bump) => let (sk, o) := next_from attempt act fb w p fuel (e + bump) in (RSkip l start (e + bump) :: sk, o)
  | (AErr, bump) | (ADefaultErr, bump) => ([], Yield (Item false (Some l) start (e + bump)) (e + bump))
  end.
Proof. exact next_from_match. Qed.

Theorem C13_skip_transparent : forall attempt act act' fb (w : list byte) p,
  (forall l s e, act l s e = act' l s e) ->
  forall fuel start, next_from attempt act fb w p fuel start = next_from attempt act' fb w p fuel start.
Proof. exact skip_transparent. Qed.

Theorem C13_bump_extends_and_excludes : forall attempt act fb (w : list byte) p fuel start l e off bump,
  attempt p start (skipn (N.to_nat start) w) = Acted (Some (l, e)) off ->
  act l start e = (AEmit, bump) ->
  next_from attempt act fb w p (S fuel) start = ([], Yield (Item true (Some l) start (e + bump)) (e + bump)).
Proof. exact bump_extends_and_excludes. Qed.

(* The callback that runs is the one that was written: of an inline callback `|arg| body` the derive keeps every token
   of the body - the body is the token list after `|arg|`, or that list is one braced block and the body its content.
   Regression lemma for finding F12: as it was, a leading group was taken as the whole body. *)
Theorem C13_inline_body_complete : forall rest, body_of rest = rest \/ rest = [TGroup Brace (body_of rest)].
Proof. exact body_of_complete. Qed.
Theorem C13_old_inline_body_drops_tokens :
  exists rest, is_block rest = false /\ body_old rest <> rest /\ (length (body_old rest) < length rest)%nat.
Proof. exact body_old_drops_tokens. Qed.
