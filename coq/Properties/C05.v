(* Property C05 — the default (unsafe) build never reads outside the source.
   Only final statements; proofs in Runtime/SourceProofs.v and Engine/OptProofs.v.

   What is proved is about indices (the model of Source::read and of the emitted per-state program);
   that `ptr.add(off)` dereferences what the index model says is the part of `unsafe` that a theorem
   about a model cannot exhibit — the real offsets are observed through the read hook (K3) and the
   real read function is compared with the model on a grid (K6). *)
From Coq Require Import List NArith.
From LogosV Require Import Runtime.Source Runtime.SourceProofs Engine.Model Engine.ExecOpt Engine.OptProofs.
Local Open Scope N_scope.

(* Source::read(offset) returns a chunk exactly when offset + size <= len without overflow, and then
   holds the bytes at that offset *)
Theorem C05_read_spec : forall (w : list N) (off sz : N),
  (off + sz <= usize_max /\ off + sz <= N.of_nat (length w) ->
     read w off sz = Some (firstn (N.to_nat sz) (skipn (N.to_nat off) w)) /\
     length (firstn (N.to_nat sz) (skipn (N.to_nat off) w)) = N.to_nat sz) /\
  (usize_max < off + sz \/ N.of_nat (length w) < off + sz -> read w off sz = None).
Proof. exact read_spec. Qed.

(* every read request of an attempt lies at or after the attempt start, and requests are ordered;
   together with C05_read_spec a request touches memory only when it lies inside the source *)
Theorem C05_requests_ordered : forall U g p start (rest : list byte) r tr,
  (1 <= U)%nat -> attempt_opt U g p start rest = (r, tr) ->
  exists hi, start <= hi /\ sorted_in start (offs tr) hi.
Proof.
  intros U g p start rest r tr HU H.
  destruct (walk_opt_log U g p start HU _ _ _ _ _ _ _ _ H) as [hi [A [B _]]]. exists hi. split; assumption.
Qed.
