(* Regex/Re.v — mirror of regex_syntax::hir::HirKind, the match relation (look-arounds
   over-approximated as the empty string), and Logos' default priority (pattern.rs:80-102) and
   greedy-dot test (pattern.rs:104-126).  No proofs in this file. *)
From Coq Require Import List NArith Bool.
Import ListNotations.
Local Open Scope N_scope.

Inductive re :=
| REmpty
| RLit (bs : list N)                         (* literal bytes *)
| RClassB (rs : list (N * N))                (* byte class *)
| RClassU (rs : list (N * N))                (* Unicode class: ranges of code points *)
| RLook                                      (* any look-around assertion *)
| RRep (mn : N) (mx : option N) (greedy : bool) (r : re)
| RCap (r : re)
| RCat (rs : list re)
| RAlt (rs : list re).

Definition in_rs (x : N) (rs : list (N * N)) : bool := existsb (fun r => (fst r <=? x) && (x <=? snd r)) rs.

(* UTF-8 decoding of exactly one scalar value (total; None when w is not one encoded scalar) *)
Definition cont (b : N) : bool := (128 <=? b) && (b <? 192).
Definition decode1 (w : list N) : option N :=
  match w with
  | [a] => if a <? 128 then Some a else None
  | [a; b] => if (194 <=? a) && (a <? 224) && cont b then Some ((a - 192) * 64 + (b - 128)) else None
  | [a; b; c] => if (224 <=? a) && (a <? 240) && cont b && cont c
                 then Some ((a - 224) * 4096 + (b - 128) * 64 + (c - 128)) else None
  | [a; b; c; e] => if (240 <=? a) && (a <? 245) && cont b && cont c && cont e
                    then Some ((a - 240) * 262144 + (b - 128) * 4096 + (c - 128) * 64 + (e - 128)) else None
  | _ => None
  end.

Inductive Matches : re -> list N -> Prop :=
| M_empty : Matches REmpty []
| M_lit bs : Matches (RLit bs) bs
| M_classb rs b : in_rs b rs = true -> Matches (RClassB rs) [b]
| M_classu rs w cp : decode1 w = Some cp -> in_rs cp rs = true -> Matches (RClassU rs) w
| M_look : Matches RLook []
| M_rep mn mx g r ws :
    mn <= N.of_nat (length ws) ->
    (match mx with Some m => N.of_nat (length ws) <= m | None => True end) ->
    Forall (Matches r) ws -> Matches (RRep mn mx g r) (concat ws)
| M_cap r w : Matches r w -> Matches (RCap r) w
| M_cat rs ws : Forall2 Matches rs ws -> Matches (RCat rs) (concat ws)
| M_alt rs r w : In r rs -> Matches r w -> Matches (RAlt rs) w.

(* ---------- default priority ---------- *)
(* s.chars().count() of a valid UTF-8 string = number of non-continuation bytes *)
Fixpoint nchars (bs : list N) : N :=
  match bs with [] => 0 | b :: r => (if cont b then 0 else 1) + nchars r end.

(* std::str::from_utf8(bs).is_ok(): the UTF-8 validity automaton, inlined here as a parameter-free
   function so that Re.v stays self-contained *)
From LogosV Require Import Base.Utf8.
Definition lit_complexity (bs : list N) : N :=
  if utf8_valid bs then 2 * nchars bs else 2 * N.of_nat (length bs).

Fixpoint list_min (l : list N) : option N :=
  match l with
  | [] => None
  | x :: r => match list_min r with None => Some x | Some m => Some (N.min x m) end
  end.

Fixpoint complexity (r : re) : N :=
  match r with
  | REmpty => 0
  | RLit bs => lit_complexity bs
  | RClassB _ | RClassU _ => 2
  | RLook => 0
  | RRep mn _ _ s => mn * complexity s
  | RCap s => complexity s
  | RCat rs => fold_right (fun x acc => complexity x + acc) 0 rs
  | RAlt rs => match list_min (map complexity rs) with Some m => m | None => 0 end
  end.

(* Pattern::complexity as the code computes it, in usize: the product and the sum saturate (finding F11:
   they used to overflow - a panic in builds with overflow checks, a wrapped priority otherwise) *)
Definition usize_max : N := 18446744073709551615.
Definition sat (x : N) : N := N.min x usize_max.
Fixpoint complexity_sat (r : re) : N :=
  match r with
  | REmpty => 0
  | RLit bs => lit_complexity bs
  | RClassB _ | RClassU _ => 2
  | RLook => 0
  | RRep mn _ _ s => sat (mn * complexity_sat s)
  | RCap s => complexity_sat s
  | RCat rs => fold_left (fun acc x => sat (acc + complexity_sat x)) rs 0
  | RAlt rs => match list_min (map complexity_sat rs) with Some m => m | None => 0 end
  end.
(* the code as it was: wrapping arithmetic (release); [None] = the overflow panic of a debug build *)
Fixpoint complexity_checked (r : re) : option N :=
  match r with
  | REmpty => Some 0
  | RLit bs => Some (lit_complexity bs)
  | RClassB _ | RClassU _ => Some 2
  | RLook => Some 0
  | RRep mn _ _ s => match complexity_checked s with
                     | Some c => if mn * c <=? usize_max then Some (mn * c) else None
                     | None => None end
  | RCap s => complexity_checked s
  | RCat rs => fold_left (fun acc x => match acc, complexity_checked x with
                                       | Some a, Some c => if a + c <=? usize_max then Some (a + c) else None
                                       | _, _ => None end) rs (Some 0)
  | RAlt rs => match fold_right (fun x acc => match complexity_checked x, acc with
                                             | Some c, Some l => Some (c :: l)
                                             | _, _ => None end) (Some []) rs with
               | Some l => Some (match list_min l with Some m => m | None => 0 end)
               | None => None
               end
  end.
(* every literal is shorter than 2^63 bytes (2 x its length fits) *)
Fixpoint lits_small (r : re) : bool :=
  match r with
  | RLit bs => lit_complexity bs <=? usize_max
  | RRep _ _ _ s | RCap s => lits_small s
  | RCat rs | RAlt rs => forallb lits_small rs
  | _ => true
  end.

(* #[token] default priority: 2 x byte length *)
Definition token_priority (bs : list N) : N := 2 * N.of_nat (length bs).

