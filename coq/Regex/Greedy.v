(* Regex/Greedy.v — the unbounded-greedy-dot test (pattern.rs:104-126) on the HIR mirror.
   [greedy_old] is the function as it was (it does not look below a repetition that is not itself a
   greedy dot repetition); [greedy_nocap] the code after the repair of finding F8 only (a dot inside a
   capture group is not recognised); [greedy] the code after the repairs of F8 and F9. *)
From Coq Require Import List NArith Bool.
From LogosV Require Import Regex.Re.
Import ListNotations.
Local Open Scope N_scope.

(* the six Hir::dot(..) values of DOT_HIRS *)
Definition dots : list re :=
  [RClassU [(0, 1114111)];                                   (* AnyChar *)
   RClassB [(0, 255)];                                       (* AnyByte *)
   RClassB [(0, 9); (11, 255)];                              (* AnyByteExceptLF *)
   RClassU [(0, 9); (11, 1114111)];                          (* AnyCharExceptLF *)
   RClassB [(0, 9); (11, 12); (14, 255)];                    (* AnyByteExceptCRLF *)
   RClassU [(0, 9); (11, 12); (14, 1114111)]].               (* AnyCharExceptCRLF *)

Fixpoint ranges_eqb (a b : list (N * N)) : bool :=
  match a, b with
  | [], [] => true
  | (x1, y1) :: a', (x2, y2) :: b' => (x1 =? x2) && (y1 =? y2) && ranges_eqb a' b'
  | _, _ => false
  end.
Definition re_is (r d : re) : bool :=
  match r, d with
  | RClassU a, RClassU b => ranges_eqb a b
  | RClassB a, RClassB b => ranges_eqb a b
  | _, _ => false
  end.
Definition is_dot (r : re) : bool := existsb (re_is r) dots.

Definition rep_is_greedy_dot (mx : option N) (g : bool) (sub : re) : bool :=
  is_dot sub && (match mx with None => true | Some _ => false end) && g.

(* a dot wrapped in capture groups is still a dot: (.)* *)
Fixpoint strip_caps (r : re) : re := match r with RCap s => strip_caps s | _ => r end.

Fixpoint greedy_old (r : re) : bool :=
  match r with
  | RRep _ mx g sub => rep_is_greedy_dot mx g sub
  | RCap s => greedy_old s
  | RCat rs => existsb greedy_old rs
  | RAlt rs => existsb greedy_old rs
  | _ => false
  end.

(* after the repair of F8 only: the dot must be the direct operand of the repetition *)
Fixpoint greedy_nocap (r : re) : bool :=
  match r with
  | RRep _ mx g sub => rep_is_greedy_dot mx g sub || greedy_nocap sub
  | RCap s => greedy_nocap s
  | RCat rs => existsb greedy_nocap rs
  | RAlt rs => existsb greedy_nocap rs
  | _ => false
  end.

Fixpoint greedy (r : re) : bool :=
  match r with
  | RRep _ mx g sub => rep_is_greedy_dot mx g (strip_caps sub) || greedy sub
  | RCap s => greedy s
  | RCat rs => existsb greedy rs
  | RAlt rs => existsb greedy rs
  | _ => false
  end.

(* specification: some sub-expression, at any depth, is an unbounded greedy repetition of a dot *)
Inductive HasGreedyDot : re -> Prop :=
| G_here mn sub : is_dot (strip_caps sub) = true -> HasGreedyDot (RRep mn None true sub)
| G_rep mn mx g sub : HasGreedyDot sub -> HasGreedyDot (RRep mn mx g sub)
| G_cap s : HasGreedyDot s -> HasGreedyDot (RCap s)
| G_cat rs r : In r rs -> HasGreedyDot r -> HasGreedyDot (RCat rs)
| G_alt rs r : In r rs -> HasGreedyDot r -> HasGreedyDot (RAlt rs).
