(* Regex/ReProofs.v — a match of r has at least complexity(r)/2 bytes; hence a literal token is
   never beaten on its own text by a regex with default priority (C09). *)
From Coq Require Import List NArith Bool Lia.
From LogosV Require Import Base.Utf8 Regex.Re.
Import ListNotations.
Local Open Scope N_scope.

Lemma nchars_le bs : nchars bs <= N.of_nat (length bs).
Proof. induction bs as [|b r IH]; cbn [nchars length]; [lia|]. destruct (cont b); lia. Qed.

Lemma lit_complexity_le bs : lit_complexity bs <= 2 * N.of_nat (length bs).
Proof. unfold lit_complexity. pose proof (nchars_le bs). destruct (utf8_valid bs); lia. Qed.

Lemma decode1_len w cp : decode1 w = Some cp -> 1 <= N.of_nat (length w).
Proof. destruct w as [|a w]; cbn; [discriminate|lia]. Qed.

Lemma list_min_le l m x : list_min l = Some m -> In x l -> m <= x.
Proof.
  revert m. induction l as [|y r IH]; intros m H Hin; [destruct Hin|].
  cbn [list_min] in H. destruct (list_min r) as [m'|] eqn:E.
  - injection H as <-. destruct Hin as [->|Hin]; [lia|]. specialize (IH m' eq_refl Hin). lia.
  - injection H as <-. destruct Hin as [->|Hin]; [lia|]. destruct r; [destruct Hin|cbn in E; destruct (list_min r); discriminate].
Qed.

Lemma length_concat_N (ws : list (list N)) :
  N.of_nat (length (concat ws)) = fold_right (fun w acc => N.of_nat (length w) + acc) 0 ws.
Proof. induction ws as [|w ws IH]; cbn [concat fold_right]; [reflexivity|]. rewrite app_length. lia. Qed.

Theorem complexity_le_len : forall r w, Matches r w -> complexity r <= 2 * N.of_nat (length w).
Proof.
  fix IH 3. intros r w H. destruct H as [|bs|rs b Hb|rs w cp Hd Hin| |mn mx g r ws Hmn Hmx HF|r w Hm|rs ws HF|rs r w Hin Hm]; cbn [complexity].
  - cbn. lia.
  - apply lit_complexity_le.
  - cbn. lia.
  - pose proof (decode1_len w cp Hd). lia.
  - cbn. lia.
  - (* repetition: at least mn copies, each of size >= complexity r / 2 *)
    rewrite length_concat_N.
    assert (Hall : N.of_nat (length ws) * complexity r <= 2 * fold_right (fun w acc => N.of_nat (length w) + acc) 0 ws).
    { clear Hmn Hmx. induction HF as [|w ws Hw HF' IHF]; cbn [length fold_right]; [lia|].
      pose proof (IH r w Hw). lia. }
    nia.
  - exact (IH r w Hm).
  - rewrite length_concat_N. induction HF as [|r w rs ws Hrw HF' IHF]; cbn [fold_right]; [lia|].
    pose proof (IH r w Hrw). lia.
  - pose proof (IH r w Hm) as Hle.
    destruct (list_min (map complexity rs)) as [m|] eqn:E; [|lia].
    pose proof (list_min_le _ m (complexity r) E (in_map complexity rs r Hin)). lia.
Qed.

(* a regex that matches the text of a literal token has default priority <= the token's *)
Theorem literal_never_beaten : forall r bs, Matches r bs -> complexity r <= token_priority bs.
Proof. intros r bs H. unfold token_priority. exact (complexity_le_len r bs H). Qed.

(* the structural equations of the documented rule *)
Lemma complexity_cat a b : complexity (RCat [a; b]) = complexity a + complexity b.
Proof. cbn. lia. Qed.
Lemma complexity_alt a b : complexity (RAlt [a; b]) = N.min (complexity a) (complexity b).
Proof. reflexivity. Qed.
Lemma complexity_rep mn mx g r : complexity (RRep mn mx g r) = mn * complexity r.
Proof. reflexivity. Qed.
Lemma complexity_look : complexity RLook = 0.
Proof. reflexivity. Qed.
