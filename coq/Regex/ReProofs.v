(* Regex/ReProofs.v — a match of r has at least complexity(r)/2 bytes; hence a literal token is
   never beaten on its own text by a regex with default priority (C09). *)
From Coq Require Import List NArith Bool Lia.
From LogosV Require Import Base.Utf8 Regex.Re.
Import ListNotations.
Local Open Scope N_scope.

Lemma nchars_le bs : nchars bs <= N.of_nat (length bs).
Proof. induction bs as [|b r IH]; cbn [nchars length]; [lia|]. destruct (cont b); lia. Qed.

Lemma lit_complexity_le bs : lit_complexity bs <= 2 * N.of_nat (length bs).
Proof. unfold lit_complexity. pose proof (nchars_le bs). destruct (utf8_valid bs); lia. Qed.

Lemma decode1_len w cp : decode1 w = Some cp -> 1 <= N.of_nat (length w).
Proof. destruct w as [|a w]; cbn; [discriminate|lia]. Qed.

Lemma list_min_le l m x : list_min l = Some m -> In x l -> m <= x.
Proof.
  revert m. induction l as [|y r IH]; intros m H Hin; [destruct Hin|].
  cbn [list_min] in H. destruct (list_min r) as [m'|] eqn:E.
  - injection H as <-. destruct Hin as [->|Hin]; [lia|]. specialize (IH m' eq_refl Hin). lia.
  - injection H as <-. destruct Hin as [->|Hin]; [lia|]. destruct r; [destruct Hin|cbn in E; destruct (list_min r); discriminate].
Qed.

Lemma length_concat_N (ws : list (list N)) :
  N.of_nat (length (concat ws)) = fold_right (fun w acc => N.of_nat (length w) + acc) 0 ws.
Proof. induction ws as [|w ws IH]; cbn [concat fold_right]; [reflexivity|]. rewrite app_length. lia. Qed.

Theorem complexity_le_len : forall r w, Matches r w -> complexity r <= 2 * N.of_nat (length w).
Proof.
  fix IH 3. intros r w H. destruct H as [|bs|rs b Hb|rs w cp Hd Hin| |mn mx g r ws Hmn Hmx HF|r w Hm|rs ws HF|rs r w Hin Hm]; cbn [complexity].
  - cbn. lia.
  - apply lit_complexity_le.
  - cbn. lia.
  - pose proof (decode1_len w cp Hd). lia.
  - cbn. lia.
  - (* repetition: at least mn copies, each of size >= complexity r / 2 *)
    rewrite length_concat_N.
    assert (Hall : N.of_nat (length ws) * complexity r <= 2 * fold_right (fun w acc => N.of_nat (length w) + acc) 0 ws).
    { clear Hmn Hmx. induction HF as [|w ws Hw HF' IHF]; cbn [length fold_right]; [lia|].
      pose proof (IH r w Hw). lia. }
    nia.
  - exact (IH r w Hm).
  - rewrite length_concat_N. induction HF as [|r w rs ws Hrw HF' IHF]; cbn [fold_right]; [lia|].
    pose proof (IH r w Hrw). lia.
  - pose proof (IH r w Hm) as Hle.
    destruct (list_min (map complexity rs)) as [m|] eqn:E; [|lia].
    pose proof (list_min_le _ m (complexity r) E (in_map complexity rs r Hin)). lia.
Qed.

(* a regex that matches the text of a literal token has default priority <= the token's *)
Theorem literal_never_beaten : forall r bs, Matches r bs -> complexity r <= token_priority bs.
Proof. intros r bs H. unfold token_priority. exact (complexity_le_len r bs H). Qed.

(* the structural equations of the documented rule *)
Lemma complexity_cat a b : complexity (RCat [a; b]) = complexity a + complexity b.
Proof. cbn. lia. Qed.
Lemma complexity_alt a b : complexity (RAlt [a; b]) = N.min (complexity a) (complexity b).
Proof. reflexivity. Qed.
Lemma complexity_rep mn mx g r : complexity (RRep mn mx g r) = mn * complexity r.
Proof. reflexivity. Qed.
Lemma complexity_look : complexity RLook = 0.
Proof. reflexivity. Qed.

(* ---------- the saturating arithmetic of Pattern::complexity (finding F11) ---------- *)
Lemma sat_le x : sat x <= usize_max.
Proof. unfold sat. lia. Qed.
Lemma sat_small x : x <= usize_max -> sat x = x.
Proof. unfold sat. lia. Qed.
Lemma sat_add_sat a b : sat (sat a + sat b) = sat (a + b).
Proof. unfold sat. lia. Qed.
Lemma sat_add_sat_l a b : sat (sat a + b) = sat (a + b).
Proof. unfold sat. lia. Qed.
Lemma sat_mul_sat m c : sat (m * sat c) = sat (m * c).
Proof.
  unfold sat. destruct (N.le_gt_cases c usize_max) as [H|H].
  - rewrite (N.min_l c usize_max H). reflexivity.
  - rewrite (N.min_r c usize_max) by lia.
    destruct (N.eq_dec m 0) as [->|Hm]; [reflexivity|].
    rewrite (N.min_r (m * usize_max)) by nia. rewrite (N.min_r (m * c)) by nia. reflexivity.
Qed.
Lemma sat_min a b : N.min (sat a) (sat b) = sat (N.min a b).
Proof. unfold sat. lia. Qed.

Lemma list_min_map_sat (l : list N) : list_min (map sat l) = option_map sat (list_min l).
Proof.
  induction l as [|x r IH]; [reflexivity|]. cbn [map list_min]. rewrite IH.
  destruct (list_min r) as [m|]; cbn [option_map]; [rewrite sat_min|]; reflexivity.
Qed.

(* the code's value is the documented value, cut off at usize::MAX *)
Theorem complexity_sat_spec : forall r, lits_small r = true -> complexity_sat r = sat (complexity r).
Proof.
  fix IH 1. intros r H. destruct r as [|bs|rs|rs| |mn mx g s|s|rs|rs]; cbn [complexity_sat complexity lits_small] in *.
  - reflexivity.
  - symmetry. apply sat_small. apply N.leb_le. exact H.
  - reflexivity.
  - reflexivity.
  - reflexivity.
  - rewrite (IH s H). apply sat_mul_sat.
  - exact (IH s H).
  - (* concatenation: left fold with saturation = saturated sum *)
    assert (G : forall a, fold_left (fun acc x => sat (acc + complexity_sat x)) rs (sat a)
                          = sat (a + fold_right (fun x acc => complexity x + acc) 0 rs)).
    { induction rs as [|x rs IHrs]; intros a; cbn [fold_left fold_right].
      - f_equal. lia.
      - cbn [forallb] in H. apply andb_prop in H as [Hx Hrs].
        rewrite (IH x Hx). rewrite sat_add_sat. rewrite (IHrs Hrs). f_equal. lia. }
    exact (G 0).
  - (* alternation *)
    assert (G : map complexity_sat rs = map sat (map complexity rs)).
    { induction rs as [|x rs IHrs]; [reflexivity|]. cbn [forallb] in H. apply andb_prop in H as [Hx Hrs].
      cbn [map]. rewrite (IH x Hx), (IHrs Hrs). reflexivity. }
    rewrite G, list_min_map_sat. destruct (list_min (map complexity rs)); reflexivity.
Qed.

Corollary complexity_sat_fits r : lits_small r = true -> complexity_sat r <= usize_max.
Proof. intros H. rewrite (complexity_sat_spec r H). apply sat_le. Qed.

(* below the cut-off the two agree: every pattern whose default priority matters *)
Corollary complexity_sat_exact r : lits_small r = true -> complexity r <= usize_max -> complexity_sat r = complexity r.
Proof. intros H Hle. rewrite (complexity_sat_spec r H). apply sat_small. exact Hle. Qed.

(* regression: the arithmetic as it was overflows on a doubly counted repetition, (a{4294967295}){4294967295} *)
Definition f11_witness : re := RRep 4294967295 (Some 4294967295) true (RCap (RRep 4294967295 (Some 4294967295) true (RLit [97]))).
Lemma old_complexity_overflows : complexity_checked f11_witness = None /\ complexity_sat f11_witness = usize_max.
Proof. split; vm_compute; reflexivity. Qed.
