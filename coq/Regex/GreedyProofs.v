From Coq Require Import List NArith Bool Lia.
From LogosV Require Import Regex.Re Regex.Greedy.
Import ListNotations.
Local Open Scope N_scope.

Theorem greedy_complete : forall r, HasGreedyDot r -> greedy r = true.
Proof.
  fix IH 2. intros r H. destruct H as [mn sub Hd|mn mx g sub Hs|s Hs|rs r Hin Hr|rs r Hin Hr]; cbn [greedy].
  - unfold rep_is_greedy_dot. rewrite Hd. reflexivity.
  - rewrite (IH sub Hs). apply orb_true_r.
  - exact (IH s Hs).
  - apply existsb_exists. exists r. split; [exact Hin|exact (IH r Hr)].
  - apply existsb_exists. exists r. split; [exact Hin|exact (IH r Hr)].
Qed.

Fixpoint re_size (r : re) : nat :=
  match r with
  | RRep _ _ _ s => S (re_size s)
  | RCap s => S (re_size s)
  | RCat rs => S (fold_right (fun x acc => re_size x + acc)%nat 0%nat rs)
  | RAlt rs => S (fold_right (fun x acc => re_size x + acc)%nat 0%nat rs)
  | _ => 1%nat
  end.

Lemma in_size_lt (x : re) (rs : list re) : In x rs -> (re_size x <= fold_right (fun x acc => re_size x + acc)%nat 0%nat rs)%nat.
Proof. induction rs as [|y rs IH]; intros H; [destruct H|]. cbn [fold_right]. destruct H as [->|H]; [lia|]. specialize (IH H). lia. Qed.

Theorem greedy_sound : forall r, greedy r = true -> HasGreedyDot r.
Proof.
  assert (H : forall n r, (re_size r <= n)%nat -> greedy r = true -> HasGreedyDot r).
  { induction n as [|n IH]; intros r Hs H; [destruct r; cbn in Hs; lia|].
    destruct r as [|bs|rs|rs| |mn mx g sub|s|rs|rs]; cbn [greedy] in H; try discriminate; cbn [re_size] in Hs.
    - apply orb_prop in H as [H|H].
      + unfold rep_is_greedy_dot in H. apply andb_prop in H as [H Hg]. apply andb_prop in H as [Hd Hm].
        destruct mx; [discriminate|]. destruct g; [|discriminate]. apply G_here. exact Hd.
      + apply G_rep. apply IH; [lia|exact H].
    - apply G_cap. apply IH; [lia|exact H].
    - apply existsb_exists in H as [x [Hin Hx]]. apply (G_cat rs x Hin). apply IH; [pose proof (in_size_lt x rs Hin); lia|exact Hx].
    - apply existsb_exists in H as [x [Hin Hx]]. apply (G_alt rs x Hin). apply IH; [pose proof (in_size_lt x rs Hin); lia|exact Hx]. }
  intros r. exact (H (re_size r) r (le_n _)).
Qed.

(* the function as it was misses a greedy dot below another repetition (finding F8): a dot-star nested under a plus *)
Theorem greedy_old_refuted : exists r, HasGreedyDot r /\ greedy_old r = false.
Proof.
  exists (RRep 1 None true (RCap (RCat [RLit [97]; RRep 0 None true (RClassU [(0, 9); (11, 1114111)])]))).
  split.
  - apply G_rep. apply G_cap. eapply G_cat; [right; left; reflexivity|]. apply G_here. reflexivity.
  - reflexivity.
Qed.

(* after F8 only, a dot inside a capture group escapes (finding F9): (.) repeated by a star *)
Theorem greedy_nocap_refuted : exists r, HasGreedyDot r /\ greedy_nocap r = false.
Proof.
  exists (RRep 0 None true (RCap (RClassU [(0, 9); (11, 1114111)]))).
  split.
  - apply G_here. reflexivity.
  - reflexivity.
Qed.
