(* Cli/Cli.v — model of logos-cli's main() (logos-cli/src/main.rs:31-77) over a file system seen as a
   partial map from paths to contents.  `output` is what codegen produced for the input. *)
From Coq Require Import List NArith Bool.
Import ListNotations.
Local Open Scope N_scope.

Definition text := list N.
Definition fs := N -> option text.                       (* path id |-> content *)
Definition fs_set (f : fs) (p : N) (t : text) : fs := fun q => if q =? p then Some t else f q.

(* str::lines(): split at \n, strip one trailing \r per line, no final empty line *)
Fixpoint lines_aux (cur : text) (s : text) : list text :=
  match s with
  | [] => match cur with [] => [] | _ => [rev cur] end
  | 10 :: r => rev (match cur with 13 :: c => c | _ => cur end) :: lines_aux [] r
  | c :: r => lines_aux (c :: cur) r
  end.
Definition lines (s : text) : list text := lines_aux [] s.

Fixpoint text_eqb (a b : text) : bool :=
  match a, b with [], [] => true | x :: a', y :: b' => (x =? y) && text_eqb a' b' | _, _ => false end.
Fixpoint lines_eqb (a b : list text) : bool :=
  match a, b with [], [] => true | x :: a', y :: b' => text_eqb x y && lines_eqb a' b' | _, _ => false end.
Definition eq_ignore_newlines (a b : text) : bool := lines_eqb (lines a) (lines b).

Inductive outcome := Ok | Err.

(* args: output path (None = stdout), --check *)
Definition run (output : text) (out_path : option N) (check : bool) (f : fs) : outcome * option text (* stdout *) * fs :=
  match out_path with
  | None => (Ok, Some output, f)
  | Some p =>
      let changed := match f p with Some existing => negb (eq_ignore_newlines existing output) | None => true end in
      if negb changed then (Ok, None, f)
      else if check then (Err, None, f)
      else (Ok, None, fs_set f p output)
  end.
