From Coq Require Import List NArith Bool Lia.
From LogosV Require Import Cli.Cli.
Import ListNotations.
Local Open Scope N_scope.

Lemma text_eqb_refl a : text_eqb a a = true.
Proof. induction a; cbn; [reflexivity|]. rewrite N.eqb_refl. exact IHa. Qed.
Lemma lines_eqb_refl a : lines_eqb a a = true.
Proof. induction a; cbn; [reflexivity|]. rewrite text_eqb_refl. exact IHa. Qed.
Lemma text_eqb_eq a : forall b, text_eqb a b = true -> a = b.
Proof.
  induction a as [|x a IH]; intros [|y b] H; cbn in H; try discriminate; [reflexivity|].
  apply andb_prop in H as [H1 H2]. apply N.eqb_eq in H1. subst. f_equal. exact (IH b H2).
Qed.
Lemma lines_eqb_eq a : forall b, lines_eqb a b = true -> a = b.
Proof.
  induction a as [|x a IH]; intros [|y b] H; cbn in H; try discriminate; [reflexivity|].
  apply andb_prop in H as [H1 H2]. apply text_eqb_eq in H1. subst. f_equal. exact (IH b H2).
Qed.

(* --check never modifies the file system, whatever the outcome *)
Theorem check_never_writes output p f : forall o so f', run output (Some p) true f = (o, so, f') -> f' = f.
Proof.
  intros o so f' H. unfold run in H.
  destruct (f p) as [ex|]; cbn in H.
  - destruct (eq_ignore_newlines ex output); cbn in H; injection H as _ _ <-; reflexivity.
  - injection H as _ _ <-. reflexivity.
Qed.

(* --check succeeds iff the file exists and holds the output up to line endings *)
Theorem check_ok_iff output p f :
  fst (fst (run output (Some p) true f)) = Ok <->
  exists ex, f p = Some ex /\ lines ex = lines output.
Proof.
  unfold run. destruct (f p) as [ex|]; cbn.
  - unfold eq_ignore_newlines. destruct (lines_eqb (lines ex) (lines output)) eqn:E; cbn.
    + split; [intros _; exists ex; split; [reflexivity|apply lines_eqb_eq; exact E]|reflexivity].
    + split; [discriminate|]. intros [ex' [H1 H2]]. injection H1 as <-. rewrite H2, lines_eqb_refl in E. discriminate.
  - split; [discriminate|]. intros [ex [H _]]. discriminate.
Qed.

Lemma run_unchanged output p chk f ex :
  f p = Some ex -> eq_ignore_newlines ex output = true -> run output (Some p) chk f = (Ok, None, f).
Proof. intros H E. unfold run. rewrite H, E. reflexivity. Qed.

Lemma eq_ignore_newlines_refl a : eq_ignore_newlines a a = true.
Proof. apply lines_eqb_refl. Qed.

(* after a write, --check succeeds and a second write changes nothing *)
Theorem write_then_check_ok output p f :
  let f' := snd (run output (Some p) false f) in
  fst (fst (run output (Some p) true f')) = Ok /\ snd (run output (Some p) false f') = f'.
Proof.
  cbn zeta.
  assert (H : exists ex, snd (run output (Some p) false f) p = Some ex /\ eq_ignore_newlines ex output = true).
  { unfold run. destruct (f p) as [ex|] eqn:Ep.
    - destruct (eq_ignore_newlines ex output) eqn:E; cbn [negb snd].
      + exists ex. split; [exact Ep|exact E].
      + exists output. split; [unfold fs_set; rewrite N.eqb_refl; reflexivity|apply eq_ignore_newlines_refl].
    - cbn [negb snd]. exists output. split; [unfold fs_set; rewrite N.eqb_refl; reflexivity|apply eq_ignore_newlines_refl]. }
  destruct H as [ex [H1 H2]].
  rewrite (run_unchanged output p true _ ex H1 H2), (run_unchanged output p false _ ex H1 H2). split; reflexivity.
Qed.

(* without --output nothing is written and the output goes to stdout *)
Theorem stdout_mode output check f : run output None check f = (Ok, Some output, f).
Proof. reflexivity. Qed.
