#!/bin/bash
# usage: goal.sh File.v LINE  — print the goal after LINE lines of File.v
f=$1; n=$2
head -n $n $f > /tmp/x/goal_tmp.v
echo "Show." >> /tmp/x/goal_tmp.v
cd /verif/coq && coqtop -Q . LogosV -batch -l /tmp/x/goal_tmp.v 2>&1 | tail -${3:-40}
