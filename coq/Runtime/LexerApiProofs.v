From Coq Require Import List Arith NArith Bool Lia.
From LogosV Require Import Engine.Model Engine.Run Runtime.LexerApi.
Import ListNotations.
Local Open Scope N_scope.

Lemma nth_set_nth_same {A} (l : list A) i x d : (i < length l)%nat -> nth i (set_nth l i x) d = x.
Proof. revert i. induction l as [|a l IH]; intros [|i] H; cbn in *; try lia; [reflexivity|apply IH; lia]. Qed.
Lemma nth_set_nth_other {A} (l : list A) i j x d : i <> j -> nth j (set_nth l i x) d = nth j l d.
Proof. revert i j. induction l as [|a l IH]; intros [|i] [|j] H; cbn; try reflexivity; try congruence. apply IH. congruence. Qed.
Lemma set_nth_length {A} (l : list A) i x : length (set_nth l i x) = length l.
Proof. revert i. induction l as [|a l IH]; intros [|i]; cbn; auto. Qed.

Section P.
  Variable defs : list (graph * list N).
  Variable utf8 : bool.
  Variable w : list byte.

  (* an operation never touches a lexer other than the current one (a clone is independent of its
     original and vice versa), and never removes one *)
  Theorem step_only_current wd o j d : (snd wd < length (fst wd))%nat -> j <> snd wd -> (j < length (fst wd))%nat ->
    nth j (fst (snd (step defs utf8 w wd o))) d = nth j (fst wd) d.
  Proof.
    intros Hc Hj Hlen. destruct wd as [pool c]. cbn [fst snd] in *. destruct o; cbn [step fst snd].
    - destruct (do_next _ _ _ _) as [obs l']. cbn [fst snd]. apply nth_set_nth_other. congruence.
    - destruct (do_next _ _ _ _) as [obs l']. cbn [fst snd]. apply nth_set_nth_other. congruence.
    - apply nth_set_nth_other. congruence.
    - apply app_nth1. exact Hlen.
    - reflexivity.
    - apply nth_set_nth_other. congruence.
  Qed.

  (* clone: the new lexer is an exact copy (position, partial mode, token type) and becomes current *)
  Theorem clone_is_copy wd d : (snd wd < length (fst wd))%nat ->
    let wd' := snd (step defs utf8 w wd OClone) in
    nth (snd wd') (fst wd') d = nth (snd wd) (fst wd) d /\ length (fst wd') = S (length (fst wd)).
  Proof.
    intros Hc. destruct wd as [pool c]. cbn [step fst snd]. split.
    - rewrite app_nth2 by lia. rewrite Nat.sub_diag. cbn. unfold cur. cbn [fst snd].
      apply nth_indep. exact Hc.
    - rewrite app_length. cbn. lia.
  Qed.

  (* morph keeps the position and the partial-mode flag; morphing there and back is the identity *)
  Theorem morph_preserves l :
    lx_start (do_morph l) = lx_start l /\ lx_end (do_morph l) = lx_end l /\ lx_prefix (do_morph l) = lx_prefix l.
  Proof. repeat split. Qed.
  Theorem morph_back l : (lx_def l <= 1)%nat -> do_morph (do_morph l) = l.
  Proof. destruct l as [s e p [|[|n]]]; cbn; intros H; try reflexivity. lia. Qed.

  (* spanned() yields exactly what manual iteration yields *)
  Theorem spanned_eq_next wd : step defs utf8 w wd OSpanned = step defs utf8 w wd ONext.
  Proof. reflexivity. Qed.

  (* an in-range bump keeps start <= end <= len *)
  Theorem bump_in_range l k : lx_start l <= lx_end l -> lx_end l <= N.of_nat (length w) ->
    lx_start (do_bump utf8 w l k) <= lx_end (do_bump utf8 w l k) /\ lx_end (do_bump utf8 w l k) <= N.of_nat (length w).
  Proof.
    intros H1 H2. unfold do_bump, boundary_at.
    destruct (N.ltb_spec (N.of_nat (length w)) (lx_end l + k)); cbn; [lia|].
    destruct utf8.
    - destruct (nth_error w (N.to_nat (lx_end l + k))) as [b|]; [destruct (negb (is_cont_b b))|]; cbn; lia.
    - cbn. lia.
  Qed.
End P.
