From Coq Require Import List NArith Bool.
From LogosV Require Import Engine.Model Runtime.Callbacks.
Import ListNotations.
Local Open Scope N_scope.

Theorem construct_matches_table : forall v, construct v = documented (shape_of v).
Proof. destruct v; reflexivity. Qed.

(* How the lexing loop uses the decision (generator/leaf.rs:60-93): the oracle is applied exactly
   once per attempt that recorded a match, to the leaf and the span of that match. *)
Section Glue.
  Variable attempt : bool -> N -> list byte -> stop.
  Variable act : leaf -> N -> N -> action * N.
  Variable fb : N -> N.
  Variable w : list byte.
  Variable p : bool.

  Lemma next_from_match fuel start l e off :
    attempt p start (skipn (N.to_nat start) w) = Acted (Some (l, e)) off ->
    next_from attempt act fb w p (S fuel) start =
    match act l start e with
    | (AEmit, bump) => ([], Yield (Item true (Some l) start (e + bump)) (e + bump))
    | (ASkip, bump) => let (sk, o) := next_from attempt act fb w p fuel (e + bump) in (RSkip l start (e + bump) :: sk, o)
    | (AErr, bump) | (ADefaultErr, bump) => ([], Yield (Item false (Some l) start (e + bump)) (e + bump))
    end.
  Proof. intros H. cbn [next_from]. rewrite H. reflexivity. Qed.
End Glue.

(* A callback that answers Skip is indistinguishable from a skip pattern: two oracles that agree
   everywhere (one of them "is" the skip leaf) give the same stream; in particular the stream only
   depends on the decisions, not on which mechanism produced them. *)
Theorem skip_transparent attempt act act' fb w p :
  (forall l s e, act l s e = act' l s e) ->
  forall fuel start, next_from attempt act fb w p fuel start = next_from attempt act' fb w p fuel start.
Proof.
  intros H. induction fuel as [|fuel IH]; intros start; [reflexivity|].
  cbn [next_from]. destruct (attempt p start (skipn (N.to_nat start) w)) as [[[l e]|] off|r| |]; try reflexivity.
  rewrite <- H. destruct (act l start e) as [[] bump]; try reflexivity. rewrite IH. reflexivity.
Qed.

(* bytes bumped inside a callback extend the current item and are excluded from the next *)
Theorem bump_extends_and_excludes attempt act fb w p fuel start l e off bump :
  attempt p start (skipn (N.to_nat start) w) = Acted (Some (l, e)) off ->
  act l start e = (AEmit, bump) ->
  next_from attempt act fb w p (S fuel) start = ([], Yield (Item true (Some l) start (e + bump)) (e + bump)).
Proof. intros H Ha. rewrite (next_from_match attempt act fb w p fuel start l e off H). rewrite Ha. reflexivity. Qed.
