(* Runtime/LexerApi.v — the public Lexer state machine (src/lexer.rs:147-307): a pool of lexers over
   one source, with next / spanned / bump / clone / morph; `next` is the engine model on the graph
   of the lexer's current token type.  No proofs in this file. *)
From Coq Require Import List NArith PArith Bool FMapPositive.
From LogosV Require Import Engine.Model Engine.Run.
Import ListNotations.
Local Open Scope N_scope.

Record lx := { lx_start : N; lx_end : N; lx_prefix : bool; lx_def : nat }.

Inductive op := ONext | OSpanned | OBump (k : N) | OClone | OSwitch (i : nat) | OMorph.

Definition world := (list lx * nat)%type.        (* the lexers and the index of the current one *)

Fixpoint set_nth {A} (l : list A) (i : nat) (x : A) : list A :=
  match l, i with
  | [], _ => []
  | _ :: r, O => x :: r
  | a :: r, S j => a :: set_nth r j x
  end.

Section Api.
  Variable defs : list (graph * list N).     (* token types sharing the source: graph and behaviour codes *)
  Variable utf8 : bool.
  Variable w : list byte.

  Definition def_of (l : lx) : graph * list N :=
    nth (lx_def l) defs ({| g_states := PositiveMap.empty _; g_root := 1%positive |}, []).

  (* Iterator::next: token_start := token_end, then lex *)
  Definition do_next (l : lx) : list N * lx :=
    let (g, codes) := def_of l in
    match next_from (attempt_ref g) (act_of utf8 codes w) (fb_of utf8 w) w (lx_prefix l) (S (length w)) (lx_end l) with
    | (_, Yield (Item ok lf s e) e') =>
        (enc_region utf8 codes w (RItem (Item ok lf s e)),
         {| lx_start := s; lx_end := e'; lx_prefix := lx_prefix l; lx_def := lx_def l |})
    | (_, Finished s e) => ([2], {| lx_start := s; lx_end := e; lx_prefix := lx_prefix l; lx_def := lx_def l |})
    | (_, Broken) => ([3], l)
    end.

  (* harness rule: bump k when the new end is an in-range boundary, otherwise leave the lexer alone *)
  Definition do_bump (l : lx) (k : N) : lx :=
    if boundary_at utf8 w (lx_end l + k)
    then {| lx_start := lx_start l; lx_end := lx_end l + k; lx_prefix := lx_prefix l; lx_def := lx_def l |}
    else l.

  Definition do_morph (l : lx) : lx :=
    {| lx_start := lx_start l; lx_end := lx_end l; lx_prefix := lx_prefix l;
       lx_def := match lx_def l with O => 1%nat | _ => O end |}.

  Definition cur (wd : world) : lx := nth (snd wd) (fst wd) {| lx_start := 0; lx_end := 0; lx_prefix := false; lx_def := 0 |}.

  (* one operation; the observation is the op's result followed by span() of the current lexer *)
  Definition step (wd : world) (o : op) : list N * world :=
    let l := cur wd in
    match o with
    | ONext | OSpanned =>
        let (obs, l') := do_next l in
        (obs ++ [lx_start l'; lx_end l'], (set_nth (fst wd) (snd wd) l', snd wd))
    | OBump k =>
        let l' := do_bump l k in ([lx_start l'; lx_end l'], (set_nth (fst wd) (snd wd) l', snd wd))
    | OClone => ([lx_start l; lx_end l], (fst wd ++ [l], length (fst wd)))
    | OSwitch i =>
        let j := Nat.modulo i (length (fst wd)) in
        let l' := nth j (fst wd) l in ([lx_start l'; lx_end l'], (fst wd, j))
    | OMorph => let l' := do_morph l in ([lx_start l'; lx_end l'], (set_nth (fst wd) (snd wd) l', snd wd))
    end.

  Fixpoint run_ops (wd : world) (ops : list op) : list (list N) :=
    match ops with
    | [] => []
    | o :: r => let (obs, wd') := step wd o in obs :: run_ops wd' r
    end.

  Definition init (prefix : bool) : world := ([{| lx_start := 0; lx_end := 0; lx_prefix := prefix; lx_def := 0 |}], O).
End Api.

Definition op_of_N (code arg : N) : op :=
  match code with
  | 0 => ONext | 1 => OBump arg | 2 => OClone | 3 => OSwitch (N.to_nat arg) | 4 => OMorph | _ => OSpanned
  end.
Fixpoint ops_of (l : list N) : list op :=
  match l with c :: a :: r => op_of_N c a :: ops_of r | _ => [] end.
(* observations separated by the marker 999999 *)
Definition run_history (defs : list (graph * list N)) (utf8 prefix : bool) (w : list byte) (ops : list N) : list N :=
  flat_map (fun o => o ++ [999999]) (run_ops defs utf8 w (init prefix) (ops_of ops)).
