(* Runtime/Callbacks.v — the return-value dispatch of callbacks: `construct` mirrors the
   CallbackRetVal / SkipRetVal impls of src/internal.rs (one constructor per impl and per value
   shape), `documented` is the table of book/src/callbacks.md written independently. *)
From Coq Require Import List NArith Bool.
From LogosV Require Import Engine.Model.
Import ListNotations.

(* what a callback can return, by impl of internal.rs *)
Inductive retval :=
| RV_value                      (* impl for T: any value of the field type *)
| RV_ok | RV_err                (* Result<T, E> *)
| RV_some | RV_none             (* Option<T> *)
| RV_filter_emit | RV_filter_skip               (* Filter<T> *)
| RV_fr_emit | RV_fr_skip | RV_fr_error         (* FilterResult<T, E> *)
| RU_true | RU_false            (* bool, unit variants *)
| RU_skip                       (* Skip *)
| RU_ok_skip | RU_err_skip      (* Result<Skip, E> *)
| RL_token                      (* L itself *)
| RL_ok | RL_err                (* Result<L, E> *)
| RL_filter_emit | RL_filter_skip
| RL_fr_emit | RL_fr_skip | RL_fr_error
| RS_unit                       (* SkipRetVal: () *)
| RS_skip                       (* SkipRetVal: Skip *)
| RS_ok_unit | RS_err_unit      (* SkipRetVal: Result<(), E> *)
| RS_ok_skip | RS_err_skip.     (* SkipRetVal: Result<Skip, E> *)

(* CallbackResult of internal.rs; action of the engine model is the same four outcomes *)
Definition construct (v : retval) : action :=
  match v with
  | RV_value => AEmit
  | RV_ok => AEmit | RV_err => AErr
  | RV_some => AEmit | RV_none => ADefaultErr
  | RV_filter_emit => AEmit | RV_filter_skip => ASkip
  | RV_fr_emit => AEmit | RV_fr_skip => ASkip | RV_fr_error => AErr
  | RU_true => AEmit | RU_false => ADefaultErr
  | RU_skip => ASkip
  | RU_ok_skip => ASkip | RU_err_skip => AErr
  | RL_token => AEmit
  | RL_ok => AEmit | RL_err => AErr
  | RL_filter_emit => AEmit | RL_filter_skip => ASkip
  | RL_fr_emit => AEmit | RL_fr_skip => ASkip | RL_fr_error => AErr
  | RS_unit => ASkip | RS_skip => ASkip
  | RS_ok_unit => ASkip | RS_err_unit => AErr
  | RS_ok_skip => ASkip | RS_err_skip => AErr
  end.

(* the documented table: "value, () or true gives Ok(variant); None or false gives Err(default);
   Err(e) gives Err(e.into()); Skip or Filter::Skip gives no item" *)
Inductive shape := SValue | STrue | SFalse | SNone | SErr | SSkip.
Definition shape_of (v : retval) : shape :=
  match v with
  | RV_value | RV_ok | RV_some | RV_filter_emit | RV_fr_emit | RL_token | RL_ok | RL_filter_emit | RL_fr_emit => SValue
  | RU_true => STrue
  | RU_false => SFalse
  | RV_none => SNone
  | RV_err | RV_fr_error | RU_err_skip | RL_err | RL_fr_error | RS_err_unit | RS_err_skip => SErr
  | RV_filter_skip | RV_fr_skip | RU_skip | RU_ok_skip | RL_filter_skip | RL_fr_skip
  | RS_unit | RS_skip | RS_ok_unit | RS_ok_skip => SSkip
  end.
Definition documented (s : shape) : action :=
  match s with
  | SValue | STrue => AEmit
  | SNone | SFalse => ADefaultErr
  | SErr => AErr
  | SSkip => ASkip
  end.

Definition all_retvals : list retval :=
  [RV_value; RV_ok; RV_err; RV_some; RV_none; RV_filter_emit; RV_filter_skip; RV_fr_emit; RV_fr_skip; RV_fr_error;
   RU_true; RU_false; RU_skip; RU_ok_skip; RU_err_skip; RL_token; RL_ok; RL_err; RL_filter_emit; RL_filter_skip;
   RL_fr_emit; RL_fr_skip; RL_fr_error; RS_unit; RS_skip; RS_ok_unit; RS_err_unit; RS_ok_skip; RS_err_skip].
