(* Runtime/Source.v — model of Source::read (src/source.rs:106-126, 170-186) with usize arithmetic
   written out, of is_boundary / find_boundary for str and [u8], and of Lexer::bump
   (src/lexer.rs:215-229).  No proofs in this file. *)
From Coq Require Import List NArith Bool.
Import ListNotations.
Local Open Scope N_scope.

Definition usize_max : N := 18446744073709551615.        (* 2^64 - 1 *)
Definition wrap (x : N) : N := x mod 18446744073709551616.

(* offset.checked_add(SIZE) *)
Definition checked_add (a b : N) : option N := if a + b <=? usize_max then Some (a + b) else None.

(* read::<Chunk>(offset): Some chunk iff offset + SIZE does not overflow and is <= len *)
Definition read (w : list N) (off sz : N) : option (list N) :=
  match checked_add off sz with
  | Some e => if e <=? N.of_nat (length w)
              then Some (firstn (N.to_nat sz) (skipn (N.to_nat off) w)) else None
  | None => None
  end.

(* str::is_char_boundary / [u8]: index <= len *)
Definition is_cont (b : N) : bool := (128 <=? b) && (b <? 192).
Definition is_boundary (utf8 : bool) (w : list N) (i : N) : bool :=
  if utf8 then
    if i =? 0 then true
    else if N.of_nat (length w) <? i then false       (* also keeps N.to_nat away from huge values *)
    else match nth_error w (N.to_nat i) with
         | Some b => negb (is_cont b)
         | None => i =? N.of_nat (length w)
         end
  else i <=? N.of_nat (length w).

(* ---------- Lexer::bump ---------- *)
Record lexpos := { p_start : N; p_end : N }.
Inductive bump_result := BumpOk (p : lexpos) | BumpPanic (p : lexpos).   (* state after the call *)

(* the code after the fix: checked addition, boundary test, then assignment *)
Definition bump (utf8 : bool) (w : list N) (p : lexpos) (n : N) : bump_result :=
  match checked_add (p_end p) n with
  | Some e => if is_boundary utf8 w e then BumpOk {| p_start := p_start p; p_end := e |} else BumpPanic p
  | None => BumpPanic p
  end.

(* the code as it was (token_end += n; assert!(is_boundary)): debug builds panic on overflow before
   the assignment, release builds wrap; in both the assignment precedes the assertion *)
Definition bump_old (release : bool) (utf8 : bool) (w : list N) (p : lexpos) (n : N) : bump_result :=
  match checked_add (p_end p) n with
  | None => if release
            then let p' := {| p_start := p_start p; p_end := wrap (p_end p + n) |} in
                 if is_boundary utf8 w (p_end p') then BumpOk p' else BumpPanic p'
            else BumpPanic p
  | Some e => let p' := {| p_start := p_start p; p_end := e |} in
              if is_boundary utf8 w e then BumpOk p' else BumpPanic p'
  end.

Definition valid_pos (utf8 : bool) (w : list N) (p : lexpos) : Prop :=
  p_start p <= p_end p /\ p_end p <= N.of_nat (length w) /\
  is_boundary utf8 w (p_start p) = true /\ is_boundary utf8 w (p_end p) = true.

(* ---------- entry points for the correspondence checks (results as list N) ---------- *)
Definition enc_bump (r : bump_result) : list N :=
  match r with BumpOk p => [1; p_start p; p_end p] | BumpPanic p => [0; p_start p; p_end p] end.
Definition bump_case (utf8 : bool) (w : list N) (s e n : N) : list N :=
  enc_bump (bump utf8 w {| p_start := s; p_end := e |} n).
Definition bump_old_case (release utf8 : bool) (w : list N) (s e n : N) : list N :=
  enc_bump (bump_old release utf8 w {| p_start := s; p_end := e |} n).
(* read: [0] for None, 1 :: bytes for Some *)
Definition read_case (w : list N) (off sz : N) : list N :=
  match read w off sz with Some c => 1 :: c | None => [0] end.
