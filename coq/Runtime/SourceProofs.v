(* Runtime/SourceProofs.v — read_spec (C05), bump_spec and the refutations of the old bump (C15). *)
From Coq Require Import List NArith Bool Lia.
From LogosV Require Import Runtime.Source.
Import ListNotations.
Local Open Scope N_scope.

Lemma checked_add_spec a b : checked_add a b = Some (a + b) /\ a + b <= usize_max
                             \/ checked_add a b = None /\ usize_max < a + b.
Proof. unfold checked_add. destruct (N.leb_spec (a + b) usize_max); [left|right]; split; auto. Qed.

(* read returns a chunk exactly when off + sz <= len without overflow, and then the chunk is the
   sz bytes at off *)
Theorem read_spec (w : list N) (off sz : N) :
  (off + sz <= usize_max /\ off + sz <= N.of_nat (length w) ->
     read w off sz = Some (firstn (N.to_nat sz) (skipn (N.to_nat off) w)) /\
     length (firstn (N.to_nat sz) (skipn (N.to_nat off) w)) = N.to_nat sz) /\
  (usize_max < off + sz \/ N.of_nat (length w) < off + sz -> read w off sz = None).
Proof.
  unfold read. split.
  - intros [H1 H2]. destruct (checked_add_spec off sz) as [[-> _]|[_ H]]; [|lia].
    destruct (N.leb_spec (off + sz) (N.of_nat (length w))); [|lia]. split; [reflexivity|].
    rewrite firstn_length, skipn_length. lia.
  - intros H. destruct (checked_add_spec off sz) as [[-> H1]|[-> _]]; [|reflexivity].
    destruct (N.leb_spec (off + sz) (N.of_nat (length w))); [lia|reflexivity].
Qed.

Lemma is_boundary_le utf8 w i : is_boundary utf8 w i = true -> i <= N.of_nat (length w).
Proof.
  unfold is_boundary. destruct utf8.
  - destruct (N.eqb_spec i 0); [lia|].
    destruct (N.ltb_spec (N.of_nat (length w)) i) as [Hgt|Hle]; [discriminate|].
    destruct (nth_error w (N.to_nat i)) eqn:E.
    + intros _. assert (N.to_nat i < length w)%nat by (apply nth_error_Some; congruence). lia.
    + intros H. apply N.eqb_eq in H. lia.
  - intros H. apply N.leb_le in H. exact H.
Qed.

(* bump succeeds only with the new end in range and on a boundary, without wrap-around; otherwise it
   panics and the position is unchanged; a valid position stays valid *)
Theorem bump_spec utf8 w p n : valid_pos utf8 w p ->
  match bump utf8 w p n with
  | BumpOk p' => p_end p' = p_end p + n /\ p_end p + n <= usize_max /\ p_start p' = p_start p /\ valid_pos utf8 w p'
  | BumpPanic p' => p' = p /\ (usize_max < p_end p + n \/ is_boundary utf8 w (p_end p + n) = false)
  end.
Proof.
  intros [H1 [H2 [H3 H4]]]. unfold bump.
  destruct (checked_add_spec (p_end p) n) as [[-> Hle]|[-> Hgt]].
  - destruct (is_boundary utf8 w (p_end p + n)) eqn:E.
    + pose proof (is_boundary_le utf8 w _ E) as Hb. unfold valid_pos. cbn [p_start p_end].
      repeat split; try assumption; lia.
    + split; [reflexivity|right; reflexivity].
  - split; [reflexivity|left; exact Hgt].
Qed.

Theorem bump_never_invalid utf8 w p n : valid_pos utf8 w p ->
  forall p', bump utf8 w p n = BumpOk p' \/ bump utf8 w p n = BumpPanic p' -> valid_pos utf8 w p'.
Proof.
  intros Hv p' H. pose proof (bump_spec utf8 w p n Hv) as S.
  destruct H as [H|H]; rewrite H in S.
  - apply S.
  - destruct S as [-> _]. exact Hv.
Qed.

(* The code as it was violates the property (finding F3), twice: *)
(* 1. release build: the addition wraps, the assertion passes, start > end *)
Theorem bump_old_release_refuted :
  exists w p n p', valid_pos false w p /\ bump_old true false w p n = BumpOk p' /\ p_end p' < p_start p'.
Proof.
  exists [1;2;3;4], {| p_start := 3; p_end := 3 |}, (usize_max - 1), {| p_start := 3; p_end := 1 |}.
  split; [|split].
  - unfold valid_pos. cbn. repeat split; try lia; reflexivity.
  - vm_compute. reflexivity.
  - cbn. lia.
Qed.
(* 2. any build: a panicking bump leaves token_end out of range *)
Theorem bump_old_panic_corrupts :
  exists w p n p', valid_pos false w p /\ bump_old false false w p n = BumpPanic p' /\ N.of_nat (length w) < p_end p'.
Proof.
  exists [1;2;3;4], {| p_start := 0; p_end := 3 |}, 100, {| p_start := 0; p_end := 103 |}.
  split; [|split].
  - unfold valid_pos. cbn. repeat split; try lia; reflexivity.
  - vm_compute. reflexivity.
  - cbn. lia.
Qed.
