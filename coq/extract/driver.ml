(* Driver for the extracted model: reads a problem file (numbers separated by blanks, one record
   per line) and prints one result line per probe / certificate.

   Records:
     G root                      start a new graph
     S s early accept eoi ne  { target nr { lo hi } }      (early/accept/eoi: 0 = none, else value+1)
     D start                     start a new DFA
     Q q eoi nm { m } nt { lo hi t }
     PR n { prio }
     V n { s nq { q } }          pairing hint
     DS n { q }                  dead-set hint
     R n { q rank }              rank hint
     A n { code }                behaviour code per leaf
     U b                         utf8 mode (0/1)
     C tag                       evaluate the certificates: prints "C tag dfa_ok sim_ok exact_ok wf_graph prompt_ok utf8_ok utf8_strict_ok"
     PU n { q nu { u } }         UTF-8 product hint (u: 0..8 = U0 U1 U2 U2a U2b U3 U3a U3b URej)
     P id mode len { byte }      probe: mode 0 = full, 1 = partial; prints "P id ref: ... | spec: ..."
     N id mode start len { byte }   one next() call with token_end = start
*)
open Model

let rec pos_of_int (i : int) : positive =
  if i = 1 then XH else if i land 1 = 0 then XO (pos_of_int (i lsr 1)) else XI (pos_of_int (i lsr 1))
let n_of_int (i : int) : n = if i = 0 then N0 else Npos (pos_of_int i)
let rec int_of_pos = function XH -> 1 | XO p -> 2 * int_of_pos p | XI p -> 2 * int_of_pos p + 1
let int_of_n = function N0 -> 0 | Npos p -> int_of_pos p
let opt_of_int i = if i = 0 then None else Some (n_of_int (i - 1))

let gstates = ref []
let groot = ref 0
let dstates = ref []
let dstart = ref 0
let prios = ref []
let vhint = ref []
let dshint = ref []
let puhint = ref []
let rhhint = ref []
let d2states = ref []
let d2start = ref 0
let brhint = ref []
let slot0 = ref None
let leafmap : Model.n list ref = ref []
let slot1 = ref None
let rhint = ref []
let acts = ref []
let utf8 = ref false
let proot = ref 0
let prestart = ref 0
let pluts : n list list ref = ref []
let pstates : (positive * pstate) list ref = ref []

let graph_cache = ref None
let dfa_cache = ref None
let rank_cache = ref None
let get_graph () = match !graph_cache with
  | Some g -> g
  | None -> let g = mk_graph (List.rev !gstates) (n_of_int !groot) in graph_cache := Some g; g
let get_dfa () = match !dfa_cache with
  | Some d -> d
  | None -> let d = mk_dfa (List.rev !dstates) (n_of_int !dstart) !prios in dfa_cache := Some d; d
let get_rank () = match !rank_cache with
  | Some r -> r
  | None -> let r = mk_rank !rhint in rank_cache := Some r; r

let print_ns l = String.concat " " (List.map (fun x -> string_of_int (int_of_n x)) l)

let () =
  let ic = if Array.length Sys.argv > 1 then open_in Sys.argv.(1) else stdin in
  let buf = Buffer.create 65536 in
  (try
    while true do
      let line = input_line ic in
      let toks = Array.of_list (List.filter (fun s -> s <> "") (String.split_on_char ' ' line)) in
      if Array.length toks > 0 then begin
        let pos = ref 1 in
        let next () = let v = int_of_string toks.(!pos) in incr pos; v in
        match toks.(0) with
        | "G" -> gstates := []; groot := next (); graph_cache := None
        | "S" ->
            let s = next () in let ea = next () in let ac = next () in let eo = next () in
            let ne = next () in
            let edges = List.init ne (fun _ ->
              let t = next () in let nr = next () in
              let rs = List.init nr (fun _ -> let lo = next () in let hi = next () in (n_of_int lo, n_of_int hi)) in
              (rs, n_of_int t)) in
            gstates := ((((n_of_int s, opt_of_int ea), opt_of_int ac), edges), opt_of_int eo) :: !gstates;
            graph_cache := None
        | "D" -> dstates := []; dstart := next (); dfa_cache := None; rank_cache := None
        | "Q" ->
            let q = next () in let eo = next () in let nm = next () in
            let ms = List.init nm (fun _ -> n_of_int (next ())) in
            let nt = next () in
            let tr = List.init nt (fun _ -> let lo = next () in let hi = next () in let t = next () in
                                   ((n_of_int lo, n_of_int hi), n_of_int t)) in
            dstates := (((n_of_int q, tr), n_of_int eo), ms) :: !dstates; dfa_cache := None
        | "PR" -> let k = next () in prios := List.init k (fun _ -> n_of_int (next ())); dfa_cache := None
        | "V" -> let k = next () in
            vhint := List.init k (fun _ -> let s = next () in let nq = next () in
                                  (n_of_int s, List.init nq (fun _ -> n_of_int (next ()))))
        | "PU" -> let k = next () in
            puhint := List.init k (fun _ -> let q = next () in let nu = next () in
                                   (n_of_int q, List.init nu (fun _ -> n_of_int (next ()))))
        | "DS" -> let k = next () in dshint := List.init k (fun _ -> n_of_int (next ()))
        | "R" -> let k = next () in
            rhint := List.init k (fun _ -> let q = next () in let r = next () in (n_of_int q, n_of_int r));
            rank_cache := None
        | "A" -> let k = next () in acts := List.init k (fun _ -> n_of_int (next ()))
        | "U" -> utf8 := (next () = 1)
        | "C" ->
            let tag = toks.(1) in
            let d = get_dfa () and g = get_graph () in
            let v = mk_pairing !vhint and ds = mk_pset !dshint and r = get_rank () in
            let b x = if x then "1" else "0" in
            let pu = mk_upairs !puhint in
            Buffer.add_string buf (Printf.sprintf "C %s %s %s %s %s %s %s %s %s\n" tag
              (b (dfa_ok d)) (b (sim_ok d g v ds)) (b (exact_ok d g v r ds)) (b (wf_graph g)) (b (prompt_ok d g v r))
              (b (utf8_ok d pu)) (b (utf8_strict_ok d pu ds)) (b (prompt_strict_ok d g v r)))
        | "D2" -> d2states := []; d2start := next ()
        | "Q2" ->
            let q = next () in let eo = next () in let nm = next () in
            let ms = List.init nm (fun _ -> n_of_int (next ())) in
            let nt = next () in
            let tr = List.init nt (fun _ -> let lo = next () in let hi = next () in let t = next () in
                                   ((n_of_int lo, n_of_int hi), n_of_int t)) in
            d2states := (((n_of_int q, tr), n_of_int eo), ms) :: !d2states
        | "BR" -> let k = next () in
            brhint := List.init k (fun _ -> let s = next () in let nq = next () in
                                   (n_of_int s, List.init nq (fun _ -> n_of_int (next ()))))
        | "BS" ->
            (* BS tag l1 l2 : language equality of leaf l1 of the DFA and leaf l2 of the second DFA *)
            let tag = toks.(1) in pos := 2;
            let l1 = next () in let l2 = next () in
            let d1 = get_dfa () in
            let d2 = mk_dfa (List.rev !d2states) (n_of_int !d2start) [] in
            let r = bisim_ok d1 (n_of_int l1) d2 (n_of_int l2) (mk_pairing !brhint) in
            Buffer.add_string buf (Printf.sprintf "BS %s %s\n" tag (if r then "1" else "0"))
        | "GS" ->
            (* store the current graph and behaviour codes as token type k (0 or 1) of the API model *)
            let k = next () in
            let entry = (get_graph (), !acts) in
            if k = 0 then slot0 := Some entry else slot1 := Some entry
        | "H" ->
            (* H id partial len bytes nops { code arg } : API history on the two stored token types *)
            let id = toks.(1) in pos := 2;
            let partial = next () in let len = next () in
            let w = List.init len (fun _ -> n_of_int (next ())) in
            let nops = next () in
            let ops = List.init (2 * nops) (fun _ -> n_of_int (next ())) in
            (match !slot0, !slot1 with
             | Some a, Some b ->
                 let r = run_history [a; b] !utf8 (partial = 1) w ops in
                 Buffer.add_string buf (Printf.sprintf "H %s %s\n" id (print_ns r))
             | _ -> Buffer.add_string buf (Printf.sprintf "H %s NOSLOTS\n" id))
        | "RH" -> let k = next () in
            rhhint := List.init k (fun _ -> let q = next () in let p = next () in let u = next () in let n = next () in
                                   (n_of_int q, ((n_of_int p, n_of_int u), n_of_int n)))
        | "TI" ->
            (* ties of the current DFA (one leaf set per tie state) and validity of the reachability hint *)
            let tag = toks.(1) in
            let d = get_dfa () in
            let ts = ties d in
            let b x = if x then "1" else "0" in
            Buffer.add_string buf (Printf.sprintf "TI %s %s %s |%s\n" tag (b (reach_ok d (mk_reach !rhhint))) (b (dfa_ok d))
              (String.concat "|" (List.map (fun l -> " " ^ print_ns l ^ " ") ts)))
        | "GB" ->
            (* the Coq model of Graph::new on the current DFA, compared with the captured graph *)
            let tag = toks.(1) in
            let d = get_dfa () and g = get_graph () in
            let (built, side) = build_checked d in
            let swapped = List.concat_map (fun (s, qs) -> List.map (fun q -> (q, [s])) qs) !vhint in
            let r = mk_pairing swapped in
            let b x = if x then "1" else "0" in
            (* the de-duplication loop of the model, then a product walk of the two graphs from their roots as relation hint *)
            let dd = dedup built in
            let seen = Hashtbl.create 64 in
            let todo = Queue.create () in
            let push a c = if not (Hashtbl.mem seen (a, c)) then (Hashtbl.add seen (a, c) (); Queue.add (a, c) todo) in
            push dd.g_root g.g_root;
            while not (Queue.is_empty todo) do
              let (a, c) = Queue.pop todo in
              (match gfind dd a, gfind g c with
               | Some sa, Some sc ->
                   List.iter (fun x -> match edge_first sa.g_edges x, edge_first sc.g_edges x with
                                       | Some t1, Some t2 -> push t1 t2 | _ -> ()) all_bytes;
                   (match sa.g_eoi, sc.g_eoi with Some t1, Some t2 -> push t1 t2 | _ -> ())
               | _ -> ())
            done;
            let tbl = Hashtbl.create 64 in
            Hashtbl.iter (fun (a, c) () -> Hashtbl.replace tbl a (c :: (try Hashtbl.find tbl a with Not_found -> []))) seen;
            let r2 = Hashtbl.fold (fun a cs m -> PositiveMap.add a cs m) tbl PositiveMap.empty in
            let injective = Hashtbl.fold (fun _ cs ok -> ok && List.length cs = 1) tbl true in
            let same_size = (List.length (PositiveMap.elements dd.g_states) = List.length (PositiveMap.elements g.g_states)) in
            Buffer.add_string buf (Printf.sprintf "GB %s %s %s %s %s %s\n" tag
              (String.concat " " (List.map b side)) (b (gsim_ok built g r))
              (b (wf_graph built && closed_graph built)) (b (gsim_ok dd g r2)) (b (same_size && injective)))
        | "LM" -> let k = next () in leafmap := List.init k (fun _ -> n_of_int (next ()))
        | "GG" ->
            (* GG tag : the graph stored in slot 0 against the current graph with its leaves translated by the LM list (Engine/Rename.v): product walk from the roots as the relation
               hint, then the proved checker gsim_ok; on failure the byte path to the first pair that is not related *)
            let tag = toks.(1) in
            let g = rename_graph (leaf_map !leafmap) (get_graph ()) in
            (match !slot0 with
             | None -> Buffer.add_string buf (Printf.sprintf "GG %s NOSLOT\n" tag)
             | Some (a, _) ->
                 let seen = Hashtbl.create 64 in
                 let todo = Queue.create () in
                 let order = ref [] in
                 let push x c path = if not (Hashtbl.mem seen (x, c)) then (Hashtbl.add seen (x, c) path; order := (x, c) :: !order; Queue.add (x, c, path) todo) in
                 push a.g_root g.g_root [];
                 while not (Queue.is_empty todo) do
                   let (x, c, path) = Queue.pop todo in
                   (match gfind a x, gfind g c with
                    | Some sa, Some sc ->
                        List.iter (fun y -> match edge_first sa.g_edges y, edge_first sc.g_edges y with
                                            | Some t1, Some t2 -> push t1 t2 (int_of_n y :: path) | _ -> ()) all_bytes;
                        (match sa.g_eoi, sc.g_eoi with Some t1, Some t2 -> push t1 t2 path | _ -> ())
                    | _ -> ())
                 done;
                 let tbl = Hashtbl.create 64 in
                 Hashtbl.iter (fun (x, c) _ -> Hashtbl.replace tbl x (c :: (try Hashtbl.find tbl x with Not_found -> []))) seen;
                 let r = Hashtbl.fold (fun x cs m -> PositiveMap.add x cs m) tbl PositiveMap.empty in
                 let ok = gsim_ok a g r in
                 let bad = if ok then [] else
                   (match List.find_opt (fun (x, c) -> not (gsim_pair a g r x c)) (List.rev !order) with
                    | Some k -> List.rev (Hashtbl.find seen k) | None -> []) in
                 Buffer.add_string buf (Printf.sprintf "GG %s %s %s\n" tag (if ok then "1" else "0")
                   (String.concat " " (List.map string_of_int bad))))
        | "PGM" ->
            (* start of an emitted program: root restart *)
            let r = next () in let rs = next () in
            proot := r; prestart := rs; pluts := []; pstates := []
        | "PL" -> pluts := List.init 256 (fun _ -> n_of_int (next ())) :: !pluts
        | "PS" ->
            let sid i = pos_of_int (i + 1) in
            let osid i = if i = 0 then None else Some (sid (i - 1)) in
            let s = next () in
            let lp = if next () = 1 then (let k = next () in let m = next () in Some (n_of_int k, n_of_int m)) else None in
            let su = (match next () with
                      | 0 -> PNoSetup
                      | 1 -> PEarly (n_of_int (next ()))
                      | _ -> PAccept (n_of_int (next ()))) in
            let pre = (next () = 1) in let rt = (next () = 1) in let eo = osid (next ()) in
            let fk = (match next () with
                      | 0 ->
                          let n = next () in
                          PChain (List.init n (fun _ ->
                            let c = (match next () with
                                     | 0 -> let k = next () in let m = next () in PLut (n_of_int k, n_of_int m)
                                     | _ -> let nc = next () in
                                            PCmp (List.init nc (fun _ ->
                                              let lo = next () in let hi = next () in let ne = next () in
                                              { c_lo = n_of_int lo; c_hi = n_of_int hi; c_ex = List.init ne (fun _ -> n_of_int (next ())) }))) in
                            let t = next () in (c, sid t)))
                      | _ -> PTable (List.init 256 (fun _ -> osid (next ())))) in
            pstates := (sid s, { p_loop = lp; p_setup = su; p_fork = fk; p_prefix = pre; p_roottest = rt; p_eoi = eo }) :: !pstates
        | "PG" ->
            let tag = toks.(1) in
            let g = get_graph () in
            let sid i = pos_of_int (i + 1) in
            let p = mk_prog (List.rev !pluts) !pstates (sid !proot) (sid !prestart) in
            Buffer.add_string buf (Printf.sprintf "PG %s %s\n" tag (if prog_ok g p then "1" else "0"))
        | "CU" ->
            (* DFA-only UTF-8 certificates: dead_ok, utf8_ok, utf8_strict_ok *)
            let tag = toks.(1) in
            let d = get_dfa () in
            let ds = mk_pset !dshint and pu = mk_upairs !puhint in
            let b x = if x then "1" else "0" in
            Buffer.add_string buf (Printf.sprintf "CU %s %s %s %s\n" tag (b (dead_ok d ds)) (b (utf8_ok d pu)) (b (utf8_strict_ok d pu ds)))
        | "P" ->
            let id = toks.(1) in pos := 2;
            let mode = next () in let len = next () in
            let w = List.init len (fun _ -> n_of_int (next ())) in
            let r1 = run_ref (get_graph ()) !utf8 !acts (mode = 1) w in
            let r2 = if mode = 0 && !dstates <> [] then print_ns (run_spec (get_dfa ()) (get_rank ()) !utf8 !acts w) else "-" in
            Buffer.add_string buf (Printf.sprintf "P %s ref: %s | spec: %s\n" id (print_ns r1) r2)
        | "PP" ->
            (* PP id mode len bytes : the emitted program (as "ref") against the reference semantics of the graph (as "spec") *)
            let id = toks.(1) in pos := 2;
            let mode = next () in let len = next () in
            let w = List.init len (fun _ -> n_of_int (next ())) in
            let sid i = pos_of_int (i + 1) in
            let p = mk_prog (List.rev !pluts) !pstates (sid !proot) (sid !prestart) in
            let rec nat_of_int i = if i <= 0 then O else S (nat_of_int (i - 1)) in
            let u8 = S (S (S (S (S (S (S (S O))))))) in
            let r1 = run_prog u8 p (nat_of_int (List.length !gstates)) !utf8 !acts (mode = 1) w in
            let r2 = run_ref (get_graph ()) !utf8 !acts (mode = 1) w in
            Buffer.add_string buf (Printf.sprintf "P %s ref: %s | spec: %s\n" id (print_ns r1) (print_ns r2))
        | "T" ->
            (* T id mode len bytes : read log of every attempt of the optimised executor (U = 8) *)
            let id = toks.(1) in pos := 2;
            let mode = next () in let len = next () in
            let w = List.init len (fun _ -> n_of_int (next ())) in
            let g = get_graph () in
            let u8 = S (S (S (S (S (S (S (S O))))))) in
            let starts = region_starts g !utf8 !acts (mode = 1) w in
            let parts = List.map (fun st ->
              let tr = run_opt_trace u8 g (mode = 1) w st in
              Printf.sprintf "%d: %s" (int_of_n st) (print_ns tr)) starts in
            let ro = run_opt u8 g !utf8 !acts (mode = 1) w in
            let rr = run_ref g !utf8 !acts (mode = 1) w in
            Buffer.add_string buf (Printf.sprintf "T %s %s | %s\n" id (if ro = rr then "same" else "OPTDIFF " ^ print_ns ro) (String.concat " | " parts))
        | "N" ->
            (* N id mode start len bytes : one next() call from token_end = start *)
            let id = toks.(1) in pos := 2;
            let mode = next () in let start = next () in let len = next () in
            let w = List.init len (fun _ -> n_of_int (next ())) in
            let r1 = run_next_ref (get_graph ()) !utf8 !acts (mode = 1) w (n_of_int start) in
            let r2 = if mode = 0 && !dstates <> [] then print_ns (run_next_spec (get_dfa ()) (get_rank ()) !utf8 !acts w (n_of_int start)) else "-" in
            Buffer.add_string buf (Printf.sprintf "P %s ref: %s | spec: %s\n" id (print_ns r1) r2)
        | _ -> ()
      end
    done
  with End_of_file -> ());
  print_string (Buffer.contents buf)
