
(** val negb : bool -> bool **)

let negb = function
| true -> false
| false -> true

type nat =
| O
| S of nat

(** val option_map : ('a1 -> 'a2) -> 'a1 option -> 'a2 option **)

let option_map f = function
| Some a -> Some (f a)
| None -> None

(** val fst : ('a1 * 'a2) -> 'a1 **)

let fst = function
| (x, _) -> x

(** val snd : ('a1 * 'a2) -> 'a2 **)

let snd = function
| (_, y) -> y

(** val length : 'a1 list -> nat **)

let rec length = function
| [] -> O
| _ :: l' -> S (length l')

(** val app : 'a1 list -> 'a1 list -> 'a1 list **)

let rec app l m =
  match l with
  | [] -> m
  | a :: l1 -> a :: (app l1 m)

type comparison =
| Eq
| Lt
| Gt

module Coq__1 = struct
 (** val add : nat -> nat -> nat **)
 let rec add n0 m =
   match n0 with
   | O -> m
   | S p -> S (add p m)
end
include Coq__1

(** val leb : nat -> nat -> bool **)

let rec leb n0 m =
  match n0 with
  | O -> true
  | S n' -> (match m with
             | O -> false
             | S m' -> leb n' m')

(** val nth : nat -> 'a1 list -> 'a1 -> 'a1 **)

let rec nth n0 l default =
  match n0 with
  | O -> (match l with
          | [] -> default
          | x :: _ -> x)
  | S m -> (match l with
            | [] -> default
            | _ :: t0 -> nth m t0 default)

(** val map : ('a1 -> 'a2) -> 'a1 list -> 'a2 list **)

let rec map f = function
| [] -> []
| a :: t0 -> (f a) :: (map f t0)

(** val flat_map : ('a1 -> 'a2 list) -> 'a1 list -> 'a2 list **)

let rec flat_map f = function
| [] -> []
| x :: t0 -> app (f x) (flat_map f t0)

(** val fold_right : ('a2 -> 'a1 -> 'a1) -> 'a1 -> 'a2 list -> 'a1 **)

let rec fold_right f a0 = function
| [] -> a0
| b :: t0 -> f b (fold_right f a0 t0)

(** val existsb : ('a1 -> bool) -> 'a1 list -> bool **)

let rec existsb f = function
| [] -> false
| a :: l0 -> (||) (f a) (existsb f l0)

(** val forallb : ('a1 -> bool) -> 'a1 list -> bool **)

let rec forallb f = function
| [] -> true
| a :: l0 -> (&&) (f a) (forallb f l0)

(** val firstn : nat -> 'a1 list -> 'a1 list **)

let rec firstn n0 l =
  match n0 with
  | O -> []
  | S n1 -> (match l with
             | [] -> []
             | a :: l0 -> a :: (firstn n1 l0))

(** val skipn : nat -> 'a1 list -> 'a1 list **)

let rec skipn n0 l =
  match n0 with
  | O -> l
  | S n1 -> (match l with
             | [] -> []
             | _ :: l0 -> skipn n1 l0)

type positive =
| XI of positive
| XO of positive
| XH

type n =
| N0
| Npos of positive

module Pos =
 struct
  type mask =
  | IsNul
  | IsPos of positive
  | IsNeg
 end

module Coq_Pos =
 struct
  (** val succ : positive -> positive **)

  let rec succ = function
  | XI p -> XO (succ p)
  | XO p -> XI p
  | XH -> XO XH

  (** val add : positive -> positive -> positive **)

  let rec add x y =
    match x with
    | XI p ->
      (match y with
       | XI q -> XO (add_carry p q)
       | XO q -> XI (add p q)
       | XH -> XO (succ p))
    | XO p ->
      (match y with
       | XI q -> XI (add p q)
       | XO q -> XO (add p q)
       | XH -> XI p)
    | XH -> (match y with
             | XI q -> XO (succ q)
             | XO q -> XI q
             | XH -> XO XH)

  (** val add_carry : positive -> positive -> positive **)

  and add_carry x y =
    match x with
    | XI p ->
      (match y with
       | XI q -> XI (add_carry p q)
       | XO q -> XO (add_carry p q)
       | XH -> XI (succ p))
    | XO p ->
      (match y with
       | XI q -> XO (add_carry p q)
       | XO q -> XI (add p q)
       | XH -> XO (succ p))
    | XH ->
      (match y with
       | XI q -> XI (succ q)
       | XO q -> XO (succ q)
       | XH -> XI XH)

  (** val pred_double : positive -> positive **)

  let rec pred_double = function
  | XI p -> XI (XO p)
  | XO p -> XI (pred_double p)
  | XH -> XH

  type mask = Pos.mask =
  | IsNul
  | IsPos of positive
  | IsNeg

  (** val succ_double_mask : mask -> mask **)

  let succ_double_mask = function
  | IsNul -> IsPos XH
  | IsPos p -> IsPos (XI p)
  | IsNeg -> IsNeg

  (** val double_mask : mask -> mask **)

  let double_mask = function
  | IsPos p -> IsPos (XO p)
  | x0 -> x0

  (** val double_pred_mask : positive -> mask **)

  let double_pred_mask = function
  | XI p -> IsPos (XO (XO p))
  | XO p -> IsPos (XO (pred_double p))
  | XH -> IsNul

  (** val sub_mask : positive -> positive -> mask **)

  let rec sub_mask x y =
    match x with
    | XI p ->
      (match y with
       | XI q -> double_mask (sub_mask p q)
       | XO q -> succ_double_mask (sub_mask p q)
       | XH -> IsPos (XO p))
    | XO p ->
      (match y with
       | XI q -> succ_double_mask (sub_mask_carry p q)
       | XO q -> double_mask (sub_mask p q)
       | XH -> IsPos (pred_double p))
    | XH -> (match y with
             | XH -> IsNul
             | _ -> IsNeg)

  (** val sub_mask_carry : positive -> positive -> mask **)

  and sub_mask_carry x y =
    match x with
    | XI p ->
      (match y with
       | XI q -> succ_double_mask (sub_mask_carry p q)
       | XO q -> double_mask (sub_mask p q)
       | XH -> IsPos (pred_double p))
    | XO p ->
      (match y with
       | XI q -> double_mask (sub_mask_carry p q)
       | XO q -> succ_double_mask (sub_mask_carry p q)
       | XH -> double_pred_mask p)
    | XH -> IsNeg

  (** val compare_cont : comparison -> positive -> positive -> comparison **)

  let rec compare_cont r x y =
    match x with
    | XI p ->
      (match y with
       | XI q -> compare_cont r p q
       | XO q -> compare_cont Gt p q
       | XH -> Gt)
    | XO p ->
      (match y with
       | XI q -> compare_cont Lt p q
       | XO q -> compare_cont r p q
       | XH -> Gt)
    | XH -> (match y with
             | XH -> r
             | _ -> Lt)

  (** val compare : positive -> positive -> comparison **)

  let compare =
    compare_cont Eq

  (** val eqb : positive -> positive -> bool **)

  let rec eqb p q =
    match p with
    | XI p0 -> (match q with
                | XI q0 -> eqb p0 q0
                | _ -> false)
    | XO p0 -> (match q with
                | XO q0 -> eqb p0 q0
                | _ -> false)
    | XH -> (match q with
             | XH -> true
             | _ -> false)

  (** val iter_op : ('a1 -> 'a1 -> 'a1) -> positive -> 'a1 -> 'a1 **)

  let rec iter_op op p a =
    match p with
    | XI p0 -> op a (iter_op op p0 (op a a))
    | XO p0 -> iter_op op p0 (op a a)
    | XH -> a

  (** val to_nat : positive -> nat **)

  let to_nat x =
    iter_op Coq__1.add x (S O)

  (** val of_succ_nat : nat -> positive **)

  let rec of_succ_nat = function
  | O -> XH
  | S x -> succ (of_succ_nat x)
 end

module N =
 struct
  (** val succ_double : n -> n **)

  let succ_double = function
  | N0 -> Npos XH
  | Npos p -> Npos (XI p)

  (** val double : n -> n **)

  let double = function
  | N0 -> N0
  | Npos p -> Npos (XO p)

  (** val succ_pos : n -> positive **)

  let succ_pos = function
  | N0 -> XH
  | Npos p -> Coq_Pos.succ p

  (** val add : n -> n -> n **)

  let add n0 m =
    match n0 with
    | N0 -> m
    | Npos p -> (match m with
                 | N0 -> n0
                 | Npos q -> Npos (Coq_Pos.add p q))

  (** val sub : n -> n -> n **)

  let sub n0 m =
    match n0 with
    | N0 -> N0
    | Npos n' ->
      (match m with
       | N0 -> n0
       | Npos m' ->
         (match Coq_Pos.sub_mask n' m' with
          | Coq_Pos.IsPos p -> Npos p
          | _ -> N0))

  (** val compare : n -> n -> comparison **)

  let compare n0 m =
    match n0 with
    | N0 -> (match m with
             | N0 -> Eq
             | Npos _ -> Lt)
    | Npos n' -> (match m with
                  | N0 -> Gt
                  | Npos m' -> Coq_Pos.compare n' m')

  (** val eqb : n -> n -> bool **)

  let eqb n0 m =
    match n0 with
    | N0 -> (match m with
             | N0 -> true
             | Npos _ -> false)
    | Npos p -> (match m with
                 | N0 -> false
                 | Npos q -> Coq_Pos.eqb p q)

  (** val leb : n -> n -> bool **)

  let leb x y =
    match compare x y with
    | Gt -> false
    | _ -> true

  (** val ltb : n -> n -> bool **)

  let ltb x y =
    match compare x y with
    | Lt -> true
    | _ -> false

  (** val pos_div_eucl : positive -> n -> n * n **)

  let rec pos_div_eucl a b =
    match a with
    | XI a' ->
      let (q, r) = pos_div_eucl a' b in
      let r' = succ_double r in
      if leb b r' then ((succ_double q), (sub r' b)) else ((double q), r')
    | XO a' ->
      let (q, r) = pos_div_eucl a' b in
      let r' = double r in
      if leb b r' then ((succ_double q), (sub r' b)) else ((double q), r')
    | XH ->
      (match b with
       | N0 -> (N0, (Npos XH))
       | Npos p -> (match p with
                    | XH -> ((Npos XH), N0)
                    | _ -> (N0, (Npos XH))))

  (** val div_eucl : n -> n -> n * n **)

  let div_eucl a b =
    match a with
    | N0 -> (N0, N0)
    | Npos na -> (match b with
                  | N0 -> (N0, a)
                  | Npos _ -> pos_div_eucl na b)

  (** val modulo : n -> n -> n **)

  let modulo a b =
    snd (div_eucl a b)

  (** val to_nat : n -> nat **)

  let to_nat = function
  | N0 -> O
  | Npos p -> Coq_Pos.to_nat p

  (** val of_nat : nat -> n **)

  let of_nat = function
  | O -> N0
  | S n' -> Npos (Coq_Pos.of_succ_nat n')
 end

(** val append : positive -> positive -> positive **)

let rec append i j =
  match i with
  | XI ii -> XI (append ii j)
  | XO ii -> XO (append ii j)
  | XH -> j

module PositiveMap =
 struct
  type key = positive

  type 'a tree =
  | Leaf
  | Node of 'a tree * 'a option * 'a tree

  type 'a t = 'a tree

  (** val empty : 'a1 t **)

  let empty =
    Leaf

  (** val find : key -> 'a1 t -> 'a1 option **)

  let rec find i = function
  | Leaf -> None
  | Node (l, o, r) ->
    (match i with
     | XI ii -> find ii r
     | XO ii -> find ii l
     | XH -> o)

  (** val add : key -> 'a1 -> 'a1 t -> 'a1 t **)

  let rec add i v = function
  | Leaf ->
    (match i with
     | XI ii -> Node (Leaf, None, (add ii v Leaf))
     | XO ii -> Node ((add ii v Leaf), None, Leaf)
     | XH -> Node (Leaf, (Some v), Leaf))
  | Node (l, o, r) ->
    (match i with
     | XI ii -> Node (l, o, (add ii v r))
     | XO ii -> Node ((add ii v l), o, r)
     | XH -> Node (l, (Some v), r))

  (** val xelements : 'a1 t -> key -> (key * 'a1) list **)

  let rec xelements m i =
    match m with
    | Leaf -> []
    | Node (l, o, r) ->
      (match o with
       | Some x ->
         app (xelements l (append i (XO XH))) ((i,
           x) :: (xelements r (append i (XI XH))))
       | None ->
         app (xelements l (append i (XO XH))) (xelements r (append i (XI XH))))

  (** val elements : 'a1 t -> (key * 'a1) list **)

  let elements m =
    xelements m XH

  (** val cardinal : 'a1 t -> nat **)

  let rec cardinal = function
  | Leaf -> O
  | Node (l, o, r) ->
    (match o with
     | Some _ -> S (Coq__1.add (cardinal l) (cardinal r))
     | None -> Coq__1.add (cardinal l) (cardinal r))
 end

type byte = n

type unit_ =
| UB of byte
| UEoi

type ranges = (n * n) list

(** val in_range : byte -> (n * n) -> bool **)

let in_range b r =
  (&&) (N.leb (fst r) b) (N.leb b (snd r))

(** val in_ranges : byte -> ranges -> bool **)

let in_ranges b rs =
  existsb (in_range b) rs

(** val upto : nat -> n list **)

let rec upto = function
| O -> []
| S m -> app (upto m) ((N.of_nat m) :: [])

(** val all_bytes : n list **)

let all_bytes =
  upto (S (S (S (S (S (S (S (S (S (S (S (S (S (S (S (S (S (S (S (S (S (S (S
    (S (S (S (S (S (S (S (S (S (S (S (S (S (S (S (S (S (S (S (S (S (S (S (S
    (S (S (S (S (S (S (S (S (S (S (S (S (S (S (S (S (S (S (S (S (S (S (S (S
    (S (S (S (S (S (S (S (S (S (S (S (S (S (S (S (S (S (S (S (S (S (S (S (S
    (S (S (S (S (S (S (S (S (S (S (S (S (S (S (S (S (S (S (S (S (S (S (S (S
    (S (S (S (S (S (S (S (S (S (S (S (S (S (S (S (S (S (S (S (S (S (S (S (S
    (S (S (S (S (S (S (S (S (S (S (S (S (S (S (S (S (S (S (S (S (S (S (S (S
    (S (S (S (S (S (S (S (S (S (S (S (S (S (S (S (S (S (S (S (S (S (S (S (S
    (S (S (S (S (S (S (S (S (S (S (S (S (S (S (S (S (S (S (S (S (S (S (S (S
    (S (S (S (S (S (S (S (S (S (S (S (S (S (S (S (S (S (S (S (S (S (S (S (S
    (S (S (S (S (S (S (S (S (S (S (S (S (S (S (S (S (S
    O))))))))))))))))))))))))))))))))))))))))))))))))))))))))))))))))))))))))))))))))))))))))))))))))))))))))))))))))))))))))))))))))))))))))))))))))))))))))))))))))))))))))))))))))))))))))))))))))))))))))))))))))))))))))))))))))))))))))))))))))))))))))))))))))

(** val all_units : unit_ list **)

let all_units =
  UEoi :: (map (fun x -> UB x) all_bytes)

type leaf = n

type qid = positive

type dstate = { d_trans : ((n * n) * qid) list; d_eoi : qid;
                d_match : leaf list }

type dfa = { d_states : dstate PositiveMap.t; d_start : qid; d_dead : 
             qid; d_prio : n list }

(** val run_lookup : ((n * n) * qid) list -> byte -> qid -> qid **)

let rec run_lookup t0 b dead =
  match t0 with
  | [] -> dead
  | p :: t' ->
    let (p0, n0) = p in
    let (lo, hi) = p0 in
    if (&&) (N.leb lo b) (N.leb b hi) then n0 else run_lookup t' b dead

(** val dstep : dfa -> qid -> unit_ -> qid **)

let dstep d q u =
  match PositiveMap.find q d.d_states with
  | Some st ->
    (match u with
     | UB b -> run_lookup st.d_trans b d.d_dead
     | UEoi -> st.d_eoi)
  | None -> d.d_dead

(** val dmatch : dfa -> qid -> leaf list **)

let dmatch d q =
  match PositiveMap.find q d.d_states with
  | Some st -> st.d_match
  | None -> []

(** val prio : dfa -> leaf -> n **)

let prio d l =
  nth (N.to_nat l) d.d_prio N0

type winner =
| WNone
| WOne of leaf
| WTie

(** val win_of : (leaf -> n) -> leaf list -> winner -> n -> winner **)

let rec win_of pr ms acc best =
  match ms with
  | [] -> acc
  | l :: ms' ->
    (match acc with
     | WNone -> win_of pr ms' (WOne l) (pr l)
     | _ ->
       if N.ltb best (pr l)
       then win_of pr ms' (WOne l) (pr l)
       else if N.eqb (pr l) best
            then win_of pr ms' WTie best
            else win_of pr ms' acc best)

(** val win : dfa -> qid -> winner **)

let win d q =
  win_of (prio d) (dmatch d q) WNone N0

type sid = positive

type gstate = { g_early : leaf option; g_accept : leaf option;
                g_edges : (ranges * sid) list; g_eoi : sid option }

type graph = { g_states : gstate PositiveMap.t; g_root : sid }

(** val gfind : graph -> sid -> gstate option **)

let gfind g s =
  PositiveMap.find s g.g_states

(** val edge_first : (ranges * sid) list -> byte -> sid option **)

let rec edge_first es b =
  match es with
  | [] -> None
  | p :: es' ->
    let (rs, t0) = p in if in_ranges b rs then Some t0 else edge_first es' b

type ctx = (leaf * n) option

type stop =
| Acted of ctx * n
| RetNone of bool
| Stuck
| Diverged

(** val record : gstate -> n -> ctx -> ctx **)

let record st off c =
  match st.g_early with
  | Some l -> Some (l, off)
  | None ->
    (match st.g_accept with
     | Some l -> Some (l, (N.sub off (Npos XH)))
     | None -> c)

(** val no_edges : gstate -> bool **)

let no_edges st =
  match st.g_edges with
  | [] -> true
  | _ :: _ -> false

(** val partial_mode_test : gstate -> bool **)

let partial_mode_test st =
  (||) (negb (no_edges st))
    (match st.g_eoi with
     | Some _ -> true
     | None -> false)

(** val at_eoi : graph -> bool -> n -> nat -> sid -> n -> ctx -> stop **)

let rec at_eoi g isprefix start hops s off c =
  match gfind g s with
  | Some st ->
    let c0 = record st off c in
    if (&&) (partial_mode_test st) isprefix
    then RetNone true
    else if (&&) (Coq_Pos.eqb s g.g_root) (N.eqb off start)
         then RetNone false
         else (match st.g_eoi with
               | Some t0 ->
                 (match hops with
                  | O -> Diverged
                  | S h ->
                    at_eoi g isprefix start h t0 (N.add off (Npos XH)) c0)
               | None -> Acted (c0, off))
  | None -> Stuck

(** val walk :
    graph -> bool -> n -> nat -> byte list -> sid -> n -> ctx -> stop **)

let rec walk g isprefix start hops rest s off c =
  match rest with
  | [] -> at_eoi g isprefix start hops s off c
  | b :: rest' ->
    (match gfind g s with
     | Some st ->
       let c0 = record st off c in
       (match edge_first st.g_edges b with
        | Some t0 ->
          walk g isprefix start hops rest' t0 (N.add off (Npos XH)) c0
        | None -> Acted (c0, off))
     | None -> Stuck)

(** val upd : ctx -> n -> winner -> ctx **)

let upd best k = function
| WOne l -> Some (l, k)
| _ -> best

(** val scan : dfa -> qid -> byte list -> n -> ctx -> ctx **)

let rec scan d q rest k best =
  match rest with
  | [] -> upd best k (win d (dstep d q UEoi))
  | b :: rest' ->
    let q' = dstep d q (UB b) in
    scan d q' rest' (N.add k (Npos XH)) (upd best k (win d q'))

type action =
| AEmit
| ASkip
| AErr
| ADefaultErr

type item =
| Item of bool * leaf option * n * n

type outcome =
| Yield of item * n
| Finished of n * n
| Broken

(** val nmax : n -> n -> n **)

let nmax a b =
  if N.ltb a b then b else a

(** val next_from :
    (bool -> n -> byte list -> stop) -> (leaf -> n -> n -> action * n) -> (n
    -> n) -> byte list -> bool -> nat -> n -> outcome **)

let rec next_from attempt act fb w isprefix fuel start =
  match fuel with
  | O -> Broken
  | S f ->
    (match attempt isprefix start (skipn (N.to_nat start) w) with
     | Acted (c, off) ->
       (match c with
        | Some p ->
          let (l, e) = p in
          let (a, bump) = act l start e in
          (match a with
           | AEmit ->
             Yield ((Item (true, (Some l), start, (N.add e bump))),
               (N.add e bump))
           | ASkip -> next_from attempt act fb w isprefix f (N.add e bump)
           | _ ->
             Yield ((Item (false, (Some l), start, (N.add e bump))),
               (N.add e bump)))
        | None ->
          let e = fb (nmax off (N.add start (Npos XH))) in
          Yield ((Item (false, None, start, e)), e))
     | RetNone _ -> Finished (start, start)
     | _ -> Broken)

(** val lex_from :
    (bool -> n -> byte list -> stop) -> (leaf -> n -> n -> action * n) -> (n
    -> n) -> byte list -> bool -> nat -> n -> item list * outcome **)

let rec lex_from attempt act fb w isprefix fuel start =
  match fuel with
  | O -> ([], Broken)
  | S f ->
    (match next_from attempt act fb w isprefix (S (length w)) start with
     | Yield (it, e) ->
       let (its, fin) = lex_from attempt act fb w isprefix f e in
       ((it :: its), fin)
     | x -> ([], x))

(** val lex_all :
    (bool -> n -> byte list -> stop) -> (leaf -> n -> n -> action * n) -> (n
    -> n) -> byte list -> bool -> item list * outcome **)

let lex_all attempt act fb w isprefix =
  lex_from attempt act fb w isprefix (S (S (length w))) N0

(** val hops_of : graph -> nat **)

let hops_of g =
  S (S (PositiveMap.cardinal g.g_states))

(** val attempt_ref : graph -> bool -> n -> byte list -> stop **)

let attempt_ref g isprefix start rest =
  walk g isprefix start (hops_of g) rest g.g_root start None

(** val viable_end : dfa -> (qid -> bool) -> qid -> byte list -> n -> n **)

let rec viable_end d lv q rest k =
  match rest with
  | [] -> k
  | b :: rest' ->
    let q' = dstep d q (UB b) in
    if lv q' then viable_end d lv q' rest' (N.add k (Npos XH)) else k

(** val attempt_spec :
    dfa -> (qid -> bool) -> bool -> n -> byte list -> stop **)

let attempt_spec d lv _ start rest = match rest with
| [] -> RetNone false
| _ :: _ ->
  Acted ((scan d d.d_start rest start None),
    (viable_end d lv d.d_start rest start))

type pairing = qid list PositiveMap.t

(** val inV : pairing -> sid -> qid -> bool **)

let inV v s q =
  match PositiveMap.find s v with
  | Some l -> existsb (Coq_Pos.eqb q) l
  | None -> false

(** val is_none : 'a1 option -> bool **)

let is_none = function
| Some _ -> false
| None -> true

(** val win_is : winner -> leaf -> bool **)

let win_is wn l =
  match wn with
  | WOne l' -> N.eqb l' l
  | _ -> false

(** val win_none : winner -> bool **)

let win_none = function
| WNone -> true
| _ -> false

(** val win_tie : winner -> bool **)

let win_tie = function
| WTie -> true
| _ -> false

type pset = unit PositiveMap.t

(** val pmem : qid -> pset -> bool **)

let pmem q s =
  match PositiveMap.find q s with
  | Some _ -> true
  | None -> false

(** val nomatch : dfa -> qid -> bool **)

let nomatch d q =
  match dmatch d q with
  | [] -> true
  | _ :: _ -> false

(** val dfa_ok : dfa -> bool **)

let dfa_ok d =
  (&&)
    ((&&)
      ((&&) (is_none (PositiveMap.find d.d_dead d.d_states))
        (nomatch d d.d_start))
      (forallb (fun u -> nomatch d (dstep d d.d_start u)) all_units))
    (forallb (fun kv -> negb (win_tie (win d (fst kv))))
      (PositiveMap.elements d.d_states))

(** val dead_ok : dfa -> pset -> bool **)

let dead_ok d d0 =
  forallb (fun kv ->
    let q = fst kv in
    (&&) (forallb (fun u -> nomatch d (dstep d q u)) all_units)
      (forallb (fun b -> pmem (dstep d q (UB b)) d0) all_bytes))
    (PositiveMap.elements d0)

type rankmap = n PositiveMap.t

(** val rank_ok : dfa -> rankmap -> bool **)

let rank_ok d r =
  forallb (fun kv ->
    let q = fst kv in
    let r0 = snd kv in
    (||) (existsb (fun u -> negb (nomatch d (dstep d q u))) all_units)
      (existsb (fun b ->
        match PositiveMap.find (dstep d q (UB b)) r with
        | Some r' -> N.ltb r' r0
        | None -> false) all_bytes)) (PositiveMap.elements r)

(** val lv_of : rankmap -> qid -> bool **)

let lv_of r q =
  match PositiveMap.find q r with
  | Some _ -> true
  | None -> false

(** val classify_ok : dfa -> rankmap -> pset -> bool **)

let classify_ok d r d0 =
  (&&)
    (forallb (fun kv -> (||) (lv_of r (fst kv)) (pmem (fst kv) d0))
      (PositiveMap.elements d.d_states)) (pmem d.d_dead d0)

(** val terminal : graph -> sid -> bool **)

let terminal g t0 =
  match gfind g t0 with
  | Some st ->
    (&&) ((&&) (no_edges st) (is_none st.g_eoi)) (is_none st.g_early)
  | None -> false

(** val pending_ok : dfa -> gstate -> gstate -> qid -> bool **)

let pending_ok d st st' q' =
  match st.g_early with
  | Some _ -> true
  | None ->
    (match st'.g_early with
     | Some _ -> true
     | None ->
       (match st'.g_accept with
        | Some _ -> true
        | None -> win_none (win d q')))

(** val byte_ok :
    dfa -> graph -> pairing -> pset -> gstate -> qid -> byte -> bool **)

let byte_ok d g v d0 st q b =
  let q' = dstep d q (UB b) in
  (match edge_first st.g_edges b with
   | Some t0 ->
     (match gfind g t0 with
      | Some st' -> (&&) (inV v t0 q') (pending_ok d st st' q')
      | None -> false)
   | None ->
     (&&) (pmem q' d0)
       ((||) (win_none (win d q')) (negb (is_none st.g_early))))

(** val eoi_ok : dfa -> graph -> pairing -> gstate -> qid -> bool **)

let eoi_ok d g v st q =
  let q' = dstep d q UEoi in
  (match st.g_eoi with
   | Some t0 ->
     (match gfind g t0 with
      | Some st' ->
        (&&) ((&&) (inV v t0 q') (terminal g t0)) (pending_ok d st st' q')
      | None -> false)
   | None -> (||) (win_none (win d q')) (negb (is_none st.g_early)))

(** val pair_ok : dfa -> graph -> pairing -> pset -> sid -> qid -> bool **)

let pair_ok d g v d0 s q =
  match gfind g s with
  | Some st ->
    (&&)
      ((&&)
        (match st.g_early with
         | Some l ->
           forallb (fun u -> win_is (win d (dstep d q u)) l) all_units
         | None ->
           (match st.g_accept with
            | Some l -> win_is (win d q) l
            | None -> true)) (forallb (byte_ok d g v d0 st q) all_bytes))
      (eoi_ok d g v st q)
  | None -> false

(** val sim_ok : dfa -> graph -> pairing -> pset -> bool **)

let sim_ok d g v d0 =
  (&&) ((&&) (inV v g.g_root d.d_start) (dead_ok d d0))
    (forallb (fun kv -> forallb (pair_ok d g v d0 (fst kv)) (snd kv))
      (PositiveMap.elements v))

(** val exact_pair : dfa -> graph -> rankmap -> sid -> qid -> bool **)

let exact_pair d g r s q =
  match gfind g s with
  | Some st ->
    (&&)
      (forallb (fun b ->
        match edge_first st.g_edges b with
        | Some _ ->
          let q' = dstep d q (UB b) in (||) (lv_of r q') (negb (nomatch d q'))
        | None -> true) all_bytes)
      (match st.g_eoi with
       | Some _ -> negb (nomatch d (dstep d q UEoi))
       | None -> true)
  | None -> false

(** val exact_ok : dfa -> graph -> pairing -> rankmap -> pset -> bool **)

let exact_ok d g v r d0 =
  (&&) ((&&) (rank_ok d r) (classify_ok d r d0))
    (forallb (fun kv -> forallb (exact_pair d g r (fst kv)) (snd kv))
      (PositiveMap.elements v))

(** val count_edges : (ranges * sid) list -> byte -> nat **)

let rec count_edges es b =
  match es with
  | [] -> O
  | p :: es' ->
    let (rs, _) = p in
    add (if in_ranges b rs then S O else O) (count_edges es' b)

(** val wf_state : gstate -> bool **)

let wf_state st =
  forallb (fun b -> leb (count_edges st.g_edges b) (S O)) all_bytes

(** val wf_graph : graph -> bool **)

let wf_graph g =
  forallb (fun kv -> wf_state (snd kv)) (PositiveMap.elements g.g_states)

(** val pid : n -> positive **)

let pid =
  N.succ_pos

(** val mk_map :
    ('a1 -> positive) -> ('a1 * 'a2) list -> 'a2 PositiveMap.t **)

let mk_map key0 l =
  fold_right (fun kv m -> PositiveMap.add (key0 (fst kv)) (snd kv) m)
    PositiveMap.empty l

(** val mk_dstate :
    (((n * ((n * n) * n) list) * n) * n list) -> n * dstate **)

let mk_dstate = function
| (p, ms) ->
  let (p0, e) = p in
  let (q, tr) = p0 in
  (q, { d_trans = (map (fun r -> let (y, t0) = r in (y, (pid t0))) tr);
  d_eoi = (pid e); d_match = ms })

(** val mk_dfa :
    (((n * ((n * n) * n) list) * n) * n list) list -> n -> n list -> dfa **)

let mk_dfa sts start prios =
  { d_states = (mk_map pid (map mk_dstate sts)); d_start = (pid start);
    d_dead = (pid N0); d_prio = prios }

(** val mk_gstate :
    ((((n * n option) * n option) * (ranges * n) list) * n option) ->
    n * gstate **)

let mk_gstate = function
| (p, eo) ->
  let (p0, es) = p in
  let (p1, ac) = p0 in
  let (s, ea) = p1 in
  (s, { g_early = ea; g_accept = ac; g_edges =
  (map (fun e -> ((fst e), (pid (snd e)))) es); g_eoi = (option_map pid eo) })

(** val mk_graph :
    ((((n * n option) * n option) * (ranges * n) list) * n option) list -> n
    -> graph **)

let mk_graph sts root =
  { g_states = (mk_map pid (map mk_gstate sts)); g_root = (pid root) }

(** val mk_pairing : (n * n list) list -> pairing **)

let mk_pairing l =
  mk_map pid (map (fun kv -> ((fst kv), (map pid (snd kv)))) l)

(** val mk_pset : n list -> pset **)

let mk_pset l =
  mk_map pid (map (fun q -> (q, ())) l)

(** val mk_rank : (n * n) list -> rankmap **)

let mk_rank l =
  mk_map pid l

(** val is_cont : byte -> bool **)

let is_cont b =
  (&&) (N.leb (Npos (XO (XO (XO (XO (XO (XO (XO XH)))))))) b)
    (N.ltb b (Npos (XO (XO (XO (XO (XO (XO (XI XH)))))))))

(** val fb_rest : byte list -> n -> n **)

let rec fb_rest rest i =
  match rest with
  | [] -> i
  | b :: r -> if is_cont b then fb_rest r (N.add i (Npos XH)) else i

(** val fb_str : byte list -> n -> n **)

let fb_str w i =
  fb_rest (skipn (N.to_nat i) w) i

(** val fb_of : bool -> byte list -> n -> n **)

let fb_of utf8 w =
  if utf8 then fb_str w else (fun i -> i)

(** val sum_bytes : byte list -> n **)

let rec sum_bytes = function
| [] -> N0
| b :: r -> N.add b (sum_bytes r)

(** val slice : byte list -> n -> n -> byte list **)

let slice w s e =
  firstn (N.to_nat (N.sub e s)) (skipn (N.to_nat s) w)

(** val act_of : n list -> byte list -> leaf -> n -> n -> action * n **)

let act_of codes w l s e =
  match nth (N.to_nat l) codes N0 with
  | N0 -> (AEmit, N0)
  | Npos p ->
    (match p with
     | XH -> (ASkip, N0)
     | _ ->
       let k =
         N.modulo (N.add (sum_bytes (slice w s e)) (N.sub e s)) (Npos (XO (XO
           XH)))
       in
       ((match k with
         | N0 -> AEmit
         | Npos p0 ->
           (match p0 with
            | XI _ -> ADefaultErr
            | XO p1 -> (match p1 with
                        | XH -> AErr
                        | _ -> ADefaultErr)
            | XH -> ASkip)), N0))

(** val enc_item : item -> n list **)

let enc_item = function
| Item (ok, l, s, e) ->
  (if ok then Npos XH else N0) :: ((match l with
                                    | Some l0 -> N.add l0 (Npos XH)
                                    | None -> N0) :: (s :: (e :: [])))

(** val enc_result : (item list * outcome) -> n list **)

let enc_result r =
  app (flat_map enc_item (fst r))
    (match snd r with
     | Yield (_, _) -> (Npos (XO (XO XH))) :: []
     | Finished (s, e) -> (Npos (XO XH)) :: (s :: (e :: []))
     | Broken -> (Npos (XI XH)) :: [])

(** val run_ref : graph -> bool -> n list -> bool -> byte list -> n list **)

let run_ref g utf8 codes isprefix w =
  enc_result
    (lex_all (attempt_ref g) (act_of codes w) (fb_of utf8 w) w isprefix)

(** val run_spec : dfa -> rankmap -> bool -> n list -> byte list -> n list **)

let run_spec d r utf8 codes w =
  enc_result
    (lex_all (attempt_spec d (lv_of r)) (act_of codes w) (fb_of utf8 w) w
      false)
