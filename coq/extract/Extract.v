(* Extraction of the executable model for the bulk correspondence check.
   Only ExtrOcamlBasic is used: bool, option, list, prod, unit, sumbool map to OCaml's;
   N, positive, nat stay the extracted inductives. *)
From Coq Require Extraction.
From Coq Require Import ExtrOcamlBasic.
From Coq Require Import List NArith PArith FMapPositive.
From LogosV Require Import Engine.Model Engine.Cert Engine.Build Engine.ExecOpt Engine.GraphBuild Engine.ByteClass Engine.Prog Engine.Dedup Engine.Rename Engine.Run Engine.DfaEquiv Runtime.LexerApi.
Extraction Language OCaml.
Extraction "model.ml" run_ref run_spec run_next_ref run_next_spec run_opt run_opt_trace lex_all attempt_opt act_of fb_of region_starts mk_dfa mk_graph mk_rank mk_pairing mk_pset
  dfa_ok sim_ok exact_ok wf_graph prompt_ok prompt_strict_ok utf8_ok utf8_strict_ok mk_upairs dead_ok ties reach_ok mk_reach bisim_ok run_history build_checked gsim_ok gsim_pair rename_graph leaf_map mk_prog prog_ok run_prog dedup edge_first gfind all_bytes wf_graph closed_graph.
