
val negb : bool -> bool

type nat =
| O
| S of nat

val option_map : ('a1 -> 'a2) -> 'a1 option -> 'a2 option

val fst : ('a1 * 'a2) -> 'a1

val snd : ('a1 * 'a2) -> 'a2

val length : 'a1 list -> nat

val app : 'a1 list -> 'a1 list -> 'a1 list

type comparison =
| Eq
| Lt
| Gt

val add : nat -> nat -> nat

val leb : nat -> nat -> bool

val nth : nat -> 'a1 list -> 'a1 -> 'a1

val map : ('a1 -> 'a2) -> 'a1 list -> 'a2 list

val flat_map : ('a1 -> 'a2 list) -> 'a1 list -> 'a2 list

val fold_right : ('a2 -> 'a1 -> 'a1) -> 'a1 -> 'a2 list -> 'a1

val existsb : ('a1 -> bool) -> 'a1 list -> bool

val forallb : ('a1 -> bool) -> 'a1 list -> bool

val firstn : nat -> 'a1 list -> 'a1 list

val skipn : nat -> 'a1 list -> 'a1 list

type positive =
| XI of positive
| XO of positive
| XH

type n =
| N0
| Npos of positive

module Pos :
 sig
  type mask =
  | IsNul
  | IsPos of positive
  | IsNeg
 end

module Coq_Pos :
 sig
  val succ : positive -> positive

  val add : positive -> positive -> positive

  val add_carry : positive -> positive -> positive

  val pred_double : positive -> positive

  type mask = Pos.mask =
  | IsNul
  | IsPos of positive
  | IsNeg

  val succ_double_mask : mask -> mask

  val double_mask : mask -> mask

  val double_pred_mask : positive -> mask

  val sub_mask : positive -> positive -> mask

  val sub_mask_carry : positive -> positive -> mask

  val compare_cont : comparison -> positive -> positive -> comparison

  val compare : positive -> positive -> comparison

  val eqb : positive -> positive -> bool

  val iter_op : ('a1 -> 'a1 -> 'a1) -> positive -> 'a1 -> 'a1

  val to_nat : positive -> nat

  val of_succ_nat : nat -> positive
 end

module N :
 sig
  val succ_double : n -> n

  val double : n -> n

  val succ_pos : n -> positive

  val add : n -> n -> n

  val sub : n -> n -> n

  val compare : n -> n -> comparison

  val eqb : n -> n -> bool

  val leb : n -> n -> bool

  val ltb : n -> n -> bool

  val pos_div_eucl : positive -> n -> n * n

  val div_eucl : n -> n -> n * n

  val modulo : n -> n -> n

  val to_nat : n -> nat

  val of_nat : nat -> n
 end

val append : positive -> positive -> positive

module PositiveMap :
 sig
  type key = positive

  type 'a tree =
  | Leaf
  | Node of 'a tree * 'a option * 'a tree

  type 'a t = 'a tree

  val empty : 'a1 t

  val find : key -> 'a1 t -> 'a1 option

  val add : key -> 'a1 -> 'a1 t -> 'a1 t

  val xelements : 'a1 t -> key -> (key * 'a1) list

  val elements : 'a1 t -> (key * 'a1) list

  val cardinal : 'a1 t -> nat
 end

type byte = n

type unit_ =
| UB of byte
| UEoi

type ranges = (n * n) list

val in_range : byte -> (n * n) -> bool

val in_ranges : byte -> ranges -> bool

val upto : nat -> n list

val all_bytes : n list

val all_units : unit_ list

type leaf = n

type qid = positive

type dstate = { d_trans : ((n * n) * qid) list; d_eoi : qid;
                d_match : leaf list }

type dfa = { d_states : dstate PositiveMap.t; d_start : qid; d_dead : 
             qid; d_prio : n list }

val run_lookup : ((n * n) * qid) list -> byte -> qid -> qid

val dstep : dfa -> qid -> unit_ -> qid

val dmatch : dfa -> qid -> leaf list

val prio : dfa -> leaf -> n

type winner =
| WNone
| WOne of leaf
| WTie

val win_of : (leaf -> n) -> leaf list -> winner -> n -> winner

val win : dfa -> qid -> winner

type sid = positive

type gstate = { g_early : leaf option; g_accept : leaf option;
                g_edges : (ranges * sid) list; g_eoi : sid option }

type graph = { g_states : gstate PositiveMap.t; g_root : sid }

val gfind : graph -> sid -> gstate option

val edge_first : (ranges * sid) list -> byte -> sid option

type ctx = (leaf * n) option

type stop =
| Acted of ctx * n
| RetNone of bool
| Stuck
| Diverged

val record : gstate -> n -> ctx -> ctx

val no_edges : gstate -> bool

val partial_mode_test : gstate -> bool

val at_eoi : graph -> bool -> n -> nat -> sid -> n -> ctx -> stop

val walk : graph -> bool -> n -> nat -> byte list -> sid -> n -> ctx -> stop

val upd : ctx -> n -> winner -> ctx

val scan : dfa -> qid -> byte list -> n -> ctx -> ctx

type action =
| AEmit
| ASkip
| AErr
| ADefaultErr

type item =
| Item of bool * leaf option * n * n

type outcome =
| Yield of item * n
| Finished of n * n
| Broken

val nmax : n -> n -> n

val next_from :
  (bool -> n -> byte list -> stop) -> (leaf -> n -> n -> action * n) -> (n ->
  n) -> byte list -> bool -> nat -> n -> outcome

val lex_from :
  (bool -> n -> byte list -> stop) -> (leaf -> n -> n -> action * n) -> (n ->
  n) -> byte list -> bool -> nat -> n -> item list * outcome

val lex_all :
  (bool -> n -> byte list -> stop) -> (leaf -> n -> n -> action * n) -> (n ->
  n) -> byte list -> bool -> item list * outcome

val hops_of : graph -> nat

val attempt_ref : graph -> bool -> n -> byte list -> stop

val viable_end : dfa -> (qid -> bool) -> qid -> byte list -> n -> n

val attempt_spec : dfa -> (qid -> bool) -> bool -> n -> byte list -> stop

type pairing = qid list PositiveMap.t

val inV : pairing -> sid -> qid -> bool

val is_none : 'a1 option -> bool

val win_is : winner -> leaf -> bool

val win_none : winner -> bool

val win_tie : winner -> bool

type pset = unit PositiveMap.t

val pmem : qid -> pset -> bool

val nomatch : dfa -> qid -> bool

val dfa_ok : dfa -> bool

val dead_ok : dfa -> pset -> bool

type rankmap = n PositiveMap.t

val rank_ok : dfa -> rankmap -> bool

val lv_of : rankmap -> qid -> bool

val classify_ok : dfa -> rankmap -> pset -> bool

val terminal : graph -> sid -> bool

val pending_ok : dfa -> gstate -> gstate -> qid -> bool

val byte_ok : dfa -> graph -> pairing -> pset -> gstate -> qid -> byte -> bool

val eoi_ok : dfa -> graph -> pairing -> gstate -> qid -> bool

val pair_ok : dfa -> graph -> pairing -> pset -> sid -> qid -> bool

val sim_ok : dfa -> graph -> pairing -> pset -> bool

val exact_pair : dfa -> graph -> rankmap -> sid -> qid -> bool

val exact_ok : dfa -> graph -> pairing -> rankmap -> pset -> bool

val count_edges : (ranges * sid) list -> byte -> nat

val wf_state : gstate -> bool

val wf_graph : graph -> bool

val pid : n -> positive

val mk_map : ('a1 -> positive) -> ('a1 * 'a2) list -> 'a2 PositiveMap.t

val mk_dstate : (((n * ((n * n) * n) list) * n) * n list) -> n * dstate

val mk_dfa :
  (((n * ((n * n) * n) list) * n) * n list) list -> n -> n list -> dfa

val mk_gstate :
  ((((n * n option) * n option) * (ranges * n) list) * n option) -> n * gstate

val mk_graph :
  ((((n * n option) * n option) * (ranges * n) list) * n option) list -> n ->
  graph

val mk_pairing : (n * n list) list -> pairing

val mk_pset : n list -> pset

val mk_rank : (n * n) list -> rankmap

val is_cont : byte -> bool

val fb_rest : byte list -> n -> n

val fb_str : byte list -> n -> n

val fb_of : bool -> byte list -> n -> n

val sum_bytes : byte list -> n

val slice : byte list -> n -> n -> byte list

val act_of : n list -> byte list -> leaf -> n -> n -> action * n

val enc_item : item -> n list

val enc_result : (item list * outcome) -> n list

val run_ref : graph -> bool -> n list -> bool -> byte list -> n list

val run_spec : dfa -> rankmap -> bool -> n list -> byte list -> n list
