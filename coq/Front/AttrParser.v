(* Front/AttrParser.v — model of the hand-written attribute tokenizer
   logos-codegen/src/parser/nested.rs (AttributeParser, Iterator::next) over token trees, statement
   by statement: each match arm is one branch.  [fixed] selects the code after the repair of finding
   F5 (parse_group consumes the separator that follows a `name(...)` item); [fixed = false] is the
   code as it was. *)
From Coq Require Import List NArith Bool Lia.
Import ListNotations.
Local Open Scope N_scope.

Inductive tok :=
| TIdent (s : list N)
| TPunct (c : N) (joint : bool)         (* joint = Spacing::Joint *)
| TLit (s : list N)
| TGroup (delim : N) (ts : list tok).

Inductive nested :=
| Unnamed (ts : list tok)
| Unexpected (ts : list tok)
| NAssign (name : list N) (ts : list tok)
| NLiteral (name : list N) (lit : list N)
| NGroup (name : list N) (ts : list tok)
| NKeyword (name kw : list N) (ts : list tok).

(* util.rs is_punct: the char, and Spacing::Alone *)
Definition is_punct (t : tok) (c : N) : bool :=
  match t with TPunct c' false => c' =? c | _ => false end.
Definition comma := 44.
Definition eq_sign := 61.

(* collect_tail: tokens up to (not including) the next Alone comma, which is consumed *)
Fixpoint collect_tail (ts : list tok) : list tok * list tok :=
  match ts with
  | [] => ([], [])
  | t :: r => if is_punct t comma then ([], r) else let (a, b) := collect_tail r in (t :: a, b)
  end.

(* one call of Iterator::next; returns the item and the remaining tokens *)
Definition next_item (fixed : bool) (ts : list tok) : option (nested * list tok) :=
  match ts with
  | [] => None
  | TIdent name :: r =>
      match r with
      | [] => Some (Unnamed [TIdent name], [])                       (* next_tt() = None: end *)
      | t :: r' =>
          if is_punct t comma then Some (Unnamed [TIdent name], r')  (* next_tt() = None: separator consumed *)
          else if is_punct t eq_sign then
            let (v, rest) := collect_tail r' in Some (NAssign name v, rest)
          else match t with
               | TLit l => let (_, rest) := collect_tail r' in Some (NLiteral name l, rest)
               | TGroup _ g =>
                   if fixed then let (_, rest) := collect_tail r' in Some (NGroup name g, rest)
                   else Some (NGroup name g, r')
               | TIdent kw =>
                   (* parse_keyword: expect_punct(next_tt(), '=') *)
                   match r' with
                   | [] => let (v, rest) := collect_tail [] in Some (NKeyword name kw v, rest)
                   | t2 :: r'' =>
                       if is_punct t2 comma then Some (NKeyword name kw [], r'')
                       else if is_punct t2 eq_sign then
                         let (v, rest) := collect_tail r'' in Some (NKeyword name kw v, rest)
                       else let (v, rest) := collect_tail r'' in Some (Unexpected (t2 :: v), rest)
                   end
               | _ => let (v, rest) := collect_tail r' in Some (Unnamed (TIdent name :: t :: v), rest)
               end
      end
  | t :: r => let (v, rest) := collect_tail r in Some (Unnamed (t :: v), rest)
  end.

(* the whole iterator; fuel >= length ts + 1 *)
Fixpoint parse_all (fixed : bool) (fuel : nat) (ts : list tok) : list nested :=
  match fuel with
  | O => []
  | S f => match next_item fixed ts with
           | None => []
           | Some (it, rest) => it :: parse_all fixed f rest
           end
  end.

(* ---------- well-formed items as the documentation allows them ---------- *)
(* no Alone comma at top level *)
Definition comma_free (ts : list tok) : Prop := Forall (fun t => is_punct t comma = false) ts.

Inductive item :=
| IAssign (name : list N) (v : list tok)              (* name = tokens            e.g. priority = 3 *)
| IGroup (name : list N) (g : list tok)               (* name(tokens)             e.g. ignore(case) *)
| ILit (name : list N) (l : list N)                   (* name "literal"           e.g. skip "re" *)
| IKeyword (name kw : list N) (v : list tok)          (* name ident = tokens      e.g. subpattern x = "re" *)
| IPos (ts : list tok).                               (* positional: closure / path / literal *)

Definition item_ok (it : item) : Prop :=
  match it with
  | IAssign _ v => comma_free v
  | IGroup _ _ => True
  | ILit _ _ => True
  | IKeyword _ _ v => comma_free v
  | IPos ts => comma_free ts /\
               match ts with
               | [] => False
               | TIdent _ :: [] => True                                   (* a lone identifier *)
               | TIdent _ :: t :: _ => is_punct t eq_sign = false /\
                                       match t with TPunct _ _ => True | _ => False end   (* a path a::b *)
               | _ :: _ => True                                           (* closure, literal, ... *)
               end
  end.

Definition render (it : item) : list tok :=
  match it with
  | IAssign n v => TIdent n :: TPunct eq_sign false :: v
  | IGroup n g => [TIdent n; TGroup 0 g]
  | ILit n l => [TIdent n; TLit l]
  | IKeyword n k v => TIdent n :: TIdent k :: TPunct eq_sign false :: v
  | IPos ts => ts
  end.

Definition sem (it : item) : nested :=
  match it with
  | IAssign n v => NAssign n v
  | IGroup n g => NGroup n g
  | ILit n l => NLiteral n l
  | IKeyword n k v => NKeyword n k v
  | IPos ts => Unnamed ts
  end.

Fixpoint join (its : list item) : list tok :=
  match its with
  | [] => []
  | [it] => render it
  | it :: r => render it ++ TPunct comma false :: join r
  end.

(* ---------- Definition::named_attr (parser/definition.rs:76-150), abstractly ----------
   Each named argument sets one field of the definition; setting a field twice, or an unknown /
   ill-shaped argument, records an error.  Values stay token lists (their parsing is syn's). *)
Record defn := { f_prio : option (list tok); f_cb : option (list tok); f_icase : bool;
                 f_greedy : option (list tok); f_errs : N }.
Definition defn0 : defn := {| f_prio := None; f_cb := None; f_icase := false; f_greedy := None; f_errs := 0 |}.

Definition s_priority := [112;114;105;111;114;105;116;121].
Definition s_callback := [99;97;108;108;98;97;99;107].
Definition s_ignore := [105;103;110;111;114;101].
Definition s_allow_greedy := [97;108;108;111;119;95;103;114;101;101;100;121].
Fixpoint bytes_eqb (a b : list N) : bool :=
  match a, b with [], [] => true | x :: a', y :: b' => (x =? y) && bytes_eqb a' b' | _, _ => false end.

Inductive fld := FPrio | FCb | FIgnore | FGreedy.
Definition field_of (n : nested) : option fld :=
  match n with
  | NAssign name _ => if bytes_eqb name s_priority then Some FPrio
                      else if bytes_eqb name s_callback then Some FCb
                      else if bytes_eqb name s_allow_greedy then Some FGreedy else None
  | NGroup name _ => if bytes_eqb name s_ignore then Some FIgnore else None
  | _ => None
  end.

Definition err (d : defn) : defn :=
  {| f_prio := f_prio d; f_cb := f_cb d; f_icase := f_icase d; f_greedy := f_greedy d; f_errs := f_errs d + 1 |}.

Definition named_attr (d : defn) (n : nested) : defn :=
  match field_of n, n with
  | Some FPrio, NAssign _ v =>
      let d' := {| f_prio := Some v; f_cb := f_cb d; f_icase := f_icase d; f_greedy := f_greedy d; f_errs := f_errs d |} in
      match f_prio d with Some _ => err d' | None => d' end
  | Some FCb, NAssign _ v =>
      let d' := {| f_prio := f_prio d; f_cb := Some v; f_icase := f_icase d; f_greedy := f_greedy d; f_errs := f_errs d |} in
      match f_cb d with Some _ => err d' | None => d' end
  | Some FGreedy, NAssign _ v =>
      let d' := {| f_prio := f_prio d; f_cb := f_cb d; f_icase := f_icase d; f_greedy := Some v; f_errs := f_errs d |} in
      match f_greedy d with Some _ => err d' | None => d' end
  | Some FIgnore, NGroup _ _ =>
      {| f_prio := f_prio d; f_cb := f_cb d; f_icase := true; f_greedy := f_greedy d; f_errs := f_errs d |}
  | _, _ => err d
  end.

(* ---------- encoding for the correspondence check ---------- *)
Fixpoint enc_tok (t : tok) : list N :=
  match t with
  | TIdent s => 1 :: N.of_nat (length s) :: s
  | TPunct c j => [2; c; if j then 1 else 0]
  | TLit s => 3 :: N.of_nat (length s) :: s
  | TGroup d ts => 4 :: d :: N.of_nat (length ts) :: flat_map enc_tok ts
  end.
Definition enc_toks (ts : list tok) : list N := N.of_nat (length ts) :: flat_map enc_tok ts.
Definition enc_bytes (s : list N) : list N := N.of_nat (length s) :: s.
Definition enc_nested (n : nested) : list N :=
  match n with
  | Unnamed ts => 10 :: enc_toks ts
  | Unexpected ts => 11 :: enc_toks ts
  | NAssign name ts => 12 :: enc_bytes name ++ enc_toks ts
  | NLiteral name l => 13 :: enc_bytes name ++ enc_bytes l
  | NGroup name ts => 14 :: enc_bytes name ++ enc_toks ts
  | NKeyword name kw ts => 15 :: enc_bytes name ++ enc_bytes kw ++ enc_toks ts
  end.
Definition run_parse (ts : list tok) : list N := flat_map enc_nested (parse_all true (S (length ts)) ts).
