(* Front/Strip.v — the derive-list rewriting of logos_codegen::strip_attributes (lib.rs:449-493).
   [strip_derive_old] mirrors the token-by-token loop as it was; [strip_derive] the code after the
   repair of finding F4 (the list is parsed as comma-separated paths, paths ending in `Logos` are
   dropped together with their separator). *)
From Coq Require Import List NArith Bool Lia.
From LogosV Require Import Front.AttrParser.
Import ListNotations.
Local Open Scope N_scope.

Definition s_Logos := [76;111;103;111;115].
Definition is_ident_named (t : tok) (s : list N) : bool :=
  match t with TIdent x => bytes_eqb x s | _ => false end.

(* while let Some(Ident(ident)) = tokens.next() { let punct = tokens.next(); if ident == "Logos" { continue }
   out.extend([ident]); out.extend(punct) } *)
Fixpoint strip_derive_old (fuel : nat) (ts : list tok) : list tok :=
  match fuel with
  | O => []
  | S f =>
      match ts with
      | TIdent x :: r =>
          match r with
          | [] => if bytes_eqb x s_Logos then [] else [TIdent x]
          | p :: r' => if bytes_eqb x s_Logos then strip_derive_old f r'
                       else TIdent x :: p :: strip_derive_old f r'
          end
      | _ => []
      end
  end.

(* a derive list: paths (token lists without a top-level Alone comma) with their separators *)
Definition path := list tok.
Definition last_is_logos (p : path) : bool :=
  match rev p with t :: _ => is_ident_named t s_Logos | [] => false end.

(* pairs (path, has separator after it) *)
Fixpoint split_paths (fuel : nat) (ts : list tok) : list (path * bool) :=
  match fuel with
  | O => []
  | S f =>
      match ts with
      | [] => []
      | _ => match collect_tail ts with
             | (p, rest) =>
                 let sep := Nat.ltb (@length tok p) (@length tok ts) in      (* a comma was consumed *)
                 (p, sep) :: split_paths f rest
             end
      end
  end.

Definition render_pairs (ps : list (path * bool)) : list tok :=
  flat_map (fun pr : path * bool => fst pr ++ (if snd pr then [TPunct comma false] else [])) ps.

Definition strip_derive (ts : list tok) : list tok :=
  render_pairs (filter (fun pr : path * bool => negb (last_is_logos (fst pr))) (split_paths (S (length ts)) ts)).

(* specification on a list of paths: the kept paths, in order *)
Definition kept (ps : list path) : list path := filter (fun p => negb (last_is_logos p)) ps.
