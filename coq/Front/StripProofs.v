(* Front/StripProofs.v — the repaired derive-list rewriting keeps exactly the paths that do not end
   in `Logos`; the old token loop destroys path-qualified derives (finding F4). *)
From Coq Require Import List Arith NArith Bool Lia.
From LogosV Require Import Front.AttrParser Front.AttrProofs Front.Strip.
Import ListNotations.
Local Open Scope N_scope.

(* render a list of non-empty comma-free paths with separators between them *)
Fixpoint render_paths (ps : list path) : list tok :=
  match ps with
  | [] => []
  | [p] => p
  | p :: r => p ++ TPunct comma false :: render_paths r
  end.

Definition path_ok (p : path) : Prop := comma_free p /\ p <> [].

Lemma split_paths_render : forall ps fuel, Forall path_ok ps -> (length (render_paths ps) < fuel)%nat ->
  split_paths fuel (render_paths ps) =
  match ps with [] => [] | _ => map (fun p => (p, true)) (removelast ps) ++ [(last ps [], false)] end.
Proof.
  induction ps as [|p ps IH]; intros fuel Hok Hf.
  - destruct fuel; reflexivity.
  - inversion Hok as [|? ? [Hfree Hne] Hps]; subst.
    destruct fuel as [|fuel]; [lia|].
    destruct ps as [|p2 ps2].
    + cbn [render_paths split_paths]. destruct p as [|t p]; [contradiction|].
      rewrite (collect_tail_free_end (t :: p) Hfree). cbn [removelast map app last].
      rewrite Nat.ltb_irrefl. destruct fuel; reflexivity.
    + change (render_paths (p :: p2 :: ps2)) with (p ++ TPunct comma false :: render_paths (p2 :: ps2)) in *.
      cbn [split_paths]. destruct p as [|t p]; [contradiction|]. cbn [app].
      change (t :: p ++ TPunct comma false :: render_paths (p2 :: ps2)) with ((t :: p) ++ TPunct comma false :: render_paths (p2 :: ps2)).
      rewrite (collect_tail_free (t :: p) _ Hfree).
      assert (Hlt : (length (t :: p) <? length ((t :: p) ++ TPunct comma false :: render_paths (p2 :: ps2)))%nat = true).
      { apply Nat.ltb_lt. rewrite app_length. cbn [length]. lia. }
      rewrite Hlt. rewrite (IH fuel Hps); [|rewrite app_length in Hf; cbn [length] in Hf; lia].
      reflexivity.
Qed.

Lemma render_pairs_cons_true p l : render_pairs ((p, true) :: l) = p ++ TPunct comma false :: render_pairs l.
Proof. unfold render_pairs. cbn [flat_map fst snd]. rewrite <- app_assoc. reflexivity. Qed.

(* the kept paths, with the separators they had *)
Theorem strip_derive_spec : forall ps, Forall path_ok ps -> ps <> [] ->
  strip_derive (render_paths ps) =
  render_pairs (filter (fun pr => negb (last_is_logos (fst pr)))
                       (map (fun p => (p, true)) (removelast ps) ++ [(last ps [], false)])).
Proof.
  intros ps Hok Hne. unfold strip_derive.
  rewrite (split_paths_render ps _ Hok (Nat.lt_succ_diag_r _)).
  destruct ps; [contradiction|reflexivity].
Qed.

(* hence when Logos is not the last path, the result is the kept paths joined by commas *)
Theorem strip_derive_keeps_others : forall ps q, Forall path_ok (ps ++ [q]) -> last_is_logos q = false ->
  strip_derive (render_paths (ps ++ [q])) = render_paths (kept ps ++ [q]).
Proof.
  intros ps q Hok Hq.
  rewrite strip_derive_spec; [|exact Hok|destruct ps; discriminate].
  rewrite removelast_last, last_last. rewrite filter_app. cbn [filter fst]. rewrite Hq. cbn [negb].
  unfold kept. induction ps as [|p ps IH]; [cbn; rewrite !app_nil_r; reflexivity|].
  assert (Hok' : Forall path_ok (ps ++ [q])) by (inversion Hok; assumption).
  specialize (IH Hok'). cbn [map filter fst app].
  destruct (last_is_logos p); cbn [negb]; [exact IH|].
  rewrite <- app_comm_cons. rewrite render_pairs_cons_true. rewrite IH.
  rewrite <- app_comm_cons.
  destruct (filter (fun p0 : path => negb (last_is_logos p0)) ps ++ [q]) eqn:E; [destruct (filter _ ps); discriminate|].
  reflexivity.
Qed.

(* the loop as it was: `Logos, serde::Serialize, Debug` becomes `serde :` *)
Theorem strip_derive_old_refuted :
  exists ps, Forall path_ok ps /\
    strip_derive_old 20 (render_paths ps) <> strip_derive (render_paths ps) /\
    strip_derive_old 20 (render_paths ps) = [TIdent [115;101;114;100;101]; TPunct 58 true].
Proof.
  exists [[TIdent s_Logos]; [TIdent [115;101;114;100;101]; TPunct 58 true; TPunct 58 false; TIdent [83]]; [TIdent [68]]].
  split; [|split].
  - repeat constructor; discriminate.
  - vm_compute. discriminate.
  - vm_compute. reflexivity.
Qed.
