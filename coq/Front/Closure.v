(* Front/Closure.v — which tokens Parser::parse_callback takes as the body of an inline callback `|arg| body`
   (logos-codegen/src/parser/mod.rs).  Token trees are atoms or delimited groups; `rest` is everything after
   the second `|`.  A body that is exactly one braced block stands for the statements inside it; anything else
   is the expression as written.  [body_old] is the selection as it was (finding F12): a leading group of any
   kind was taken as the whole body and the tokens after it were dropped. *)
From Coq Require Import List NArith.
Import ListNotations.

Inductive delim := Paren | Brace | Bracket | NoDelim.
Inductive tt := TAtom (n : N) | TGroup (d : delim) (inner : list tt).

Definition body_of (rest : list tt) : list tt :=
  match rest with
  | [TGroup Brace inner] => inner
  | _ => rest
  end.

Definition body_old (rest : list tt) : list tt :=
  match rest with
  | TGroup _ inner :: _ => inner
  | _ => rest
  end.

(* the closure body as Rust reads it: a single braced block, or the expression itself *)
Definition is_block (rest : list tt) : bool :=
  match rest with [TGroup Brace _] => true | _ => false end.

Lemma body_of_expression rest : is_block rest = false -> body_of rest = rest.
Proof.
  destruct rest as [|t r]; [reflexivity|]. destruct t as [n|d inner]; [reflexivity|].
  destruct d; try reflexivity. destruct r; [discriminate|reflexivity].
Qed.

Lemma body_of_block inner : body_of [TGroup Brace inner] = inner.
Proof. reflexivity. Qed.

(* no token of the written body is lost: the body is `rest` itself, or `rest` is one block and the body its content *)
Lemma body_of_complete rest : body_of rest = rest \/ rest = [TGroup Brace (body_of rest)].
Proof.
  destruct (is_block rest) eqn:E.
  - right. destruct rest as [|[n|[] inner] [|t r]]; try discriminate. reflexivity.
  - left. exact (body_of_expression rest E).
Qed.

(* regression (F12): `(a) * 2` - a parenthesised group followed by more tokens - lost `* 2` *)
Lemma body_old_drops_tokens :
  exists rest, is_block rest = false /\ body_old rest <> rest /\ length (body_old rest) < length rest.
Proof. exists [TGroup Paren [TAtom 1]; TAtom 2; TAtom 3]. repeat split; cbn; [discriminate|auto]. Qed.
