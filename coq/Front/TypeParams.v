(* Front/TypeParams.v — the part of logos-codegen/src/parser/type_params.rs that finding F10 is about:
   #[logos(type T = Type)] and #[logos(lifetime = 'a)] items of a generic enum.  When the source
   lifetime stays implicit, every lifetime of a concrete type is rewritten to 's; whether it stays
   implicit is known only after ALL items have been read.
   A type is represented by the list of lifetime names it mentions (0 stands for 's). *)
From Coq Require Import List NArith Bool Lia.
Import ListNotations.
Local Open Scope N_scope.

Definition ty := list N.
Definition fix_ty (t : ty) : ty := map (fun _ => 0) t.

Inductive item := ISetType (name : N) (t : ty) | ISetLifetime (l : N) | IOther.

Record st := { implicit : bool; types : list (N * ty) }.
Definition st0 : st := {| implicit := true; types := [] |}.

(* as it was: set_type rewrites at once, looking at the items seen so far *)
Definition step_old (s : st) (i : item) : st :=
  match i with
  | ISetType n t => {| implicit := implicit s; types := types s ++ [(n, if implicit s then fix_ty t else t)] |}
  | ISetLifetime _ => {| implicit := false; types := types s |}
  | IOther => s
  end.
Definition generics_old (s : st) : list (N * ty) := types s.

(* after the repair: set_type stores the type, generics() rewrites when it is used *)
Definition step (s : st) (i : item) : st :=
  match i with
  | ISetType n t => {| implicit := implicit s; types := types s ++ [(n, t)] |}
  | ISetLifetime _ => {| implicit := false; types := types s |}
  | IOther => s
  end.
Definition generics (s : st) : list (N * ty) :=
  map (fun nt => (fst nt, if implicit s then fix_ty (snd nt) else snd nt)) (types s).

Definition run (l : list item) : st := fold_left step l st0.
Definition run_old (l : list item) : st := fold_left step_old l st0.

Definition has_lifetime (l : list item) : bool :=
  existsb (fun i => match i with ISetLifetime _ => true | _ => false end) l.
Definition type_items (l : list item) : list (N * ty) :=
  flat_map (fun i => match i with ISetType n t => [(n, t)] | _ => [] end) l.

Lemma run_spec : forall l s,
  implicit (fold_left step l s) = implicit s && negb (has_lifetime l) /\
  types (fold_left step l s) = types s ++ type_items l.
Proof.
  induction l as [|i l IH]; intros s; cbn [fold_left has_lifetime existsb type_items flat_map].
  - rewrite andb_true_r, app_nil_r. split; reflexivity.
  - destruct (IH (step s i)) as [H1 H2]. fold (has_lifetime l) in *. fold (type_items l) in *. rewrite H1, H2.
    destruct i as [n t| |]; cbn [step implicit types orb negb app].
    + rewrite <- app_assoc. split; reflexivity.
    + cbn [andb]. rewrite andb_false_r. split; reflexivity.
    + split; reflexivity.
Qed.

(* what the repaired code computes depends on the items only through: is there a lifetime item, and
   the type items in their order *)
Theorem generics_spec l :
  generics (run l) = map (fun nt => (fst nt, if has_lifetime l then snd nt else fix_ty (snd nt))) (type_items l).
Proof.
  unfold generics, run. destruct (run_spec l st0) as [H1 H2]. rewrite H1, H2. cbn [implicit types st0 andb app].
  destruct (has_lifetime l); reflexivity.
Qed.

(* hence any reordering of the items that keeps the type items in order gives the same generics *)
Theorem items_commute l1 l2 :
  has_lifetime l1 = has_lifetime l2 -> type_items l1 = type_items l2 -> generics (run l1) = generics (run l2).
Proof. intros H1 H2. rewrite !generics_spec, H1, H2. reflexivity. Qed.

Corollary type_lifetime_swap n t a pre post :
  generics (run (pre ++ ISetType n t :: ISetLifetime a :: post)) = generics (run (pre ++ ISetLifetime a :: ISetType n t :: post)).
Proof.
  apply items_commute.
  - unfold has_lifetime. rewrite !existsb_app. cbn [existsb]. rewrite !orb_true_r. reflexivity.
  - unfold type_items. rewrite !flat_map_app. reflexivity.
Qed.

(* the code as it was: the two orders differ (finding F10) *)
Theorem old_order_matters : exists n t a,
  generics_old (run_old [ISetType n t; ISetLifetime a]) <> generics_old (run_old [ISetLifetime a; ISetType n t]).
Proof. exists 1, [7], 7. cbn. intros H. discriminate H. Qed.
