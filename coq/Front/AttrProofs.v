(* Front/AttrProofs.v — the tokenizer splits a comma-joined list of well-formed items into exactly
   those items, in every position (after the repair of F5); the code as it was does not (C18). *)
From Coq Require Import List NArith Bool Lia.
From LogosV Require Import Front.AttrParser.
Import ListNotations.
Local Open Scope N_scope.

Lemma collect_tail_free v rest : comma_free v ->
  collect_tail (v ++ TPunct comma false :: rest) = (v, rest).
Proof.
  induction v as [|t v IH]; intros H; cbn [app collect_tail].
  - cbn. reflexivity.
  - inversion H as [|? ? Ht Hv]; subst. rewrite Ht. rewrite (IH Hv). reflexivity.
Qed.

Lemma collect_tail_free_end v : comma_free v -> collect_tail v = (v, []).
Proof.
  induction v as [|t v IH]; intros H; cbn [collect_tail]; [reflexivity|].
  inversion H as [|? ? Ht Hv]; subst. rewrite Ht, (IH Hv). reflexivity.
Qed.

(* one item followed by a separator and more tokens *)
Lemma next_item_sep it rest : item_ok it ->
  next_item true (render it ++ TPunct comma false :: rest) = Some (sem it, rest).
Proof.
  destruct it as [n v|n g|n l|n k v|ts]; cbn [item_ok render sem]; intros H.
  - cbn [app next_item is_punct]. cbn. rewrite (collect_tail_free v rest H). reflexivity.
  - cbn. reflexivity.
  - cbn. reflexivity.
  - cbn [app next_item]. cbn. rewrite (collect_tail_free v rest H). reflexivity.
  - destruct H as [Hf Hs]. destruct ts as [|t ts]; [contradiction|].
    inversion Hf as [|? ? Ht Hts]; subst.
    destruct t as [s|c j|s|d g].
    + (* starts with an identifier *)
      destruct ts as [|t2 ts2].
      * cbn. reflexivity.
      * destruct Hs as [Hne Hp]. inversion Hts as [|? ? Ht2 Hts2]; subst.
        destruct t2 as [|c2 j2| |]; try contradiction.
        cbn [app next_item]. rewrite Ht2, Hne.
        rewrite (collect_tail_free ts2 rest Hts2). reflexivity.
    + cbn [app next_item]. rewrite (collect_tail_free ts rest Hts). reflexivity.
    + cbn [app next_item]. rewrite (collect_tail_free ts rest Hts). reflexivity.
    + cbn [app next_item]. rewrite (collect_tail_free ts rest Hts). reflexivity.
Qed.

(* the last item *)
Lemma next_item_end it : item_ok it -> next_item true (render it) = Some (sem it, []).
Proof.
  destruct it as [n v|n g|n l|n k v|ts]; cbn [item_ok render sem]; intros H.
  - cbn. rewrite (collect_tail_free_end v H). reflexivity.
  - cbn. reflexivity.
  - cbn. reflexivity.
  - cbn [next_item]. cbn. rewrite (collect_tail_free_end v H). reflexivity.
  - destruct H as [Hf Hs]. destruct ts as [|t ts]; [contradiction|].
    inversion Hf as [|? ? Ht Hts]; subst.
    destruct t as [s|c j|s|d g].
    + destruct ts as [|t2 ts2]; [reflexivity|].
      destruct Hs as [Hne Hp]. inversion Hts as [|? ? Ht2 Hts2]; subst.
      destruct t2 as [|c2 j2| |]; try contradiction.
      cbn [next_item]. rewrite Ht2, Hne. rewrite (collect_tail_free_end ts2 Hts2). reflexivity.
    + cbn [next_item]. rewrite (collect_tail_free_end ts Hts). reflexivity.
    + cbn [next_item]. rewrite (collect_tail_free_end ts Hts). reflexivity.
    + cbn [next_item]. rewrite (collect_tail_free_end ts Hts). reflexivity.
Qed.

Lemma render_nonempty it : item_ok it -> render it <> [].
Proof. destruct it; cbn; try discriminate. intros [_ H]. destruct ts; [contradiction|discriminate]. Qed.

(* the attribute text is the items joined by commas: the tokenizer returns exactly the items *)
Theorem parse_join_items : forall its fuel, Forall item_ok its -> (length its < fuel)%nat ->
  parse_all true fuel (join its) = map sem its.
Proof.
  induction its as [|it its IH]; intros fuel Hok Hf.
  - destruct fuel; reflexivity.
  - inversion Hok as [|? ? Hit Hits]; subst.
    destruct fuel as [|fuel]; [cbn in Hf; lia|].
    destruct its as [|it2 its2].
    + cbn [join parse_all map]. rewrite (next_item_end it Hit).
      destruct fuel; reflexivity.
    + change (join (it :: it2 :: its2)) with (render it ++ TPunct comma false :: join (it2 :: its2)).
      cbn [parse_all map]. rewrite (next_item_sep it _ Hit).
      rewrite (IH fuel Hits); [reflexivity|cbn [length] in *; lia].
Qed.

(* The code as it was: a name(...) item that is not last breaks the item that follows it
   (finding F5): `"a", ignore(case), priority = 3` — here after the leading literal has been taken. *)
Theorem parse_join_items_old_refuted :
  exists its, Forall item_ok its /\ parse_all false 5 (join its) <> map sem its.
Proof.
  exists [IGroup [105] [TIdent [99]]; IAssign [112] [TLit [51]]].
  split.
  - repeat constructor.
  - vm_compute. discriminate.
Qed.

(* ---------- named arguments commute ---------- *)
From Coq Require Import Permutation.

Lemma field_assign_not_ignore n v : field_of (NAssign n v) <> Some FIgnore.
Proof. cbn. destruct (bytes_eqb n s_priority); [discriminate|]. destruct (bytes_eqb n s_callback); [discriminate|]. destruct (bytes_eqb n s_allow_greedy); discriminate. Qed.
Lemma field_group_ignore n g f : field_of (NGroup n g) = Some f -> f = FIgnore.
Proof. cbn. destruct (bytes_eqb n s_ignore); congruence. Qed.

Lemma named_attr_swap d a b fa fb : field_of a = Some fa -> field_of b = Some fb -> fa <> fb ->
  named_attr (named_attr d a) b = named_attr (named_attr d b) a.
Proof.
  intros Ha Hb Hne. unfold named_attr. rewrite Ha, Hb.
  destruct a as [ta|ta|na va|na la|na ga|na ka va]; try (cbn in Ha; discriminate);
  destruct b as [tb|tb|nb vb|nb lb|nb gb|nb kb vb]; try (cbn in Hb; discriminate).
  - pose proof (field_assign_not_ignore na va). pose proof (field_assign_not_ignore nb vb).
    destruct fa, fb; try congruence; cbn; destruct (f_prio d), (f_cb d), (f_greedy d); reflexivity.
  - pose proof (field_assign_not_ignore na va). apply field_group_ignore in Hb. subst fb.
    destruct fa; try congruence; cbn; destruct (f_prio d), (f_cb d), (f_greedy d); reflexivity.
  - pose proof (field_assign_not_ignore nb vb). apply field_group_ignore in Ha. subst fa.
    destruct fb; try congruence; cbn; destruct (f_prio d), (f_cb d), (f_greedy d); reflexivity.
  - apply field_group_ignore in Ha. apply field_group_ignore in Hb. congruence.
Qed.

Theorem named_args_commute : forall l1 l2, Permutation l1 l2 ->
  NoDup (map field_of l1) -> Forall (fun n => field_of n <> None) l1 ->
  forall d, fold_left named_attr l1 d = fold_left named_attr l2 d.
Proof.
  intros l1 l2 HP. induction HP as [|x l l' HP IH|x y l|l l' l'' HP1 IH1 HP2 IH2]; intros Hnd Hk d.
  - reflexivity.
  - cbn [fold_left]. inversion Hnd; inversion Hk; subst. apply IH; assumption.
  - cbn [fold_left]. f_equal.
    inversion Hk as [|? ? Hy Hk']; subst. inversion Hk' as [|? ? Hx Hk'']; subst.
    destruct (field_of y) as [fy|] eqn:Ey; [|contradiction].
    destruct (field_of x) as [fx|] eqn:Ex; [|contradiction].
    apply (named_attr_swap d y x fy fx Ey Ex).
    cbn [map] in Hnd. inversion Hnd as [|? ? Hnin _]; subst. intros E. apply Hnin. left. rewrite Ex, Ey. f_equal. symmetry. exact E.
  - rewrite IH1 by assumption. apply IH2.
    + apply (Permutation_NoDup (Permutation_map field_of HP1)). exact Hnd.
    + rewrite Forall_forall in *. intros n Hn. apply Hk. apply (Permutation_in _ (Permutation_sym HP1)). exact Hn.
Qed.
