(* Front/Subpat.v — model of Subpatterns::subst_subpatterns (parser/subpattern.rs:105-149): every
   leftmost, non-overlapping occurrence of (?&name) — regex \(\?\&[0-9a-zA-Z_]+\) — is replaced by
   the stored text of `name`; None when some name is not defined.  Texts are byte lists. *)
From Coq Require Import List NArith Bool Lia.
Import ListNotations.
Local Open Scope N_scope.

Definition is_ident (b : N) : bool :=
  ((48 <=? b) && (b <=? 57)) || ((65 <=? b) && (b <=? 90)) || ((97 <=? b) && (b <=? 122)) || (b =? 95).

Fixpoint span_ident (s : list N) : list N * list N :=
  match s with
  | c :: r => if is_ident c then let (a, b) := span_ident r in (c :: a, b) else ([], s)
  | [] => ([], [])
  end.

(* does s start with a group "(?&name)"?  returns the name and what follows *)
Definition match_group (s : list N) : option (list N * list N) :=
  match s with
  | 40 :: 63 :: 38 :: r =>
      match span_ident r with
      | (c :: name, 41 :: rest) => Some (c :: name, rest)
      | _ => None
      end
  | _ => None
  end.

Fixpoint list_eqb (a b : list N) : bool :=
  match a, b with
  | [], [] => true
  | x :: a', y :: b' => (x =? y) && list_eqb a' b'
  | _, _ => false
  end.

Fixpoint lookup (env : list (list N * list N)) (name : list N) : option (list N) :=
  match env with
  | [] => None
  | (n, t) :: e => if list_eqb n name then Some t else lookup e name
  end.

(* fuel >= length s.  Result: the substituted text (None if a name was undefined) *)
Fixpoint subst (fuel : nat) (env : list (list N * list N)) (s : list N) : option (list N) :=
  match fuel with
  | O => match s with [] => Some [] | _ => None end
  | S f =>
      match s with
      | [] => Some []
      | c :: r =>
          match match_group s with
          | Some (name, rest) =>
              match lookup env name, subst f env rest with
              | Some t, Some out => Some (t ++ out)
              | _, _ => None
              end
          | None => option_map (cons c) (subst f env r)
          end
      end
  end.

(* Subpatterns::new: each subpattern is wrapped in (?u:..) / (?-u:..) after substituting the ones
   defined before it; a later duplicate replaces the stored text (HashMap::insert) *)
Definition wrap (unicode : bool) (t : list N) : list N :=
  (if unicode then [40; 63; 117; 58] else [40; 63; 45; 117; 58]) ++ t ++ [41].

Fixpoint build_env (defs : list (list N * bool * list N)) (env : list (list N * list N)) : list (list N * list N) :=
  match defs with
  | [] => env
  | (name, unicode, src) :: ds =>
      match subst (S (length (wrap unicode src))) env (wrap unicode src) with
      | Some t => build_env ds ((name, t) :: env)
      | None => build_env ds env             (* error reported, subpattern not stored *)
      end
  end.

(* ---------- proofs ---------- *)
(* s contains no group at any position *)
Fixpoint group_free (s : list N) : Prop :=
  match s with [] => True | c :: r => match_group s = None /\ group_free r end.

Theorem subst_group_free env : forall s fuel, (length s <= fuel)%nat -> group_free s -> subst fuel env s = Some s.
Proof.
  induction s as [|c r IH]; intros fuel Hf Hg.
  - destruct fuel; reflexivity.
  - destruct fuel as [|fuel]; [cbn in Hf; lia|]. destruct Hg as [Hm Hr].
    cbn [subst]. rewrite Hm. rewrite IH; [reflexivity|cbn in Hf; lia|exact Hr].
Qed.

(* one occurrence: text before it is copied, the occurrence is replaced, the rest is processed *)
Theorem subst_at_group env name rest t : forall fuel,
  match_group (40 :: 63 :: 38 :: name ++ 41 :: rest) = Some (name, rest) ->
  lookup env name = Some t ->
  subst (S fuel) env (40 :: 63 :: 38 :: name ++ 41 :: rest) =
  match subst fuel env rest with Some out => Some (t ++ out) | None => None end.
Proof. intros fuel Hm Hl. cbn [subst]. rewrite Hm, Hl. reflexivity. Qed.

Theorem subst_undefined env name rest : forall fuel,
  match_group (40 :: 63 :: 38 :: name ++ 41 :: rest) = Some (name, rest) ->
  lookup env name = None ->
  subst (S fuel) env (40 :: 63 :: 38 :: name ++ 41 :: rest) = None.
Proof. intros fuel Hm Hl. cbn [subst]. rewrite Hm, Hl. reflexivity. Qed.

(* a successful substitution leaves no reference when the stored texts have none *)
Lemma subst_prefix_copied env c r : forall fuel,
  match_group (c :: r) = None ->
  subst (S fuel) env (c :: r) = option_map (cons c) (subst fuel env r).
Proof. intros fuel Hm. cbn [subst]. rewrite Hm. reflexivity. Qed.
