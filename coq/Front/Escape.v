(* Front/Escape.v — model of Literal::escape(literal = true) (parser/definition.rs:27-52, which
   uses regex_syntax::escape / escape_into) over byte strings, and of the fragment of the regex
   literal grammar its output lives in.  Proofs at the end of the file are about these two models. *)
From Coq Require Import List NArith Bool Lia.
Import ListNotations.
Local Open Scope N_scope.

(* regex_syntax::is_meta_character:  \ . + * ? ( ) | [ ] { } ^ $ # & - ~ *)
Definition is_meta (b : N) : bool :=
  existsb (N.eqb b) [92; 46; 43; 42; 63; 40; 41; 124; 91; 93; 123; 125; 94; 36; 35; 38; 45; 126].

Definition hexdigit (n : N) : N := if n <? 10 then 48 + n else 55 + n.       (* 0-9, A-F *)
Definition unhex (c : N) : option N :=
  if (48 <=? c) && (c <=? 57) then Some (c - 48)
  else if (65 <=? c) && (c <=? 70) then Some (c - 55)
  else if (97 <=? c) && (c <=? 102) then Some (c - 87)
  else None.

(* str literal (its UTF-8 bytes): every meta character gets a backslash, everything else is verbatim *)
Definition esc_str_byte (b : N) : list N := if is_meta b then [92; b] else [b].
Definition escape_str (bs : list N) : list N := flat_map esc_str_byte bs.

(* byte-string literal: ASCII as above, bytes >= 128 as \xHH *)
Definition esc_bytes_byte (b : N) : list N :=
  if b <=? 127 then esc_str_byte b else [92; 120; hexdigit (b / 16); hexdigit (b mod 16)].
Definition escape_bytes (bs : list N) : list N := flat_map esc_bytes_byte bs.

(* the literal fragment of the regex grammar: plain byte | \ meta | \xHH; fuel >= length *)
Fixpoint parse_lit (fuel : nat) (s : list N) : option (list N) :=
  match fuel with
  | O => match s with [] => Some [] | _ => None end
  | S f =>
      match s with
      | [] => Some []
      | c :: r =>
          if c =? 92 then
            match r with
            | [] => None
            | c2 :: r2 =>
                if c2 =? 120 then
                  match r2 with
                  | h :: l :: r3 =>
                      match unhex h, unhex l, parse_lit f r3 with
                      | Some a, Some b, Some t => Some ((a * 16 + b) :: t)
                      | _, _, _ => None
                      end
                  | _ => None
                  end
                else if is_meta c2 then option_map (cons c2) (parse_lit f r2) else None
            end
          else if is_meta c then None else option_map (cons c) (parse_lit f r)
      end
  end.

(* ---------- proofs ---------- *)
Lemma unhex_hexdigit n : n < 16 -> unhex (hexdigit n) = Some n.
Proof.
  intros H. unfold hexdigit, unhex. destruct (N.ltb_spec n 10).
  - replace ((48 <=? 48 + n) && (48 + n <=? 57)) with true; [f_equal; lia|].
    symmetry. apply andb_true_iff. split; apply N.leb_le; lia.
  - replace ((48 <=? 55 + n) && (55 + n <=? 57)) with false by (symmetry; apply andb_false_iff; right; apply N.leb_gt; lia).
    replace ((65 <=? 55 + n) && (55 + n <=? 70)) with true; [f_equal; lia|].
    symmetry. apply andb_true_iff. split; apply N.leb_le; lia.
Qed.

Lemma meta_not_x : is_meta 120 = false.
Proof. reflexivity. Qed.
Lemma meta_backslash : is_meta 92 = true.
Proof. reflexivity. Qed.

Theorem escape_bytes_roundtrip : forall bs, Forall (fun b => b < 256) bs ->
  forall fuel, (length (escape_bytes bs) <= fuel)%nat -> parse_lit fuel (escape_bytes bs) = Some bs.
Proof.
  induction bs as [|b bs IH]; intros Hb fuel Hf.
  - destruct fuel; reflexivity.
  - inversion Hb as [|? ? Hlt Hb']; subst.
    change (escape_bytes (b :: bs)) with (esc_bytes_byte b ++ escape_bytes bs) in *.
    unfold esc_bytes_byte, esc_str_byte in *.
    destruct (N.leb_spec b 127) as [Hle|Hgt].
    + destruct (is_meta b) eqn:Em.
      * cbn [app] in *. destruct fuel as [|fuel]; [cbn in Hf; lia|].
        cbn [parse_lit]. rewrite N.eqb_refl.
        destruct (N.eqb_spec b 120) as [->|Hne]; [rewrite meta_not_x in Em; discriminate|].
        rewrite Em. rewrite IH; [reflexivity|exact Hb'|cbn [length] in Hf; lia].
      * cbn [app] in *. destruct fuel as [|fuel]; [cbn in Hf; lia|].
        cbn [parse_lit].
        destruct (N.eqb_spec b 92) as [->|Hne]; [rewrite meta_backslash in Em; discriminate|].
        rewrite Em. rewrite IH; [reflexivity|exact Hb'|cbn [length] in Hf; lia].
    + cbn [app] in *. destruct fuel as [|fuel]; [cbn in Hf; lia|].
      cbn [parse_lit]. rewrite !N.eqb_refl.
      rewrite (unhex_hexdigit (b / 16)) by (apply N.div_lt_upper_bound; lia).
      rewrite (unhex_hexdigit (b mod 16)) by (apply N.mod_lt; lia).
      rewrite IH; [|exact Hb'|cbn [length] in Hf; lia].
      f_equal. f_equal. pose proof (N.div_mod b 16). lia.
Qed.

(* str literals: the same escaping of the UTF-8 bytes, no \xHH (non-ASCII characters are verbatim) *)
Theorem escape_str_roundtrip : forall bs,
  forall fuel, (length (escape_str bs) <= fuel)%nat -> parse_lit fuel (escape_str bs) = Some bs.
Proof.
  induction bs as [|b bs IH]; intros fuel Hf.
  - destruct fuel; reflexivity.
  - change (escape_str (b :: bs)) with (esc_str_byte b ++ escape_str bs) in *. unfold esc_str_byte in *.
    destruct (is_meta b) eqn:Em.
    + cbn [app] in *. destruct fuel as [|fuel]; [cbn in Hf; lia|].
      cbn [parse_lit]. rewrite N.eqb_refl.
      destruct (N.eqb_spec b 120) as [->|Hne]; [rewrite meta_not_x in Em; discriminate|].
      rewrite Em. rewrite IH; [reflexivity|cbn [length] in Hf; lia].
    + cbn [app] in *. destruct fuel as [|fuel]; [cbn in Hf; lia|].
      cbn [parse_lit].
      destruct (N.eqb_spec b 92) as [->|Hne]; [rewrite meta_backslash in Em; discriminate|].
      rewrite Em. rewrite IH; [reflexivity|cbn [length] in Hf; lia].
Qed.
