(* Front/Accept.v — the panic-relevant decision skeleton of logos_codegen::generate (lib.rs:116-146,
   parser/definition.rs:103-111, parser/error_type.rs:39-47) over abstract inputs.
   [fixed = false] is the code as it was (findings F6, F7), [fixed = true] the repaired code. *)
From Coq Require Import List NArith Bool.
Import ListNotations.

Inductive shape := Unit | Tuple (nfields : nat) | Named.
Inductive step_result := Fine | Error | Panic.

(* lib.rs:119-146: the kind of a variant *)
Definition variant_kind (fixed : bool) (s : shape) : step_result :=
  match s with
  | Unit => Fine
  | Tuple 1 => Fine
  | Tuple 0 => if fixed then Error else Panic      (* fields.unnamed.first_mut().expect("Already checked len") *)
  | Tuple _ => Error                                (* error recorded, first field used *)
  | Named => Error
  end.

(* definition.rs:103-111 / error_type.rs:39-47: a second `callback = ..`; `join` is Span::join,
   which answers None on stable toolchains inside a proc macro *)
Definition duplicate_callback (fixed : bool) (join_is_some : bool) : step_result :=
  if join_is_some then Error else if fixed then Error else Panic.   (* span.join(name.span()).unwrap() *)

Inductive event := EVariant (s : shape) | EDupCallback (join_is_some : bool) | EOther (ok : bool).

Definition step (fixed : bool) (e : event) : step_result :=
  match e with
  | EVariant s => variant_kind fixed s
  | EDupCallback j => duplicate_callback fixed j
  | EOther ok => if ok then Fine else Error
  end.

Inductive outcome := Accepted | Rejected | Panicked.
Fixpoint run (fixed : bool) (es : list event) (errs : bool) : outcome :=
  match es with
  | [] => if errs then Rejected else Accepted
  | e :: r => match step fixed e with
              | Fine => run fixed r errs
              | Error => run fixed r true
              | Panic => Panicked
              end
  end.

(* ---------- proofs ---------- *)
Theorem never_panics : forall es errs, run true es errs <> Panicked.
Proof.
  induction es as [|e es IH]; intros errs; cbn [run]; [destruct errs; discriminate|].
  destruct e as [s|j|ok]; cbn [step].
  - destruct s as [|[|[|n]]|]; cbn; apply IH.
  - destruct j; cbn; apply IH.
  - destruct ok; apply IH.
Qed.

(* named, empty and multi-field variants are rejected, never mis-compiled *)
Theorem bad_variant_rejected : forall s es1 es2, (s = Named \/ s = Tuple 0 \/ exists n, s = Tuple (S (S n))) ->
  run true (es1 ++ EVariant s :: es2) false = Rejected.
Proof.
  intros s es1 es2 Hs.
  assert (Hstep : step true (EVariant s) = Error).
  { destruct Hs as [->|[->|[n ->]]]; reflexivity. }
  assert (Hafter : forall es, run true es true = Rejected).
  { induction es as [|e es IH]; cbn [run]; [reflexivity|].
    pose proof (never_panics (e :: es) true) as Hn. cbn [run] in Hn.
    destruct (step true e); [exact IH|exact IH|contradiction]. }
  induction es1 as [|e es1 IH]; cbn [app run].
  - rewrite Hstep. apply Hafter.
  - pose proof (never_panics ((e :: es1) ++ EVariant s :: es2) false) as Hn. cbn [app run] in Hn.
    destruct (step true e); [exact IH|apply Hafter|contradiction].
Qed.

(* the code as it was panics (findings F6, F7) *)
Theorem old_panics_on_empty_tuple : run false [EVariant (Tuple 0)] false = Panicked.
Proof. reflexivity. Qed.
Theorem old_panics_on_duplicate_callback : run false [EDupCallback false] false = Panicked.
Proof. reflexivity. Qed.
