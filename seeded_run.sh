#!/bin/bash
# usage: seeded_run.sh <seeded-id> <check ids...> — apply the seeded patch to /repo, run the checks, undo.
id=$1; shift
cd /repo && git apply /verif/seeded/$id/patch.diff || { echo "patch does not apply"; exit 2; }
cd /verif
for c in "$@"; do
  ./vcheck $c --tier quick > /tmp/x/seedrun_${id}_$c.log 2>&1; echo "$c exit $? $(grep -c '^VIOLATION' /tmp/x/seedrun_${id}_$c.log) violations: $(grep -m1 'violation:' /tmp/x/seedrun_${id}_$c.log | cut -c1-220)"
done
git -C /repo checkout -- . ; git -C /repo status --short | head -3
