//! Independent (non-logos) scan of the #[token], #[regex] and #[logos(skip ...)] attributes of an
//! enum, in the order in which logos numbers its leaves (skips first, then variant attributes).
use proc_macro2::{Delimiter, TokenStream, TokenTree};

fn lit_bytes(l: &proc_macro2::Literal) -> Option<(Vec<u8>, bool)> {
    match syn::parse2::<syn::Lit>(TokenTree::Literal(l.clone()).into()).ok()? {
        syn::Lit::Str(s) => Some((s.value().into_bytes(), false)),
        syn::Lit::ByteStr(b) => Some((b.value(), true)),
        _ => None,
    }
}

fn describe(kind: &str, toks: &[TokenTree]) -> Option<String> {
    // first token must be the literal
    let TokenTree::Literal(l) = toks.first()? else { return None };
    let (bytes, is_bytes) = lit_bytes(l)?;
    let mut prio = "-".to_string();
    let mut prioval = String::new();
    let mut icase = 0;
    let mut allow_greedy = "-".to_string();
    let mut i = 1;
    while i < toks.len() {
        if let TokenTree::Ident(id) = &toks[i] {
            let name = id.to_string();
            if (name == "priority" || name == "allow_greedy") && i + 2 < toks.len() {
                if let TokenTree::Punct(p) = &toks[i + 1] {
                    if p.as_char() == '=' {
                        let v = toks[i + 2].to_string();
                        if name == "priority" {
                            // for a literal that is not a plain run of digits: the value Rust gives it (digit separators,
                            // radix prefixes, suffixes), which is what the priority must be if the derive accepts the spelling
                            if !v.chars().all(|ch| ch.is_ascii_digit()) {
                                if let Some(x) = syn::parse_str::<syn::LitInt>(&v).ok().and_then(|l| l.base10_parse::<u128>().ok()) {
                                    prioval = format!(" prioval={x}");
                                }
                            }
                            prio = v
                        } else {
                            allow_greedy = v
                        }
                    }
                }
            }
            if name == "ignore" && i + 1 < toks.len() {
                if let TokenTree::Group(g) = &toks[i + 1] {
                    if g.stream().to_string().split(',').any(|f| f.trim() == "case") {
                        icase = 1;
                    }
                }
            }
        }
        i += 1;
    }
    // does the attribute declare a callback?  Items are separated by top-level commas; the item after the literal is a
    // positional callback unless it is one of the named arguments; `callback = ..` may stand anywhere after the literal
    let mut items: Vec<Vec<&TokenTree>> = vec![vec![]];
    for t in toks {
        if let TokenTree::Punct(p) = t {
            if p.as_char() == ',' {
                items.push(vec![]);
                continue;
            }
        }
        items.last_mut().unwrap().push(t);
    }
    let mut cb = 0;
    // body of an inline closure `|arg| body`: everything after the second `|`; a body that is exactly one braced
    // block stands for the statements inside (closure syntax), anything else is the expression as written
    let mut cbbody: Option<String> = None;
    let closure_body = |toks: &[&TokenTree]| -> Option<String> {
        let is_bar = |t: &&TokenTree| matches!(t, TokenTree::Punct(p) if p.as_char() == '|');
        if toks.len() >= 3 && is_bar(&toks[0]) && matches!(toks[1], TokenTree::Ident(_)) && is_bar(&toks[2]) {
            let rest = &toks[3..];
            let ts: TokenStream = match rest {
                [TokenTree::Group(g)] if g.delimiter() == Delimiter::Brace => g.stream(),
                _ => rest.iter().map(|t| (*t).clone()).collect(),
            };
            Some(ts.to_string().replace(' ', ""))
        } else {
            None
        }
    };
    for (k, it) in items.iter().enumerate().skip(1) {
        let Some(first) = it.first() else { continue };
        let mut named = false;
        if let TokenTree::Ident(id) = first {
            let name = id.to_string();
            match it.get(1) {
                Some(TokenTree::Punct(p)) if p.as_char() == '=' && it.len() >= 3 && ["priority", "allow_greedy", "callback"].contains(&name.as_str()) => {
                    named = true;
                    if name == "callback" { cb = 1; cbbody = closure_body(&it[2..]); }
                }
                Some(TokenTree::Group(_)) if name == "ignore" && it.len() == 2 => named = true,
                _ => {}
            }
        }
        if !named && k == 1 { cb = 1; cbbody = closure_body(&it[..]); }
    }
    let cbbody = cbbody.map(|b| format!(" cbbody={}", crate::hex(b.as_bytes()))).unwrap_or_default();
    Some(format!("kind={kind} lit={} bytes={} prio={prio} icase={icase} allow_greedy={allow_greedy} cb={cb}{cbbody}{prioval}", crate::hex(&bytes), is_bytes as u8))
}

fn skip_items(ts: TokenStream, out: &mut Vec<String>) {
    let toks: Vec<TokenTree> = ts.into_iter().collect();
    let mut i = 0;
    while i < toks.len() {
        if let TokenTree::Ident(id) = &toks[i] {
            if id == "skip" && i + 1 < toks.len() {
                match &toks[i + 1] {
                    TokenTree::Literal(_) => {
                        if let Some(d) = describe("skip", &toks[i + 1..i + 2]) {
                            out.push(d);
                        }
                    }
                    TokenTree::Group(g) if g.delimiter() == Delimiter::Parenthesis => {
                        let inner: Vec<TokenTree> = g.stream().into_iter().collect();
                        if let Some(d) = describe("skip", &inner) {
                            out.push(d);
                        }
                    }
                    _ => {}
                }
            }
        }
        i += 1;
    }
}

pub fn scan_enum(e: &syn::ItemEnum) -> Vec<String> {
    let mut out = Vec::new();
    for a in &e.attrs {
        if a.path().is_ident("logos") {
            if let syn::Meta::List(l) = &a.meta {
                skip_items(l.tokens.clone(), &mut out);
            }
        }
    }
    for v in &e.variants {
        for a in &v.attrs {
            let kind = if a.path().is_ident("token") { "token" } else if a.path().is_ident("regex") { "regex" } else { continue };
            if let syn::Meta::List(l) = &a.meta {
                let toks: Vec<TokenTree> = l.tokens.clone().into_iter().collect();
                if let Some(d) = describe(kind, &toks) {
                    out.push(d);
                } else {
                    out.push(format!("kind={kind} unparsed"));
                }
            }
        }
    }
    out
}
