//! verif-capture: runs the real `logos_codegen::generate` (with verif_hooks) as a library on
//! every `#[derive(Logos)]` enum found in the given Rust files and writes one `.cap` per enum.
use std::fmt::Write as _;
use std::io::Write as _;
use std::panic::{catch_unwind, AssertUnwindSafe};
use std::path::{Path, PathBuf};

use quote::ToTokens;
use syn::visit::Visit;

mod attrs;
mod clicheck;
mod front;
mod subpat;


pub struct Finder {
    pub found: Vec<syn::ItemEnum>,
}

fn derives_logos(e: &syn::ItemEnum) -> bool {
    e.attrs.iter().any(|a| {
        if !a.path().is_ident("derive") {
            return false;
        }
        let s = a.meta.to_token_stream().to_string();
        s.split(|c: char| !(c.is_alphanumeric() || c == '_')).any(|w| w == "Logos")
    })
}

impl<'ast> Visit<'ast> for Finder {
    fn visit_item_enum(&mut self, e: &'ast syn::ItemEnum) {
        if derives_logos(e) {
            self.found.push(e.clone());
        }
        syn::visit::visit_item_enum(self, e);
    }
}

pub fn hex(b: &[u8]) -> String {
    let mut s = String::new();
    for x in b {
        write!(s, "{x:02x}").unwrap();
    }
    if s.is_empty() {
        s.push('-');
    }
    s
}

fn cmd_defs(out: &Path, files: &[PathBuf]) {
    std::fs::create_dir_all(out).unwrap();
    let mut index = String::new();
    std::panic::set_hook(Box::new(|_| {}));
    for (fi, f) in files.iter().enumerate() {
        let Ok(text) = std::fs::read_to_string(f) else { continue };
        let mut finder = Finder { found: vec![] };
        match syn::parse_file(&text) {
            Ok(file) => finder.visit_file(&file),
            Err(_) => {
                // fall back to one item per line (generated corpora are written that way), so that one
                // syntactically broken definition does not hide all the others
                let mut bad = 0;
                for line in text.lines() {
                    match syn::parse_str::<syn::Item>(line) {
                        Ok(item) => finder.visit_item(&item),
                        Err(_) => {
                            if !line.trim().is_empty() {
                                bad += 1;
                            }
                        }
                    }
                }
                writeln!(index, "unparsed-lines {} {}", bad, f.display()).unwrap();
            }
        }
        for (ei, e) in finder.found.iter().enumerate() {
            let id = format!("f{fi:03}e{ei:02}_{}", e.ident);
            let ts = e.to_token_stream();
            let src = ts.to_string();
            let res = catch_unwind(AssertUnwindSafe(|| {
                let _ = logos_codegen::verif::take();
                let out = logos_codegen::generate(ts.clone());
                (out.to_string(), logos_codegen::verif::take())
            }));
            let mut capf = std::fs::File::create(out.join(format!("{id}.cap"))).unwrap();
            writeln!(capf, "id {id}").unwrap();
            writeln!(capf, "file {}", f.display()).unwrap();
            writeln!(capf, "source {}", hex(src.as_bytes())).unwrap();
            for (i, a) in attrs::scan_enum(e).iter().enumerate() {
                writeln!(capf, "attr {i} {a}").unwrap();
            }
            match res {
                Ok((gen, cap)) => {
                    writeln!(capf, "panic 0").unwrap();
                    writeln!(capf, "genlen {}", gen.len()).unwrap();
                    if let Ok(k) = std::env::var("VERIF_REPEAT") {
                        // determinism: generate again in fresh threads (fresh hash seeds per map)
                        let k: usize = k.parse().unwrap_or(4);
                        let src_text = src.clone();
                        let mut differing = 0;
                        let handles: Vec<_> = (0..k)
                            .map(|_| {
                                let s = src_text.clone();
                                std::thread::spawn(move || {
                                    let ts: proc_macro2::TokenStream = s.parse().unwrap();
                                    let _ = logos_codegen::verif::take();
                                    let out = catch_unwind(AssertUnwindSafe(|| logos_codegen::generate(ts).to_string()));
                                    (out.ok(), logos_codegen::verif::take())
                                })
                            })
                            .collect();
                        let first_cap = cap.clone();
                        for h in handles {
                            if let Ok((g2, c2)) = h.join() {
                                if g2.as_deref() != Some(gen.as_str()) || c2 != first_cap {
                                    differing += 1;
                                }
                            }
                        }
                        writeln!(capf, "repeat {k} differing {differing}").unwrap();
                    }
                    if std::env::var("VERIF_WRITE_GEN").is_ok() {
                        std::fs::write(out.join(format!("{id}.gen")), &gen).unwrap();
                    }
                    writeln!(capf, "has_compile_error {}", gen.contains("compile_error") as u8).unwrap();
                    match cap {
                        Some(c) => capf.write_all(c.as_bytes()).unwrap(),
                        None => writeln!(capf, "nocapture").unwrap(),
                    }
                }
                Err(p) => {
                    let msg = p
                        .downcast_ref::<String>()
                        .cloned()
                        .or_else(|| p.downcast_ref::<&str>().map(|s| s.to_string()))
                        .unwrap_or_default();
                    writeln!(capf, "panic 1 {}", hex(msg.as_bytes())).unwrap();
                }
            }
            writeln!(index, "{id} {}", f.display()).unwrap();
        }
    }
    std::fs::write(out.join("INDEX"), index).unwrap();
}

fn main() {
    let args: Vec<String> = std::env::args().collect();
    match args.get(1).map(|s| s.as_str()) {
        Some("defs") => {
            let out = PathBuf::from(&args[2]);
            let files: Vec<PathBuf> = if args[3] == "--list" {
                std::fs::read_to_string(&args[4]).unwrap().lines().map(PathBuf::from).collect()
            } else {
                args[3..].iter().map(PathBuf::from).collect()
            };
            cmd_defs(&out, &files);
        }
        Some("subpats") => {
            let out = PathBuf::from(&args[2]);
            let files: Vec<PathBuf> = if args[3] == "--list" {
                std::fs::read_to_string(&args[4]).unwrap().lines().map(PathBuf::from).collect()
            } else {
                args[3..].iter().map(PathBuf::from).collect()
            };
            subpat::cmd_subpats(&out, &files);
        }
        Some("refdfa") => subpat::cmd_refdfa(&PathBuf::from(&args[2]), &PathBuf::from(&args[3])),
        Some("front") => front::main(&args[2..]),
        _ => {
            eprintln!("usage: verif-capture defs <outdir> <files...> | front ...");
            std::process::exit(2);
        }
    }
}
