//! Independent expectation for logos-cli's output (C17): the input enum with exactly the logos /
//! token / regex attributes and the Logos derive removed (written here from the specification, with
//! syn, not with logos' strip_attributes), followed by the implementation generate() produces.
use quote::ToTokens;

fn is_logos_attr(a: &syn::Attribute) -> bool {
    a.path().is_ident("logos") || a.path().is_ident("token") || a.path().is_ident("regex")
}

/// derive paths as strings, or None when the attribute is not a derive
fn derive_paths(a: &syn::Attribute) -> Option<Vec<String>> {
    if !a.path().is_ident("derive") {
        return None;
    }
    let paths = a
        .parse_args_with(syn::punctuated::Punctuated::<syn::Path, syn::Token![,]>::parse_terminated)
        .ok()?;
    Some(paths.iter().map(|p| p.to_token_stream().to_string().replace(' ', "")).collect())
}

fn attr_sig(attrs: &[syn::Attribute], strip: bool) -> Vec<String> {
    let mut out = Vec::new();
    for a in attrs {
        if strip && is_logos_attr(a) {
            continue;
        }
        match derive_paths(a) {
            Some(paths) => {
                let kept: Vec<String> = if strip {
                    paths.into_iter().filter(|p| !(p == "Logos" || p.ends_with("::Logos"))).collect()
                } else {
                    paths
                };
                out.push(format!("derive({})", kept.join(",")));
            }
            None => out.push(a.to_token_stream().to_string()),
        }
    }
    out
}

/// structural signature of an enum: attributes (derives as path lists), variants with their
/// attributes, discriminants and fields with their attributes
fn enum_sig(e: &syn::ItemEnum, strip: bool) -> Vec<String> {
    // (Generics::to_tokens prints the parameter list only: the where clause is a separate node)
    let mut out = vec![format!("vis={} name={} generics={} where={}", e.vis.to_token_stream(), e.ident, e.generics.to_token_stream(),
                               e.generics.where_clause.as_ref().map(|w| w.to_token_stream().to_string()).unwrap_or_default())];
    out.extend(attr_sig(&e.attrs, strip).into_iter().map(|s| format!("attr {s}")));
    for v in &e.variants {
        out.push(format!("variant {}", v.ident));
        out.extend(attr_sig(&v.attrs, strip).into_iter().map(|s| format!("  vattr {s}")));
        if let Some((_, d)) = &v.discriminant {
            out.push(format!("  disc {}", d.to_token_stream()));
        }
        for f in &v.fields {
            out.push(format!("  field {} : {}", f.ident.as_ref().map(|i| i.to_string()).unwrap_or_default(), f.ty.to_token_stream()));
            out.extend(attr_sig(&f.attrs, strip).into_iter().map(|s| format!("    fattr {s}")));
        }
    }
    out
}

pub fn check(input_path: &str, output_path: &str) -> String {
    let input = std::fs::read_to_string(input_path).unwrap();
    let output = std::fs::read_to_string(output_path).unwrap();
    let in_tokens: proc_macro2::TokenStream = match input.parse() {
        Ok(t) => t,
        Err(e) => return format!("input_unparsable {e}"),
    };
    let in_enum: syn::ItemEnum = match syn::parse2(in_tokens.clone()) {
        Ok(e) => e,
        Err(e) => return format!("input_not_enum {e}"),
    };
    let file = match syn::parse_file(&output) {
        Ok(f) => f,
        Err(e) => return format!("valid_rust=0 {}", crate::hex(e.to_string().as_bytes())),
    };
    let out_enum = match file.items.first() {
        Some(syn::Item::Enum(e)) => e.clone(),
        _ => return "valid_rust=1 first_item_not_enum".to_string(),
    };
    let expected = enum_sig(&in_enum, true);
    let got = enum_sig(&out_enum, false);
    let enum_ok = expected == got;
    // the rest of the output must be the implementation generate() produces for the input
    let gen = logos_codegen::generate(in_tokens).to_string();
    let rest_tokens: proc_macro2::TokenStream = file.items.iter().skip(1).map(|i| i.to_token_stream()).collect();
    let gen_tokens: proc_macro2::TokenStream = gen.parse().unwrap();
    // compare the token texts, ignoring the spacing proc_macro2 prints between tokens
    let squeeze = |s: String| s.chars().filter(|c| !c.is_whitespace()).collect::<String>();
    let (a, b) = (squeeze(rest_tokens.to_string()), squeeze(gen_tokens.to_string()));
    let impl_ok = a == b;
    if !impl_ok && std::env::var("VERIF_CLICHECK_DEBUG").is_ok() {
        let k = a.bytes().zip(b.bytes()).position(|(x, y)| x != y).unwrap_or(0);
        eprintln!("DIFF at {k}: cli `{}` gen `{}`", &a[k.saturating_sub(40)..(k + 60).min(a.len())], &b[k.saturating_sub(40)..(k + 60).min(b.len())]);
    }
    let mut detail = String::new();
    if !enum_ok {
        for (a, b) in expected.iter().zip(got.iter()) {
            if a != b {
                detail = format!("expected `{a}` got `{b}`");
                break;
            }
        }
        if detail.is_empty() {
            detail = format!("expected {} lines got {}", expected.len(), got.len());
        }
    }
    format!("valid_rust=1 enum_ok={} impl_ok={} {}", enum_ok as u8, impl_ok as u8, crate::hex(detail.as_bytes()))
}
