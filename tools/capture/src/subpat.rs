//! Independent compilation of each `#[logos(subpattern name = lit)]` on its own (no logos code):
//! the subpattern text, with earlier subpatterns inlined textually, is parsed by regex-syntax and
//! determinised by regex-automata with the same configuration Graph::new uses; the DFA is dumped
//! in the .cap format so that the UTF-8 certificates can be evaluated on it.
use std::fmt::Write as _;
use std::io::Write as _;
use std::path::{Path, PathBuf};

use proc_macro2::{TokenStream, TokenTree};
use regex_automata::dfa::{dense::DFA, Automaton, StartKind};
use regex_automata::nfa::thompson::NFA;
use regex_automata::{Anchored, MatchKind};
use syn::visit::Visit;

fn lit_pattern(lit: &syn::Lit) -> Option<(String, bool)> {
    match lit {
        syn::Lit::Str(s) => Some((s.value(), true)),
        syn::Lit::ByteStr(b) => {
            let mut p = String::new();
            for byte in b.value() {
                if byte <= 127 {
                    p.push(byte as char);
                } else {
                    write!(p, "\\x{byte:02X}").unwrap();
                }
            }
            Some((p, false))
        }
        _ => None,
    }
}

fn scan(ts: TokenStream, out: &mut Vec<(String, syn::Lit)>) {
    let toks: Vec<TokenTree> = ts.into_iter().collect();
    let mut i = 0;
    while i < toks.len() {
        if let TokenTree::Ident(id) = &toks[i] {
            if id == "subpattern" && i + 3 < toks.len() {
                if let (TokenTree::Ident(name), TokenTree::Punct(p), TokenTree::Literal(l)) = (&toks[i + 1], &toks[i + 2], &toks[i + 3]) {
                    if p.as_char() == '=' {
                        if let Ok(lit) = syn::parse2::<syn::Lit>(TokenTree::Literal(l.clone()).into()) {
                            out.push((name.to_string(), lit));
                        }
                    }
                }
            }
        }
        i += 1;
    }
}

pub fn dump_dfa(dfa: &DFA<Vec<u32>>, c: &mut String) {
    match dfa.universal_start_state(Anchored::Yes) {
        None => writeln!(c, "dfa nostart").unwrap(),
        Some(start) => {
            let mut seen = std::collections::BTreeSet::new();
            let mut stack = vec![start];
            seen.insert(start.as_usize());
            let mut order = Vec::new();
            while let Some(s) = stack.pop() {
                order.push(s);
                for b in 0..=255u8 {
                    let n = dfa.next_state(s, b);
                    if seen.insert(n.as_usize()) {
                        stack.push(n);
                    }
                }
                let n = dfa.next_eoi_state(s);
                if seen.insert(n.as_usize()) {
                    stack.push(n);
                }
            }
            order.sort_unstable_by_key(|s| s.as_usize());
            writeln!(c, "dfa start={} has_empty={} states={}", start.as_usize(), dfa.has_empty() as u8, order.len()).unwrap();
            for s in order {
                let mut line = format!("dstate {} dead={} match=", s.as_usize(), dfa.is_dead_state(s) as u8);
                if dfa.is_match_state(s) && dfa.match_len(s) > 0 {
                    let v: Vec<String> = (0..dfa.match_len(s)).map(|i| dfa.match_pattern(s, i).as_usize().to_string()).collect();
                    line.push_str(&v.join(","));
                } else {
                    line.push('-');
                }
                write!(line, " eoi={} trans=", dfa.next_eoi_state(s).as_usize()).unwrap();
                let mut b = 0usize;
                let mut first = true;
                while b < 256 {
                    let t = dfa.next_state(s, b as u8).as_usize();
                    let mut e = b;
                    while e + 1 < 256 && dfa.next_state(s, (e + 1) as u8).as_usize() == t {
                        e += 1;
                    }
                    if !first {
                        line.push(',');
                    }
                    first = false;
                    write!(line, "{b}-{e}:{t}").unwrap();
                    b = e + 1;
                }
                writeln!(c, "{line}").unwrap();
            }
        }
    }
}

/// Build the all-matches anchored DFA of `patterns` (regex text, unicode flag) the way Graph::new does.
pub fn build_dfa(patterns: &[(String, bool, bool)], utf8_mode: bool) -> Result<DFA<Vec<u32>>, String> {
    let mut hirs = Vec::new();
    for (p, unicode, icase) in patterns {
        let hir = regex_syntax::ParserBuilder::new()
            .utf8(false)
            .unicode(*unicode)
            .case_insensitive(*icase)
            .build()
            .parse(p)
            .map_err(|e| e.to_string())?;
        hirs.push(hir);
    }
    let nfa = NFA::compiler()
        .configure(NFA::config().shrink(true).utf8(utf8_mode))
        .build_many_from_hir(&hirs)
        .map_err(|e| e.to_string())?;
    DFA::builder()
        .configure(DFA::config().accelerate(false).byte_classes(true).minimize(false).match_kind(MatchKind::All).start_kind(StartKind::Anchored))
        .build_from_nfa(&nfa)
        .map_err(|e| e.to_string())
}

pub fn cmd_subpats(out: &Path, files: &[PathBuf]) {
    std::fs::create_dir_all(out).unwrap();
    for (fi, f) in files.iter().enumerate() {
        let Ok(text) = std::fs::read_to_string(f) else { continue };
        let Ok(file) = syn::parse_file(&text) else { continue };
        let mut finder = crate::Finder { found: vec![] };
        finder.visit_file(&file);
        for (ei, e) in finder.found.iter().enumerate() {
            let id = format!("f{fi:03}e{ei:02}_{}", e.ident);
            let mut subs = Vec::new();
            let mut utf8 = true;
            for a in &e.attrs {
                if a.path().is_ident("logos") {
                    if let syn::Meta::List(l) = &a.meta {
                        let s = l.tokens.to_string().replace(' ', "");
                        if s.contains("utf8=false") {
                            utf8 = false;
                        }
                        scan(l.tokens.clone(), &mut subs);
                    }
                }
            }
            let mut defined: Vec<(String, String)> = Vec::new(); // name -> wrapped text
            for (si, (name, lit)) in subs.iter().enumerate() {
                let Some((mut pat, unicode)) = lit_pattern(lit) else { continue };
                for (n, w) in &defined {
                    pat = pat.replace(&format!("(?&{n})"), w);
                }
                let wrapped = format!("(?{}:{})", if unicode { "u" } else { "-u" }, pat);
                defined.push((name.clone(), wrapped.clone()));
                let mut c = String::new();
                writeln!(c, "id {id}__sub{si}_{name}").unwrap();
                writeln!(c, "file {}", f.display()).unwrap();
                writeln!(c, "source {}", crate::hex(wrapped.as_bytes())).unwrap();
                writeln!(c, "panic 0").unwrap();
                writeln!(c, "def {name}").unwrap();
                writeln!(c, "utf8 {}", utf8 as u8).unwrap();
                match build_dfa(&[(wrapped.clone(), true, false)], utf8) {
                    Ok(dfa) => {
                        writeln!(c, "leaf 0 unit:{name} prio=1 cb=0 lit=0 isutf8=0 minlen=0 default_prio=0 greedy_all=0 src=- hir=-").unwrap();
                        dump_dfa(&dfa, &mut c);
                        writeln!(c, "outcome accepted").unwrap();
                    }
                    Err(e) => {
                        writeln!(c, "builderr {}", crate::hex(e.as_bytes())).unwrap();
                        writeln!(c, "outcome rejected").unwrap();
                    }
                }
                writeln!(c, "end").unwrap();
                let mut fh = std::fs::File::create(out.join(format!("{id}__sub{si}_{name}.cap"))).unwrap();
                fh.write_all(c.as_bytes()).unwrap();
            }
        }
    }
}

/// `refdfa <outdir> <specfile>`: each line `id utf8mode unicode icase hexpattern` -> `<id>.cap`
/// holding the DFA regex-automata builds for that single pattern (no logos code involved).
pub fn cmd_refdfa(out: &Path, spec: &Path) {
    std::fs::create_dir_all(out).unwrap();
    for line in std::fs::read_to_string(spec).unwrap().lines() {
        let p: Vec<&str> = line.split(' ').collect();
        if p.len() < 5 {
            continue;
        }
        let unhex = |s: &str| -> Vec<u8> { if s == "-" { vec![] } else { (0..s.len() / 2).map(|i| u8::from_str_radix(&s[2 * i..2 * i + 2], 16).unwrap()).collect() } };
        let pat = String::from_utf8(unhex(p[4])).unwrap();
        let mut c = String::new();
        writeln!(c, "id {}", p[0]).unwrap();
        writeln!(c, "panic 0").unwrap();
        writeln!(c, "def {}", p[0]).unwrap();
        writeln!(c, "utf8 {}", p[1]).unwrap();
        match build_dfa(&[(pat, p[2] == "1", p[3] == "1")], p[1] == "1") {
            Ok(dfa) => {
                writeln!(c, "leaf 0 unit:Ref prio=1 cb=0 lit=0 isutf8=0 minlen=0 default_prio=0 greedy_all=0 src=- hir=-").unwrap();
                dump_dfa(&dfa, &mut c);
                writeln!(c, "outcome accepted").unwrap();
            }
            Err(e) => {
                writeln!(c, "builderr {}", crate::hex(e.as_bytes())).unwrap();
                writeln!(c, "outcome rejected").unwrap();
            }
        }
        writeln!(c, "end").unwrap();
        std::fs::write(out.join(format!("{}.cap", p[0])), c).unwrap();
    }
}
