//! Front-end differential entry points (filled in as the front-end checks grow).
pub fn main(_args: &[String]) {
    eprintln!("front: no subcommand");
    std::process::exit(2);
}
